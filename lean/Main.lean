import OptRs.Driver.Atoms
import OptRs.Driver.Terms
import OptRs.Driver.Topology
import OptRs.Driver.Perceive
import OptRs.Driver.FF
import OptRs.Driver.SD
import OptRs.Driver.Xyz
import OptRs.Driver.Uff
import OptRs.Model.GenTypes
open OptRs.Driver

partial def loop (h : IO.FS.Stream) (out : IO.FS.Stream) (f : String → String) : IO Unit := do
  let line ← h.getLine
  if line.isEmpty then return ()
  let l := if line.endsWith "\n" then (line.dropEnd 1).toString else line
  out.putStrLn (f l)
  loop h out f

def main (args : List String) : IO UInt32 := do
  let stdin ← IO.getStdin
  let stdout ← IO.getStdout
  match args with
  | ["atoms"] => loop stdin stdout atomsLine; return 0
  | ["terms"] => loop stdin stdout termsLine; return 0
  | ["topology"] => loop stdin stdout topologyLine; return 0
  | ["matrix"] => loop stdin stdout matrixLine; return 0
  | ["perceive"] => loop stdin stdout perceiveLine; return 0
  | ["ff"] => loop stdin stdout ffLine; return 0
  | ["sd"] => loop stdin stdout sdLine; return 0
  | ["xyz-read"] => loop stdin stdout xyzReadLine; return 0
  | ["xyz-write"] => loop stdin stdout xyzWriteLine; return 0
  | ["history"] => loop stdin stdout historyLine; return 0
  | ["build"] => loop stdin stdout buildLine; return 0
  | ["params"] => loop stdin stdout paramsLine; return 0
  | ["wrapper"] => loop stdin stdout wrapperLine; return 0
  | ["b3d"] => loop stdin stdout b3dLine; return 0
  | ["cli"] => loop stdin stdout cliLine; return 0
  | ["table"] =>
    -- rows of the compiled ATOM_TYPES that differ from what the generator makes of atom_types.txt
    let ms := OptRs.Model.GenTypes.mismatches
    for n in ms do stdout.putStrLn ("MISMATCH " ++ String.ofList (n.map Char.ofNat))
    stdout.putStrLn s!"rows {OptRs.Gen.atomTypes.length} source {OptRs.Gen.sourceRows.length} mismatches {ms.length}"
    return 0
  | ["atoms-oracle"] => loop stdin stdout AtomsOracle.check; return 0
  | _ => IO.eprintln "usage: optrs-model <stream>"; return 2
