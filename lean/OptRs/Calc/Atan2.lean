/-
`atan2` on the reals and its derivative on the slit plane (Mathlib has no `atan2`).
One smooth formula on the whole slit plane (half-angle), value π on the negative real axis, 0 at the origin —
the IEEE conventions for finite arguments.
-/
import Mathlib.Analysis.SpecialFunctions.Sqrt
import Mathlib.Analysis.SpecialFunctions.Trigonometric.ArctanDeriv
import Mathlib.Tactic.Ring
import Mathlib.Tactic.FieldSimp
import Mathlib.Tactic.Linarith
import Mathlib.Tactic.Positivity

open Real Filter Topology

namespace OptRs

noncomputable def at2 (y x : ℝ) : ℝ :=
  if y = 0 ∧ x < 0 then π else 2 * arctan (y / (√(x ^ 2 + y ^ 2) + x))

theorem slit_den_pos {y x : ℝ} (h : y ≠ 0 ∨ 0 < x) : 0 < √(x ^ 2 + y ^ 2) + x := by
  rcases h with h | h
  · have : |x| < √(x ^ 2 + y ^ 2) := by
      rw [← Real.sqrt_sq_eq_abs]
      exact Real.sqrt_lt_sqrt (sq_nonneg x) (by have := sq_pos_of_ne_zero h; linarith)
    have := neg_abs_le x
    linarith
  · have : 0 ≤ √(x ^ 2 + y ^ 2) := Real.sqrt_nonneg _
    linarith

theorem hasDerivAt_at2 {a b : ℝ → ℝ} {a' b' t : ℝ} (ha : HasDerivAt a a' t) (hb : HasDerivAt b b' t)
    (h : a t ≠ 0 ∨ 0 < b t) :
    HasDerivAt (fun s => at2 (a s) (b s)) ((b t * a' - a t * b') / (a t ^ 2 + b t ^ 2)) t := by
  have hr : 0 < b t ^ 2 + a t ^ 2 := by
    rcases h with h | h
    · have := sq_pos_of_ne_zero h; positivity
    · have := sq_pos_of_pos h; positivity
  have hden := slit_den_pos h
  have hs : HasDerivAt (fun s => √(b s ^ 2 + a s ^ 2)) ((2 * b t * b' + 2 * a t * a') / (2 * √(b t ^ 2 + a t ^ 2))) t := by
    have := ((hb.fun_pow 2).fun_add (ha.fun_pow 2)).sqrt hr.ne'
    exact this.congr_deriv (by simp)
  have hq := (ha.div (hs.add hb) hden.ne').arctan.const_mul 2
  have hev : (fun s => at2 (a s) (b s)) =ᶠ[𝓝 t] fun s => 2 * arctan (a s / (√(b s ^ 2 + a s ^ 2) + b s)) := by
    have : ∀ᶠ s in 𝓝 t, a s ≠ 0 ∨ 0 < b s := by
      rcases h with h | h
      · exact (ha.continuousAt.eventually_ne h).mono fun s hs => Or.inl hs
      · exact (hb.continuousAt.eventually (lt_mem_nhds h)).mono fun s hs => Or.inr hs
    filter_upwards [this] with s hs
    unfold at2
    rw [if_neg]
    rintro ⟨h0, hneg⟩
    rcases hs with hs | hs
    · exact hs h0
    · linarith
  refine (hq.congr_of_eventuallyEq hev).congr_deriv ?_
  simp only [Pi.add_apply, Pi.div_apply]
  set S := √(b t ^ 2 + a t ^ 2) with hS
  have hS2 : S ^ 2 = b t ^ 2 + a t ^ 2 := Real.sq_sqrt hr.le
  have hSpos : 0 < S := Real.sqrt_pos.mpr hr
  have hd : S + b t ≠ 0 := hden.ne'
  have h1 : (1 + (a t / (S + b t)) ^ 2) ≠ 0 := by positivity
  have h2 : a t ^ 2 + b t ^ 2 ≠ 0 := by rw [add_comm]; exact hr.ne'
  have hS0 : S ≠ 0 := hSpos.ne'
  rw [eq_div_iff h2]
  field_simp
  linear_combination (S * a t * b' - S * a' * b t + 2 * a t ^ 2 * a' + 2 * a t * b t * b') * hS2

end OptRs
