/-
Real-number reading of `Ex`/`Prog`, forward-mode tangents, and the one analytic theorem everything else
rests on: along any differentiable curve of environments, `evalR` is differentiable at every regular point
and its derivative is the tangent `evalD`.
-/
import OptRs.Calc.Ex
import OptRs.Calc.Atan2
import Mathlib.Analysis.SpecialFunctions.Trigonometric.InverseDeriv
import Mathlib.Analysis.SpecialFunctions.Trigonometric.Deriv
import Mathlib.Analysis.SpecialFunctions.Log.Deriv
import Mathlib.Analysis.SpecialFunctions.Pow.Real

open Real

namespace OptRs

/-- Exact real value of a source literal. -/
noncomputable def Num.toReal : Num → ℝ
  | .dec n s _ => (n : ℝ) / (10 : ℝ) ^ s
  | .pi => π
  | .halfPi => π / 2

namespace Ex

/-- Real-number reading of the source text: literals exact, operations exact.
`powf(1.5)` is read as `x * √x` (equal to `x ^ (3/2)` for `x ≥ 0`, lemma `pow15_eq_rpow`). -/
noncomputable def evalR (ρ : Nat → ℝ) : Ex → ℝ
  | var n => ρ n
  | lit c => c.toReal
  | nat k => (k : ℝ)
  | add a b => evalR ρ a + evalR ρ b
  | sub a b => evalR ρ a - evalR ρ b
  | mul a b => evalR ρ a * evalR ρ b
  | div a b => evalR ρ a / evalR ρ b
  | neg a => - evalR ρ a
  | powi a n => evalR ρ a ^ n
  | pow15 a => evalR ρ a * √(evalR ρ a)
  | sqrt a => √(evalR ρ a)
  | sin a => Real.sin (evalR ρ a)
  | cos a => Real.cos (evalR ρ a)
  | acos a => Real.arccos (evalR ρ a)
  | ln a => Real.log (evalR ρ a)
  | atan2 y x => at2 (evalR ρ y) (evalR ρ x)
  | clamp1 a => max (-1) (min 1 (evalR ρ a))

theorem pow15_eq_rpow {x : ℝ} (hx : 0 ≤ x) : x * √x = x ^ (3 / 2 : ℝ) := by
  have h : (3 / 2 : ℝ) = 1 + 1 / 2 := by norm_num
  rcases eq_or_lt_of_le hx with h0 | hpos
  · subst h0; simp
  · rw [h, Real.rpow_add hpos, Real.rpow_one, Real.sqrt_eq_rpow]

/-- Forward-mode tangent: the derivative of `evalR` in the direction `δ` of the environment. -/
noncomputable def evalD (ρ δ : Nat → ℝ) : Ex → ℝ
  | var n => δ n
  | lit _ => 0
  | nat _ => 0
  | add a b => evalD ρ δ a + evalD ρ δ b
  | sub a b => evalD ρ δ a - evalD ρ δ b
  | mul a b => evalD ρ δ a * evalR ρ b + evalR ρ a * evalD ρ δ b
  | div a b => (evalD ρ δ a * evalR ρ b - evalR ρ a * evalD ρ δ b) / evalR ρ b ^ 2
  | neg a => - evalD ρ δ a
  | powi a n => (n : ℝ) * evalR ρ a ^ (n - 1) * evalD ρ δ a
  | pow15 a => evalD ρ δ a * √(evalR ρ a) + evalR ρ a * (evalD ρ δ a / (2 * √(evalR ρ a)))
  | sqrt a => evalD ρ δ a / (2 * √(evalR ρ a))
  | sin a => Real.cos (evalR ρ a) * evalD ρ δ a
  | cos a => - Real.sin (evalR ρ a) * evalD ρ δ a
  | acos a => -(1 / √(1 - evalR ρ a ^ 2)) * evalD ρ δ a
  | ln a => evalD ρ δ a / evalR ρ a
  | atan2 y x => (evalR ρ x * evalD ρ δ y - evalR ρ y * evalD ρ δ x) / (evalR ρ y ^ 2 + evalR ρ x ^ 2)
  | clamp1 a => if -1 < evalR ρ a ∧ evalR ρ a < 1 then evalD ρ δ a else 0

/-- Regular point: every denominator non-zero, every `sqrt`/`powf(1.5)`/`ln` argument positive, every `acos`
argument strictly inside (−1, 1), every `atan2` argument pair off the closed negative real axis, every
`clamp(-1., 1.)` argument strictly inside (−1, 1) (where the clamp is the identity; the `acos` consuming it
needs that anyway). -/
def Reg (ρ : Nat → ℝ) : Ex → Prop
  | var _ => True
  | lit _ => True
  | nat _ => True
  | add a b => Reg ρ a ∧ Reg ρ b
  | sub a b => Reg ρ a ∧ Reg ρ b
  | mul a b => Reg ρ a ∧ Reg ρ b
  | div a b => Reg ρ a ∧ Reg ρ b ∧ evalR ρ b ≠ 0
  | neg a => Reg ρ a
  | powi a _ => Reg ρ a
  | pow15 a => Reg ρ a ∧ 0 < evalR ρ a
  | sqrt a => Reg ρ a ∧ 0 < evalR ρ a
  | sin a => Reg ρ a
  | cos a => Reg ρ a
  | acos a => Reg ρ a ∧ -1 < evalR ρ a ∧ evalR ρ a < 1
  | ln a => Reg ρ a ∧ 0 < evalR ρ a
  | atan2 y x => Reg ρ y ∧ Reg ρ x ∧ (evalR ρ y ≠ 0 ∨ 0 < evalR ρ x)
  | clamp1 a => Reg ρ a ∧ -1 < evalR ρ a ∧ evalR ρ a < 1

/-- Strictly inside `(-1, 1)` the clamp is the identity. -/
theorem clamp_eq_self {x : ℝ} (h1 : -1 < x) (h2 : x < 1) : max (-1) (min 1 x) = x := by
  rw [min_eq_right h2.le, max_eq_right h1.le]

/-- Over the reals the clamp in front of `acos` changes nothing: `Real.arccos` is already constant outside
`[-1, 1]` (the clamp only matters in floating point, where rounding can push the cosine just outside). -/
theorem arccos_clamp (x : ℝ) : Real.arccos (max (-1) (min 1 x)) = Real.arccos x := by
  rcases le_or_gt x (-1) with h | h
  · rw [min_eq_right (by linarith), max_eq_left h, Real.arccos_neg_one, Real.arccos_of_le_neg_one h]
  · rcases le_or_gt 1 x with h' | h'
    · rw [min_eq_left h', max_eq_right (by norm_num), Real.arccos_one, Real.arccos_eq_zero.mpr h']
    · rw [clamp_eq_self h h']

theorem evalR_acos_clamp1 (ρ : Nat → ℝ) (a : Ex) : (acos (clamp1 a)).evalR ρ = (acos a).evalR ρ := by
  simp only [evalR, arccos_clamp]

/-- Strictly inside `(-1, 1)` the clamp in front of `acos` does not change the tangent either. -/
theorem evalD_acos_clamp1 (ρ δ : Nat → ℝ) (a : Ex) (h1 : -1 < a.evalR ρ) (h2 : a.evalR ρ < 1) :
    (acos (clamp1 a)).evalD ρ δ = (acos a).evalD ρ δ := by
  simp only [evalD, evalR, clamp_eq_self h1 h2, if_pos (And.intro h1 h2)]

/-- **Soundness of the tangent.** -/
theorem hasDerivAt_evalR (γ : ℝ → Nat → ℝ) (δ : Nat → ℝ) (t₀ : ℝ)
    (hγ : ∀ n, HasDerivAt (fun t => γ t n) (δ n) t₀) :
    ∀ e : Ex, Reg (γ t₀) e → HasDerivAt (fun t => evalR (γ t) e) (evalD (γ t₀) δ e) t₀ := by
  intro e
  induction e with
  | var n => intro _; exact hγ n
  | lit c => intro _; exact hasDerivAt_const _ _
  | nat k => intro _; exact hasDerivAt_const _ _
  | add a b iha ihb => intro h; exact (iha h.1).add (ihb h.2)
  | sub a b iha ihb => intro h; exact (iha h.1).sub (ihb h.2)
  | mul a b iha ihb => intro h; exact (iha h.1).mul (ihb h.2)
  | div a b iha ihb => intro h; exact (iha h.1).div (ihb h.2.1) h.2.2
  | neg a iha => intro h; exact (iha h).neg
  | powi a n iha =>
    intro h
    exact ((iha h).fun_pow n).congr_deriv (by simp only [evalD])
  | pow15 a iha =>
    intro h
    exact (iha h.1).mul ((iha h.1).sqrt h.2.ne')
  | sqrt a iha => intro h; exact (iha h.1).sqrt h.2.ne'
  | sin a iha => intro h; exact (iha h).sin
  | cos a iha => intro h; exact (iha h).cos
  | acos a iha =>
    intro h
    have h1 : evalR (γ t₀) a ≠ -1 := fun e => by have := h.2.1; rw [e] at this; exact lt_irrefl _ this
    have h2 : evalR (γ t₀) a ≠ 1 := fun e => by have := h.2.2; rw [e] at this; exact lt_irrefl _ this
    exact (Real.hasDerivAt_arccos h1 h2).comp t₀ (iha h.1)
  | ln a iha => intro h; exact (iha h.1).log h.2.ne'
  | atan2 y x ihy ihx => intro h; exact hasDerivAt_at2 (ihy h.1) (ihx h.2.1) h.2.2
  | clamp1 a iha =>
    intro h
    have hd := iha h.1
    have hc : Filter.Tendsto (fun t => evalR (γ t) a) (nhds t₀) (nhds (evalR (γ t₀) a)) := hd.continuousAt
    have e1 : ∀ᶠ t in nhds t₀, -1 < evalR (γ t) a := hc.eventually (lt_mem_nhds h.2.1)
    have e2 : ∀ᶠ t in nhds t₀, evalR (γ t) a < 1 := hc.eventually (gt_mem_nhds h.2.2)
    have hD : evalD (γ t₀) δ (clamp1 a) = evalD (γ t₀) δ a := by simp only [evalD, if_pos h.2]
    rw [hD]
    refine hd.congr_of_eventuallyEq ?_
    filter_upwards [e1, e2] with t h1 h2
    simp only [evalR]
    exact clamp_eq_self h1 h2

end Ex

/-! ### Straight-line programs -/

namespace Prog

/-- Environment after the `let`s, over the reals. -/
noncomputable def envR (base : Nat → ℝ) : List (Nat × Ex) → Nat → ℝ
  | [] => base
  | (v, e) :: rest => envR (Function.update base v (e.evalR base)) rest

/-- Tangent environment after the `let`s. -/
noncomputable def envD (base δ : Nat → ℝ) : List (Nat × Ex) → Nat → ℝ
  | [] => δ
  | (v, e) :: rest => envD (Function.update base v (e.evalR base)) (Function.update δ v (e.evalD base δ)) rest

/-- Every `let` is evaluated at a regular point. -/
def RegLets (base : Nat → ℝ) : List (Nat × Ex) → Prop
  | [] => True
  | (v, e) :: rest => e.Reg base ∧ RegLets (Function.update base v (e.evalR base)) rest

theorem hasDerivAt_envR (lets : List (Nat × Ex)) :
    ∀ (γ : ℝ → Nat → ℝ) (δ : Nat → ℝ) (t₀ : ℝ), (∀ n, HasDerivAt (fun t => γ t n) (δ n) t₀) →
      RegLets (γ t₀) lets → ∀ n, HasDerivAt (fun t => envR (γ t) lets n) (envD (γ t₀) δ lets n) t₀ := by
  induction lets with
  | nil => intro γ δ t₀ hγ _ n; exact hγ n
  | cons ve rest ih =>
    obtain ⟨v, e⟩ := ve
    intro γ δ t₀ hγ hreg n
    have he := Ex.hasDerivAt_evalR γ δ t₀ hγ e hreg.1
    refine ih (fun t => Function.update (γ t) v (e.evalR (γ t))) (Function.update δ v (e.evalD (γ t₀) δ)) t₀ ?_ hreg.2 n
    intro m
    by_cases hm : m = v
    · subst hm; simpa using he
    · simpa [Function.update_of_ne hm] using hγ m

end Prog

/-- The coordinate line through `ρ` along variable `x`. -/
theorem hasDerivAt_update (ρ : Nat → ℝ) (x : Nat) (n : Nat) :
    HasDerivAt (fun t => Function.update ρ x t n) ((Pi.single x (1 : ℝ) : Nat → ℝ) n) (ρ x) := by
  by_cases h : n = x
  · subst h; simpa using hasDerivAt_id' (ρ n)
  · simpa [Function.update_of_ne h, Pi.single_eq_of_ne h] using hasDerivAt_const (ρ x) (ρ n)

/-- Partial derivative of an expression with respect to one variable. -/
theorem Ex.hasDerivAt_partial (ρ : Nat → ℝ) (x : Nat) (e : Ex) (h : e.Reg ρ) :
    HasDerivAt (fun t => e.evalR (Function.update ρ x t)) (e.evalD ρ (Pi.single x 1)) (ρ x) := by
  have := Ex.hasDerivAt_evalR (fun t => Function.update ρ x t) (Pi.single x 1) (ρ x)
    (fun n => hasDerivAt_update ρ x n) e (by simpa using h)
  simpa using this

/-- The value the gradient updates of a program add to slot `s`, over the reals (0 if the slot is not
written), ignoring the guard. -/
noncomputable def Prog.gradRaw (p : Prog) (ρ : Nat → ℝ) (s : Nat) : ℝ :=
  match p.outs.lookup s with
  | some e => e.evalR (Prog.envR ρ p.lets)
  | none => 0

/-- The value a gradient program adds to slot `s`, over the reals: that of its updates, unless it has a
guard whose value (in the environment after the `let`s) is not positive — then the body returned early
and added nothing. -/
noncomputable def Prog.gradR (p : Prog) (ρ : Nat → ℝ) (s : Nat) : ℝ :=
  match p.guard with
  | some g => if 0 < g.evalR (Prog.envR ρ p.lets) then p.gradRaw ρ s else 0
  | none => p.gradRaw ρ s

theorem Prog.gradR_of_no_guard (p : Prog) (hg : p.guard = none) (ρ : Nat → ℝ) (s : Nat) :
    p.gradR ρ s = p.gradRaw ρ s := by
  simp only [Prog.gradR, hg]

theorem Prog.gradR_of_guard (p : Prog) (g : Ex) (hg : p.guard = some g) (ρ : Nat → ℝ) (s : Nat) :
    p.gradR ρ s = if 0 < g.evalR (Prog.envR ρ p.lets) then p.gradRaw ρ s else 0 := by
  simp only [Prog.gradR, hg]

theorem Prog.gradR_of_guard_pos (p : Prog) (g : Ex) (hg : p.guard = some g) (ρ : Nat → ℝ)
    (hpos : 0 < g.evalR (Prog.envR ρ p.lets)) (s : Nat) : p.gradR ρ s = p.gradRaw ρ s := by
  simp only [Prog.gradR, hg, if_pos hpos]

theorem Prog.gradR_of_guard_not_pos (p : Prog) (g : Ex) (hg : p.guard = some g) (ρ : Nat → ℝ)
    (hneg : ¬ 0 < g.evalR (Prog.envR ρ p.lets)) (s : Nat) : p.gradR ρ s = 0 := by
  simp only [Prog.gradR, hg, if_neg hneg]

/-- From the per-slot *identity* (tangent of the energy along coordinate `s` = translated gradient
expression) to the derivative statement. -/
theorem hasDerivAt_of_identity (E : Ex) (G : Prog) (ρ : Nat → ℝ) (s : Nat) (hreg : E.Reg ρ)
    (hid : E.evalD ρ (Pi.single s 1) = G.gradR ρ s) :
    HasDerivAt (fun t => E.evalR (Function.update ρ s t)) (G.gradR ρ s) (ρ s) := by
  rw [← hid]; exact Ex.hasDerivAt_partial ρ s E hreg

end OptRs
