/-
Real-number reading of `Ex`/`Prog`, forward-mode tangents, and the one analytic theorem everything else
rests on: along any differentiable curve of environments, `evalR` is differentiable at every regular point
and its derivative is the tangent `evalD`.
-/
import OptRs.Calc.Ex
import OptRs.Calc.Atan2
import Mathlib.Analysis.SpecialFunctions.Trigonometric.InverseDeriv
import Mathlib.Analysis.SpecialFunctions.Trigonometric.Deriv
import Mathlib.Analysis.SpecialFunctions.Log.Deriv
import Mathlib.Analysis.SpecialFunctions.Pow.Real

open Real

namespace OptRs

/-- Exact real value of a source literal. -/
noncomputable def Num.toReal : Num → ℝ
  | .dec n s _ => (n : ℝ) / (10 : ℝ) ^ s
  | .pi => π
  | .halfPi => π / 2

namespace Ex

/-- Real-number reading of the source text: literals exact, operations exact.
`powf(1.5)` is read as `x * √x` (equal to `x ^ (3/2)` for `x ≥ 0`, lemma `pow15_eq_rpow`). -/
noncomputable def evalR (ρ : Nat → ℝ) : Ex → ℝ
  | var n => ρ n
  | lit c => c.toReal
  | nat k => (k : ℝ)
  | add a b => evalR ρ a + evalR ρ b
  | sub a b => evalR ρ a - evalR ρ b
  | mul a b => evalR ρ a * evalR ρ b
  | div a b => evalR ρ a / evalR ρ b
  | neg a => - evalR ρ a
  | powi a n => evalR ρ a ^ n
  | pow15 a => evalR ρ a * √(evalR ρ a)
  | sqrt a => √(evalR ρ a)
  | sin a => Real.sin (evalR ρ a)
  | cos a => Real.cos (evalR ρ a)
  | acos a => Real.arccos (evalR ρ a)
  | ln a => Real.log (evalR ρ a)
  | atan2 y x => at2 (evalR ρ y) (evalR ρ x)

theorem pow15_eq_rpow {x : ℝ} (hx : 0 ≤ x) : x * √x = x ^ (3 / 2 : ℝ) := by
  have h : (3 / 2 : ℝ) = 1 + 1 / 2 := by norm_num
  rcases eq_or_lt_of_le hx with h0 | hpos
  · subst h0; simp
  · rw [h, Real.rpow_add hpos, Real.rpow_one, Real.sqrt_eq_rpow]

/-- Forward-mode tangent: the derivative of `evalR` in the direction `δ` of the environment. -/
noncomputable def evalD (ρ δ : Nat → ℝ) : Ex → ℝ
  | var n => δ n
  | lit _ => 0
  | nat _ => 0
  | add a b => evalD ρ δ a + evalD ρ δ b
  | sub a b => evalD ρ δ a - evalD ρ δ b
  | mul a b => evalD ρ δ a * evalR ρ b + evalR ρ a * evalD ρ δ b
  | div a b => (evalD ρ δ a * evalR ρ b - evalR ρ a * evalD ρ δ b) / evalR ρ b ^ 2
  | neg a => - evalD ρ δ a
  | powi a n => (n : ℝ) * evalR ρ a ^ (n - 1) * evalD ρ δ a
  | pow15 a => evalD ρ δ a * √(evalR ρ a) + evalR ρ a * (evalD ρ δ a / (2 * √(evalR ρ a)))
  | sqrt a => evalD ρ δ a / (2 * √(evalR ρ a))
  | sin a => Real.cos (evalR ρ a) * evalD ρ δ a
  | cos a => - Real.sin (evalR ρ a) * evalD ρ δ a
  | acos a => -(1 / √(1 - evalR ρ a ^ 2)) * evalD ρ δ a
  | ln a => evalD ρ δ a / evalR ρ a
  | atan2 y x => (evalR ρ x * evalD ρ δ y - evalR ρ y * evalD ρ δ x) / (evalR ρ y ^ 2 + evalR ρ x ^ 2)

/-- Regular point: every denominator non-zero, every `sqrt`/`powf(1.5)`/`ln` argument positive, every `acos`
argument strictly inside (−1, 1), every `atan2` argument pair off the closed negative real axis. -/
def Reg (ρ : Nat → ℝ) : Ex → Prop
  | var _ => True
  | lit _ => True
  | nat _ => True
  | add a b => Reg ρ a ∧ Reg ρ b
  | sub a b => Reg ρ a ∧ Reg ρ b
  | mul a b => Reg ρ a ∧ Reg ρ b
  | div a b => Reg ρ a ∧ Reg ρ b ∧ evalR ρ b ≠ 0
  | neg a => Reg ρ a
  | powi a _ => Reg ρ a
  | pow15 a => Reg ρ a ∧ 0 < evalR ρ a
  | sqrt a => Reg ρ a ∧ 0 < evalR ρ a
  | sin a => Reg ρ a
  | cos a => Reg ρ a
  | acos a => Reg ρ a ∧ -1 < evalR ρ a ∧ evalR ρ a < 1
  | ln a => Reg ρ a ∧ 0 < evalR ρ a
  | atan2 y x => Reg ρ y ∧ Reg ρ x ∧ (evalR ρ y ≠ 0 ∨ 0 < evalR ρ x)

/-- **Soundness of the tangent.** -/
theorem hasDerivAt_evalR (γ : ℝ → Nat → ℝ) (δ : Nat → ℝ) (t₀ : ℝ)
    (hγ : ∀ n, HasDerivAt (fun t => γ t n) (δ n) t₀) :
    ∀ e : Ex, Reg (γ t₀) e → HasDerivAt (fun t => evalR (γ t) e) (evalD (γ t₀) δ e) t₀ := by
  intro e
  induction e with
  | var n => intro _; exact hγ n
  | lit c => intro _; exact hasDerivAt_const _ _
  | nat k => intro _; exact hasDerivAt_const _ _
  | add a b iha ihb => intro h; exact (iha h.1).add (ihb h.2)
  | sub a b iha ihb => intro h; exact (iha h.1).sub (ihb h.2)
  | mul a b iha ihb => intro h; exact (iha h.1).mul (ihb h.2)
  | div a b iha ihb => intro h; exact (iha h.1).div (ihb h.2.1) h.2.2
  | neg a iha => intro h; exact (iha h).neg
  | powi a n iha =>
    intro h
    exact ((iha h).fun_pow n).congr_deriv (by simp only [evalD])
  | pow15 a iha =>
    intro h
    exact (iha h.1).mul ((iha h.1).sqrt h.2.ne')
  | sqrt a iha => intro h; exact (iha h.1).sqrt h.2.ne'
  | sin a iha => intro h; exact (iha h).sin
  | cos a iha => intro h; exact (iha h).cos
  | acos a iha =>
    intro h
    have h1 : evalR (γ t₀) a ≠ -1 := fun e => by have := h.2.1; rw [e] at this; exact lt_irrefl _ this
    have h2 : evalR (γ t₀) a ≠ 1 := fun e => by have := h.2.2; rw [e] at this; exact lt_irrefl _ this
    exact (Real.hasDerivAt_arccos h1 h2).comp t₀ (iha h.1)
  | ln a iha => intro h; exact (iha h.1).log h.2.ne'
  | atan2 y x ihy ihx => intro h; exact hasDerivAt_at2 (ihy h.1) (ihx h.2.1) h.2.2

end Ex

/-! ### Straight-line programs -/

namespace Prog

/-- Environment after the `let`s, over the reals. -/
noncomputable def envR (base : Nat → ℝ) : List (Nat × Ex) → Nat → ℝ
  | [] => base
  | (v, e) :: rest => envR (Function.update base v (e.evalR base)) rest

/-- Tangent environment after the `let`s. -/
noncomputable def envD (base δ : Nat → ℝ) : List (Nat × Ex) → Nat → ℝ
  | [] => δ
  | (v, e) :: rest => envD (Function.update base v (e.evalR base)) (Function.update δ v (e.evalD base δ)) rest

/-- Every `let` is evaluated at a regular point. -/
def RegLets (base : Nat → ℝ) : List (Nat × Ex) → Prop
  | [] => True
  | (v, e) :: rest => e.Reg base ∧ RegLets (Function.update base v (e.evalR base)) rest

theorem hasDerivAt_envR (lets : List (Nat × Ex)) :
    ∀ (γ : ℝ → Nat → ℝ) (δ : Nat → ℝ) (t₀ : ℝ), (∀ n, HasDerivAt (fun t => γ t n) (δ n) t₀) →
      RegLets (γ t₀) lets → ∀ n, HasDerivAt (fun t => envR (γ t) lets n) (envD (γ t₀) δ lets n) t₀ := by
  induction lets with
  | nil => intro γ δ t₀ hγ _ n; exact hγ n
  | cons ve rest ih =>
    obtain ⟨v, e⟩ := ve
    intro γ δ t₀ hγ hreg n
    have he := Ex.hasDerivAt_evalR γ δ t₀ hγ e hreg.1
    refine ih (fun t => Function.update (γ t) v (e.evalR (γ t))) (Function.update δ v (e.evalD (γ t₀) δ)) t₀ ?_ hreg.2 n
    intro m
    by_cases hm : m = v
    · subst hm; simpa using he
    · simpa [Function.update_of_ne hm] using hγ m

end Prog

/-- The coordinate line through `ρ` along variable `x`. -/
theorem hasDerivAt_update (ρ : Nat → ℝ) (x : Nat) (n : Nat) :
    HasDerivAt (fun t => Function.update ρ x t n) ((Pi.single x (1 : ℝ) : Nat → ℝ) n) (ρ x) := by
  by_cases h : n = x
  · subst h; simpa using hasDerivAt_id' (ρ n)
  · simpa [Function.update_of_ne h, Pi.single_eq_of_ne h] using hasDerivAt_const (ρ x) (ρ n)

/-- Partial derivative of an expression with respect to one variable. -/
theorem Ex.hasDerivAt_partial (ρ : Nat → ℝ) (x : Nat) (e : Ex) (h : e.Reg ρ) :
    HasDerivAt (fun t => e.evalR (Function.update ρ x t)) (e.evalD ρ (Pi.single x 1)) (ρ x) := by
  have := Ex.hasDerivAt_evalR (fun t => Function.update ρ x t) (Pi.single x 1) (ρ x)
    (fun n => hasDerivAt_update ρ x n) e (by simpa using h)
  simpa using this

/-- The value a gradient program adds to slot `s`, over the reals (0 if it does not write the slot). -/
noncomputable def Prog.gradR (p : Prog) (ρ : Nat → ℝ) (s : Nat) : ℝ :=
  match p.outs.lookup s with
  | some e => e.evalR (Prog.envR ρ p.lets)
  | none => 0

/-- From the per-slot *identity* (tangent of the energy along coordinate `s` = translated gradient
expression) to the derivative statement. -/
theorem hasDerivAt_of_identity (E : Ex) (G : Prog) (ρ : Nat → ℝ) (s : Nat) (hreg : E.Reg ρ)
    (hid : E.evalD ρ (Pi.single s 1) = G.gradR ρ s) :
    HasDerivAt (fun t => E.evalR (Function.update ρ s t)) (G.gradR ρ s) (ρ s) := by
  rw [← hid]; exact Ex.hasDerivAt_partial ρ s E hreg

end OptRs
