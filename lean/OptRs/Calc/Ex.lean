/-
Expression language for the straight-line floating-point arithmetic of the force-field terms.

`Ex` is plain data (no Mathlib): the translator emits the sympy-generated `add_gradient` bodies as
`Prog` values; the hand-written energy expressions live in `Model/Energy.lean`. Two interpreters:
`evalF` here (IEEE doubles, used by the model driver for the bitwise correspondence with the Rust
functions) and `evalR`/`evalD` in `Calc/Real.lean` (real numbers and tangents, used by the theorems).
-/
import OptRs.Calc.Num
namespace OptRs

inductive Ex where
  | var (n : Nat)
  | lit (c : Num)
  | nat (k : Nat)                 -- an integer parameter used as a float (`n as f64`)
  | add (a b : Ex) | sub (a b : Ex) | mul (a b : Ex) | div (a b : Ex)
  | neg (a : Ex)
  | powi (a : Ex) (n : Nat)       -- `f64::powi` with a non-negative exponent
  | pow15 (a : Ex)                -- `f64::powf(1.5)`
  | sqrt (a : Ex) | sin (a : Ex) | cos (a : Ex) | acos (a : Ex) | ln (a : Ex)
  | atan2 (y x : Ex)              -- `y.atan2(x)`
  | clamp1 (a : Ex)               -- `f64::clamp(-1., 1.)`
deriving Repr, Inhabited

/-- A straight-line program: `let` bindings (variable id, definition) in order, then outputs
(slot id, expression). For a gradient body the slot is `3 * (position of the atom in the term) + axis`
and the expression is what is added to that gradient component.

`guard`: the early return `if !(g > 0.) { return; }` of the bend gradients. When present, the body adds
nothing at all unless the guard expression, evaluated in the environment after the `let`s, is `> 0`
(the `let`s have no side effects, so it does not matter which of them the Rust code runs before returning). -/
structure Prog where
  lets : List (Nat × Ex)
  outs : List (Nat × Ex)
  guard : Option Ex := none
deriving Repr, Inhabited

/-- `f64::clamp(self, -1., 1.)`: `let mut x = self; if x < min { x = min } if x > max { x = max } x` — a NaN
fails both comparisons and stays NaN. -/
def clamp1F (x : Float) : Float :=
  let x := if x < -1.0 then -1.0 else x
  if x > 1.0 then 1.0 else x

/-- compiler-rt's `__powidf2` (what `f64::powi` lowers to): square-and-multiply. -/
def powiF (a : Float) (n : Nat) : Float :=
  go a n 1.0 (n + 1)
where
  go (a : Float) (b : Nat) (r : Float) : Nat → Float
    | 0 => r
    | fuel + 1 =>
      let r := if b % 2 = 1 then r * a else r
      let b := b / 2
      if b = 0 then r else go (a * a) b r fuel

namespace Ex

/-- Evaluate at IEEE doubles. -/
def evalF (ρ : Nat → Float) : Ex → Float
  | var n => ρ n
  | lit c => c.toFloat
  | nat k => k.toFloat
  | add a b => evalF ρ a + evalF ρ b
  | sub a b => evalF ρ a - evalF ρ b
  | mul a b => evalF ρ a * evalF ρ b
  | div a b => evalF ρ a / evalF ρ b
  | neg a => - evalF ρ a
  | powi a n => powiF (evalF ρ a) n
  | pow15 a => Float.pow (evalF ρ a) 1.5
  | sqrt a => Float.sqrt (evalF ρ a)
  | sin a => Float.sin (evalF ρ a)
  | cos a => Float.cos (evalF ρ a)
  | acos a => Float.acos (evalF ρ a)
  | ln a => Float.log (evalF ρ a)
  | atan2 y x => Float.atan2 (evalF ρ y) (evalF ρ x)
  | clamp1 a => clamp1F (evalF ρ a)

end Ex

/-- Environment as an association list over a default. -/
def envF (base : Nat → Float) (binds : List (Nat × Float)) : Nat → Float :=
  fun n => match binds.find? (·.1 = n) with
    | some (_, v) => v
    | none => base n

namespace Prog

/-- Run the `let`s at doubles, returning the bindings (latest first). -/
def runLetsF (base : Nat → Float) (lets : List (Nat × Ex)) : List (Nat × Float) :=
  lets.foldl (fun binds (v, e) => (v, e.evalF (envF base binds)) :: binds) []

/-- The outputs at doubles: (slot, value). With a guard whose value is not `> 0` (a NaN included) the body
returned early: no contributions at all. -/
def runF (p : Prog) (base : Nat → Float) : List (Nat × Float) :=
  let env := envF base (runLetsF base p.lets)
  let go : Bool := match p.guard with
    | some g => decide (g.evalF env > 0.0)
    | none => true
  if go then p.outs.map fun (s, e) => (s, e.evalF env) else []

end Prog
end OptRs
