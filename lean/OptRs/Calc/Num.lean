/-
Numeric literals of the Rust source as data.

`Num.dec num scale bits` is the exact decimal `num / 10^scale` together with the bit pattern of the
nearest IEEE double (what rustc compiles the literal to). Theorems read the decimal; the executable
model reads the bits. `pi`/`halfPi` stand for `std::f64::consts::{PI, FRAC_PI_2}`.
-/
namespace OptRs

inductive Num where
  | dec (num : Int) (scale : Nat) (bits : Nat)
  | pi
  | halfPi
deriving DecidableEq, Repr, Inhabited

namespace Num

/-- The double the compiled Rust code holds for this literal. -/
def toFloat : Num → Float
  | dec _ _ bits => Float.ofBits (UInt64.ofNat bits)
  | pi => Float.ofBits 0x400921FB54442D18
  | halfPi => Float.ofBits 0x3FF921FB54442D18

/-- Exact value as a fraction `(numerator, denominator)`, defined for decimals only. -/
def frac? : Num → Option (Int × Nat)
  | dec n s _ => some (n, 10 ^ s)
  | _ => none

/-- Compare two decimals exactly (cross-multiplication); `none` if either is π-valued. -/
def decLe? (a b : Num) : Option Bool :=
  match a.frac?, b.frac? with
  | some (n₁, d₁), some (n₂, d₂) => some (decide (n₁ * d₂ ≤ n₂ * d₁))
  | _, _ => none

/-- Same exact decimal value (ignoring representation and bits). -/
def decEq? (a b : Num) : Option Bool :=
  match a.frac?, b.frac? with
  | some (n₁, d₁), some (n₂, d₂) => some (decide (n₁ * d₂ = n₂ * d₁))
  | _, _ => none

end Num
end OptRs
