/-
Hand model of a force-field *object* (`UFF` / `RB` as stateful values: the term list, the cached last energy, the
reused gradient buffer) and of the two trait methods. Generic in the scalar `R`, the geometry type `X` and the term
type `T`: what a term contributes is a parameter (instantiated by the driver with the translated terms at `f64`).
-/
namespace OptRs.Model

structure FFOps (R X T : Type) where
  zero : R
  add : R → R → R
  /-- `EnergyFunction::energy` -/
  termE : T → X → R
  /-- `EnergyFunction::add_gradient` on a buffer -/
  termAdd : T → X → List R → List R
  /-- starting value of the energy accumulation (`0.0` for UFF's loop, `-0.0` for RB's `Iterator::sum`) -/
  start : R

structure FFObj (R T : Type) where
  terms : List T
  energyCache : R
  buf : List R

variable {R X T : Type}

/-- The energy as a pure function of the terms and the geometry. -/
def pureE (ops : FFOps R X T) (terms : List T) (x : X) : R :=
  terms.foldl (fun acc t => ops.add acc (ops.termE t x)) ops.start

/-- The gradient as a pure function of the terms, the buffer length and the geometry. -/
def pureG (ops : FFOps R X T) (terms : List T) (n : Nat) (x : X) : List R :=
  terms.foldl (fun b t => ops.termAdd t x b) (List.replicate n ops.zero)

/-- `Forcefield::energy`: overwrite the cache from the start value, accumulate, return it. -/
def FFObj.energy (ops : FFOps R X T) (o : FFObj R T) (x : X) : FFObj R T × R :=
  let e := o.terms.foldl (fun acc t => ops.add acc (ops.termE t x)) ops.start
  ({ o with energyCache := e }, e)

/-- `Forcefield::gradient`: zero every entry of the reused buffer, let every term add, return the buffer. -/
def FFObj.gradient (ops : FFOps R X T) (o : FFObj R T) (x : X) : FFObj R T × List R :=
  let b0 := o.buf.map (fun _ => ops.zero)
  let b := o.terms.foldl (fun b t => ops.termAdd t x b) b0
  ({ o with buf := b }, b)

/-- A variant WITHOUT the zeroing step (the defect the property names); used as a negative control only. -/
def FFObj.gradientNoZero (ops : FFOps R X T) (o : FFObj R T) (x : X) : FFObj R T × List R :=
  let b := o.terms.foldl (fun b t => ops.termAdd t x b) o.buf
  ({ o with buf := b }, b)

inductive FFReq (X : Type) where
  | energy (x : X)
  | gradient (x : X)

inductive FFAns (R : Type) where
  | e (v : R)
  | g (v : List R)

/-- Serve one request. -/
def FFObj.serve (ops : FFOps R X T) (o : FFObj R T) : FFReq X → FFObj R T × FFAns R
  | .energy x => let r := o.energy ops x; (r.1, .e r.2)
  | .gradient x => let r := o.gradient ops x; (r.1, .g r.2)

/-- Serve a whole history, collecting the answers. -/
def FFObj.serveAll (ops : FFOps R X T) (o : FFObj R T) : List (FFReq X) → FFObj R T × List (FFAns R)
  | [] => (o, [])
  | q :: qs =>
    let r := o.serve ops q
    let rs := FFObj.serveAll ops r.1 qs
    (rs.1, r.2 :: rs.2)

end OptRs.Model
