/-
Hand model of force-field construction: `UFF::new` (src/ff/uff/core.rs: `add_bond_stretches`, `add_angle_bends`,
`add_dihedral_torsions`, `add_dihedral_inversions`, `add_vdw`) and `RB::new` (src/ff/rb/core.rs).

The structure (which term for which connectivity element, in which order, with which atoms) is modelled here, generic
in the scalar; the numbers enter through `UffFns` (the translated parameter formulas evaluated on the translated
tables, supplied by the driver at `f64`). Theorems about "each interaction exactly once" hold for ANY numeric layer.
-/
import OptRs.Model.Topology
namespace OptRs.Model

/-- `CoordinationEnvironment`. -/
inductive Env where
  | none | linear | bent | trigonalPlanar | trigonalPyramidal | squarePlanar | tetrahedral | trigonalBipyramidal
  | octahedral | unknown
deriving DecidableEq, Repr, Inhabited

/-- `UFFAtomType::bend_type() == 'A'`. -/
def Env.isTypeA : Env → Bool
  | .linear | .trigonalPlanar | .squarePlanar | .octahedral => true
  | _ => false

/-- `UFFAtomType::bend_n` (as a natural number; 0 for the environments that get the type-B form). -/
def Env.bendN : Env → Nat
  | .linear => 4 | .trigonalPlanar => 3 | .squarePlanar => 4 | .octahedral => 4 | _ => 0

/-- `set_coordination_environment`: by number of neighbours, group, d8-ness and the Xe special case. -/
def coordinationEnvironment (nn : Nat) (group : Nat) (isD8 isXe : Bool) : Env :=
  match nn with
  | 0 => .none
  | 1 => .linear
  | 2 => if group = 15 ∨ group = 16 then .bent else .linear
  | 3 => if group = 15 then .trigonalPyramidal else .trigonalPlanar
  | 4 => if isD8 ∨ isXe then .squarePlanar else .tetrahedral
  | 5 => .trigonalBipyramidal
  | 6 => .octahedral
  | _ => .unknown

/-- Everything atom typing reads of the bond set for atom `a` (besides coordinates and the atom's element): its
neighbour list (sorted), how many of its bonds are aromatic, and twice the sum of its bond orders (formal charge, d8-ness). -/
structure AtomView where
  nbrs : List Nat
  nAromatic : Nat
  orderSumTwice : Nat
deriving DecidableEq, Repr

def atomView (bs : List Bond) (a : Nat) : AtomView :=
  { nbrs := neighbours bs a,
    nAromatic := bs.countP (fun b => b.contains a && b.order == .aromatic),
    orderSumTwice := ((bs.filter (·.contains a)).map (·.order.twice)).sum }

inductive TermKind where
  | bond | angleA | angleB | torsion | inversion | lj | repulsion
deriving DecidableEq, Repr, Inhabited

structure UTerm (R : Type) where
  kind : TermKind
  idxs : List Nat
  params : List R
deriving Repr

/-- What the inversion branch decides for a centre's type. -/
inductive InvDecision (R : Type) where
  | carbon               -- "C_2" | "C_R": c0 = 1, c1 = −1, c2 = 0, k = 50 if bonded to an O_2 else 6
  | todo                 -- "O_2" | "S_2": `todo!()` in the source (aborts)  [absent after the fix: treated as skip]
  | table (k c0 c1 c2 : R)
  | skip

/-- The numeric layer, indexed by rows of `ATOM_TYPES` (assigned per atom) and bond orders. -/
structure UffFns (R : Type) where
  ofNat : Nat → R
  r0 : Nat → Nat → BondOrder → R                 -- rows of atoms i, j; order
  kij : Nat → Nat → R → R                         -- rows i, j; r0
  kijk : Nat → Nat → Nat → R → R → R              -- rows i, j, k; r0_ij, r0_jk
  typeB : Nat → R × R × R                         -- row j ↦ (c0, c1, c2)
  torsion : Nat → Nat → Option (R × R × R)        -- rows j, k ↦ (phi0, n, v) when both are main-group
  inversion : Nat → InvDecision R                 -- row of the centre
  isO2 : Nat → Bool                               -- row is the "O_2" type
  invCarbon : Bool → R × R × R × R                -- bonded to O_2? ↦ (c0, c1, c2, k)
  ljSigma : Nat → Nat → R
  ljD : Nat → Nat → R

variable {R : Type}

/-- `r0_cache.get(&AtomPair{i, j})`: the rest length stored for the bond between `i` and `j`. -/
def r0Lookup (F : UffFns R) (row : Nat → Nat) (bs : List Bond) (i j : Nat) : Option R :=
  (bs.find? (fun b => b.key == pairKey i j)).map fun b => F.r0 (row b.i) (row b.j) b.order

def addBondStretches (F : UffFns R) (row : Nat → Nat) (bs : List Bond) : List (UTerm R) :=
  bs.map fun b =>
    let r0 := F.r0 (row b.i) (row b.j) b.order
    { kind := .bond, idxs := [b.i, b.j], params := [r0, F.kij (row b.i) (row b.j) r0] }

/-- One bend per angle; the form is chosen by the centre's coordination environment. `none` = the `expect` on the
rest-length cache would abort (an angle whose legs are not bonds — impossible for angles derived from the bonds). -/
def addAngleBends (F : UffFns R) (row : Nat → Nat) (env : Nat → Env) (bs : List Bond) (angles : List Angle) :
    List (Option (UTerm R)) :=
  angles.map fun a =>
    let (i, j, k) := a
    match r0Lookup F row bs i j, r0Lookup F row bs j k with
    | some rij, some rjk =>
      let kijk := F.kijk (row i) (row j) (row k) rij rjk
      if (env j).isTypeA then
        some { kind := .angleA, idxs := [i, j, k], params := [kijk, F.ofNat (env j).bendN] }
      else
        let (c0, c1, c2) := F.typeB (row j)
        some { kind := .angleB, idxs := [i, j, k], params := [kijk, c0, c1, c2] }
    | _, _ => none

/-- At most one torsion per proper dihedral: only if both central types are main-group and neither flanking angle is
close to linear. -/
def addTorsions (F : UffFns R) (row : Nat → Nat) (closeToLinear : Nat → Nat → Nat → Bool) (propers : List Proper) :
    List (UTerm R) :=
  propers.filterMap fun d =>
    let (i, j, k, l) := d
    match F.torsion (row j) (row k) with
    | none => none
    | some (phi0, n, v) =>
      if closeToLinear i j k || closeToLinear j k l then none
      else some { kind := .torsion, idxs := [i, j, k, l], params := [phi0, n, v] }

/-- The decision for one improper: `none` = no term, `some none` = the `todo!()` abort, `some (some t)` = the term. -/
def inversionOf (F : UffFns R) (row : Nat → Nat) (bs : List Bond) (d : Improper) : Option (Option (UTerm R)) :=
  let (c, i, j, k) := d
  match F.inversion (row c) with
  | .carbon =>
    let bondedToO2 := (neighbours bs c).any fun a => F.isO2 (row a) && a != c
    let (c0, c1, c2, kc) := F.invCarbon bondedToO2
    some (some { kind := .inversion, idxs := [c, i, j, k], params := [c0, c1, c2, kc] })
  | .todo => some none
  | .table kc c0 c1 c2 => some (some { kind := .inversion, idxs := [c, i, j, k], params := [c0, c1, c2, kc] })
  | .skip => none

/-- One inversion per improper whose centre's type has constants; `none` in the list = the `todo!()` abort. -/
def addInversions (F : UffFns R) (row : Nat → Nat) (bs : List Bond) (impropers : List Improper) :
    List (Option (UTerm R)) :=
  impropers.filterMap (inversionOf F row bs)

def addVdw (F : UffFns R) (row : Nat → Nat) (nbPairs : List (Nat × Nat)) : List (UTerm R) :=
  nbPairs.map fun p =>
    { kind := .lj, idxs := [p.1, p.2], params := [F.ljSigma (row p.1) (row p.2), F.ljD (row p.1) (row p.2)] }

/-- `UFF::new` after typing: the term list in push order, or `none` if construction aborts. -/
def buildUFF (F : UffFns R) (row : Nat → Nat) (env : Nat → Env) (closeToLinear : Nat → Nat → Nat → Bool) (c : Conn) :
    Option (List (UTerm R)) :=
  let bends := addAngleBends F row env c.bonds c.angles
  let invs := addInversions F row c.bonds c.impropers
  if bends.all Option.isSome && invs.all Option.isSome then
    some (addBondStretches F row c.bonds ++ bends.filterMap id ++ addTorsions F row closeToLinear c.propers ++
      invs.filterMap id ++ addVdw F row c.nbPairs)
  else none

/-- `RB::new`: one harmonic bond per bond at the sum of covalent radii with the common force constant, one repulsion per
non-bonded pair with the common strength and exponent. -/
def buildRB (radius : Nat → R) (add : R → R → R) (k c : R) (expo : R) (conn : Conn) : List (UTerm R) :=
  (conn.bonds.map fun b => { kind := .bond, idxs := [b.i, b.j], params := [add (radius b.i) (radius b.j), k] }) ++
  (conn.nbPairs.map fun p => { kind := .repulsion, idxs := [p.1, p.2], params := [c, expo] })

end OptRs.Model
