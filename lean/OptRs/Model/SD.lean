/-
Hand model of the steepest-descent optimiser (src/opt/sd.rs), as a *reactive* machine: the force field is not a
function but whatever answers the requests, so theorems quantified over all answer lists cover UFF, RB and any
synthetic or stateful implementation of the `Forcefield` trait (including ones that answer NaN: in the abstract
order NaN is just a value for which every comparison is false, and the model compares exactly where the source does).

Generic in the scalar `R`; the driver instantiates it at `Float` with the constants translated from the source.
-/
namespace OptRs.Model

abbrev Vec3 (R : Type) := R × R × R
abbrev Geom (R : Type) := List (Vec3 R)

/-- The scalar operations the loop uses. -/
structure SDOps (R : Type) where
  /-- `x - alpha * g`, one coordinate. -/
  stepCoord : R → R → R → R
  /-- `alpha /= 2.` -/
  half : R → R
  /-- `energy[n-1] > energy[n-2]` -/
  gt : R → R → Bool
  /-- `grad_rms(g) < grad_rms_tolerance` -/
  converged : Geom R → Bool
  /-- `energy_history.len() < 5` window -/
  window : Nat

variable {R : Type}

/-- `for (i, v) in gradient.iter().enumerate() { coordinates[i] -= alpha * v }`: atoms beyond the gradient's length
are left alone (a gradient longer than the coordinate list would index out of bounds in the source; never the case
for a force field built for the molecule). -/
def stepGeom (ops : SDOps R) (alpha : R) : Geom R → Geom R → Geom R
  | p :: xs, v :: gs =>
    (ops.stepCoord p.1 alpha v.1, ops.stepCoord p.2.1 alpha v.2.1, ops.stepCoord p.2.2 alpha v.2.2) :: stepGeom ops alpha xs gs
  | xs, [] => xs
  | [], _ :: _ => []

inductive Ans (R : Type) where
  | e (v : R)
  | g (v : Geom R)

inductive Req (R : Type) where
  | energy (x : Geom R)
  | gradient (x : Geom R)

structure SDState (R : Type) where
  alpha : R
  iter : Nat
  hist : List R            -- oldest first
  x : Geom R

/-- One pass through the `while` body, recorded. -/
structure Pass (R : Type) where
  alphaBefore : R
  xBefore : Geom R
  energyAsked : Option R     -- the answer, if an energy was requested (at `xBefore`)
  restarted : Bool
  alphaAt : R                -- step length in force when the gradient was requested
  xAt : Geom R               -- geometry of the gradient request
  grad : Geom R              -- the answer
  converged : Bool
  xAfter : Geom R            -- coordinates at the end of the pass

/-- `energy_is_rising`. -/
def rising (ops : SDOps R) (hist : List R) : Bool :=
  match hist.reverse with
  | last :: prev :: _ => ops.gt last prev
  | _ => false

/-- One pass of the loop body, consuming answers. `none` when the answers run out or have the wrong kind
(the force field is then not an answerer of this run; never happens in the correspondence). -/
def pass (ops : SDOps R) (init : Geom R) (s : SDState R) (answers : List (Ans R)) :
    Option (Pass R × SDState R × List (Ans R)) :=
  -- 1. optional energy request
  let r1 : Option (Option R × List R × List (Ans R)) :=
    if s.hist.length < ops.window then
      match answers with
      | .e v :: rest => some (some v, s.hist ++ [v], rest)
      | _ => none
    else some (none, s.hist, answers)
  match r1 with
  | none => none
  | some (asked, hist, answers) =>
    -- 2. rise check: halve, clear, restore
    let up := rising ops hist
    let alpha := if up then ops.half s.alpha else s.alpha
    let hist := if up then [] else hist
    let x := if up then init else s.x
    -- 3. gradient request
    match answers with
    | .g g :: rest =>
      -- 4./5. convergence break or step
      let conv := ops.converged g
      let x' := if conv then x else stepGeom ops alpha x g
      let iter' := if conv then s.iter else s.iter + 1
      some ({ alphaBefore := s.alpha, xBefore := s.x, energyAsked := asked, restarted := up, alphaAt := alpha,
              xAt := x, grad := g, converged := conv, xAfter := x' },
            { alpha := alpha, iter := iter', hist := hist, x := x' }, rest)
    | _ => none

/-- Why the loop ended. `starved`: the answer list ran out (not a run of the optimiser against a force field). -/
inductive Outcome where
  | converged | budget | starved
deriving DecidableEq, Repr

/-- The `while self.iteration < self.max_num_iterations` loop; `fuel` = remaining iterations. -/
def runPasses (ops : SDOps R) (init : Geom R) : Nat → SDState R → List (Ans R) → List (Pass R) × SDState R × Outcome
  | 0, s, _ => ([], s, .budget)
  | fuel + 1, s, answers =>
    match pass ops init s answers with
    | none => ([], s, .starved)
    | some (p, s', rest) =>
      if p.converged then ([p], s', .converged)
      else
        let r := runPasses ops init fuel s' rest
        (p :: r.1, r.2.1, r.2.2)

/-- `SteepestDecentOptimiser::optimise` on start geometry `x₀` with budget `maxIter` and initial step `alpha₀`:
the passes made, the coordinates left in the molecule, and why it stopped. -/
def optimise (ops : SDOps R) (alpha₀ : R) (maxIter : Nat) (x₀ : Geom R) (answers : List (Ans R)) :
    List (Pass R) × Geom R × Outcome :=
  let r := runPasses ops x₀ maxIter { alpha := alpha₀, iter := 0, hist := [], x := x₀ } answers
  (r.1, r.2.1.x, r.2.2)

/-- The request history a recording force field sees. -/
def requests (ps : List (Pass R)) : List (Req R) :=
  ps.flatMap fun p => (match p.energyAsked with | some _ => [Req.energy p.xBefore] | none => []) ++ [Req.gradient p.xAt]

end OptRs.Model
