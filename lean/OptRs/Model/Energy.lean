/-
Hand model of the seven `EnergyFunction::energy` bodies (src/ff/{bonds,angles,dihedrals,nonbonded}.rs) with
the helpers they call (`distance`, `angle_value`, `phi`, `gamma`, `Vector3D::{dot,cross,length,divide_by}`),
as `Ex` trees that mirror the Rust operation order exactly — the bitwise correspondence with the Rust
functions (harness stream `terms`) is what ties this file to the code.

Variable numbering (shared with the translated gradients in `Gen/Grad.lean`): the coordinate `c` of the
atom at position `a` of the term's index list is `var (3a + c)`; float parameters are `var 20 ..` in the
order given per kind below.
-/
import OptRs.Calc.Ex
namespace OptRs.Model.Energy
open OptRs Ex

abbrev V3 := Ex × Ex × Ex

def two : Ex := .lit (.dec 20 1 0x4000000000000000)
def one : Ex := .lit (.dec 10 1 0x3FF0000000000000)
def three : Ex := .lit (.dec 30 1 0x4008000000000000)

/-- Position of the atom at place `a`. -/
def pos (a : Nat) : V3 := (.var (3 * a), .var (3 * a + 1), .var (3 * a + 2))
/-- `&p - &q`. -/
def vsub (p q : V3) : V3 := (.sub p.1 q.1, .sub p.2.1 q.2.1, .sub p.2.2 q.2.2)
/-- `Vector3D::dot`. -/
def dot (a b : V3) : Ex := .add (.add (.mul a.1 b.1) (.mul a.2.1 b.2.1)) (.mul a.2.2 b.2.2)
/-- `Vector3D::length`. -/
def len (a : V3) : Ex := .sqrt (.add (.add (.powi a.1 2) (.powi a.2.1 2)) (.powi a.2.2 2))
/-- `Vector3D::cross`. -/
def cross (a b : V3) : V3 :=
  (.sub (.mul a.2.1 b.2.2) (.mul a.2.2 b.2.1), .sub (.mul a.2.2 b.1) (.mul a.1 b.2.2), .sub (.mul a.1 b.2.1) (.mul a.2.1 b.1))
/-- `Vector3D::divide_by` (the divisor is computed before the division). -/
def vdiv (a : V3) (s : Ex) : V3 := (.div a.1 s, .div a.2.1 s, .div a.2.2 s)
def vneg (a : V3) : V3 := (.neg a.1, .neg a.2.1, .neg a.2.2)

/-- `pairs::distance(i, j, x)`. -/
def distance (i j : Nat) : Ex :=
  let p := pos i; let q := pos j
  .sqrt (.add (.add (.powi (.sub p.1 q.1) 2) (.powi (.sub p.2.1 q.2.1) 2)) (.powi (.sub p.2.2 q.2.2) 2))

/-- `coordinates::angle_value(i, j, k, x)`: the cosine is clamped to `[-1, 1]` before `acos` (rounding can
push it just outside for collinear atoms). -/
def angleValue (i j k : Nat) : Ex :=
  let rij := vsub (pos i) (pos j)
  let rkj := vsub (pos k) (pos j)
  .acos (.clamp1 (.div (dot rij rkj) (.mul (len rij) (len rkj))))

/-- `dihedrals::phi`. -/
def phi (i j k l : Nat) : Ex :=
  let rij := vsub (pos i) (pos j)
  let rlk := vsub (pos l) (pos k)
  let rkj := vsub (pos k) (pos j)
  let v0 := cross rij rkj
  let v0 := vdiv v0 (len v0)
  let v1 := cross (vneg rkj) rlk
  let v1 := vdiv v1 (len v1)
  let rkjn := vdiv rkj (len rkj)
  .neg (.atan2 (dot (cross v0 rkjn) v1) (dot v0 v1))

/-- `dihedrals::gamma(c, i, j, k)`. -/
def gamma (c i j k : Nat) : Ex :=
  let v0 := vsub (pos i) (pos c)
  let v1 := vsub (pos j) (pos c)
  let v2 := cross v0 v1
  let v3 := vsub (pos k) (pos c)
  .acos (.div (dot v2 v3) (.mul (len v2) (len v3)))

/-- HarmonicBond: atoms i j; parameters r0 = var 20, k_ij = var 21. -/
def bondE : Ex := .mul (.div (.var 21) two) (.powi (.sub (distance 0 1) (.var 20)) 2)

/-- HarmonicAngleTypeA: atoms i j k; parameters k_ijk = var 20, n = var 21. -/
def angleAE : Ex :=
  .mul (.div (.var 20) (.powi (.var 21) 2)) (.sub one (.cos (.mul (.var 21) (angleValue 0 1 2))))

/-- HarmonicAngleTypeB: atoms i j k; parameters k_ijk = var 20, c0 c1 c2 = var 21 22 23. -/
def angleBE : Ex :=
  let θ := angleValue 0 1 2
  .mul (.var 20) (.add (.add (.var 21) (.mul (.var 22) (.cos θ))) (.mul (.var 23) (.cos (.mul two θ))))

/-- TorsionalDihedral: atoms i j k l; parameters phi0 = var 20, n_phi = var 21, v_phi = var 22. -/
def torsionE : Ex :=
  .mul (.div (.var 22) two)
    (.sub one (.mul (.cos (.mul (.var 21) (.var 20))) (.cos (.mul (.var 21) (phi 0 1 2 3)))))

/-- `InversionDihedral::e_gamma`; parameters c0 c1 c2 = var 20 21 22, k_cijk = var 23. -/
def eGamma (γ : Ex) : Ex :=
  .mul (.var 23) (.add (.add (.var 20) (.mul (.var 21) (.sin γ))) (.mul (.var 22) (.cos (.mul two γ))))

/-- InversionDihedral: atoms c i j k (positions 0 1 2 3). -/
def inversionE : Ex :=
  .div (.add (.add (eGamma (gamma 0 1 2 3)) (eGamma (gamma 0 3 1 2))) (eGamma (gamma 0 2 3 1))) three

/-- LennardJones12x6: atoms i j; parameters sigma = var 20, d = var 21. -/
def ljE : Ex :=
  let q := Ex.div (.var 20) (distance 0 1)
  .mul (.var 21) (.sub (.powi q 12) (.mul two (.powi q 6)))

/-- RepulsiveInverseDistance with integer exponent `n`: atoms i j; parameter c = var 20. -/
def repulsionE (n : Nat) : Ex := .div (.var 20) (.powi (distance 0 1) n)

end OptRs.Model.Energy
