/-
Hand model of bond perception (`Molecule::add_bonds`, `add_bond`, `Neighbours`, `Molecule::set_bond_orders`,
`Bond::set_possible_bond_order`, the hypervalency refinement in src/atoms.rs).

Geometry enters only through the candidate lists: `cands i` is what `Neighbours::from_atom_and_molecule(i)`
yields — the atoms `j` with `could_be_bonded_to(i, j)`, nearest first. The theorems hold for ANY candidate
order; the driver computes the lists at `f64` exactly as the source does (stable sort by distance).
-/
import OptRs.Model.Topology
import OptRs.Model.Atoms
namespace OptRs.Model

/-- Number of bonds containing atom `a` (what `add_bond` counts as `n_bonds`). -/
def deg (bs : List Bond) (a : Nat) : Nat := (bs.filter (·.contains a)).length

/-- `Molecule::add_bond`: refuse a pair already bonded (either direction), refuse if either end is saturated. -/
def addBond (cap : Nat → Nat) (bs : List Bond) (i j : Nat) : List Bond :=
  if bs.any (fun b => b.key == pairKey i j) then bs
  else if cap i ≤ deg bs i ∨ cap j ≤ deg bs j then bs
  else bs ++ [{ i := i, j := j }]

/-- The two nested loops of `add_bonds` (before bond orders are assigned). -/
def perceiveBonds (n : Nat) (cands : Nat → List Nat) (cap : Nat → Nat) : List Bond :=
  (List.range n).foldl (fun bs i => (cands i).foldl (fun bs j => addBond cap bs i j) bs) []

/-! ### Bond orders (`Molecule::set_bond_orders`) -/

/-- `Atom::can_form_multiple_bonds`. -/
def canFormMultipleBonds (z : Nat) : Bool := group z == 14 || group z == 15 || group z == 16

/-- `Atom::num_possible_unpaired_electrons` with `nn` bonded neighbours. -/
def numUnpaired (z : Nat) (nn : Nat) : Int :=
  let g := group z
  if g < 13 then 0
  else
    let valence : Int := if g = 13 then 3 else if g = 14 then 4 else if g = 15 then 5 else if g = 16 then 6 else if g = 17 then 7 else g
    let lone : Int := if g = 15 then 2 else if g = 16 then 4 else if g = 17 then 6 else 0
    valence - nn - lone

/-- `Bond::set_possible_bond_order`. -/
def possibleOrder (zs : List Nat) (bs : List Bond) (b : Bond) : BondOrder :=
  let zi := zs.getD b.i 0
  let zj := zs.getD b.j 0
  if !(canFormMultipleBonds zi && canFormMultipleBonds zj) then .single
  else
    let n := numUnpaired zi (neighbours bs b.i).length
    let m := numUnpaired zj (neighbours bs b.j).length
    let x := max n m
    if x = 1 then .double else if x = 2 then .triple else .single

/-- Twice `group − 10 + Σ order` over the bonds containing the atom (the quantity `is_hypervalent` compares with 8). -/
def hyperTwice (z : Nat) (a : Nat) (bs : List Bond) : Int :=
  2 * ((group z : Int) - 10) + ((bs.filter (·.contains a)).map (fun b => (b.order.twice : Int))).sum

/-- `Atom::is_hypervalent`. -/
def isHypervalent (z a : Nat) (bs : List Bond) : Bool := isMainGroup z && decide (16 < hyperTwice z a bs)

/-- `reduce_two_double_bonds_to_aromatic`. -/
def reduceDoubles (a : Nat) (bs : List Bond) : List Bond :=
  if (bs.filter (fun b => b.contains a && b.order == .double)).length < 2 then bs
  else bs.map fun b => if b.contains a && b.order == .double then { b with order := .aromatic } else b

/-- `reduce_triple_bond_to_single` (only when the atom has more than two neighbours). -/
def reduceTriples (a : Nat) (nn : Nat) (bs : List Bond) : List Bond :=
  bs.map fun b => if b.contains a && b.order == .triple && decide (2 < nn) then { b with order := .single } else b

/-- `Molecule::set_bond_orders`: guess every order from the neighbour counts, then refine period-2 hypervalent atoms in index order. -/
def assignOrders (zs : List Nat) (bs : List Bond) : List Bond :=
  let guessed := bs.map fun b => { b with order := possibleOrder zs bs b }
  (List.range zs.length).foldl (fun cur a =>
    let z := zs.getD a 0
    if isHypervalent z a cur && period z == some 2 then
      reduceTriples a (neighbours bs a).length (reduceDoubles a cur)
    else cur) guessed

/-- `Molecule::add_bonds`. -/
def addBonds (zs : List Nat) (cands : Nat → List Nat) : List Bond :=
  assignOrders zs (perceiveBonds zs.length cands (fun a => maximalValence (zs.getD a 0)))

/-- `from_atomic_nums_and_coords` / `generate_connectivty`: perceive, then derive everything on a cleared record. -/
def perceiveAll (zs : List Nat) (cands : Nat → List Nat) : Conn :=
  Conn.ofBonds zs.length (addBonds zs cands)

end OptRs.Model
