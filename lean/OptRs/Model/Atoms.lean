/-
Hand model of the periodic-table layer of src/atoms.rs (`AtomicNumber`), over the translated tables.
Tied to the code by an exhaustive correspondence (Z = 0..130, all symbols, a stream of non-symbols).
-/
import OptRs.Gen.Tables
namespace OptRs.Model
open OptRs.Gen

/-- `AtomicNumber::from_integer`. -/
def fromInteger (z : Nat) : Option Nat :=
  if z = 0 ∨ z > elements.length then none else some z

/-- `AtomicNumber::from_string` (exact, case-sensitive match against `ELEMENTS`). -/
def fromString (s : List Nat) : Option Nat :=
  if s ∈ elements then some (elements.idxOf s + 1) else none

/-- `AtomicNumber::to_atomic_symbol`; defined for 1 ≤ z ≤ 118 (the Rust code indexes out of bounds otherwise). -/
def toSymbol (z : Nat) : List Nat := elements.getD (z - 1) []

/-- `AtomicNumber::group`, written as the source is (`index = z - 1`). -/
def group (z : Nat) : Nat :=
  let index := z - 1
  if index = 0 then 1
  else if (56 ≤ index ∧ index ≤ 70) ∨ (88 ≤ index ∧ index ≤ 102) then 0
  else
    let x := index + 16
    let x := if index > 3 then x + 10 else x
    let x := if index > 11 then x + 10 else x
    let x := if index > 55 then x - 14 else x
    let x := if index > 87 then x - 14 else x
    x % 18 + 1

/-- `AtomicNumber::period`; `none` is the panic branch. -/
def period (z : Nat) : Option Nat :=
  if 0 < z ∧ z < 3 then some 1
  else if 2 < z ∧ z < 11 then some 2
  else if 10 < z ∧ z < 19 then some 3
  else if 18 < z ∧ z < 37 then some 4
  else if 36 < z ∧ z < 55 then some 5
  else if 54 < z ∧ z < 87 then some 6
  else if 86 < z ∧ z < 119 then some 7
  else none

def isMainGroup (z : Nat) : Bool := decide (toSymbol z ∈ mainGroupElements)
def isMetal (z : Nat) : Bool := decide (toSymbol z ∈ metallicElements)

/-- Tabulated covalent radius in picometres, if the table reaches `z`. -/
def radiusPm? (z : Nat) : Option Num := covalentRadiiPm[z - 1]?

/-- `AtomicNumber::maximal_valence`. -/
def maximalValence (z : Nat) : Nat := (maximalValencies[z - 1]?).getD defaultValence

/-- Tabulated electronegativity, if the table reaches `z`. -/
def electronegativity? (z : Nat) : Option Num := gmpElectronegativities[z - 1]?

/-- `AtomicNumber::covalent_radius` at `f64`: table entry × 0.01, or the default. -/
def covalentRadiusF (z : Nat) : Float :=
  match radiusPm? z with
  | some pm => pm.toFloat * picometersToAngstroms.toFloat
  | none => defaultRadius.toFloat

/-- `AtomicNumber::gmp_electronegativity` at `f64`. -/
def electronegativityF (z : Nat) : Float :=
  match electronegativity? z with
  | some v => v.toFloat
  | none => defaultElectronegativity.toFloat

/-- `Atom::is_a_transition_metal`. -/
def isTransitionMetal (a : Nat) : Bool :=
  (a < 31 && a > 20) || (a < 48 && a > 38) || (a < 81 && a > 71) || (a < 113 && a > 103)

end OptRs.Model
