/-
Hand model of the scripting interface (`PyMoleculeWrapper` in src/lib.rs) as a state machine over the molecule record,
written as the source is: `generate_connectivty` is `clear; add_bonds; add_angles; add_dihedrals; add_non_bonded_pairs`
(where `add_angles` / `add_dihedrals` ADD to whatever is in the sets), `set_bond_orders` clears and inserts as it goes.
Generic in the coordinate type; perception sees coordinates only through the candidate lists `cands coords i`.
-/
import OptRs.Model.Perceive
import OptRs.Gen.Tables
namespace OptRs.Model

structure WState (X : Type) where
  zs : List Nat
  coords : List X
  conn : Conn
deriving Repr

variable {X : Type}

/-- `Connectivity::clear` (bonds, angles, both dihedral sets; the non-bonded pair list is a separate field and is NOT cleared). -/
def Conn.clear (c : Conn) : Conn := { c with bonds := [], angles := [], propers := [], impropers := [] }

/-- The four fills, on whatever the record holds: `add_bonds` (which clears the bond set itself), then `Conn.derive`. -/
def fills (cands : List X → Nat → List Nat) (zs : List Nat) (coords : List X) (c : Conn) : Conn :=
  Conn.derive zs.length { c with bonds := addBonds zs (cands coords) }

/-- `Molecule::from_atomic_nums_and_coords` (the file path: `from_xyz_file` hands it what the reader returned). -/
def fromNumsAndCoords (cands : List X → Nat → List Nat) (zs : List Nat) (coords : List X) : WState X :=
  { zs := zs, coords := coords, conn := fills cands zs coords {} }

/-- `PyMoleculeWrapper::from_atomic_symbols`: all atoms at the origin, then the same constructor. -/
def fromSymbols (cands : List X → Nat → List Nat) (origin : X) (zs : List Nat) : WState X :=
  fromNumsAndCoords cands zs (zs.map fun _ => origin)

/-- `set_coordinates`: length check first, then component-wise copy (here: whole points, `pts` already grouped in threes;
`flatLen` is the length of the flat list that was passed). -/
def setCoordinates (s : WState X) (flatLen : Nat) (pts : List X) : Except WrapErr (WState X) :=
  if flatLen ≠ 3 * s.zs.length then .error .wrongLength else .ok { s with coords := pts }

/-- `generate_connectivty`. -/
def generateConnectivity (cands : List X → Nat → List Nat) (s : WState X) : WState X :=
  { s with conn := fills cands s.zs s.coords s.conn.clear }

/-- A variant that forgets to clear (negative control only). -/
def generateConnectivityNoClear (cands : List X → Nat → List Nat) (s : WState X) : WState X :=
  { s with conn := fills cands s.zs s.coords s.conn }

/-- `set_bond_orders`, state-passing: on success everything is rebuilt from the new bonds on the cleared record; a wrong
size is refused before anything is touched; an unsupported value aborts after the clear (the record is then cleared,
holding the bonds inserted so far — what a caller that catches the exception would see). -/
def wSetBondOrders (s : WState X) (m : List Entry) : Except WrapErr (WState X) × WState X :=
  let n := s.zs.length
  if m.length ≠ n ^ 2 then (.error .wrongSize, s)
  else match matrixBonds n m with
    | .error e => (.error e, { s with conn := s.conn.clear })
    | .ok bs =>
      let s' := { s with conn := Conn.derive n { s.conn.clear with bonds := bs } }
      (.ok s', s')

/-- `build_3d`'s guard. -/
def build3dGuard (s : WState X) : Except WrapErr Unit :=
  if s.zs.length > 1 ∧ s.conn.bonds.isEmpty then .error .noBonds else .ok ()

/-- `Molecule::build_3d`: `randomise` and `opt` are arbitrary (whatever the random placement and the optimiser do to the
coordinates); `opt` is given the iteration budget and the record as it stands at that moment (bonds re-inserted so far,
the ORIGINAL non-bonded pair list — the source does not rebuild it inside the loop). -/
def build3d (randomise : List X → List X) (opt : Nat → Conn → List X → List X) (s : WState X) : WState X :=
  let x0 := randomise s.coords
  let all := s.conn.bonds
  let r := all.foldl (fun (acc : List Bond × List X) b =>
    let xs := opt OptRs.Gen.build3dIterations { s.conn with bonds := acc.1 } acc.2
    (insertByKey Bond.key acc.1 b, xs)) ([], x0)
  { s with coords := opt OptRs.Gen.sdMaxIterations { s.conn with bonds := r.1 } r.2, conn := { s.conn with bonds := r.1 } }


end OptRs.Model
