/-
`generate_atom_types.py` re-expressed in Lean over exact decimals and code-point lists: what the shipped generator
makes of one line of the shipped source data `atom_types.txt`. Used by C12's table-identity theorem.
-/
import OptRs.Gen.AtomTypes
namespace OptRs.Model.GenTypes
open OptRs OptRs.Gen

def us : Nat := 95     -- '_'
def plus : Nat := 43   -- '+'

def endsWith (l suf : List Nat) : Bool := l.reverse.take suf.length == suf.reverse

/-- `name[0] if '_' in name else name[:2]` -/
def symbolOf (name : List Nat) : List Nat := if name.contains us then name.take 1 else name.take 2

/-- `n_to_valency[name[2]]`: `some (some v)` an integer, `some none` = depends on the group, `none` = KeyError. -/
def nToValency (c : Nat) : Option (Option Nat) :=
  if c = 49 then some none            -- '1'
  else if c = 50 then some (some 3)   -- '2'
  else if c = 82 then some (some 3)   -- 'R'
  else if c = 51 then some none       -- '3'
  else if c = 52 then some (some 4)
  else if c = 53 then some (some 5)
  else if c = 54 then some (some 6)
  else none

/-- `AtomType._valency` (`none` = the generator would raise). -/
def valencyOf (name : List Nat) : Option Nat :=
  let sym := symbolOf name
  if endsWith name [us] then some 1
  else if endsWith name [us, 98] then some 2           -- bridging: '_b'
  else if name.length ≤ 2 then some 0
  else
    let c := name.getD 2 0
    match nToValency c with
    | none => none
    | some (some v) => some v
    | some none =>
      if c = 51 ∧ genGroup14.contains sym then some 4
      else if c = 51 ∧ genGroup15.contains sym then some 3
      else if c = 51 ∧ genGroup16.contains sym then some 2
      else if c = 49 then (if genGroup14.contains sym then some 2 else some 1)
      else some 4

/-- `name.split('+')[1]`, then `int(val) if val != 'q' else 4`; 0 when there is no '+'; `none` = `int()` would raise. -/
def oxidationOf (name : List Nat) : Option Nat :=
  match (name.splitOn plus) with
  | _ :: v :: _ =>
    if v = [113] then some 4
    else if v ≠ [] ∧ v.all (fun c => decide (48 ≤ c ∧ c ≤ 57)) then some (v.foldl (fun a c => 10 * a + (c - 48)) 0)
    else none
  | _ => some 0

/-- `f'{DEG_TO_RAD * deg:.5f}'` as an integer number of 10⁻⁵ rad (exact decimal product, rounded to nearest). -/
def theta5 (deg : Num) : Option Nat :=
  match deg, degToRad with
  | .dec n s _, .dec m t _ =>
    if n < 0 ∨ m < 0 then none else
    let num := n.toNat * m.toNat * 10 ^ 5
    let den := 10 ^ (s + t)
    some ((2 * num + den) / (2 * den))
  | _, _ => none

/-- The value of a table angle in 10⁻⁵ rad: the compiled `PI` / `FRAC_PI_2` count as the five-decimal values they
replaced (3.14159 / 1.57080). -/
def tableTheta5 : Num → Option Nat
  | .dec n s _ => if n < 0 then none else if s ≤ 5 then some (n.toNat * 10 ^ (5 - s)) else
      (if n.toNat % 10 ^ (s - 5) = 0 then some (n.toNat / 10 ^ (s - 5)) else none)
  | .pi => some 314159
  | .halfPi => some 157080

def numEq (a b : Num) : Bool := a.decEq? b == some true

/-- `sp3_torsional_barriers.get(name, 0.0)` -/
def vTorsionOf (name : List Nat) : Num :=
  match sp3TorsionalBarriers.find? (·.1 = name) with
  | some (_, v) => v
  | none => .dec 0 1 0

/-- Does the compiled row equal what the generator makes of the source line? Text fields exactly, numbers by value. -/
def rowMatches (t : AtomTypeRow) (s : SourceRow) : Bool :=
  t.name == s.name && t.symbol == symbolOf s.name &&
  t.bridging == endsWith s.name [us, 98] && t.aromatic == endsWith s.name [us, 82] &&
  some t.valency == valencyOf s.name && some t.oxidationState == oxidationOf s.name &&
  numEq t.r s.r && (tableTheta5 t.theta).isSome && tableTheta5 t.theta == theta5 s.thetaDeg &&
  numEq t.x s.x && numEq t.d s.d && numEq t.zeta s.zeta && numEq t.zEff s.z && numEq t.vPhi (vTorsionOf s.name)

/-- Rows of the compiled table that differ from the generated one (name code points, for the search). -/
def mismatches : List (List Nat) :=
  ((atomTypes.zip sourceRows).filter fun p => !rowMatches p.1 p.2).map (·.1.name)

end OptRs.Model.GenTypes
