/-
Hand model of the connectivity layer (src/molecule.rs `add_angles`, `add_dihedrals`, `add_non_bonded_pairs`,
src/connectivity/*, src/pairs.rs) and of `set_bond_orders` in src/lib.rs.

`HashSet`s are modelled as lists without two entries of the same *key* (the direction-insensitive
`ordered()` value the Rust `Eq`/`Hash` impls use); an insertion of an element whose key is present keeps the
old element, as `HashSet::insert` does. Every loop over a set takes the list in the order given: theorems
quantify over that order (all permutations = all hash seeds).
-/
namespace OptRs.Model

inductive BondOrder where
  | single | aromatic | double | triple | quadruple
deriving DecidableEq, Repr, Inhabited

/-- `BondOrder::iterator()` order. -/
def BondOrder.all : List BondOrder := [.single, .aromatic, .double, .triple, .quadruple]

/-- Twice the bond-order value (1, 1.5, 2, 3, 4), to stay in ℕ. -/
def BondOrder.twice : BondOrder → Nat
  | .single => 2 | .aromatic => 3 | .double => 4 | .triple => 6 | .quadruple => 8

structure Bond where
  i : Nat
  j : Nat
  order : BondOrder := .single
deriving DecidableEq, Repr, Inhabited

/-- `AtomPair::ordered` — the key bonds are compared and hashed by. -/
def pairKey (i j : Nat) : Nat × Nat := if i < j then (i, j) else (j, i)
def Bond.key (b : Bond) : Nat × Nat := pairKey b.i b.j
def Bond.contains (b : Bond) (a : Nat) : Bool := a == b.i || a == b.j
/-- `Bond::other`. -/
def Bond.other (b : Bond) (a : Nat) : Option Nat :=
  if a = b.i then some b.j else if a = b.j then some b.i else none

/-- Insert keeping the first element of each key (`HashSet::insert`). -/
def insertByKey {α κ : Type} [DecidableEq κ] (key : α → κ) (l : List α) (x : α) : List α :=
  if key x ∈ l.map key then l else l ++ [x]

/-- Insert a whole sequence, in order. -/
def insertAllByKey {α κ : Type} [DecidableEq κ] (key : α → κ) (l : List α) (xs : List α) : List α :=
  xs.foldl (insertByKey key) l

/-- `contains_bond_between(i, j)`. -/
def bonded (bs : List Bond) (i j : Nat) : Bool :=
  i != j && bs.any (fun b => b.key == pairKey i j)

/-! ### Angles -/

abbrev Angle := Nat × Nat × Nat
/-- `Angle::ordered`. -/
def angleKey (a : Angle) : Nat × Nat × Nat := if a.1 < a.2.2 then a else (a.2.2, a.2.1, a.1)

/-- The triple loop of `add_angles` (j outermost, then i, then k), as the sequence of insertions it makes. -/
def angleInsertions (n : Nat) (bs : List Bond) : List Angle :=
  (List.range n).flatMap fun j =>
    (List.range n).flatMap fun i =>
      if bonded bs i j then
        (List.range n).filterMap fun k => if i ≠ k ∧ bonded bs j k then some (i, j, k) else none
      else []

/-- `add_angles`: adds to the existing set (it does *not* clear it). -/
def addAngles (n : Nat) (bs : List Bond) (angles : List Angle) : List Angle :=
  if n < 3 ∨ bs.isEmpty then angles else insertAllByKey angleKey angles (angleInsertions n bs)

/-! ### Dihedrals -/

/-- Insertion sort on indices (structural, so it evaluates in the kernel). -/
def insertNat (x : Nat) : List Nat → List Nat
  | [] => [x]
  | y :: ys => if x ≤ y then x :: y :: ys else y :: insertNat x ys
def sortNat (l : List Nat) : List Nat := l.foldr insertNat []

/-- `Molecule::atoms()[a].bonded_neighbours`: the other ends of the bonds containing `a`, sorted by index (the source
collects them in set order and then sorts, so the list does not depend on the hash seed). -/
def neighbours (bs : List Bond) (a : Nat) : List Nat := sortNat (bs.filterMap fun b => b.other a)

abbrev Proper := Nat × Nat × Nat × Nat
/-- `ProperDihedral::ordered`. -/
def properKey (d : Proper) : Nat × Nat × Nat × Nat :=
  if d.1 < d.2.2.2 then d else (d.2.2.2, d.2.2.1, d.2.1, d.1)

/-- Insertions of `add_proper_dihedrals`: per bond, neighbours of each end excluding the other end and
(three-membered rings) excluding paths that return to their first atom. -/
def properInsertions (bs : List Bond) : List Proper :=
  bs.flatMap fun b =>
    (neighbours bs b.i).flatMap fun ni =>
      if ni = b.j then []
      else (neighbours bs b.j).filterMap fun nj =>
        if nj = b.i ∨ ni = nj then none else some (ni, b.i, b.j, nj)

/-- Improper (centre, i, j, k) and its key: centre first, the other three sorted. -/
abbrev Improper := Nat × Nat × Nat × Nat
def sort3 (a b c : Nat) : Nat × Nat × Nat :=
  let (a, b) := if a ≤ b then (a, b) else (b, a)
  let (b, c) := if b ≤ c then (b, c) else (c, b)
  let (a, b) := if a ≤ b then (a, b) else (b, a)
  (a, b, c)
def improperKey (d : Improper) : Nat × Nat × Nat × Nat := (d.1, sort3 d.2.1 d.2.2.1 d.2.2.2)

/-- Insertions of `add_improper_dihedrals`: one per atom with exactly three neighbours. -/
def improperInsertions (n : Nat) (bs : List Bond) : List Improper :=
  (List.range n).filterMap fun c =>
    match neighbours bs c with
    | [i, j, k] => some (c, i, j, k)
    | _ => none

/-- `add_dihedrals`. -/
def addDihedrals (n : Nat) (bs : List Bond) (ps : List Proper) (is : List Improper) : List Proper × List Improper :=
  if n < 4 then (ps, is)
  else (insertAllByKey properKey ps (properInsertions bs), insertAllByKey improperKey is (improperInsertions n bs))

/-! ### Non-bonded pairs -/

/-- `add_non_bonded_pairs`: rebuilt from scratch, all `i > j` not bonded, `i` outer, `j` inner. -/
def nonBondedPairs (n : Nat) (bs : List Bond) : List (Nat × Nat) :=
  (List.range n).flatMap fun i =>
    (List.range n).filterMap fun j => if bonded bs i j then none else if i ≤ j then none else some (i, j)

/-! ### The connectivity record and the matrix interface -/

structure Conn where
  bonds : List Bond := []
  angles : List Angle := []
  propers : List Proper := []
  impropers : List Improper := []
  nbPairs : List (Nat × Nat) := []
deriving Repr, Inhabited

/-- `add_angles; add_dihedrals; add_non_bonded_pairs` on a record whose bonds are already in place. -/
def Conn.derive (n : Nat) (c : Conn) : Conn :=
  let angles := addAngles n c.bonds c.angles
  let (ps, is) := addDihedrals n c.bonds c.propers c.impropers
  { c with angles := angles, propers := ps, impropers := is, nbPairs := nonBondedPairs n c.bonds }

/-- Everything derived from a bond list on a cleared record. -/
def Conn.ofBonds (n : Nat) (bs : List Bond) : Conn := Conn.derive n { bonds := bs }

/-- How `set_bond_orders` reads one matrix entry: close to zero, a supported order, or unsupported. -/
inductive Entry where
  | zero
  | ord (o : BondOrder)
  | bad
deriving DecidableEq, Repr, Inhabited

inductive WrapErr where
  | wrongSize | badOrder | wrongLength | noBonds
deriving DecidableEq, Repr

/-- The bond insertions of `set_bond_orders`: flat index `k`, row `k / n`, column `k % n`; entries with
`column ≤ row` or close to zero are skipped; an unsupported value aborts. -/
def matrixBonds (n : Nat) (m : List Entry) : Except WrapErr (List Bond) :=
  go 0 m []
where
  go (k : Nat) : List Entry → List Bond → Except WrapErr (List Bond)
    | [], acc => .ok acc
    | e :: rest, acc =>
      let i := k / n
      let j := k % n
      if j ≤ i then go (k + 1) rest acc
      else match e with
        | .zero => go (k + 1) rest acc
        | .bad => .error .badOrder
        | .ord o => go (k + 1) rest (insertByKey Bond.key acc { i := i, j := j, order := o })

/-- `PyMoleculeWrapper::set_bond_orders` on a molecule of `n` atoms. -/
def setBondOrders (n : Nat) (m : List Entry) : Except WrapErr Conn :=
  if m.length ≠ n ^ 2 then .error .wrongSize
  else match matrixBonds n m with
    | .error e => .error e
    | .ok bs => .ok (Conn.ofBonds n bs)

end OptRs.Model
