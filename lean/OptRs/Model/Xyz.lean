/-
Hand model of the xyz reader and writer (src/io/xyz.rs, `Point::from_option_strings`, `AtomicNumber::from_option_string`).

Text is handled as lines of characters. The numeric layer is abstract in the theorems (`parseNum`, `parseSym`,
the formatted coordinate strings); the driver instantiates it with exact decimal ↔ binary64 conversions that the
correspondence validates against `f64::from_str` / `format!("{:11.6}")`.
-/
namespace OptRs.Model.Xyz

/-- Unicode `White_Space` (what `str::split_whitespace` splits on). -/
def isWs (c : Char) : Bool :=
  let n := c.toNat
  (9 ≤ n && n ≤ 13) || n == 32 || n == 0x85 || n == 0xA0 || n == 0x1680 || (0x2000 ≤ n && n ≤ 0x200A) ||
  n == 0x2028 || n == 0x2029 || n == 0x202F || n == 0x205F || n == 0x3000

/-- `split_whitespace`, with the token being built kept reversed in `cur`. -/
def tokensAux : List Char → List Char → List (List Char)
  | [], cur => if cur.isEmpty then [] else [cur.reverse]
  | c :: cs, cur =>
    if isWs c then (if cur.isEmpty then tokensAux cs [] else cur.reverse :: tokensAux cs [])
    else tokensAux cs (c :: cur)

def tokens (l : List Char) : List (List Char) := tokensAux l []

/-! ### Writer -/

/-- `{:<3}`: left-aligned, padded with spaces to width 3. -/
def padRight (w : Nat) (s : List Char) : List Char := s ++ List.replicate (w - s.length) ' '
/-- `{:11}` on a number: right-aligned, padded with spaces to width 11. -/
def padLeft (w : Nat) (s : List Char) : List Char := List.replicate (w - s.length) ' ' ++ s

/-- One atom line of `XYZFile::write`: `format!("{an:<3} {x:11.6} {y:11.6} {z:11.6}")`, given the three numbers
already formatted with six decimals. -/
def writeLine (sym fx fy fz : List Char) : List Char :=
  padRight 3 sym ++ [' '] ++ padLeft 11 fx ++ [' '] ++ padLeft 11 fy ++ [' '] ++ padLeft 11 fz

/-- The whole file: atom count, empty comment line, one line per atom; every line terminated by `\n`. -/
def writeFile (count : List Char) (atoms : List (List Char × List Char × List Char × List Char)) : List (List Char) :=
  count :: [] :: atoms.map fun a => writeLine a.1 a.2.1 a.2.2.1 a.2.2.2

/-! ### Reader -/

variable {F : Type}

/-- `append_atom_on_line`: symbol from the first token, coordinates from the next three; both must parse before
anything is stored. Further tokens are ignored. `none` = the line is skipped with a warning. -/
def parseLine (parseSym : List Char → Option Nat) (parseNum : List Char → Option F) (line : List Char) :
    Option (Nat × F × F × F) :=
  match tokens line with
  | s :: x :: y :: z :: _ =>
    match parseSym s, parseNum x, parseNum y, parseNum z with
    | some a, some x, some y, some z => some (a, x, y, z)
    | _, _, _, _ => none
  | _ => none

/-- One line as `BufRead::lines` yields it (`none` = not valid UTF-8, which the source skips); empty lines are skipped. -/
def atomOfLine (parseSym : List Char → Option Nat) (parseNum : List Char → Option F) (l : Option (List Char)) :
    Option (Nat × F × F × F) :=
  match l with
  | none => none
  | some l => if l.isEmpty then none else parseLine parseSym parseNum l

/-- `XYZFile::read` after the `.xyz` suffix check: the first two lines are skipped; failure iff no atom was read. -/
def readLines (parseSym : List Char → Option Nat) (parseNum : List Char → Option F) (lines : List (Option (List Char))) :
    Option (List (Nat × F × F × F)) :=
  let atoms := (lines.drop 2).filterMap (atomOfLine parseSym parseNum)
  if atoms.isEmpty then none else some atoms

/-- What the caller sees: the two parallel lists of `XYZFile`. -/
def result (r : List (Nat × F × F × F)) : List Nat × List (F × F × F) := (r.map (·.1), r.map (·.2))

end OptRs.Model.Xyz
