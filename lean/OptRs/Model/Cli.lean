/-
Hand model of the command-line front end (src/cli.rs `run`, the clap definition, the `.xyz` suffix check in
`XYZFile::read`): argument parsing as clap documents it for `[file] [-f|--forcefield NAME]` with default `UFF`, then
read → select force field → optimise → write `opt.xyz`. The file system is a map from names to contents.
-/
namespace OptRs.Model.Cli

inductive FFChoice where | uff | rb
deriving DecidableEq, Repr

inductive Outcome (M : Type) where
  | refuse                      -- non-zero exit, nothing written
  | wrote (m : M)               -- exit 0, `opt.xyz` holds the text of `m`
deriving Repr

abbrev Str := List Char

/-- clap: one positional, an option `-f` / `--forcefield` taking a value (attached with `=` or as the next argument, or
glued to the short flag), default "UFF"; anything else is a usage error. Arguments are character lists (string
functions do not evaluate in the kernel). -/
def parseArgs (args : List Str) : Option (Str × Str) :=
  go args none none
where
  go : List Str → Option Str → Option Str → Option (Str × Str)
    | [], file, ff => match file with
      | some f => some (f, ff.getD "UFF".toList)
      | none => none
    | a :: more, file, ff =>
      if a = "-f".toList ∨ a = "--forcefield".toList then
        match more with
        | v :: more' => if ff.isSome then none else go more' file (some v)
        | [] => none
      else if "--forcefield=".toList.isPrefixOf a then
        if ff.isSome then none else go more file (some (a.drop 13))
      else if "-f".toList.isPrefixOf a ∧ ¬ "--".toList.isPrefixOf a then
        if ff.isSome then none else go more file (some (if "=".toList.isPrefixOf (a.drop 2) then a.drop 3 else a.drop 2))
      else if "-".toList.isPrefixOf a ∧ a ≠ "-".toList then none
      else match file with
        | some _ => none
        | none => go more (some a) ff

/-- `match args.forcefield.as_str()` -/
def chooseFF (name : Str) : Option FFChoice :=
  if name = "UFF".toList then some .uff else if name = "RB".toList then some .rb else none

/-- `filename.ends_with(".xyz")` -/
def isXyz (file : Str) : Bool := ".xyz".toList.reverse.isPrefixOf file.reverse

variable {M : Type}

/-- `main`: parse; refuse a name not ending in `.xyz` (panic before anything else) or an unreadable file; build the
molecule; refuse an unknown force-field name (the panic happens BEFORE `write_xyz_file`); optimise; write `opt.xyz`. -/
def run (readMol : Str → Option M) (optimise : FFChoice → M → M) (args : List Str) : Outcome M :=
  match parseArgs args with
  | none => .refuse
  | some (file, ffName) =>
    if ¬ isXyz file then .refuse
    else match readMol file with
      | none => .refuse
      | some m =>
        match chooseFF ffName with
        | none => .refuse
        | some ff => .wrote (optimise ff m)

/-- The file system after the run: `opt.xyz` is (over)written exactly on success. -/
def fsAfter (fs : Str → Option M) (o : Outcome M) : Str → Option M :=
  match o with
  | .refuse => fs
  | .wrote m => fun name => if name = "opt.xyz".toList then some m else fs name

end OptRs.Model.Cli
