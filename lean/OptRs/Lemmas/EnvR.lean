/-
Generic facts about `Prog.envR` for well-wellScoped `let` lists: every `let` variable holds the value of its
definition *read in the final environment*, and variables below the first binder are untouched. This lets a
proof name each `let` once and never re-expand it.
-/
import OptRs.Calc.Real

namespace OptRs

namespace Ex

/-- All variables of the expression are `< n`. -/
def varsLt (n : Nat) : Ex → Bool
  | var m => decide (m < n)
  | lit _ => true
  | nat _ => true
  | add a b => a.varsLt n && b.varsLt n
  | sub a b => a.varsLt n && b.varsLt n
  | mul a b => a.varsLt n && b.varsLt n
  | div a b => a.varsLt n && b.varsLt n
  | neg a => a.varsLt n
  | powi a _ => a.varsLt n
  | pow15 a => a.varsLt n
  | sqrt a => a.varsLt n
  | sin a => a.varsLt n
  | cos a => a.varsLt n
  | acos a => a.varsLt n
  | ln a => a.varsLt n
  | atan2 a b => a.varsLt n && b.varsLt n
  | clamp1 a => a.varsLt n

theorem evalR_congr {ρ₁ ρ₂ : Nat → ℝ} {n : Nat} (h : ∀ m, m < n → ρ₁ m = ρ₂ m) :
    ∀ e : Ex, e.varsLt n = true → e.evalR ρ₁ = e.evalR ρ₂ := by
  intro e
  induction e with
  | var m => intro hv; exact h m (by simpa [varsLt] using hv)
  | lit c => intro _; rfl
  | nat k => intro _; rfl
  | add a b iha ihb => intro hv; simp only [varsLt, Bool.and_eq_true] at hv; simp only [evalR, iha hv.1, ihb hv.2]
  | sub a b iha ihb => intro hv; simp only [varsLt, Bool.and_eq_true] at hv; simp only [evalR, iha hv.1, ihb hv.2]
  | mul a b iha ihb => intro hv; simp only [varsLt, Bool.and_eq_true] at hv; simp only [evalR, iha hv.1, ihb hv.2]
  | div a b iha ihb => intro hv; simp only [varsLt, Bool.and_eq_true] at hv; simp only [evalR, iha hv.1, ihb hv.2]
  | neg a iha => intro hv; simp only [varsLt] at hv; simp only [evalR, iha hv]
  | powi a k iha => intro hv; simp only [varsLt] at hv; simp only [evalR, iha hv]
  | pow15 a iha => intro hv; simp only [varsLt] at hv; simp only [evalR, iha hv]
  | sqrt a iha => intro hv; simp only [varsLt] at hv; simp only [evalR, iha hv]
  | sin a iha => intro hv; simp only [varsLt] at hv; simp only [evalR, iha hv]
  | cos a iha => intro hv; simp only [varsLt] at hv; simp only [evalR, iha hv]
  | acos a iha => intro hv; simp only [varsLt] at hv; simp only [evalR, iha hv]
  | ln a iha => intro hv; simp only [varsLt] at hv; simp only [evalR, iha hv]
  | atan2 a b iha ihb => intro hv; simp only [varsLt, Bool.and_eq_true] at hv; simp only [evalR, iha hv.1, ihb hv.2]
  | clamp1 a iha => intro hv; simp only [varsLt] at hv; simp only [evalR, iha hv]

end Ex

namespace Prog

/-- Binders strictly increasing from `lo` on, each definition only mentions smaller variables. -/
def wellScoped : Nat → List (Nat × Ex) → Bool
  | _, [] => true
  | lo, (v, e) :: rest => decide (lo ≤ v) && e.varsLt v && wellScoped (v + 1) rest

theorem envR_low : ∀ (lets : List (Nat × Ex)) (lo : Nat) (ρ : Nat → ℝ), wellScoped lo lets = true →
    ∀ n, n < lo → envR ρ lets n = ρ n := by
  intro lets
  induction lets with
  | nil => intro lo ρ _ n _; rfl
  | cons ve rest ih =>
    obtain ⟨v, e⟩ := ve
    intro lo ρ hs n hn
    simp only [wellScoped, Bool.and_eq_true, decide_eq_true_eq] at hs
    obtain ⟨⟨hlo, _⟩, hrest⟩ := hs
    have hnv : n < v + 1 := by omega
    have hne : n ≠ v := by omega
    simp only [envR]
    rw [ih (v + 1) _ hrest n hnv, Function.update_of_ne hne]

/-- In a well-wellScoped `let` list every bound variable ends up holding its definition evaluated in the
final environment. -/
theorem envR_mem : ∀ (lets : List (Nat × Ex)) (lo : Nat) (ρ : Nat → ℝ), wellScoped lo lets = true →
    ∀ v e, (v, e) ∈ lets → envR ρ lets v = e.evalR (envR ρ lets) := by
  intro lets
  induction lets with
  | nil => intro lo ρ _ v e h; simp at h
  | cons ve rest ih =>
    obtain ⟨v₀, e₀⟩ := ve
    intro lo ρ hs v e hmem
    have hs' := hs
    simp only [wellScoped, Bool.and_eq_true, decide_eq_true_eq] at hs'
    obtain ⟨⟨_, hvars⟩, hrest⟩ := hs'
    rcases List.mem_cons.mp hmem with heq | htail
    · obtain ⟨rfl, rfl⟩ := Prod.mk.inj heq
      simp only [envR]
      rw [envR_low rest (v + 1) _ hrest v (Nat.lt_succ_self v), Function.update_self]
      refine Ex.evalR_congr (n := v) ?_ e hvars
      intro m hm
      rw [envR_low rest (v + 1) _ hrest m (by omega), Function.update_of_ne (by omega)]
    · simp only [envR]
      exact ih (v₀ + 1) _ hrest v e htail

end Prog
end OptRs
