/-
Bend (angle) terms, kinds A and B: regularity of the energy expressions, the per-slot identity
"tangent of the hand-written energy = machine-translated gradient program", closed forms against the
specification geometry, and the resulting partial-derivative statements.

Both `add_gradient` bodies divide by `sin θ = √(1 − cos² θ)` and return early — adding nothing — when that
value is not positive (`Prog.guard`); `angle_value` clamps the cosine to `[-1, 1]` before `acos`. Under
`BendRegular` the guard is positive and the clamp is the identity, so the identities are those of the
unguarded updates (`Prog.gradRaw`); for collinear atoms the guarded gradient is zero
(`angleA_gradR_collinear`, `angleB_gradR_collinear`).
-/
import OptRs.Calc.Real
import OptRs.Model.Energy
import OptRs.Gen.Grad
import OptRs.Lemmas.Geometry
import Mathlib.Tactic.Ring
import Mathlib.Tactic.FieldSimp
import Mathlib.Tactic.Linarith
import Mathlib.Tactic.IntervalCases

open OptRs OptRs.Model.Energy OptRs.Gen Real

namespace OptRs.Lemmas

/-- Regular bend geometry: `r_ij ≠ 0`, `r_kj ≠ 0` and the angle is neither `0` nor `π`
(`1 - cos² θ > 0`). Atom `i` is `ρ 0..2`, the apex `j` is `ρ 3..5`, atom `k` is `ρ 6..8`. -/
def BendRegular (ρ : Nat → ℝ) : Prop :=
  0 < (ρ 0 - ρ 3) ^ 2 + (ρ 1 - ρ 4) ^ 2 + (ρ 2 - ρ 5) ^ 2 ∧
  0 < (ρ 6 - ρ 3) ^ 2 + (ρ 7 - ρ 4) ^ 2 + (ρ 8 - ρ 5) ^ 2 ∧
  0 < 1 - (((ρ 0 - ρ 3) * (ρ 6 - ρ 3) + (ρ 1 - ρ 4) * (ρ 7 - ρ 4) + (ρ 2 - ρ 5) * (ρ 8 - ρ 5)) /
      (√((ρ 0 - ρ 3) ^ 2 + (ρ 1 - ρ 4) ^ 2 + (ρ 2 - ρ 5) ^ 2) *
        √((ρ 6 - ρ 3) ^ 2 + (ρ 7 - ρ 4) ^ 2 + (ρ 8 - ρ 5) ^ 2))) ^ 2

/-! ### The clamp and the guard -/

/-- The cosine of the bend angle as `angle_value` computes it (the argument of its `clamp(-1., 1.).acos()`). -/
def bendCos : Ex :=
  .div (dot (vsub (pos 0) (pos 1)) (vsub (pos 2) (pos 1)))
    (.mul (len (vsub (pos 0) (pos 1))) (len (vsub (pos 2) (pos 1))))

theorem angleValue_eq : angleValue 0 1 2 = .acos (.clamp1 bendCos) := rfl

theorem bendCos_evalR (ρ : Nat → ℝ) : bendCos.evalR ρ =
    ((ρ 0 - ρ 3) * (ρ 6 - ρ 3) + (ρ 1 - ρ 4) * (ρ 7 - ρ 4) + (ρ 2 - ρ 5) * (ρ 8 - ρ 5)) /
      (√((ρ 0 - ρ 3) ^ 2 + (ρ 1 - ρ 4) ^ 2 + (ρ 2 - ρ 5) ^ 2) *
        √((ρ 6 - ρ 3) ^ 2 + (ρ 7 - ρ 4) ^ 2 + (ρ 8 - ρ 5) ^ 2)) := by
  simp only [bendCos, vsub, dot, len, pos, Ex.evalR]

/-- Under `BendRegular` the cosine is strictly inside `(-1, 1)`: the clamp is the identity there. -/
theorem bendCos_mem (ρ : Nat → ℝ) (h : BendRegular ρ) : -1 < bendCos.evalR ρ ∧ bendCos.evalR ρ < 1 := by
  rw [bendCos_evalR]
  exact abs_lt.mp ((sq_lt_one_iff_abs_lt_one _).mp (sub_pos.mp h.2.2))

/-- Over the reals the value of `angle_value` is that of the unclamped expression, everywhere. -/
theorem angleValue_evalR_raw (ρ : Nat → ℝ) : (angleValue 0 1 2).evalR ρ = (Ex.acos bendCos).evalR ρ := by
  rw [angleValue_eq, Ex.evalR_acos_clamp1]

/-- Under `BendRegular` so is its tangent. -/
theorem angleValue_evalD_raw (ρ δ : Nat → ℝ) (h : BendRegular ρ) :
    (angleValue 0 1 2).evalD ρ δ = (Ex.acos bendCos).evalD ρ δ := by
  rw [angleValue_eq, Ex.evalD_acos_clamp1 ρ δ bendCos (bendCos_mem ρ h).1 (bendCos_mem ρ h).2]

/-- The value both gradient bodies test before adding anything (`v20` in kind A, `v21` in kind B):
`sin θ` computed as `√(−P²/(A·B) + 1)` with `P = r_ij · r_kj`, `A = |r_ij|²`, `B = |r_kj|²`. -/
noncomputable def bendGuard (ρ : Nat → ℝ) : ℝ :=
  √(-((ρ 0 - ρ 3) * (ρ 6 - ρ 3) + (ρ 1 - ρ 4) * (ρ 7 - ρ 4) + (ρ 2 - ρ 5) * (ρ 8 - ρ 5)) ^ 2 /
      (((ρ 0 - ρ 3) ^ 2 + (ρ 1 - ρ 4) ^ 2 + (ρ 2 - ρ 5) ^ 2) *
        ((ρ 6 - ρ 3) ^ 2 + (ρ 7 - ρ 4) ^ 2 + (ρ 8 - ρ 5) ^ 2)) + 1)

theorem angleA_guard_val (ρ : Nat → ℝ) : Prog.envR ρ angleAGrad.lets 120 = bendGuard ρ := by
  simp only [angleAGrad, Prog.envR, Ex.evalR, Num.toReal, bendGuard,
    angleA_v0, angleA_v1, angleA_v2, angleA_v3, angleA_v4, angleA_v5, angleA_v6, angleA_v7, angleA_v8,
    angleA_v9, angleA_v10, angleA_v11, angleA_v12, angleA_v13, angleA_v14, angleA_v15, angleA_v16,
    angleA_v17, angleA_v18, angleA_v19, angleA_v20, angleA_v21, angleA_v22]
  simp
  have e1 : (-ρ 3 + ρ 6) = (ρ 6 - ρ 3) := by ring
  have e2 : (-ρ 4 + ρ 7) = (ρ 7 - ρ 4) := by ring
  have e3 : (-ρ 5 + ρ 8) = (ρ 8 - ρ 5) := by ring
  simp only [e1, e2, e3]

theorem angleB_guard_val (ρ : Nat → ℝ) : Prog.envR ρ angleBGrad.lets 121 = bendGuard ρ := by
  simp only [angleBGrad, Prog.envR, Ex.evalR, Num.toReal, bendGuard,
    angleB_v0, angleB_v1, angleB_v2, angleB_v3, angleB_v4, angleB_v5, angleB_v6, angleB_v7, angleB_v8,
    angleB_v9, angleB_v10, angleB_v11, angleB_v12, angleB_v13, angleB_v14, angleB_v15, angleB_v16,
    angleB_v17, angleB_v18, angleB_v19, angleB_v20, angleB_v21, angleB_v22]
  simp
  have e1 : (-ρ 3 + ρ 6) = (ρ 6 - ρ 3) := by ring
  have e2 : (-ρ 4 + ρ 7) = (ρ 7 - ρ 4) := by ring
  have e3 : (-ρ 5 + ρ 8) = (ρ 8 - ρ 5) := by ring
  simp only [e1, e2, e3]

-- stated with `rw`, not `rfl`: the kernel must not be asked to compare `(var n).evalR (envR ..)` with the
-- unfolded program by evaluation
theorem evalR_var_eq (ρ : Nat → ℝ) (n : Nat) : (Ex.var n).evalR ρ = ρ n := by rw [Ex.evalR]

/-- The guarded gradient of kind A: the updates when the guard value is positive, nothing otherwise. -/
theorem angleA_gradR_eq (ρ : Nat → ℝ) (s : Nat) :
    angleAGrad.gradR ρ s = if 0 < bendGuard ρ then angleAGrad.gradRaw ρ s else 0 := by
  have hg : angleAGrad.guard = some (.var 120) := rfl
  rw [Prog.gradR_of_guard angleAGrad _ hg, evalR_var_eq, angleA_guard_val]

/-- The guarded gradient of kind B. -/
theorem angleB_gradR_eq (ρ : Nat → ℝ) (s : Nat) :
    angleBGrad.gradR ρ s = if 0 < bendGuard ρ then angleBGrad.gradRaw ρ s else 0 := by
  have hg : angleBGrad.guard = some (.var 121) := rfl
  rw [Prog.gradR_of_guard angleBGrad _ hg, evalR_var_eq, angleB_guard_val]

/-- With non-zero bond vectors the guard value is `√(1 − cos² θ)`. -/
theorem bendGuard_eq (ρ : Nat → ℝ)
    (ha : 0 < (ρ 0 - ρ 3) ^ 2 + (ρ 1 - ρ 4) ^ 2 + (ρ 2 - ρ 5) ^ 2)
    (hb : 0 < (ρ 6 - ρ 3) ^ 2 + (ρ 7 - ρ 4) ^ 2 + (ρ 8 - ρ 5) ^ 2) :
    bendGuard ρ = √(1 - (bendCos.evalR ρ) ^ 2) := by
  rw [bendCos_evalR, bendGuard, div_pow, mul_pow, Real.sq_sqrt ha.le, Real.sq_sqrt hb.le]
  congr 1
  ring

/-- Under `BendRegular` the guard passes. -/
theorem bendGuard_pos (ρ : Nat → ℝ) (h : BendRegular ρ) : 0 < bendGuard ρ := by
  rw [bendGuard_eq ρ h.1 h.2.1, bendCos_evalR]
  exact Real.sqrt_pos.mpr h.2.2

theorem angleA_gradR_regular (ρ : Nat → ℝ) (h : BendRegular ρ) (s : Nat) :
    angleAGrad.gradR ρ s = angleAGrad.gradRaw ρ s := by
  rw [angleA_gradR_eq, if_pos (bendGuard_pos ρ h)]

theorem angleB_gradR_regular (ρ : Nat → ℝ) (h : BendRegular ρ) (s : Nat) :
    angleBGrad.gradR ρ s = angleBGrad.gradRaw ρ s := by
  rw [angleB_gradR_eq, if_pos (bendGuard_pos ρ h)]

/-! ### Collinear atoms: the guarded gradient is zero -/

/-- Collinear bend geometry: `r_ij ≠ 0`, `r_kj ≠ 0` and `1 − cos² θ ≤ 0` (the angle is `0` or `π`) — the
configurations at which the unguarded updates divide by zero. -/
def BendCollinear (ρ : Nat → ℝ) : Prop :=
  0 < (ρ 0 - ρ 3) ^ 2 + (ρ 1 - ρ 4) ^ 2 + (ρ 2 - ρ 5) ^ 2 ∧
  0 < (ρ 6 - ρ 3) ^ 2 + (ρ 7 - ρ 4) ^ 2 + (ρ 8 - ρ 5) ^ 2 ∧
  1 - (((ρ 0 - ρ 3) * (ρ 6 - ρ 3) + (ρ 1 - ρ 4) * (ρ 7 - ρ 4) + (ρ 2 - ρ 5) * (ρ 8 - ρ 5)) /
      (√((ρ 0 - ρ 3) ^ 2 + (ρ 1 - ρ 4) ^ 2 + (ρ 2 - ρ 5) ^ 2) *
        √((ρ 6 - ρ 3) ^ 2 + (ρ 7 - ρ 4) ^ 2 + (ρ 8 - ρ 5) ^ 2))) ^ 2 ≤ 0

theorem bendGuard_not_pos (ρ : Nat → ℝ) (h : BendCollinear ρ) : ¬ 0 < bendGuard ρ := by
  rw [bendGuard_eq ρ h.1 h.2.1, bendCos_evalR, Real.sqrt_eq_zero_of_nonpos h.2.2]
  exact lt_irrefl 0

/-- Whenever the guard value is not positive, kind A adds nothing. -/
theorem angleA_gradR_of_guard_not_pos (ρ : Nat → ℝ) (h : ¬ 0 < bendGuard ρ) (s : Nat) :
    angleAGrad.gradR ρ s = 0 := by
  rw [angleA_gradR_eq, if_neg h]

theorem angleB_gradR_of_guard_not_pos (ρ : Nat → ℝ) (h : ¬ 0 < bendGuard ρ) (s : Nat) :
    angleBGrad.gradR ρ s = 0 := by
  rw [angleB_gradR_eq, if_neg h]

/-- **Collinear atoms, kind A**: every slot of the gradient contribution is zero (before the repair the
updates evaluated `…/sin θ` with `sin θ = 0`). -/
theorem angleA_gradR_collinear (ρ : Nat → ℝ) (h : BendCollinear ρ) (s : Nat) : angleAGrad.gradR ρ s = 0 :=
  angleA_gradR_of_guard_not_pos ρ (bendGuard_not_pos ρ h) s

/-- **Collinear atoms, kind B.** -/
theorem angleB_gradR_collinear (ρ : Nat → ℝ) (h : BendCollinear ρ) (s : Nat) : angleBGrad.gradR ρ s = 0 :=
  angleB_gradR_of_guard_not_pos ρ (bendGuard_not_pos ρ h) s

/-- The hypothesis is satisfiable: a straight angle, `i = (1,0,0)`, `j = (0,0,0)`, `k = (-1,0,0)`. -/
example : BendCollinear (fun n => if n = 0 then 1 else if n = 6 then -1 else 0) := by
  simp [BendCollinear]

/-! ### Per-slot identities -/

-- the shared unfolding script lists the definitions of both kinds; each use needs only one of them
set_option linter.unusedSimpArgs false

set_option hygiene false in
/-- Unfold both sides of a bend identity to real arithmetic over `ρ`. -/
macro "bend_unfold" : tactic => `(tactic| (
  have hθD := fun δ => angleValue_evalD_raw ρ δ h
  obtain ⟨ha, hb, hc⟩ := h
  -- the energy down to `angle_value`, whose clamp is then dropped (it is the identity here)
  simp only [angleAE, angleBE, one, two, Ex.evalD, Ex.evalR, Num.toReal]
  simp only [hθD, angleValue_evalR_raw]
  simp only [angleAGrad, angleBGrad, Prog.gradRaw, List.lookup, Prog.envR, bendCos, Ex.arccos_clamp,
    vsub, dot, len, pos, one, two, Ex.evalD, Ex.evalR, Num.toReal,
    angleA_v0, angleA_v1, angleA_v2, angleA_v3, angleA_v4, angleA_v5, angleA_v6, angleA_v7, angleA_v8,
    angleA_v9, angleA_v10, angleA_v11, angleA_v12, angleA_v13, angleA_v14, angleA_v15, angleA_v16,
    angleA_v17, angleA_v18, angleA_v19, angleA_v20, angleA_v21, angleA_v22,
    angleA_g0, angleA_g1, angleA_g2, angleA_g3, angleA_g4, angleA_g5, angleA_g6, angleA_g7, angleA_g8,
    angleB_v0, angleB_v1, angleB_v2, angleB_v3, angleB_v4, angleB_v5, angleB_v6, angleB_v7, angleB_v8,
    angleB_v9, angleB_v10, angleB_v11, angleB_v12, angleB_v13, angleB_v14, angleB_v15, angleB_v16,
    angleB_v17, angleB_v18, angleB_v19, angleB_v20, angleB_v21, angleB_v22,
    angleB_g0, angleB_g1, angleB_g2, angleB_g3, angleB_g4, angleB_g5, angleB_g6, angleB_g7, angleB_g8]
  simp [Ex.evalR, Num.toReal, Real.sin_arccos, -mul_eq_mul_left_iff]
  have e1 : (-ρ 3 + ρ 6) = (ρ 6 - ρ 3) := by ring
  have e2 : (-ρ 4 + ρ 7) = (ρ 7 - ρ 4) := by ring
  have e3 : (-ρ 5 + ρ 8) = (ρ 8 - ρ 5) := by ring
  have e4 : (20 : ℝ) / 10 = 2 := by norm_num
  simp only [e1, e2, e3, e4]
  set A := (ρ 0 - ρ 3) ^ 2 + (ρ 1 - ρ 4) ^ 2 + (ρ 2 - ρ 5) ^ 2 with hA
  set B := (ρ 6 - ρ 3) ^ 2 + (ρ 7 - ρ 4) ^ 2 + (ρ 8 - ρ 5) ^ 2 with hB
  set P := (ρ 0 - ρ 3) * (ρ 6 - ρ 3) + (ρ 1 - ρ 4) * (ρ 7 - ρ 4) + (ρ 2 - ρ 5) * (ρ 8 - ρ 5) with hP
  have hsA : √A ^ 2 = A := Real.sq_sqrt ha.le
  have hsB : √B ^ 2 = B := Real.sq_sqrt hb.le
  have hA0 : √A ≠ 0 := (Real.sqrt_pos.mpr ha).ne'
  have hB0 : √B ≠ 0 := (Real.sqrt_pos.mpr hb).ne'
  have harg : -P ^ 2 / (A * B) + 1 = 1 - (P / (√A * √B)) ^ 2 := by
    rw [div_pow, mul_pow, hsA, hsB]; ring
  rw [harg]
  set S := √(1 - (P / (√A * √B)) ^ 2) with hS
  have hS0 : S ≠ 0 := (Real.sqrt_pos.mpr hc).ne'))

set_option hygiene false in
/-- Abstract the square roots and trigonometric values, then close by field arithmetic. -/
macro "bend_close" : tactic => `(tactic| (
  clear_value S P
  generalize √A = a at *
  generalize √B = b at *
  clear_value A B
  subst hsA hsB
  field_simp
  ring))

set_option hygiene false in
macro "bendA_slot" : tactic => `(tactic| (
  rw [angleA_gradR_regular ρ h]
  bend_unfold
  set T := Real.sin (ρ 21 * Real.arccos (P / (√A * √B)))
  clear_value T
  bend_close))

set_option hygiene false in
macro "bendB_slot" : tactic => `(tactic| (
  rw [angleB_gradR_regular ρ h]
  bend_unfold
  set T := Real.sin (2 * Real.arccos (P / (√A * √B)))
  clear_value T
  bend_close))

theorem angleA_identity_0 (ρ : Nat → ℝ) (h : BendRegular ρ) (hn : ρ 21 ≠ 0) :
    angleAE.evalD ρ (Pi.single 0 1) = angleAGrad.gradR ρ 0 := by
  bendA_slot

theorem angleA_identity_1 (ρ : Nat → ℝ) (h : BendRegular ρ) (hn : ρ 21 ≠ 0) :
    angleAE.evalD ρ (Pi.single 1 1) = angleAGrad.gradR ρ 1 := by
  bendA_slot

theorem angleA_identity_2 (ρ : Nat → ℝ) (h : BendRegular ρ) (hn : ρ 21 ≠ 0) :
    angleAE.evalD ρ (Pi.single 2 1) = angleAGrad.gradR ρ 2 := by
  bendA_slot

theorem angleA_identity_3 (ρ : Nat → ℝ) (h : BendRegular ρ) (hn : ρ 21 ≠ 0) :
    angleAE.evalD ρ (Pi.single 3 1) = angleAGrad.gradR ρ 3 := by
  bendA_slot

theorem angleA_identity_4 (ρ : Nat → ℝ) (h : BendRegular ρ) (hn : ρ 21 ≠ 0) :
    angleAE.evalD ρ (Pi.single 4 1) = angleAGrad.gradR ρ 4 := by
  bendA_slot

theorem angleA_identity_5 (ρ : Nat → ℝ) (h : BendRegular ρ) (hn : ρ 21 ≠ 0) :
    angleAE.evalD ρ (Pi.single 5 1) = angleAGrad.gradR ρ 5 := by
  bendA_slot

theorem angleA_identity_6 (ρ : Nat → ℝ) (h : BendRegular ρ) (hn : ρ 21 ≠ 0) :
    angleAE.evalD ρ (Pi.single 6 1) = angleAGrad.gradR ρ 6 := by
  bendA_slot

theorem angleA_identity_7 (ρ : Nat → ℝ) (h : BendRegular ρ) (hn : ρ 21 ≠ 0) :
    angleAE.evalD ρ (Pi.single 7 1) = angleAGrad.gradR ρ 7 := by
  bendA_slot

theorem angleA_identity_8 (ρ : Nat → ℝ) (h : BendRegular ρ) (hn : ρ 21 ≠ 0) :
    angleAE.evalD ρ (Pi.single 8 1) = angleAGrad.gradR ρ 8 := by
  bendA_slot

theorem angleB_identity_0 (ρ : Nat → ℝ) (h : BendRegular ρ) :
    angleBE.evalD ρ (Pi.single 0 1) = angleBGrad.gradR ρ 0 := by
  bendB_slot

theorem angleB_identity_1 (ρ : Nat → ℝ) (h : BendRegular ρ) :
    angleBE.evalD ρ (Pi.single 1 1) = angleBGrad.gradR ρ 1 := by
  bendB_slot

theorem angleB_identity_2 (ρ : Nat → ℝ) (h : BendRegular ρ) :
    angleBE.evalD ρ (Pi.single 2 1) = angleBGrad.gradR ρ 2 := by
  bendB_slot

theorem angleB_identity_3 (ρ : Nat → ℝ) (h : BendRegular ρ) :
    angleBE.evalD ρ (Pi.single 3 1) = angleBGrad.gradR ρ 3 := by
  bendB_slot

theorem angleB_identity_4 (ρ : Nat → ℝ) (h : BendRegular ρ) :
    angleBE.evalD ρ (Pi.single 4 1) = angleBGrad.gradR ρ 4 := by
  bendB_slot

theorem angleB_identity_5 (ρ : Nat → ℝ) (h : BendRegular ρ) :
    angleBE.evalD ρ (Pi.single 5 1) = angleBGrad.gradR ρ 5 := by
  bendB_slot

theorem angleB_identity_6 (ρ : Nat → ℝ) (h : BendRegular ρ) :
    angleBE.evalD ρ (Pi.single 6 1) = angleBGrad.gradR ρ 6 := by
  bendB_slot

theorem angleB_identity_7 (ρ : Nat → ℝ) (h : BendRegular ρ) :
    angleBE.evalD ρ (Pi.single 7 1) = angleBGrad.gradR ρ 7 := by
  bendB_slot

theorem angleB_identity_8 (ρ : Nat → ℝ) (h : BendRegular ρ) :
    angleBE.evalD ρ (Pi.single 8 1) = angleBGrad.gradR ρ 8 := by
  bendB_slot

/-! ### Combined identities -/

theorem angleA_identity (ρ : Nat → ℝ) (h : BendRegular ρ) (hn : ρ 21 ≠ 0) :
    ∀ s, s < 9 → angleAE.evalD ρ (Pi.single s 1) = angleAGrad.gradR ρ s := by
  intro s hs
  interval_cases s
  · exact angleA_identity_0 ρ h hn
  · exact angleA_identity_1 ρ h hn
  · exact angleA_identity_2 ρ h hn
  · exact angleA_identity_3 ρ h hn
  · exact angleA_identity_4 ρ h hn
  · exact angleA_identity_5 ρ h hn
  · exact angleA_identity_6 ρ h hn
  · exact angleA_identity_7 ρ h hn
  · exact angleA_identity_8 ρ h hn

theorem angleB_identity (ρ : Nat → ℝ) (h : BendRegular ρ) :
    ∀ s, s < 9 → angleBE.evalD ρ (Pi.single s 1) = angleBGrad.gradR ρ s := by
  intro s hs
  interval_cases s
  · exact angleB_identity_0 ρ h
  · exact angleB_identity_1 ρ h
  · exact angleB_identity_2 ρ h
  · exact angleB_identity_3 ρ h
  · exact angleB_identity_4 ρ h
  · exact angleB_identity_5 ρ h
  · exact angleB_identity_6 ρ h
  · exact angleB_identity_7 ρ h
  · exact angleB_identity_8 ρ h

/-! ### Regularity of the energy expressions -/

/-- Under `BendRegular` the `clamp`/`acos` argument of `angle_value` is strictly inside `(-1, 1)` and all
denominators / radicands are non-degenerate. -/
theorem angleValue_reg (ρ : Nat → ℝ) (h : BendRegular ρ) : (angleValue 0 1 2).Reg ρ := by
  have hm := bendCos_mem ρ h
  obtain ⟨ha, hb, _⟩ := h
  have hA0 : √((ρ 0 - ρ 3) ^ 2 + (ρ 1 - ρ 4) ^ 2 + (ρ 2 - ρ 5) ^ 2) ≠ 0 := (Real.sqrt_pos.mpr ha).ne'
  have hB0 : √((ρ 6 - ρ 3) ^ 2 + (ρ 7 - ρ 4) ^ 2 + (ρ 8 - ρ 5) ^ 2) ≠ 0 := (Real.sqrt_pos.mpr hb).ne'
  have hreg : bendCos.Reg ρ := by
    simp only [bendCos, vsub, dot, len, pos, Ex.Reg, Ex.evalR]
    norm_num
    exact ⟨⟨ha, hb⟩, hA0, hB0⟩
  rw [angleValue_eq]
  simp only [Ex.Reg, Ex.evalR]
  rw [Ex.clamp_eq_self hm.1 hm.2]
  exact ⟨⟨hreg, hm⟩, hm⟩

theorem angleA_reg (ρ : Nat → ℝ) (h : BendRegular ρ) (hn : ρ 21 ≠ 0) : angleAE.Reg ρ := by
  have hv := angleValue_reg ρ h
  simp only [angleAE, one, Ex.Reg, Ex.evalR]
  exact ⟨⟨trivial, trivial, pow_ne_zero 2 hn⟩, trivial, trivial, hv⟩

theorem angleB_reg (ρ : Nat → ℝ) (h : BendRegular ρ) : angleBE.Reg ρ := by
  have hv := angleValue_reg ρ h
  simp only [angleBE, two, Ex.Reg]
  exact ⟨trivial, ⟨trivial, trivial, hv⟩, trivial, trivial, hv⟩

/-! ### Closed forms against the specification geometry -/

theorem angleValue_evalR (ρ : Nat → ℝ) :
    (angleValue 0 1 2).evalR ρ = Spec.bondAngle (Spec.atom ρ 0) (Spec.atom ρ 1) (Spec.atom ρ 2) := by
  simp only [angleValue, vsub, dot, len, pos, Ex.evalR, Ex.arccos_clamp, Spec.bondAngle, Spec.atom, Spec.vsub,
    Spec.dot, Spec.norm]

theorem angleA_closed_form (ρ : Nat → ℝ) :
    angleAE.evalR ρ = ρ 20 / ρ 21 ^ 2 *
      (1 - Real.cos (ρ 21 * Spec.bondAngle (Spec.atom ρ 0) (Spec.atom ρ 1) (Spec.atom ρ 2))) := by
  rw [← angleValue_evalR]
  simp only [angleAE, one, Ex.evalR, Num.toReal]
  norm_num

theorem angleB_closed_form (ρ : Nat → ℝ) :
    angleBE.evalR ρ = ρ 20 * (ρ 21 +
      ρ 22 * Real.cos (Spec.bondAngle (Spec.atom ρ 0) (Spec.atom ρ 1) (Spec.atom ρ 2)) +
      ρ 23 * Real.cos (2 * Spec.bondAngle (Spec.atom ρ 0) (Spec.atom ρ 1) (Spec.atom ρ 2))) := by
  rw [← angleValue_evalR]
  simp only [angleBE, two, Ex.evalR, Num.toReal]
  norm_num

/-! ### Partial derivatives -/

theorem angleA_hasDerivAt (ρ : Nat → ℝ) (h : BendRegular ρ) (hn : ρ 21 ≠ 0) (s : Nat) (hs : s < 9) :
    HasDerivAt (fun t => angleAE.evalR (Function.update ρ s t)) (angleAGrad.gradR ρ s) (ρ s) :=
  hasDerivAt_of_identity angleAE angleAGrad ρ s (angleA_reg ρ h hn) (angleA_identity ρ h hn s hs)

theorem angleB_hasDerivAt (ρ : Nat → ℝ) (h : BendRegular ρ) (s : Nat) (hs : s < 9) :
    HasDerivAt (fun t => angleBE.evalR (Function.update ρ s t)) (angleBGrad.gradR ρ s) (ρ s) :=
  hasDerivAt_of_identity angleBE angleBGrad ρ s (angleB_reg ρ h) (angleB_identity ρ h s hs)

/-! ### Slots outside the three atoms are not written -/

theorem angleA_gradR_untouched (ρ : Nat → ℝ) (s : Nat) (hs : 9 ≤ s) : angleAGrad.gradR ρ s = 0 := by
  have hl : angleAGrad.outs.lookup s = none := by
    simp [angleAGrad, List.lookup_eq_none_iff]; omega
  have h0 : angleAGrad.gradRaw ρ s = 0 := by simp only [Prog.gradRaw, hl]
  rw [angleA_gradR_eq, h0, ite_self]

theorem angleB_gradR_untouched (ρ : Nat → ℝ) (s : Nat) (hs : 9 ≤ s) : angleBGrad.gradR ρ s = 0 := by
  have hl : angleBGrad.outs.lookup s = none := by
    simp [angleBGrad, List.lookup_eq_none_iff]; omega
  have h0 : angleBGrad.gradRaw ρ s = 0 := by simp only [Prog.gradRaw, hl]
  rw [angleB_gradR_eq, h0, ite_self]

/-! ### The hypothesis is satisfiable -/

/-- A right angle: `i = (1,0,0)`, `j = (0,0,0)`, `k = (0,1,0)`. -/
example : BendRegular (fun n => if n = 0 ∨ n = 7 then 1 else 0) := by
  simp [BendRegular]

end OptRs.Lemmas
