/-
InversionDihedral: the sympy-generated gradient program is the gradient of the hand energy model at every
regular geometry (all twelve slots), regularity, closed form against `OptRs.Spec`, untouched slots.
Compositional proof: `InvBasic` (energy atoms), `InvEnv` (`let` values), `InvCore` (core identity); each slot
is then `inv_slot`, which needs only `ring` on monomial-denominator identities.
-/
import OptRs.Lemmas.InvEnv
import OptRs.Lemmas.InvCore
import Mathlib.Tactic.IntervalCases
import Mathlib.Tactic.NormNum

open OptRs OptRs.Model.Energy OptRs.Gen

set_option linter.unusedSimpArgs false

namespace OptRs.Lemmas

/-- Regular geometry of an inversion centre `c` with neighbours `i j k` (atoms at places 0 1 2 3):
the neighbours differ from the centre, no two neighbour directions are parallel (the three plane normals
are non-zero) and no axis `c→·` lies along the normal of the plane of the other two (each arccos argument
strictly inside (−1, 1); the planar centre, argument 0, is regular). -/
def InversionRegular (ρ : Nat → ℝ) : Prop :=
  let c := Spec.atom ρ 0; let i := Spec.atom ρ 1; let j := Spec.atom ρ 2; let k := Spec.atom ρ 3
  let a := Spec.vsub i c; let b := Spec.vsub j c; let d := Spec.vsub k c
  (i ≠ c ∧ j ≠ c ∧ k ≠ c) ∧
  (Spec.cross a b ≠ 0 ∧ Spec.cross d a ≠ 0 ∧ Spec.cross b d ≠ 0) ∧
  (|Spec.dot (Spec.cross a b) d / (Spec.norm (Spec.cross a b) * Spec.norm d)| < 1 ∧
   |Spec.dot (Spec.cross d a) b / (Spec.norm (Spec.cross d a) * Spec.norm b)| < 1 ∧
   |Spec.dot (Spec.cross b d) a / (Spec.norm (Spec.cross b d) * Spec.norm a)| < 1)

theorem sumsq_pos_of_ne_zero (v : Spec.V) (h : v ≠ 0) : 0 < v.1 ^ 2 + v.2.1 ^ 2 + v.2.2 ^ 2 := by
  by_contra hn
  have h0 : v.1 ^ 2 + v.2.1 ^ 2 + v.2.2 ^ 2 = 0 :=
    le_antisymm (not_lt.mp hn) (by positivity)
  have h1 : v.1 = 0 := by nlinarith [sq_nonneg v.1, sq_nonneg v.2.1, sq_nonneg v.2.2]
  have h2 : v.2.1 = 0 := by nlinarith [sq_nonneg v.1, sq_nonneg v.2.1, sq_nonneg v.2.2]
  have h3 : v.2.2 = 0 := by nlinarith [sq_nonneg v.1, sq_nonneg v.2.1, sq_nonneg v.2.2]
  exact h (Prod.ext h1 (Prod.ext h2 h3))

theorem vsub_ne_zero (p q : Spec.V) (h : p ≠ q) : Spec.vsub p q ≠ 0 := by
  intro h0
  apply h
  have h1 : p.1 - q.1 = 0 := congrArg Prod.fst h0
  have h2 : p.2.1 - q.2.1 = 0 := congrArg (fun v : Spec.V => v.2.1) h0
  have h3 : p.2.2 - q.2.2 = 0 := congrArg (fun v : Spec.V => v.2.2) h0
  exact Prod.ext (by linarith) (Prod.ext (by linarith) (by linarith))

theorem Ar_spec (c k : Nat) (ρ : Nat → ℝ) :
    Ar c k ρ = (Spec.vsub (Spec.atom ρ k) (Spec.atom ρ c)).1 ^ 2 + (Spec.vsub (Spec.atom ρ k) (Spec.atom ρ c)).2.1 ^ 2
      + (Spec.vsub (Spec.atom ρ k) (Spec.atom ρ c)).2.2 ^ 2 := rfl

theorem Br_spec (c i j : Nat) (ρ : Nat → ℝ) :
    Br c i j ρ = (Spec.cross (Spec.vsub (Spec.atom ρ i) (Spec.atom ρ c)) (Spec.vsub (Spec.atom ρ j) (Spec.atom ρ c))).1 ^ 2
      + (Spec.cross (Spec.vsub (Spec.atom ρ i) (Spec.atom ρ c)) (Spec.vsub (Spec.atom ρ j) (Spec.atom ρ c))).2.1 ^ 2
      + (Spec.cross (Spec.vsub (Spec.atom ρ i) (Spec.atom ρ c)) (Spec.vsub (Spec.atom ρ j) (Spec.atom ρ c))).2.2 ^ 2 := rfl

theorem ur_spec (c i j k : Nat) (ρ : Nat → ℝ) :
    ur c i j k ρ =
      Spec.dot (Spec.cross (Spec.vsub (Spec.atom ρ i) (Spec.atom ρ c)) (Spec.vsub (Spec.atom ρ j) (Spec.atom ρ c)))
        (Spec.vsub (Spec.atom ρ k) (Spec.atom ρ c)) /
      (Spec.norm (Spec.cross (Spec.vsub (Spec.atom ρ i) (Spec.atom ρ c)) (Spec.vsub (Spec.atom ρ j) (Spec.atom ρ c))) *
        Spec.norm (Spec.vsub (Spec.atom ρ k) (Spec.atom ρ c))) := rfl

theorem gamma_spec (c i j k : Nat) (ρ : Nat → ℝ) :
    (gamma c i j k).evalR ρ =
      Spec.inversionAngle (Spec.atom ρ c) (Spec.atom ρ i) (Spec.atom ρ j) (Spec.atom ρ k) := rfl

/-- What regularity gives, in the atoms of the proofs. -/
theorem regular_facts (ρ : Nat → ℝ) (h : InversionRegular ρ) :
    (0 < Ar 0 1 ρ ∧ 0 < Ar 0 2 ρ ∧ 0 < Ar 0 3 ρ) ∧
    (0 < Br 0 1 2 ρ ∧ 0 < Br 0 3 1 ρ ∧ 0 < Br 0 2 3 ρ) ∧
    (|ur 0 1 2 3 ρ| < 1 ∧ |ur 0 3 1 2 ρ| < 1 ∧ |ur 0 2 3 1 ρ| < 1) := by
  obtain ⟨⟨hi, hj, hk⟩, ⟨hab, hda, hbd⟩, ⟨h1, h2, h3⟩⟩ := h
  refine ⟨⟨?_, ?_, ?_⟩, ⟨?_, ?_, ?_⟩, ⟨h1, h2, h3⟩⟩
  · rw [Ar_spec]; exact sumsq_pos_of_ne_zero _ (vsub_ne_zero _ _ hi)
  · rw [Ar_spec]; exact sumsq_pos_of_ne_zero _ (vsub_ne_zero _ _ hj)
  · rw [Ar_spec]; exact sumsq_pos_of_ne_zero _ (vsub_ne_zero _ _ hk)
  · rw [Br_spec]; exact sumsq_pos_of_ne_zero _ hab
  · rw [Br_spec]; exact sumsq_pos_of_ne_zero _ hda
  · rw [Br_spec]; exact sumsq_pos_of_ne_zero _ hbd

theorem one_sub_sq_pos {u : ℝ} (h : |u| < 1) : 0 < 1 - u ^ 2 := by
  have := sq_lt_one_iff_abs_lt_one u |>.mpr h
  linarith

theorem inversion_reg (ρ : Nat → ℝ) (h : InversionRegular ρ) : inversionE.Reg ρ := by
  obtain ⟨⟨hA1, hA2, hA3⟩, ⟨hB3, hB2, hB1⟩, ⟨hu3, hu2, hu1⟩⟩ := regular_facts ρ h
  have g1 := gamma_reg 0 1 2 3 ρ hA3 hB3 (abs_lt.mp hu3).1 (abs_lt.mp hu3).2
  have g2 := gamma_reg 0 3 1 2 ρ hA2 hB2 (abs_lt.mp hu2).1 (abs_lt.mp hu2).2
  have g3 := gamma_reg 0 2 3 1 ρ hA1 hB1 (abs_lt.mp hu1).1 (abs_lt.mp hu1).2
  have eg : ∀ γ : Ex, γ.Reg ρ → (eGamma γ).Reg ρ := fun γ hγ =>
    ⟨trivial, ⟨trivial, trivial, hγ⟩, trivial, trivial, hγ⟩
  have three_ne : three.evalR ρ ≠ 0 := by simp [three, Ex.evalR]
  exact ⟨⟨⟨eg _ g1, eg _ g2⟩, eg _ g3⟩, trivial, three_ne⟩

theorem inversion_closed_form (ρ : Nat → ℝ) :
    inversionE.evalR ρ = ρ 23 / 3 *
      ((ρ 20 + ρ 21 * Real.sin (Spec.inversionAngle (Spec.atom ρ 0) (Spec.atom ρ 1) (Spec.atom ρ 2) (Spec.atom ρ 3))
          + ρ 22 * Real.cos (2 * Spec.inversionAngle (Spec.atom ρ 0) (Spec.atom ρ 1) (Spec.atom ρ 2) (Spec.atom ρ 3)))
      + (ρ 20 + ρ 21 * Real.sin (Spec.inversionAngle (Spec.atom ρ 0) (Spec.atom ρ 3) (Spec.atom ρ 1) (Spec.atom ρ 2))
          + ρ 22 * Real.cos (2 * Spec.inversionAngle (Spec.atom ρ 0) (Spec.atom ρ 3) (Spec.atom ρ 1) (Spec.atom ρ 2)))
      + (ρ 20 + ρ 21 * Real.sin (Spec.inversionAngle (Spec.atom ρ 0) (Spec.atom ρ 2) (Spec.atom ρ 3) (Spec.atom ρ 1))
          + ρ 22 * Real.cos (2 * Spec.inversionAngle (Spec.atom ρ 0) (Spec.atom ρ 2) (Spec.atom ρ 3) (Spec.atom ρ 1)))) := by
  simp only [← gamma_spec]
  simp only [inversionE, eGamma, two, three, Ex.evalR, toReal_20_1, toReal_30_1]
  ring

theorem inversion_untouched (ρ : Nat → ℝ) (s : Nat) (hs : 12 ≤ s) : inversionGrad.gradR ρ s = 0 := by
  have hl : inversionGrad.outs.lookup s = none := by
    simp only [inversionGrad, List.lookup]
    have : ∀ n, n < 12 → (s == n) = false := fun n hn => by simp; omega
    simp [this]
  rw [Prog.gradR_of_no_guard _ rfl]
  unfold Prog.gradRaw
  rw [hl]

/-! ### The twelve slot identities -/

/-- close `X = canonical` / `Y = canonical`: unfold the tangents of `P`, `A`, `B` in direction `Pi.single s 1`
to polynomials in the coordinates, then `ring` (denominators are monomials in the atoms). -/
macro "inv_poly" : tactic => `(tactic| (
  simp only [dPr, dAr, dBr, PEx, AEx, BEx, nEx, sumsq, dot, cross, vsub, pos, Ex.evalD, Ex.evalR]
  simp only [Pi.single_apply, Nat.reduceMul, Nat.reduceAdd, Nat.reduceSub, Nat.reduceEqDiff, reduceIte, Nat.cast_ofNat]
  ring))

/-- one γ term: energy tangent `termE` = the code's term -/
macro "inv_term" hA:term:max hB:term:max hu:term:max : tactic => `(tactic| (
  unfold termE
  refine term_core _ _ _ _ _ _ _ _ _ _ _ $hA $hB (one_sub_sq_pos $hu) ?_ ?_
  · inv_poly
  · inv_poly))

/-- one slot: split the energy tangent into the three γ terms, unfold the code's output expression in the
final `let` environment, fold the inline spellings of `P`, `A`, `B`, then three `inv_term`s. -/
macro "inv_slot" s:num g:ident : tactic => `(tactic| (
  obtain ⟨⟨hA1, hA2, hA3⟩, ⟨hB3, hB2, hB1⟩, ⟨hu3, hu2, hu1⟩⟩ := regular_facts _ ‹_›
  rw [inversionE_evalD _ _ (by simp [Pi.single_apply]) (by simp [Pi.single_apply]) (by simp [Pi.single_apply])
    (by simp [Pi.single_apply]) hu1 hu2 hu3, gradR_eq _ $s $g rfl]
  have hP2 := fold_P2 ‹ℕ → ℝ›
  have hA2' := fold_A2 ‹ℕ → ℝ›
  have hB2' := fold_B2 ‹ℕ → ℝ›
  have hP3 := fold_P3 ‹ℕ → ℝ›
  have hA3' := fold_A3 ‹ℕ → ℝ›
  have hB3' := fold_B3 ‹ℕ → ℝ›
  simp only [eP2, eA2, eB2, eP3, eA3, eB3, Ex.evalR] at hP2 hA2' hB2' hP3 hA3' hB3'
  simp only [$g:ident, Ex.evalR, toReal_2_0, toReal_3_0, toReal_1_0]
  simp only [hP2, hA2', hB2', hP3, hA3', hB3']
  simp only [ienv_0, ienv_1, ienv_2, ienv_3, ienv_4, ienv_5, ienv_6, ienv_7, ienv_8, ienv_9, ienv_10, ienv_11,
    ienv_21, ienv_22, ienv_23, ienv_102, ienv_104, ienv_105, ienv_106, ienv_107, ienv_108, ienv_109, ienv_110,
    ienv_111, ienv_112, ienv_113, ienv_114, ienv_117, ienv_119, ienv_120, ienv_122, ienv_123, ienv_124, ienv_125]
  refine add3_congr ?_ ?_ ?_
  · inv_term hA1 hB1 hu1
  · inv_term hA2 hB2 hu2
  · inv_term hA3 hB3 hu3))

theorem inversion_identity_0 (ρ : Nat → ℝ) (h : InversionRegular ρ) :
    inversionE.evalD ρ (Pi.single 0 1) = inversionGrad.gradR ρ 0 := by
  inv_slot 0 inversion_g0

theorem inversion_identity_1 (ρ : Nat → ℝ) (h : InversionRegular ρ) :
    inversionE.evalD ρ (Pi.single 1 1) = inversionGrad.gradR ρ 1 := by
  inv_slot 1 inversion_g1

theorem inversion_identity_2 (ρ : Nat → ℝ) (h : InversionRegular ρ) :
    inversionE.evalD ρ (Pi.single 2 1) = inversionGrad.gradR ρ 2 := by
  inv_slot 2 inversion_g2

theorem inversion_identity_3 (ρ : Nat → ℝ) (h : InversionRegular ρ) :
    inversionE.evalD ρ (Pi.single 3 1) = inversionGrad.gradR ρ 3 := by
  inv_slot 3 inversion_g3

theorem inversion_identity_4 (ρ : Nat → ℝ) (h : InversionRegular ρ) :
    inversionE.evalD ρ (Pi.single 4 1) = inversionGrad.gradR ρ 4 := by
  inv_slot 4 inversion_g4

theorem inversion_identity_5 (ρ : Nat → ℝ) (h : InversionRegular ρ) :
    inversionE.evalD ρ (Pi.single 5 1) = inversionGrad.gradR ρ 5 := by
  inv_slot 5 inversion_g5

theorem inversion_identity_6 (ρ : Nat → ℝ) (h : InversionRegular ρ) :
    inversionE.evalD ρ (Pi.single 6 1) = inversionGrad.gradR ρ 6 := by
  inv_slot 6 inversion_g6

theorem inversion_identity_7 (ρ : Nat → ℝ) (h : InversionRegular ρ) :
    inversionE.evalD ρ (Pi.single 7 1) = inversionGrad.gradR ρ 7 := by
  inv_slot 7 inversion_g7

theorem inversion_identity_8 (ρ : Nat → ℝ) (h : InversionRegular ρ) :
    inversionE.evalD ρ (Pi.single 8 1) = inversionGrad.gradR ρ 8 := by
  inv_slot 8 inversion_g8

theorem inversion_identity_9 (ρ : Nat → ℝ) (h : InversionRegular ρ) :
    inversionE.evalD ρ (Pi.single 9 1) = inversionGrad.gradR ρ 9 := by
  inv_slot 9 inversion_g9

theorem inversion_identity_10 (ρ : Nat → ℝ) (h : InversionRegular ρ) :
    inversionE.evalD ρ (Pi.single 10 1) = inversionGrad.gradR ρ 10 := by
  inv_slot 10 inversion_g10

theorem inversion_identity_11 (ρ : Nat → ℝ) (h : InversionRegular ρ) :
    inversionE.evalD ρ (Pi.single 11 1) = inversionGrad.gradR ρ 11 := by
  inv_slot 11 inversion_g11

theorem inversion_identity (ρ : Nat → ℝ) (h : InversionRegular ρ) :
    ∀ s, s < 12 → inversionE.evalD ρ (Pi.single s 1) = inversionGrad.gradR ρ s := by
  intro s hs
  interval_cases s
  · exact inversion_identity_0 ρ h
  · exact inversion_identity_1 ρ h
  · exact inversion_identity_2 ρ h
  · exact inversion_identity_3 ρ h
  · exact inversion_identity_4 ρ h
  · exact inversion_identity_5 ρ h
  · exact inversion_identity_6 ρ h
  · exact inversion_identity_7 ρ h
  · exact inversion_identity_8 ρ h
  · exact inversion_identity_9 ρ h
  · exact inversion_identity_10 ρ h
  · exact inversion_identity_11 ρ h

/-- At a regular geometry the translated gradient is the partial derivative of the energy model with
respect to each of the twelve coordinates. -/
theorem inversion_hasDerivAt (ρ : Nat → ℝ) (h : InversionRegular ρ) (s : Nat) (hs : s < 12) :
    HasDerivAt (fun t => inversionE.evalR (Function.update ρ s t)) (inversionGrad.gradR ρ s) (ρ s) :=
  hasDerivAt_of_identity inversionE inversionGrad ρ s (inversion_reg ρ h) (inversion_identity ρ h s hs)

/-! ### A regular geometry exists -/

theorem spec_abs_lt_one (n v : Spec.V) (hn : 0 < n.1 ^ 2 + n.2.1 ^ 2 + n.2.2 ^ 2)
    (hv : 0 < v.1 ^ 2 + v.2.1 ^ 2 + v.2.2 ^ 2)
    (h : Spec.dot n v ^ 2 < (n.1 ^ 2 + n.2.1 ^ 2 + n.2.2 ^ 2) * (v.1 ^ 2 + v.2.1 ^ 2 + v.2.2 ^ 2)) :
    |Spec.dot n v / (Spec.norm n * Spec.norm v)| < 1 := by
  unfold Spec.norm
  have hpos : 0 < √(n.1 ^ 2 + n.2.1 ^ 2 + n.2.2 ^ 2) * √(v.1 ^ 2 + v.2.1 ^ 2 + v.2.2 ^ 2) :=
    mul_pos (Real.sqrt_pos.mpr hn) (Real.sqrt_pos.mpr hv)
  rw [abs_div, abs_of_pos hpos, div_lt_one hpos, ← Real.sqrt_mul hn.le]
  exact Real.lt_sqrt_of_sq_lt (by rwa [sq_abs])

/-- centre at the origin, neighbours (1,0,0), (0,1,0), (1,1,1) -/
def exampleGeometry : Nat → ℝ := fun n => if n = 3 ∨ n = 7 ∨ n = 9 ∨ n = 10 ∨ n = 11 then 1 else 0

example : InversionRegular exampleGeometry := by
  refine ⟨⟨?_, ?_, ?_⟩, ⟨?_, ?_, ?_⟩, ⟨?_, ?_, ?_⟩⟩
  · simp [Spec.atom, exampleGeometry]
  · simp [Spec.atom, exampleGeometry]
  · simp [Spec.atom, exampleGeometry]
  · simp [Spec.atom, Spec.vsub, Spec.cross, exampleGeometry]
  · simp [Spec.atom, Spec.vsub, Spec.cross, exampleGeometry]
  · simp [Spec.atom, Spec.vsub, Spec.cross, exampleGeometry]
  · apply spec_abs_lt_one <;> norm_num [Spec.atom, Spec.vsub, Spec.cross, Spec.dot, exampleGeometry]
  · apply spec_abs_lt_one <;> norm_num [Spec.atom, Spec.vsub, Spec.cross, Spec.dot, exampleGeometry]
  · apply spec_abs_lt_one <;> norm_num [Spec.atom, Spec.vsub, Spec.cross, Spec.dot, exampleGeometry]


end OptRs.Lemmas
