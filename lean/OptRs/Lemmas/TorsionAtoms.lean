/-
Named real quantities ("atoms") of the torsion term and the value of every `let` of the translated gradient
program `torsionGrad` in terms of them.
-/
import OptRs.Calc.Real
import OptRs.Model.Energy
import OptRs.Gen.Grad
import Mathlib.Tactic.Ring
import Mathlib.Tactic.FieldSimp
import Mathlib.Tactic.Linarith
import Mathlib.Tactic.Positivity

open OptRs OptRs.Model.Energy OptRs.Gen Real

namespace OptRs.Lemmas.Torsion

/-! ### Atoms -/
section
variable (ρ : Nat → ℝ)

/-- r_ij = x_i − x_j. -/
def p1 : ℝ := ρ 0 - ρ 3
def p2 : ℝ := ρ 1 - ρ 4
def p3 : ℝ := ρ 2 - ρ 5
/-- r_kj = x_k − x_j. -/
def q1 : ℝ := ρ 6 - ρ 3
def q2 : ℝ := ρ 7 - ρ 4
def q3 : ℝ := ρ 8 - ρ 5
/-- r_lk = x_l − x_k. -/
def s1 : ℝ := ρ 9 - ρ 6
def s2 : ℝ := ρ 10 - ρ 7
def s3 : ℝ := ρ 11 - ρ 8

/-- N0 = r_ij × r_kj. -/
def N0x : ℝ := p2 ρ * q3 ρ - p3 ρ * q2 ρ
def N0y : ℝ := p3 ρ * q1 ρ - p1 ρ * q3 ρ
def N0z : ℝ := p1 ρ * q2 ρ - p2 ρ * q1 ρ
/-- N1 = (−r_kj) × r_lk. -/
def N1x : ℝ := -q2 ρ * s3 ρ - -q3 ρ * s2 ρ
def N1y : ℝ := -q3 ρ * s1 ρ - -q1 ρ * s3 ρ
def N1z : ℝ := -q1 ρ * s2 ρ - -q2 ρ * s1 ρ

noncomputable def L0 : ℝ := √(N0x ρ ^ 2 + N0y ρ ^ 2 + N0z ρ ^ 2)
noncomputable def L1 : ℝ := √(N1x ρ ^ 2 + N1y ρ ^ 2 + N1z ρ ^ 2)
noncomputable def Lq : ℝ := √(q1 ρ ^ 2 + q2 ρ ^ 2 + q3 ρ ^ 2)

/-- First `atan2` argument of the energy: (n̂0 × r̂_kj) · n̂1. -/
noncomputable def A : ℝ :=
  (N0y ρ / L0 ρ * (q3 ρ / Lq ρ) - N0z ρ / L0 ρ * (q2 ρ / Lq ρ)) * (N1x ρ / L1 ρ)
    + (N0z ρ / L0 ρ * (q1 ρ / Lq ρ) - N0x ρ / L0 ρ * (q3 ρ / Lq ρ)) * (N1y ρ / L1 ρ)
    + (N0x ρ / L0 ρ * (q2 ρ / Lq ρ) - N0y ρ / L0 ρ * (q1 ρ / Lq ρ)) * (N1z ρ / L1 ρ)

/-- Second `atan2` argument of the energy: n̂0 · n̂1. -/
noncomputable def B : ℝ :=
  N0x ρ / L0 ρ * (N1x ρ / L1 ρ) + N0y ρ / L0 ρ * (N1y ρ / L1 ρ) + N0z ρ / L0 ρ * (N1z ρ / L1 ρ)

/-! ### The `let`s of the gradient program -/

/-- The three components of (N0 × r_kj)/(|r_kj| |N0|) as the gradient program writes them. -/
noncomputable def C3 : ℝ := -q1 ρ * N0y ρ / (Lq ρ * L0 ρ) + q2 ρ * N0x ρ / (Lq ρ * L0 ρ)
noncomputable def C2 : ℝ := q1 ρ * N0z ρ / (Lq ρ * L0 ρ) - q3 ρ * N0x ρ / (Lq ρ * L0 ρ)
noncomputable def C1 : ℝ := -q2 ρ * N0z ρ / (Lq ρ * L0 ρ) + q3 ρ * N0y ρ / (Lq ρ * L0 ρ)

/-- Environment after the 36 `let`s of `torsionGrad`, in atoms. -/
noncomputable def envT : Nat → ℝ :=
  Function.update (Function.update (Function.update (Function.update (Function.update (Function.update
  (Function.update (Function.update (Function.update (Function.update (Function.update (Function.update
  (Function.update (Function.update (Function.update (Function.update (Function.update (Function.update
  (Function.update (Function.update (Function.update (Function.update (Function.update (Function.update
  (Function.update (Function.update (Function.update (Function.update (Function.update (Function.update
  (Function.update (Function.update (Function.update (Function.update (Function.update (Function.update
  ρ
  100 (q1 ρ)) 101 (-q2 ρ)) 102 (p1 ρ)) 103 (q3 ρ)) 104 (s1 ρ)) 105 (p3 ρ))
  106 (N0y ρ)) 107 (q1 ρ ^ 2)) 108 (q2 ρ)) 109 (q2 ρ ^ 2)) 110 (q3 ρ ^ 2)) 111 (s2 ρ))
  112 (-q1 ρ)) 113 (N1z ρ)) 114 (p2 ρ)) 115 (Lq ρ)) 116 (N0y ρ ^ 2)) 117 (N0x ρ))
  118 (N0x ρ ^ 2)) 119 (N0z ρ ^ 2)) 120 (L0 ρ)) 121 (N1z ρ ^ 2)) 122 (Lq ρ * L0 ρ)) 123 (s3 ρ))
  124 (-q3 ρ)) 125 (C3 ρ)) 126 (N1x ρ)) 127 (N1x ρ ^ 2)) 128 (N1y ρ ^ 2)) 129 (N1y ρ))
  130 (N0z ρ)) 131 (C2 ρ)) 132 (L1 ρ)) 133 (C1 ρ)) 134 (L0 ρ * L1 ρ))
  135 (-(N1z ρ * C3 ρ) / L1 ρ - N1y ρ * C2 ρ / L1 ρ - N1x ρ * C1 ρ / L1 ρ)

end

theorem envR_cons' (base : Nat → ℝ) (v : Nat) (e : Ex) (rest : List (Nat × Ex)) (x : ℝ)
    (hx : e.evalR base = x) :
    Prog.envR base ((v, e) :: rest) = Prog.envR (Function.update base v x) rest := by
  subst hx; rfl

end OptRs.Lemmas.Torsion

namespace OptRs.Lemmas.Torsion

macro "env_step " k:ident x:term : tactic =>
  `(tactic| rw [envR_cons' (x := $x) (hx := by
      simp only [$k:ident, Ex.evalR, Function.update_apply, Nat.reduceEqDiff, ↓reduceIte] <;>
      (try simp only [p1, p2, p3, q1, q2, q3, s1, s2, s3, N0x, N0y, N0z, N1x, N1y, N1z, L0, L1, Lq, C1, C2, C3]) <;>
      first | rfl | ring1 | (congr 1; ring1))])

theorem env_eq (ρ : Nat → ℝ) : Prog.envR ρ torsionGrad.lets = envT ρ := by
  simp only [torsionGrad]
  env_step torsion_v0 (q1 ρ)
  env_step torsion_v1 (-q2 ρ)
  env_step torsion_v2 (p1 ρ)
  env_step torsion_v3 (q3 ρ)
  env_step torsion_v4 (s1 ρ)
  env_step torsion_v5 (p3 ρ)
  env_step torsion_v6 (N0y ρ)
  env_step torsion_v7 (q1 ρ ^ 2)
  env_step torsion_v8 (q2 ρ)
  env_step torsion_v9 (q2 ρ ^ 2)
  env_step torsion_v10 (q3 ρ ^ 2)
  env_step torsion_v11 (s2 ρ)
  env_step torsion_v12 (-q1 ρ)
  env_step torsion_v13 (N1z ρ)
  env_step torsion_v14 (p2 ρ)
  env_step torsion_v15 (Lq ρ)
  env_step torsion_v16 (N0y ρ ^ 2)
  env_step torsion_v17 (N0x ρ)
  env_step torsion_v18 (N0x ρ ^ 2)
  env_step torsion_v19 (N0z ρ ^ 2)
  env_step torsion_v20 (L0 ρ)
  env_step torsion_v21 (N1z ρ ^ 2)
  env_step torsion_v22 (Lq ρ * L0 ρ)
  env_step torsion_v23 (s3 ρ)
  env_step torsion_v24 (-q3 ρ)
  env_step torsion_v25 (C3 ρ)
  env_step torsion_v26 (N1x ρ)
  env_step torsion_v27 (N1x ρ ^ 2)
  env_step torsion_v28 (N1y ρ ^ 2)
  env_step torsion_v29 (N1y ρ)
  env_step torsion_v30 (N0z ρ)
  env_step torsion_v31 (C2 ρ)
  env_step torsion_v32 (L1 ρ)
  env_step torsion_v33 (C1 ρ)
  env_step torsion_v34 (L0 ρ * L1 ρ)
  env_step torsion_v35 (-(N1z ρ * C3 ρ) / L1 ρ - N1y ρ * C2 ρ / L1 ρ - N1x ρ * C1 ρ / L1 ρ)
  rfl

end OptRs.Lemmas.Torsion

namespace OptRs.Lemmas.Torsion

/-- Every variable the output expressions read, in atoms (use as `simp only [envT_vals]`). -/
theorem envT_vals (ρ : Nat → ℝ) :
    envT ρ 100 = q1 ρ ∧
    envT ρ 101 = -q2 ρ ∧
    envT ρ 102 = p1 ρ ∧
    envT ρ 103 = q3 ρ ∧
    envT ρ 104 = s1 ρ ∧
    envT ρ 105 = p3 ρ ∧
    envT ρ 106 = N0y ρ ∧
    envT ρ 107 = q1 ρ ^ 2 ∧
    envT ρ 108 = q2 ρ ∧
    envT ρ 109 = q2 ρ ^ 2 ∧
    envT ρ 110 = q3 ρ ^ 2 ∧
    envT ρ 111 = s2 ρ ∧
    envT ρ 112 = -q1 ρ ∧
    envT ρ 113 = N1z ρ ∧
    envT ρ 114 = p2 ρ ∧
    envT ρ 115 = Lq ρ ∧
    envT ρ 116 = N0y ρ ^ 2 ∧
    envT ρ 117 = N0x ρ ∧
    envT ρ 118 = N0x ρ ^ 2 ∧
    envT ρ 119 = N0z ρ ^ 2 ∧
    envT ρ 120 = L0 ρ ∧
    envT ρ 121 = N1z ρ ^ 2 ∧
    envT ρ 122 = Lq ρ * L0 ρ ∧
    envT ρ 123 = s3 ρ ∧
    envT ρ 124 = -q3 ρ ∧
    envT ρ 125 = C3 ρ ∧
    envT ρ 126 = N1x ρ ∧
    envT ρ 127 = N1x ρ ^ 2 ∧
    envT ρ 128 = N1y ρ ^ 2 ∧
    envT ρ 129 = N1y ρ ∧
    envT ρ 130 = N0z ρ ∧
    envT ρ 131 = C2 ρ ∧
    envT ρ 132 = L1 ρ ∧
    envT ρ 133 = C1 ρ ∧
    envT ρ 134 = L0 ρ * L1 ρ ∧
    envT ρ 135 = -(N1z ρ * C3 ρ) / L1 ρ - N1y ρ * C2 ρ / L1 ρ - N1x ρ * C1 ρ / L1 ρ ∧
    envT ρ 0 = ρ 0 ∧
    envT ρ 1 = ρ 1 ∧
    envT ρ 2 = ρ 2 ∧
    envT ρ 3 = ρ 3 ∧
    envT ρ 4 = ρ 4 ∧
    envT ρ 5 = ρ 5 ∧
    envT ρ 6 = ρ 6 ∧
    envT ρ 7 = ρ 7 ∧
    envT ρ 8 = ρ 8 ∧
    envT ρ 9 = ρ 9 ∧
    envT ρ 10 = ρ 10 ∧
    envT ρ 11 = ρ 11 ∧
    envT ρ 20 = ρ 20 ∧
    envT ρ 21 = ρ 21 ∧
    envT ρ 22 = ρ 22 := by
  simp only [envT, Function.update_apply, Nat.reduceEqDiff, ↓reduceIte, and_self]

end OptRs.Lemmas.Torsion
