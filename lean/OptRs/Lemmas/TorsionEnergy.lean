/-
Energy side of the torsion identities: value and tangent of every named sub-term of `torsionE` in the atoms
of `TorsionAtoms.lean`, and the shape of `torsionE.evalD`.
-/
import OptRs.Lemmas.TorsionAtoms

open OptRs OptRs.Model.Energy OptRs.Gen Real

namespace OptRs.Lemmas.Torsion

/-! ### Named sub-terms of `phi 0 1 2 3` -/

def rij : V3 := vsub (pos 0) (pos 1)
def rlk : V3 := vsub (pos 3) (pos 2)
def rkj : V3 := vsub (pos 2) (pos 1)
def qx : Ex := rkj.1
def qy : Ex := rkj.2.1
def qz : Ex := rkj.2.2
def n0x : Ex := (cross rij rkj).1
def n0y : Ex := (cross rij rkj).2.1
def n0z : Ex := (cross rij rkj).2.2
def n1x : Ex := (cross (vneg rkj) rlk).1
def n1y : Ex := (cross (vneg rkj) rlk).2.1
def n1z : Ex := (cross (vneg rkj) rlk).2.2
def l0 : Ex := len (n0x, n0y, n0z)
def l1 : Ex := len (n1x, n1y, n1z)
def lq : Ex := len (qx, qy, qz)
def aEx : Ex := dot (cross (vdiv (n0x, n0y, n0z) l0) (vdiv (qx, qy, qz) lq)) (vdiv (n1x, n1y, n1z) l1)
def bEx : Ex := dot (vdiv (n0x, n0y, n0z) l0) (vdiv (n1x, n1y, n1z) l1)

theorem phi_eq : phi 0 1 2 3 = .neg (.atan2 aEx bEx) := rfl

/-! ### Tangent atoms in a direction `δ` -/
section
variable (ρ δ : Nat → ℝ)

def dp1 : ℝ := δ 0 - δ 3
def dp2 : ℝ := δ 1 - δ 4
def dp3 : ℝ := δ 2 - δ 5
def dq1 : ℝ := δ 6 - δ 3
def dq2 : ℝ := δ 7 - δ 4
def dq3 : ℝ := δ 8 - δ 5
def ds1 : ℝ := δ 9 - δ 6
def ds2 : ℝ := δ 10 - δ 7
def ds3 : ℝ := δ 11 - δ 8

def dN0x : ℝ := dp2 δ * q3 ρ + p2 ρ * dq3 δ - (dp3 δ * q2 ρ + p3 ρ * dq2 δ)
def dN0y : ℝ := dp3 δ * q1 ρ + p3 ρ * dq1 δ - (dp1 δ * q3 ρ + p1 ρ * dq3 δ)
def dN0z : ℝ := dp1 δ * q2 ρ + p1 ρ * dq2 δ - (dp2 δ * q1 ρ + p2 ρ * dq1 δ)
def dN1x : ℝ := -dq2 δ * s3 ρ + -q2 ρ * ds3 δ - (-dq3 δ * s2 ρ + -q3 ρ * ds2 δ)
def dN1y : ℝ := -dq3 δ * s1 ρ + -q3 ρ * ds1 δ - (-dq1 δ * s3 ρ + -q1 ρ * ds3 δ)
def dN1z : ℝ := -dq1 δ * s2 ρ + -q1 ρ * ds2 δ - (-dq2 δ * s1 ρ + -q2 ρ * ds1 δ)

noncomputable def dL0 : ℝ := (N0x ρ * dN0x ρ δ + N0y ρ * dN0y ρ δ + N0z ρ * dN0z ρ δ) / L0 ρ
noncomputable def dL1 : ℝ := (N1x ρ * dN1x ρ δ + N1y ρ * dN1y ρ δ + N1z ρ * dN1z ρ δ) / L1 ρ
noncomputable def dLq : ℝ := (q1 ρ * dq1 δ + q2 ρ * dq2 δ + q3 ρ * dq3 δ) / Lq ρ

theorem qx_R : qx.evalR ρ = q1 ρ := rfl
theorem qy_R : qy.evalR ρ = q2 ρ := rfl
theorem qz_R : qz.evalR ρ = q3 ρ := rfl
theorem qx_D : qx.evalD ρ δ = dq1 δ := rfl
theorem qy_D : qy.evalD ρ δ = dq2 δ := rfl
theorem qz_D : qz.evalD ρ δ = dq3 δ := rfl
theorem n0x_R : n0x.evalR ρ = N0x ρ := rfl
theorem n0y_R : n0y.evalR ρ = N0y ρ := rfl
theorem n0z_R : n0z.evalR ρ = N0z ρ := rfl
theorem n1x_R : n1x.evalR ρ = N1x ρ := rfl
theorem n1y_R : n1y.evalR ρ = N1y ρ := rfl
theorem n1z_R : n1z.evalR ρ = N1z ρ := rfl
theorem n0x_D : n0x.evalD ρ δ = dN0x ρ δ := rfl
theorem n0y_D : n0y.evalD ρ δ = dN0y ρ δ := rfl
theorem n0z_D : n0z.evalD ρ δ = dN0z ρ δ := rfl
theorem n1x_D : n1x.evalD ρ δ = dN1x ρ δ := rfl
theorem n1y_D : n1y.evalD ρ δ = dN1y ρ δ := rfl
theorem n1z_D : n1z.evalD ρ δ = dN1z ρ δ := rfl

theorem l0_R : l0.evalR ρ = L0 ρ := rfl
theorem l1_R : l1.evalR ρ = L1 ρ := rfl
theorem lq_R : lq.evalR ρ = Lq ρ := rfl

theorem len_D (a b c : Ex) :
    (len (a, b, c)).evalD ρ δ =
      (a.evalR ρ * a.evalD ρ δ + b.evalR ρ * b.evalD ρ δ + c.evalR ρ * c.evalD ρ δ) /
        √(a.evalR ρ ^ 2 + b.evalR ρ ^ 2 + c.evalR ρ ^ 2) := by
  simp only [len, Ex.evalD, Ex.evalR]
  rw [eq_comm, ← mul_div_mul_left _ _ (two_ne_zero (α := ℝ))]
  congr 1
  norm_num
  ring

theorem l0_D : l0.evalD ρ δ = dL0 ρ δ := len_D ρ δ _ _ _
theorem l1_D : l1.evalD ρ δ = dL1 ρ δ := len_D ρ δ _ _ _
theorem lq_D : lq.evalD ρ δ = dLq ρ δ := len_D ρ δ _ _ _

theorem aEx_R : aEx.evalR ρ = A ρ := rfl
theorem bEx_R : bEx.evalR ρ = B ρ := rfl

end

/-- Shape of the tangent of the torsion energy in a direction that does not move the parameters, matched
against the shape of the twelve translated output expressions. -/
theorem torsionE_evalD_shape (ρ δ : Nat → ℝ) (h20 : δ 20 = 0) (h21 : δ 21 = 0) (h22 : δ 22 = 0)
    {c X Y D1 T D2 aG bG : ℝ} (hc : c = 1 / 2) (hX : X = -A ρ) (hY : Y = bEx.evalD ρ δ)
    (hD1 : D1 = A ρ ^ 2 + B ρ ^ 2) (hT : T = aEx.evalD ρ δ * B ρ) (hD2 : D2 = A ρ ^ 2 + B ρ ^ 2)
    (haG : aG = A ρ) (hbG : bG = B ρ) :
    torsionE.evalD ρ δ =
      c * ρ 21 * ρ 22 * (X * Y / D1 + T / D2) * Real.sin (ρ 21 * at2 aG bG) * Real.cos (ρ 21 * ρ 20) := by
  subst hc hX hY hD1 hT hD2 haG hbG
  simp only [torsionE, phi_eq, Ex.evalD, Ex.evalR, two, one, Num.toReal, h20, h21, h22, aEx_R, bEx_R]
  rw [mul_neg (ρ 21) (at2 (A ρ) (B ρ)), Real.sin_neg]
  norm_num
  ring

end OptRs.Lemmas.Torsion
