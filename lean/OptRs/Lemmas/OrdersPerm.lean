/-
Bond-order assignment (`Molecule::set_bond_orders`, modelled by `assignOrders`) commutes with permutations of the
bond list: enumerating the bond `HashSet` in another order (another hash seed) gives the same multiset of bonds with
the same orders. Every step is either pointwise in the bond (`List.map`) or reads a permutation-invariant aggregate
(a neighbour count, a count of double bonds, a sum of orders).
-/
import OptRs.Model.Perceive
import OptRs.Props.C08
import OptRs.Props.C09
namespace OptRs.Lemmas.OrdersPerm
open OptRs OptRs.Model OptRs.Props

/-- Sum of a permuted list of integers. -/
theorem int_sum_perm {l₁ l₂ : List Int} (h : l₁.Perm l₂) : l₁.sum = l₂.sum := by
  induction h with
  | nil => rfl
  | cons x _ ih => simp [ih]
  | swap x y l => simp only [List.sum_cons]; omega
  | trans _ _ ih1 ih2 => exact ih1.trans ih2

variable {bs bs' : List Bond}

/-- The guessed order of a bond reads only the neighbour counts of its two ends. -/
theorem possibleOrder_perm (zs : List Nat) (h : bs.Perm bs') (b : Bond) :
    possibleOrder zs bs b = possibleOrder zs bs' b := by
  unfold possibleOrder
  rw [C08.neighbours_perm h b.i, C08.neighbours_perm h b.j]

theorem hyperTwice_perm (z a : Nat) {cur cur' : List Bond} (h : cur.Perm cur') :
    hyperTwice z a cur = hyperTwice z a cur' := by
  unfold hyperTwice
  rw [int_sum_perm ((h.filter _).map _)]

theorem isHypervalent_perm (z a : Nat) {cur cur' : List Bond} (h : cur.Perm cur') :
    isHypervalent z a cur = isHypervalent z a cur' := by
  unfold isHypervalent
  rw [hyperTwice_perm z a h]

theorem reduceDoubles_perm (a : Nat) {cur cur' : List Bond} (h : cur.Perm cur') :
    (reduceDoubles a cur).Perm (reduceDoubles a cur') := by
  unfold reduceDoubles
  rw [(h.filter _).length_eq]
  split
  · exact h
  · exact h.map _

theorem reduceTriples_perm (a n : Nat) {cur cur' : List Bond} (h : cur.Perm cur') :
    (reduceTriples a n cur).Perm (reduceTriples a n cur') := h.map _

/-- One step of the refinement loop (atom `a`, neighbour count `n` taken from the original bond list). -/
theorem step_perm (zs : List Nat) (a n : Nat) {cur cur' : List Bond} (h : cur.Perm cur') :
    (if isHypervalent (zs.getD a 0) a cur && period (zs.getD a 0) == some 2 then
        reduceTriples a n (reduceDoubles a cur) else cur).Perm
    (if isHypervalent (zs.getD a 0) a cur' && period (zs.getD a 0) == some 2 then
        reduceTriples a n (reduceDoubles a cur') else cur') := by
  rw [isHypervalent_perm _ a h]
  split
  · exact reduceTriples_perm a n (reduceDoubles_perm a h)
  · exact h

/-- **Bond-order assignment commutes with permutations of the bond list.** -/
theorem assignOrders_perm (zs : List Nat) {bs bs' : List Bond} (h : bs.Perm bs') :
    (assignOrders zs bs).Perm (assignOrders zs bs') := by
  unfold assignOrders
  have hfold : ∀ (as : List Nat) (cur cur' : List Bond), cur.Perm cur' →
      (as.foldl (fun cur a =>
        if isHypervalent (zs.getD a 0) a cur && period (zs.getD a 0) == some 2 then
          reduceTriples a (neighbours bs a).length (reduceDoubles a cur) else cur) cur).Perm
      (as.foldl (fun cur a =>
        if isHypervalent (zs.getD a 0) a cur && period (zs.getD a 0) == some 2 then
          reduceTriples a (neighbours bs' a).length (reduceDoubles a cur) else cur) cur') := by
    intro as
    induction as with
    | nil => intro cur cur' hc; exact hc
    | cons a as ih =>
      intro cur cur' hc
      simp only [List.foldl_cons]
      apply ih
      rw [← C08.neighbours_perm h a]
      exact step_perm zs a _ hc
  apply hfold
  have hg : (bs.map fun b => { b with order := possibleOrder zs bs b }) =
      (bs.map fun b => { b with order := possibleOrder zs bs' b }) := by
    apply List.map_congr_left
    intro b _
    rw [possibleOrder_perm zs h b]
  rw [hg]
  exact h.map _

/-- The bonds (with their orders) after assignment are the same whatever the enumeration. -/
theorem mem_assignOrders_perm (zs : List Nat) {bs bs' : List Bond} (h : bs.Perm bs') (b : Bond) :
    b ∈ assignOrders zs bs ↔ b ∈ assignOrders zs bs' :=
  (assignOrders_perm zs h).mem_iff

/-- With unique keys, looking a pair up gives the same bond — hence the same order — whatever the enumeration. -/
theorem find_assignOrders_perm (zs : List Nat) {bs bs' : List Bond} (h : bs.Perm bs')
    (hnd : (bs.map Bond.key).Nodup) (k : Nat × Nat) :
    (assignOrders zs bs).find? (fun b => b.key == k) = (assignOrders zs bs').find? (fun b => b.key == k) := by
  apply C08.find_perm_of_nodup (assignOrders_perm zs h)
  rw [C09.orders_keep_pairs]
  exact hnd

/-- The order assigned to a pair, as a function of the key only. -/
theorem order_assignOrders_perm (zs : List Nat) {bs bs' : List Bond} (h : bs.Perm bs')
    (hnd : (bs.map Bond.key).Nodup) (k : Nat × Nat) :
    ((assignOrders zs bs).find? (fun b => b.key == k)).map Bond.order =
      ((assignOrders zs bs').find? (fun b => b.key == k)).map Bond.order := by
  rw [find_assignOrders_perm zs h hnd k]

/-- Formaldehyde-like: C(0) bonded to O(1), H(2), H(3), the bonds enumerated in two different orders. -/
example :
    (assignOrders [6, 8, 1, 1] [⟨0, 1, .single⟩, ⟨0, 2, .single⟩, ⟨3, 0, .single⟩]).Perm
      (assignOrders [6, 8, 1, 1] [⟨3, 0, .single⟩, ⟨0, 1, .single⟩, ⟨0, 2, .single⟩]) ∧
    (⟨0, 1, .double⟩ : Bond) ∈ assignOrders [6, 8, 1, 1] [⟨0, 1, .single⟩, ⟨0, 2, .single⟩, ⟨3, 0, .single⟩] ∧
    (⟨0, 1, .double⟩ : Bond) ∈ assignOrders [6, 8, 1, 1] [⟨3, 0, .single⟩, ⟨0, 1, .single⟩, ⟨0, 2, .single⟩] := by
  decide

end OptRs.Lemmas.OrdersPerm
