/-
Specification-side geometry over the reals, written directly from the definitions in the project's theory
document (distance, bond angle, torsional angle, inversion angle) — *not* from the translated code. The
closed-form theorems of C02 relate the energy model to expressions in these quantities.
-/
import OptRs.Calc.Atan2
import Mathlib.Analysis.SpecialFunctions.Trigonometric.Inverse

namespace OptRs.Spec

abbrev V := ℝ × ℝ × ℝ

/-- Position of the atom at place `a` of a term (coordinates `3a, 3a+1, 3a+2` of the environment). -/
def atom (ρ : Nat → ℝ) (a : Nat) : V := (ρ (3 * a), ρ (3 * a + 1), ρ (3 * a + 2))

def vsub (p q : V) : V := (p.1 - q.1, p.2.1 - q.2.1, p.2.2 - q.2.2)
def dot (a b : V) : ℝ := a.1 * b.1 + a.2.1 * b.2.1 + a.2.2 * b.2.2
def cross (a b : V) : V := (a.2.1 * b.2.2 - a.2.2 * b.2.1, a.2.2 * b.1 - a.1 * b.2.2, a.1 * b.2.1 - a.2.1 * b.1)
noncomputable def norm (a : V) : ℝ := √(a.1 ^ 2 + a.2.1 ^ 2 + a.2.2 ^ 2)

/-- Interatomic distance r. -/
noncomputable def dist (p q : V) : ℝ := norm (vsub p q)

/-- Bond angle θ at `q` between `q→p` and `q→r`. -/
noncomputable def bondAngle (p q r : V) : ℝ :=
  Real.arccos (dot (vsub p q) (vsub r q) / (norm (vsub p q) * norm (vsub r q)))

/-- Torsional angle φ of the chain p–q–r–s (IUPAC: angle between the planes pqr and qrs, signed by the
sense of rotation about q→r), in (−π, π]. -/
noncomputable def dihedral (p q r s : V) : ℝ :=
  let b1 := vsub q p
  let b2 := vsub r q
  let b3 := vsub s r
  let n1 := cross b1 b2
  let n2 := cross b2 b3
  at2 (dot (cross n1 n2) b2 / norm b2) (dot n1 n2)

/-- Inversion angle γ: between the axis c→k and the normal of the plane through c, i, j. -/
noncomputable def inversionAngle (c i j k : V) : ℝ :=
  let n := cross (vsub i c) (vsub j c)
  Real.arccos (dot n (vsub k c) / (norm n * norm (vsub k c)))

end OptRs.Spec
