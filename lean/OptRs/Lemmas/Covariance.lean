/-
Rotation covariance of the gradient: for each of the seven kinds, the translated gradient at the rotated
geometry is the rotated gradient, `g (R ρ) = R (g ρ)`, atom by atom.

Route. `rotEnv na R` is linear on the atom coordinates, so the image of the line `t ↦ ρ + t δ` (with `δ`
moving only the kind's atoms) is the line `t ↦ rotEnv na R ρ + t · rotDir na R δ`. The energy takes the
same values on the two lines (rotation invariance, `Rotate.lean`), so the two tangents at `t = 0` agree:
`E.evalD (R ρ) (R δ) = E.evalD ρ δ`. With `δ` the unit direction of slot `3a + c` and the per-slot identity
of the kind this reads `(Rᵀ g (R ρ))_a = (g ρ)_a`; `R Rᵀ = 1` (rows orthonormal, from the columns and the
cofactor identities) turns it into `g (R ρ)_a = R (g ρ)_a`.

For six kinds the energy is invariant everywhere. The torsion energy is invariant at regular
configurations only; `TorsionRegular` is an open condition (strict inequalities between polynomials), so it
holds along the line near `t = 0`, which is all the tangent argument needs.
-/
import OptRs.Lemmas.FFReal
import OptRs.Lemmas.Rotate
import OptRs.Lemmas.Torque
import Mathlib.Analysis.Calculus.Deriv.Add
import Mathlib.Analysis.Calculus.Deriv.Mul
import Mathlib.Tactic.NormNum
import Mathlib.Tactic.Ring
import Mathlib.Tactic.LinearCombination
import Mathlib.Tactic.FunProp

open OptRs OptRs.Model.Energy OptRs.Gen Real Filter Topology

namespace OptRs.Lemmas

/-! ### Rows of a rotation are orthonormal; the inverse rotation -/

theorem Rot.rr00 (R : Rot) : R.r00 * R.r00 + R.r01 * R.r01 + R.r02 * R.r02 = 1 := by
  linear_combination R.det - R.r00 * R.cof00 - R.r01 * R.cof01 - R.r02 * R.cof02

theorem Rot.rr11 (R : Rot) : R.r10 * R.r10 + R.r11 * R.r11 + R.r12 * R.r12 = 1 := by
  linear_combination R.det - R.r10 * R.cof10 - R.r11 * R.cof11 - R.r12 * R.cof12

theorem Rot.rr22 (R : Rot) : R.r20 * R.r20 + R.r21 * R.r21 + R.r22 * R.r22 = 1 := by
  linear_combination R.det - R.r20 * R.cof20 - R.r21 * R.cof21 - R.r22 * R.cof22

theorem Rot.rr01 (R : Rot) : R.r00 * R.r10 + R.r01 * R.r11 + R.r02 * R.r12 = 0 := by
  linear_combination - R.r10 * R.cof00 - R.r11 * R.cof01 - R.r12 * R.cof02

theorem Rot.rr02 (R : Rot) : R.r00 * R.r20 + R.r01 * R.r21 + R.r02 * R.r22 = 0 := by
  linear_combination - R.r20 * R.cof00 - R.r21 * R.cof01 - R.r22 * R.cof02

theorem Rot.rr12 (R : Rot) : R.r10 * R.r20 + R.r11 * R.r21 + R.r12 * R.r22 = 0 := by
  linear_combination - R.r20 * R.cof10 - R.r21 * R.cof11 - R.r22 * R.cof12

/-- The inverse rotation `Rᵀ`. -/
def Rot.inv (R : Rot) : Rot where
  r00 := R.r00
  r01 := R.r10
  r02 := R.r20
  r10 := R.r01
  r11 := R.r11
  r12 := R.r21
  r20 := R.r02
  r21 := R.r12
  r22 := R.r22
  c00 := R.rr00
  c11 := R.rr11
  c22 := R.rr22
  c01 := R.rr01
  c02 := R.rr02
  c12 := R.rr12
  det := by linear_combination R.det

/-- `Rᵀ (R v) = v`. -/
theorem rotV_inv_rotV (R : Rot) (v : Spec.V) : rotV R.inv (rotV R v) = v := by
  obtain ⟨x, y, z⟩ := v
  simp only [rotV, Rot.inv]
  refine Prod.ext ?_ (Prod.ext ?_ ?_) <;> simp only
  · linear_combination x * R.c00 + y * R.c01 + z * R.c02
  · linear_combination x * R.c01 + y * R.c11 + z * R.c12
  · linear_combination x * R.c02 + y * R.c12 + z * R.c22

/-- `R (Rᵀ v) = v`. -/
theorem rotV_rotV_inv (R : Rot) (v : Spec.V) : rotV R (rotV R.inv v) = v := by
  obtain ⟨x, y, z⟩ := v
  simp only [rotV, Rot.inv]
  refine Prod.ext ?_ (Prod.ext ?_ ?_) <;> simp only
  · linear_combination x * R.rr00 + y * R.rr01 + z * R.rr02
  · linear_combination x * R.rr01 + y * R.rr11 + z * R.rr12
  · linear_combination x * R.rr02 + y * R.rr12 + z * R.rr22

theorem rotV_injective (R : Rot) : Function.Injective (rotV R) := fun a b h => by
  rw [← rotV_inv_rotV R a, ← rotV_inv_rotV R b, h]

theorem rotV_zero (R : Rot) : rotV R 0 = 0 := by
  simp [rotV]

theorem rotV_eq_zero_iff (R : Rot) (v : Spec.V) : rotV R v = 0 ↔ v = 0 := by
  constructor
  · intro h; exact rotV_injective R (h.trans (rotV_zero R).symm)
  · rintro rfl; exact rotV_zero R

/-! ### Rotating a direction -/

/-- The rotated direction: `R` applied to the three components of `δ` on every atom `a < na`, and `0` on
every other variable (the parameters do not move). This is the tangent of `t ↦ rotEnv na R (ρ + t δ)` when
`δ` itself vanishes off the atoms. -/
def rotDir (na : Nat) (R : Rot) (δ : Nat → ℝ) : Nat → ℝ := fun v =>
  if v < 3 * na then rotEnv na R δ v else 0

theorem rotDir_atom (na : Nat) (R : Rot) (δ : Nat → ℝ) (a : Nat) (ha : a < na) :
    Spec.atom (rotDir na R δ) a = rotV R (Spec.atom δ a) := by
  have h0 : 3 * a < 3 * na := by omega
  have h1 : 3 * a + 1 < 3 * na := by omega
  have h2 : 3 * a + 2 < 3 * na := by omega
  rw [← rotEnv_atom na R δ a ha]
  simp only [Spec.atom, rotDir, h0, h1, h2, if_true]

theorem rotDir_param (na : Nat) (R : Rot) (δ : Nat → ℝ) (v : Nat) (hv : 3 * na ≤ v) :
    rotDir na R δ v = 0 := by
  have : ¬ v < 3 * na := by omega
  simp only [rotDir, this, if_false]

/-- `rotEnv` is affine along lines whose direction moves only the atoms. -/
theorem rotEnv_line (na : Nat) (R : Rot) (ρ δ : Nat → ℝ) (hδ : ∀ v, 3 * na ≤ v → δ v = 0) (t : ℝ) :
    rotEnv na R (fun n => ρ n + t * δ n) = fun n => rotEnv na R ρ n + t * rotDir na R δ n := by
  funext v
  by_cases h : v < 3 * na
  · by_cases m0 : v % 3 = 0
    · simp only [rotEnv, rotDir, h, m0, if_true, rotV, Spec.atom]; ring
    · by_cases m1 : v % 3 = 1
      · simp only [rotEnv, rotDir, h, m1, one_ne_zero, if_true, if_false, rotV, Spec.atom]; ring
      · simp only [rotEnv, rotDir, h, m0, m1, if_true, if_false, rotV, Spec.atom]; ring
  · simp only [rotEnv, rotDir, h, if_false, hδ v (by omega)]

/-! ### The tangent along a rotated direction -/

/-- **Covariance of the tangent.** If the energy of the kind takes the same values on the line
`t ↦ ρ + t δ` and on its image under `R`, for `t` near `0`, then the tangent at `R ρ` along `R δ` is the
tangent at `ρ` along `δ`. -/
theorem evalD_rot_of_eventually (k : KindSpec) (R : Rot) (ρ δ : Nat → ℝ) (hρ : k.Regular ρ)
    (hρ' : k.Regular (rotEnv k.na R ρ)) (hδ : ∀ v, 3 * k.na ≤ v → δ v = 0)
    (hinv : ∀ᶠ t in 𝓝 (0 : ℝ), k.E.evalR (rotEnv k.na R (fun n => ρ n + t * δ n))
      = k.E.evalR (fun n => ρ n + t * δ n)) :
    k.E.evalD (rotEnv k.na R ρ) (rotDir k.na R δ) = k.E.evalD ρ δ := by
  -- the line through `ρ`
  have hl : ∀ n, HasDerivAt (fun t : ℝ => ρ n + t * δ n) (δ n) 0 := fun n => by
    simpa using ((hasDerivAt_id' (0 : ℝ)).mul_const (δ n)).const_add (ρ n)
  have e0 : (fun n => ρ n + (0 : ℝ) * δ n) = ρ := by funext n; simp
  have h1 := Ex.hasDerivAt_evalR (fun t n => ρ n + t * δ n) δ 0 hl k.E
    (by show Ex.Reg (fun n => ρ n + (0 : ℝ) * δ n) k.E; rw [e0]; exact k.reg ρ hρ)
  simp only [e0] at h1
  -- its image
  have hl' : ∀ n, HasDerivAt (fun t : ℝ => rotEnv k.na R ρ n + t * rotDir k.na R δ n)
      (rotDir k.na R δ n) 0 := fun n => by
    simpa using ((hasDerivAt_id' (0 : ℝ)).mul_const (rotDir k.na R δ n)).const_add (rotEnv k.na R ρ n)
  have e0' : (fun n => rotEnv k.na R ρ n + (0 : ℝ) * rotDir k.na R δ n) = rotEnv k.na R ρ := by
    funext n; simp
  have h2 := Ex.hasDerivAt_evalR (fun t n => rotEnv k.na R ρ n + t * rotDir k.na R δ n)
    (rotDir k.na R δ) 0 hl' k.E
    (by show Ex.Reg (fun n => rotEnv k.na R ρ n + (0 : ℝ) * rotDir k.na R δ n) k.E
        rw [e0']; exact k.reg _ hρ')
  simp only [e0'] at h2
  -- the two functions of `t` agree near `0`
  have hev : (fun t => k.E.evalR (fun n => rotEnv k.na R ρ n + t * rotDir k.na R δ n))
      =ᶠ[𝓝 0] fun t => k.E.evalR (fun n => ρ n + t * δ n) := by
    filter_upwards [hinv] with t ht
    rw [← rotEnv_line k.na R ρ δ hδ t]
    exact ht
  exact h2.unique (h1.congr_of_eventuallyEq hev)

/-! ### From the tangent to the gradient, atom by atom -/

/-- The tangent along the rotation of a direction that moves the single atom `a`: the pairing of the
rotated direction with the translated gradient of that atom. -/
theorem evalD_rotDir_atom (k : KindSpec) (R : Rot) (ρ : Nat → ℝ) (hρ : k.Regular ρ) (a : Nat)
    (ha : a < k.na) (δ : Nat → ℝ) (hδ : ∀ v, δ v ≠ 0 → v / 3 = a) :
    k.E.evalD ρ (rotDir k.na R δ)
      = Spec.dot (rotV R (Spec.atom δ a)) (Spec.atom (k.G.gradR ρ) a) := by
  rw [evalD_eq_sum_grad k ρ hρ _ (rotDir_param k.na R δ)]
  have hterm : ∀ b, b < k.na →
      rotDir k.na R δ (3 * b) * k.G.gradR ρ (3 * b) + rotDir k.na R δ (3 * b + 1) * k.G.gradR ρ (3 * b + 1)
        + rotDir k.na R δ (3 * b + 2) * k.G.gradR ρ (3 * b + 2)
      = Spec.dot (rotV R (Spec.atom δ b)) (Spec.atom (k.G.gradR ρ) b) := by
    intro b hb
    rw [← rotDir_atom k.na R δ b hb]
    simp only [Spec.dot, Spec.atom]
  rw [Finset.sum_eq_single a]
  · exact hterm a ha
  · intro b hb hba
    rw [hterm b (Finset.mem_range.mp hb)]
    have z : ∀ i, i < 3 → δ (3 * b + i) = 0 := by
      intro i hi
      by_contra hne
      have := hδ _ hne
      omega
    have hz : Spec.atom δ b = 0 := by
      simp only [Spec.atom, z 1 (by norm_num), z 2 (by norm_num)]
      have := z 0 (by norm_num)
      rw [Nat.add_zero] at this
      rw [this]
      rfl
    rw [hz, rotV_zero]
    simp [Spec.dot]
  · intro h; exact absurd (Finset.mem_range.mpr ha) h

/-- Invariance of the energy under `R` near `ρ` along the coordinate line of slot `s`. -/
def InvariantNear (k : KindSpec) (R : Rot) (ρ : Nat → ℝ) (s : Nat) : Prop :=
  ∀ᶠ t in 𝓝 (0 : ℝ),
    k.E.evalR (rotEnv k.na R (fun n => ρ n + t * (Pi.single s (1 : ℝ) : Nat → ℝ) n))
      = k.E.evalR (fun n => ρ n + t * (Pi.single s (1 : ℝ) : Nat → ℝ) n)

/-- The transposed relation `(Rᵀ g (R ρ))_a = (g ρ)_a`, one component at a time. -/
theorem gradT_component (k : KindSpec) (R : Rot) (ρ : Nat → ℝ) (hρ : k.Regular ρ)
    (hρ' : k.Regular (rotEnv k.na R ρ)) (a : Nat) (ha : a < k.na) (c : Nat) (hc : c < 3)
    (hinv : InvariantNear k R ρ (3 * a + c)) :
    Spec.dot (rotV R (Spec.atom (Pi.single (3 * a + c) (1 : ℝ)) a))
        (Spec.atom (k.G.gradR (rotEnv k.na R ρ)) a)
      = k.G.gradR ρ (3 * a + c) := by
  classical
  have hs : 3 * a + c < 3 * k.na := by omega
  have hsupp : ∀ v, (Pi.single (3 * a + c) (1 : ℝ) : Nat → ℝ) v ≠ 0 → v / 3 = a := by
    intro v hv
    have : v = 3 * a + c := by
      by_contra hne
      exact hv (Pi.single_eq_of_ne hne _)
    omega
  have hδ : ∀ v, 3 * k.na ≤ v → (Pi.single (3 * a + c) (1 : ℝ) : Nat → ℝ) v = 0 := by
    intro v hv
    exact Pi.single_eq_of_ne (by omega) _
  rw [← evalD_rotDir_atom k R _ hρ' a ha _ hsupp,
    evalD_rot_of_eventually k R ρ _ hρ hρ' hδ hinv, k.identity ρ hρ _ hs]

theorem atom_single0 (a : Nat) : Spec.atom (Pi.single (3 * a + 0) (1 : ℝ)) a = (1, 0, 0) := by
  simp [Spec.atom]

theorem atom_single1 (a : Nat) : Spec.atom (Pi.single (3 * a + 1) (1 : ℝ)) a = (0, 1, 0) := by
  simp [Spec.atom]

theorem atom_single2 (a : Nat) : Spec.atom (Pi.single (3 * a + 2) (1 : ℝ)) a = (0, 0, 1) := by
  simp [Spec.atom]

/-- **Rotation covariance of the gradient, generic form.** At a configuration `ρ` regular together with its
rotation `R ρ`, if the energy of the kind is invariant under `R` near `ρ` along each coordinate line of the
kind's atoms, the translated gradient at `R ρ` is `R` applied to the translated gradient at `ρ`, for every
atom of the kind. -/
theorem grad_covariant_of_eventually (k : KindSpec) (R : Rot) (ρ : Nat → ℝ) (hρ : k.Regular ρ)
    (hρ' : k.Regular (rotEnv k.na R ρ)) (hinv : ∀ s, s < 3 * k.na → InvariantNear k R ρ s)
    (a : Nat) (ha : a < k.na) :
    Spec.atom (k.G.gradR (rotEnv k.na R ρ)) a = rotV R (Spec.atom (k.G.gradR ρ) a) := by
  have h0 := gradT_component k R ρ hρ hρ' a ha 0 (by norm_num) (hinv _ (by omega))
  have h1 := gradT_component k R ρ hρ hρ' a ha 1 (by norm_num) (hinv _ (by omega))
  have h2 := gradT_component k R ρ hρ hρ' a ha 2 (by norm_num) (hinv _ (by omega))
  rw [atom_single0] at h0
  rw [atom_single1] at h1
  rw [atom_single2] at h2
  have hT : rotV R.inv (Spec.atom (k.G.gradR (rotEnv k.na R ρ)) a) = Spec.atom (k.G.gradR ρ) a := by
    simp only [Spec.dot, rotV, mul_one, mul_zero, add_zero, zero_add] at h0 h1 h2
    simp only [rotV, Rot.inv, Spec.atom] at *
    refine Prod.ext ?_ (Prod.ext ?_ ?_) <;> simp only
    · linear_combination h0
    · linear_combination h1
    · linear_combination h2
  rw [← hT, rotV_rotV_inv]

/-- The same as one equation between gradients: `g (R ρ) = R (g ρ)` on all variables (both sides vanish
off the kind's atoms). -/
theorem gradR_rotEnv_of_atoms (k : KindSpec) (R : Rot) (ρ : Nat → ℝ)
    (h : ∀ a, a < k.na → Spec.atom (k.G.gradR (rotEnv k.na R ρ)) a = rotV R (Spec.atom (k.G.gradR ρ) a)) :
    k.G.gradR (rotEnv k.na R ρ) = rotDir k.na R (k.G.gradR ρ) := by
  funext v
  by_cases hv : v < 3 * k.na
  · have ha : v / 3 < k.na := by omega
    have := h (v / 3) ha
    rw [← rotDir_atom k.na R _ _ ha] at this
    simp only [Spec.atom, Prod.mk.injEq] at this
    obtain ⟨t0, t1, t2⟩ := this
    by_cases m0 : v % 3 = 0
    · have e : 3 * (v / 3) = v := by omega
      rw [e] at t0; exact t0
    · by_cases m1 : v % 3 = 1
      · have e : 3 * (v / 3) + 1 = v := by omega
        rw [e] at t1; exact t1
      · have e : 3 * (v / 3) + 2 = v := by omega
        rw [e] at t2; exact t2
  · rw [k.untouched _ v (by omega), rotDir_param k.na R _ v (by omega)]

/-- Energies invariant under `R` everywhere are invariant near every point. -/
theorem invariantNear_of_forall (k : KindSpec) (R : Rot) (ρ : Nat → ℝ) (s : Nat)
    (h : ∀ ρ', k.E.evalR (rotEnv k.na R ρ') = k.E.evalR ρ') : InvariantNear k R ρ s :=
  Filter.Eventually.of_forall fun _ => h _

/-! ### Regularity is rotation invariant -/

theorem pairRegular_iff_spec (ρ : Nat → ℝ) :
    PairRegular ρ ↔ 0 < Spec.dot (Spec.vsub (Spec.atom ρ 0) (Spec.atom ρ 1))
      (Spec.vsub (Spec.atom ρ 0) (Spec.atom ρ 1)) := by
  have e : (ρ 0 - ρ 3) ^ 2 + (ρ 1 - ρ 4) ^ 2 + (ρ 2 - ρ 5) ^ 2
      = Spec.dot (Spec.vsub (Spec.atom ρ 0) (Spec.atom ρ 1)) (Spec.vsub (Spec.atom ρ 0) (Spec.atom ρ 1)) := by
    simp only [Spec.dot, Spec.vsub, Spec.atom]; ring
  unfold PairRegular
  rw [e]

theorem pairRegular_rotate (R : Rot) (ρ : Nat → ℝ) : PairRegular (rotEnv 2 R ρ) ↔ PairRegular ρ := by
  rw [pairRegular_iff_spec, pairRegular_iff_spec, rotEnv_atom 2 R ρ 0 (by norm_num),
    rotEnv_atom 2 R ρ 1 (by norm_num), vsub_rot, dot_rot]

/-- `BendRegular` restated on the three atom positions, in the specification's vector operations. -/
def SpecBendRegular (p q r : Spec.V) : Prop :=
  0 < Spec.dot (Spec.vsub p q) (Spec.vsub p q) ∧
  0 < Spec.dot (Spec.vsub r q) (Spec.vsub r q) ∧
  0 < 1 - (Spec.dot (Spec.vsub p q) (Spec.vsub r q) /
      (√(Spec.dot (Spec.vsub p q) (Spec.vsub p q)) * √(Spec.dot (Spec.vsub r q) (Spec.vsub r q)))) ^ 2

theorem specBendRegular_rot (R : Rot) (p q r : Spec.V) :
    SpecBendRegular (rotV R p) (rotV R q) (rotV R r) ↔ SpecBendRegular p q r := by
  simp only [SpecBendRegular, vsub_rot, dot_rot]

theorem bendRegular_iff_spec (ρ : Nat → ℝ) :
    BendRegular ρ ↔ SpecBendRegular (Spec.atom ρ 0) (Spec.atom ρ 1) (Spec.atom ρ 2) := by
  have e1 : (ρ 0 - ρ 3) ^ 2 + (ρ 1 - ρ 4) ^ 2 + (ρ 2 - ρ 5) ^ 2
      = Spec.dot (Spec.vsub (Spec.atom ρ 0) (Spec.atom ρ 1)) (Spec.vsub (Spec.atom ρ 0) (Spec.atom ρ 1)) := by
    simp only [Spec.dot, Spec.vsub, Spec.atom]; ring
  have e2 : (ρ 6 - ρ 3) ^ 2 + (ρ 7 - ρ 4) ^ 2 + (ρ 8 - ρ 5) ^ 2
      = Spec.dot (Spec.vsub (Spec.atom ρ 2) (Spec.atom ρ 1)) (Spec.vsub (Spec.atom ρ 2) (Spec.atom ρ 1)) := by
    simp only [Spec.dot, Spec.vsub, Spec.atom]; ring
  have e3 : (ρ 0 - ρ 3) * (ρ 6 - ρ 3) + (ρ 1 - ρ 4) * (ρ 7 - ρ 4) + (ρ 2 - ρ 5) * (ρ 8 - ρ 5)
      = Spec.dot (Spec.vsub (Spec.atom ρ 0) (Spec.atom ρ 1)) (Spec.vsub (Spec.atom ρ 2) (Spec.atom ρ 1)) := by
    simp only [Spec.dot, Spec.vsub, Spec.atom]
  unfold BendRegular SpecBendRegular
  rw [e1, e2, e3]

theorem bendRegular_rotate (R : Rot) (ρ : Nat → ℝ) : BendRegular (rotEnv 3 R ρ) ↔ BendRegular ρ := by
  rw [bendRegular_iff_spec, bendRegular_iff_spec, rotEnv_atom 3 R ρ 0 (by norm_num),
    rotEnv_atom 3 R ρ 1 (by norm_num), rotEnv_atom 3 R ρ 2 (by norm_num), specBendRegular_rot]

theorem inversionRegular_rotate (R : Rot) (ρ : Nat → ℝ) :
    InversionRegular (rotEnv 4 R ρ) ↔ InversionRegular ρ := by
  unfold InversionRegular
  simp only [rotEnv_atom 4 R ρ 0 (by norm_num), rotEnv_atom 4 R ρ 1 (by norm_num),
    rotEnv_atom 4 R ρ 2 (by norm_num), rotEnv_atom 4 R ρ 3 (by norm_num), vsub_rot, cross_rot, dot_rot,
    norm_rot, ne_eq, (rotV_injective R).eq_iff, rotV_eq_zero_iff]

/-! ### `TorsionRegular` is an open condition along lines -/

theorem eventually_pos_of_continuous {f : ℝ → ℝ} (hc : Continuous f) (h0 : 0 < f 0) :
    ∀ᶠ t in 𝓝 (0 : ℝ), 0 < f t :=
  (hc.tendsto 0).eventually (lt_mem_nhds h0)

theorem eventually_ne_of_continuous {f : ℝ → ℝ} (hc : Continuous f) (h0 : f 0 ≠ 0) :
    ∀ᶠ t in 𝓝 (0 : ℝ), f t ≠ 0 :=
  (hc.tendsto 0).eventually (isOpen_ne.eventually_mem h0)

open Torsion in
/-- A regular torsion configuration stays regular along any line through it, near the configuration. -/
theorem torsionRegular_eventually (ρ δ : Nat → ℝ) (h : TorsionRegular ρ) :
    ∀ᶠ t in 𝓝 (0 : ℝ), TorsionRegular (fun n => ρ n + t * δ n) := by
  have e0 : (fun n => ρ n + (0 : ℝ) * δ n) = ρ := by funext n; simp
  obtain ⟨h1, h2, h3, h4⟩ := h
  let L : ℝ → Nat → ℝ := fun t n => ρ n + t * δ n
  have hL0 : L 0 = ρ := e0
  have c1 : Continuous fun t : ℝ => q1 (L t) ^ 2 + q2 (L t) ^ 2 + q3 (L t) ^ 2 := by
    simp only [q1, q2, q3, L]; fun_prop
  have c2 : Continuous fun t : ℝ => N0x (L t) ^ 2 + N0y (L t) ^ 2 + N0z (L t) ^ 2 := by
    simp only [N0x, N0y, N0z, p1, p2, p3, q1, q2, q3, L]; fun_prop
  have c3 : Continuous fun t : ℝ => N1x (L t) ^ 2 + N1y (L t) ^ 2 + N1z (L t) ^ 2 := by
    simp only [N1x, N1y, N1z, q1, q2, q3, s1, s2, s3, L]; fun_prop
  have c4 : Continuous fun t : ℝ =>
      (N0y (L t) * q3 (L t) - N0z (L t) * q2 (L t)) * N1x (L t)
        + (N0z (L t) * q1 (L t) - N0x (L t) * q3 (L t)) * N1y (L t)
        + (N0x (L t) * q2 (L t) - N0y (L t) * q1 (L t)) * N1z (L t) := by
    simp only [N0x, N0y, N0z, N1x, N1y, N1z, p1, p2, p3, q1, q2, q3, s1, s2, s3, L]; fun_prop
  have c5 : Continuous fun t : ℝ =>
      N0x (L t) * N1x (L t) + N0y (L t) * N1y (L t) + N0z (L t) * N1z (L t) := by
    simp only [N0x, N0y, N0z, N1x, N1y, N1z, p1, p2, p3, q1, q2, q3, s1, s2, s3, L]; fun_prop
  have v1 := eventually_pos_of_continuous c1 (by simp only [hL0]; exact h1)
  have v2 := eventually_pos_of_continuous c2 (by simp only [hL0]; exact h2)
  have v3 := eventually_pos_of_continuous c3 (by simp only [hL0]; exact h3)
  have v4 : ∀ᶠ t in 𝓝 (0 : ℝ),
      ((N0y (L t) * q3 (L t) - N0z (L t) * q2 (L t)) * N1x (L t)
        + (N0z (L t) * q1 (L t) - N0x (L t) * q3 (L t)) * N1y (L t)
        + (N0x (L t) * q2 (L t) - N0y (L t) * q1 (L t)) * N1z (L t) ≠ 0 ∨
      0 < N0x (L t) * N1x (L t) + N0y (L t) * N1y (L t) + N0z (L t) * N1z (L t)) := by
    rcases h4 with h4 | h4
    · exact (eventually_ne_of_continuous c4 (by simp only [hL0]; exact h4)).mono fun t ht => Or.inl ht
    · exact (eventually_pos_of_continuous c5 (by simp only [hL0]; exact h4)).mono fun t ht => Or.inr ht
  filter_upwards [v1, v2, v3, v4] with t a b c d
  exact ⟨a, b, c, d⟩

/-- The torsion energy is invariant under every rotation near every regular configuration, along every
line. -/
theorem torsion_invariantNear (R : Rot) (ρ : Nat → ℝ) (h : TorsionRegular ρ) (s : Nat) :
    InvariantNear torsionKind R ρ s := by
  unfold InvariantNear
  filter_upwards [torsionRegular_eventually ρ (Pi.single s (1 : ℝ)) h] with t ht
  exact torsion_rotate R _ ht

/-! ### The seven kinds -/

/-- **Bond stretch**: `g (R ρ)_a = R (g ρ)_a` for both atoms. -/
theorem bond_grad_covariant (R : Rot) (ρ : Nat → ℝ) (h : PairRegular ρ) (a : Nat) (ha : a < 2) :
    Spec.atom (bondGrad.gradR (rotEnv 2 R ρ)) a = rotV R (Spec.atom (bondGrad.gradR ρ) a) :=
  grad_covariant_of_eventually bondKind R ρ h ((pairRegular_rotate R ρ).mpr h)
    (fun s _ => invariantNear_of_forall bondKind R ρ s (bond_rotate R)) a ha

/-- **Lennard-Jones**. -/
theorem lj_grad_covariant (R : Rot) (ρ : Nat → ℝ) (h : PairRegular ρ) (a : Nat) (ha : a < 2) :
    Spec.atom (ljGrad.gradR (rotEnv 2 R ρ)) a = rotV R (Spec.atom (ljGrad.gradR ρ) a) :=
  grad_covariant_of_eventually ljKind R ρ h ((pairRegular_rotate R ρ).mpr h)
    (fun s _ => invariantNear_of_forall ljKind R ρ s (lj_rotate R)) a ha

/-- **Repulsion** `A / rⁿ`. -/
theorem repulsion_grad_covariant (n : Nat) (R : Rot) (ρ : Nat → ℝ) (h : PairRegular ρ) (a : Nat)
    (ha : a < 2) :
    Spec.atom ((repulsionGrad n).gradR (rotEnv 2 R ρ)) a
      = rotV R (Spec.atom ((repulsionGrad n).gradR ρ) a) :=
  grad_covariant_of_eventually (repulsionKind n) R ρ h ((pairRegular_rotate R ρ).mpr h)
    (fun s _ => invariantNear_of_forall (repulsionKind n) R ρ s (repulsion_rotate n R)) a ha

/-- **Angle bend, general case** (`n ≠ 0`). -/
theorem angleA_grad_covariant (R : Rot) (ρ : Nat → ℝ) (h : BendRegular ρ) (hn : ρ 21 ≠ 0) (a : Nat)
    (ha : a < 3) :
    Spec.atom (angleAGrad.gradR (rotEnv 3 R ρ)) a = rotV R (Spec.atom (angleAGrad.gradR ρ) a) :=
  grad_covariant_of_eventually angleAKind R ρ ⟨h, hn⟩
    ⟨(bendRegular_rotate R ρ).mpr h, (rotEnv_param 3 R ρ 21 (by norm_num)).symm ▸ hn⟩
    (fun s _ => invariantNear_of_forall angleAKind R ρ s (angleA_rotate R)) a ha

/-- **Angle bend, Fourier case**. -/
theorem angleB_grad_covariant (R : Rot) (ρ : Nat → ℝ) (h : BendRegular ρ) (a : Nat) (ha : a < 3) :
    Spec.atom (angleBGrad.gradR (rotEnv 3 R ρ)) a = rotV R (Spec.atom (angleBGrad.gradR ρ) a) :=
  grad_covariant_of_eventually angleBKind R ρ h ((bendRegular_rotate R ρ).mpr h)
    (fun s _ => invariantNear_of_forall angleBKind R ρ s (angleB_rotate R)) a ha

/-- **Torsion**, at every regular configuration (no further hypothesis: regularity persists near `ρ`). -/
theorem torsion_grad_covariant (R : Rot) (ρ : Nat → ℝ) (h : TorsionRegular ρ) (a : Nat) (ha : a < 4) :
    Spec.atom (torsionGrad.gradR (rotEnv 4 R ρ)) a = rotV R (Spec.atom (torsionGrad.gradR ρ) a) :=
  grad_covariant_of_eventually torsionKind R ρ h ((torsionRegular_rotate R ρ).mpr h)
    (fun s _ => torsion_invariantNear R ρ h s) a ha

/-- **Inversion**. -/
theorem inversion_grad_covariant (R : Rot) (ρ : Nat → ℝ) (h : InversionRegular ρ) (a : Nat)
    (ha : a < 4) :
    Spec.atom (inversionGrad.gradR (rotEnv 4 R ρ)) a = rotV R (Spec.atom (inversionGrad.gradR ρ) a) :=
  grad_covariant_of_eventually inversionKind R ρ h ((inversionRegular_rotate R ρ).mpr h)
    (fun s _ => invariantNear_of_forall inversionKind R ρ s (inversion_rotate R)) a ha

/-! ### The same as equations between whole gradients -/

theorem bond_gradR_rotEnv (R : Rot) (ρ : Nat → ℝ) (h : PairRegular ρ) :
    bondGrad.gradR (rotEnv 2 R ρ) = rotDir 2 R (bondGrad.gradR ρ) :=
  gradR_rotEnv_of_atoms bondKind R ρ (bond_grad_covariant R ρ h)

theorem lj_gradR_rotEnv (R : Rot) (ρ : Nat → ℝ) (h : PairRegular ρ) :
    ljGrad.gradR (rotEnv 2 R ρ) = rotDir 2 R (ljGrad.gradR ρ) :=
  gradR_rotEnv_of_atoms ljKind R ρ (lj_grad_covariant R ρ h)

theorem repulsion_gradR_rotEnv (n : Nat) (R : Rot) (ρ : Nat → ℝ) (h : PairRegular ρ) :
    (repulsionGrad n).gradR (rotEnv 2 R ρ) = rotDir 2 R ((repulsionGrad n).gradR ρ) :=
  gradR_rotEnv_of_atoms (repulsionKind n) R ρ (repulsion_grad_covariant n R ρ h)

theorem angleA_gradR_rotEnv (R : Rot) (ρ : Nat → ℝ) (h : BendRegular ρ) (hn : ρ 21 ≠ 0) :
    angleAGrad.gradR (rotEnv 3 R ρ) = rotDir 3 R (angleAGrad.gradR ρ) :=
  gradR_rotEnv_of_atoms angleAKind R ρ (angleA_grad_covariant R ρ h hn)

theorem angleB_gradR_rotEnv (R : Rot) (ρ : Nat → ℝ) (h : BendRegular ρ) :
    angleBGrad.gradR (rotEnv 3 R ρ) = rotDir 3 R (angleBGrad.gradR ρ) :=
  gradR_rotEnv_of_atoms angleBKind R ρ (angleB_grad_covariant R ρ h)

theorem torsion_gradR_rotEnv (R : Rot) (ρ : Nat → ℝ) (h : TorsionRegular ρ) :
    torsionGrad.gradR (rotEnv 4 R ρ) = rotDir 4 R (torsionGrad.gradR ρ) :=
  gradR_rotEnv_of_atoms torsionKind R ρ (torsion_grad_covariant R ρ h)

theorem inversion_gradR_rotEnv (R : Rot) (ρ : Nat → ℝ) (h : InversionRegular ρ) :
    inversionGrad.gradR (rotEnv 4 R ρ) = rotDir 4 R (inversionGrad.gradR ρ) :=
  gradR_rotEnv_of_atoms inversionKind R ρ (inversion_grad_covariant R ρ h)

/-! ### Non-vacuity and the statement written out -/

/-- The bond with atom 0 at `(1, 0, 0)` and atom 1 at `(0, −2, 0)` (regular: the atoms are distinct), turned
a quarter about z. -/
example :
    bondGrad.gradR (rotEnv 2 quarterTurnZ (fun n => if n = 0 then 1 else if n = 4 then -2 else 0))
      = rotDir 2 quarterTurnZ (bondGrad.gradR (fun n => if n = 0 then 1 else if n = 4 then -2 else 0)) :=
  bond_gradR_rotEnv quarterTurnZ _ (by unfold PairRegular; norm_num)

/-- Written out for the quarter turn about z, atom 0 of a bond: the gradient `(gx, gy, gz)` at `ρ` becomes
`(−gy, gx, gz)` at the turned configuration. -/
example (ρ : Nat → ℝ) (h : PairRegular ρ) :
    bondGrad.gradR (rotEnv 2 quarterTurnZ ρ) 0 = -bondGrad.gradR ρ 1 ∧
    bondGrad.gradR (rotEnv 2 quarterTurnZ ρ) 1 = bondGrad.gradR ρ 0 ∧
    bondGrad.gradR (rotEnv 2 quarterTurnZ ρ) 2 = bondGrad.gradR ρ 2 := by
  have := bond_grad_covariant quarterTurnZ ρ h 0 (by norm_num)
  simp only [Spec.atom, rotV, quarterTurnZ, Prod.mk.injEq] at this
  obtain ⟨t0, t1, t2⟩ := this
  norm_num at t0 t1 t2
  exact ⟨t0, t1, t2⟩

/-- The 90° torsion of `GradTorsion.lean`, turned a quarter about z. -/
example :
    torsionGrad.gradR (rotEnv 4 quarterTurnZ (fun n => if n = 0 ∨ n = 8 ∨ n = 10 ∨ n = 11 then 1 else 0))
      = rotDir 4 quarterTurnZ
          (torsionGrad.gradR (fun n => if n = 0 ∨ n = 8 ∨ n = 10 ∨ n = 11 then 1 else 0)) :=
  torsion_gradR_rotEnv quarterTurnZ _
    (by simp [TorsionRegular, Torsion.p1, Torsion.p2, Torsion.p3, Torsion.q1, Torsion.q2, Torsion.q3,
      Torsion.s1, Torsion.s2, Torsion.s3, Torsion.N0x, Torsion.N0y, Torsion.N0z, Torsion.N1x,
      Torsion.N1y, Torsion.N1z])

end OptRs.Lemmas
