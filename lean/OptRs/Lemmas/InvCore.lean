/-
Inversion term: the core identity of one γ term over opaque real atoms (`term_core`, one `field_simp; ring`),
and the split of the energy tangent into three such terms (`inversionE_evalD`).
-/
import OptRs.Lemmas.InvBasic

open OptRs OptRs.Model.Energy OptRs.Gen

namespace OptRs.Lemmas

theorem radicand_eq (P A B : ℝ) (hA : 0 ≤ A) (hB : 0 ≤ B) :
    -P ^ 2 / (A * B) + 1 = 1 - (P / (√B * √A)) ^ 2 := by
  rw [div_pow, mul_pow, Real.sq_sqrt hA, Real.sq_sqrt hB]; ring

/-- **Core identity** of one γ term over opaque atoms: the tangent of `e(γ)`/3 equals the shape the
sympy-generated code has, given the two rational sub-expressions `X` (= −u·du) and `Y` (= du) in
canonical form. -/
theorem term_core (k c1 c2 P dP A dA B dB X Y : ℝ) (hA : 0 < A) (hB : 0 < B)
    (hR : 0 < 1 - (P / (√B * √A)) ^ 2)
    (hX : X = -(P * dP) / (A * B) + P ^ 2 * dA / (2 * A ^ 2 * B) + P ^ 2 * dB / (2 * A * B ^ 2))
    (hY : Y = dP / (√A * √B) - P * dA / (2 * (A * √A) * √B) - P * dB / (2 * √A * (B * √B))) :
    k * (c1 * (P / (√B * √A)) - 2 * c2 * Real.sin (2 * Real.arccos (P / (√B * √A)))) *
        (-(1 / √(1 - (P / (√B * √A)) ^ 2)) * duR P dP A dA B dB) / 3
    = k * (c1 * X / √(-P ^ 2 / (A * B) + 1)
          + 2 * c2 * Y * Real.sin (2 * Real.arccos (P / (√A * √B))) / √(-P ^ 2 / (A * B) + 1)) / 3 := by
  subst hX hY
  rw [radicand_eq P A B hA.le hB.le, mul_comm (√A) (√B)]
  have hRne : √(1 - (P / (√B * √A)) ^ 2) ≠ 0 := (Real.sqrt_pos.mpr hR).ne'
  have hSA : √A ≠ 0 := (Real.sqrt_pos.mpr hA).ne'
  have hSB : √B ≠ 0 := (Real.sqrt_pos.mpr hB).ne'
  have hA2 : A = √A ^ 2 := (Real.sq_sqrt hA.le).symm
  have hB2 : B = √B ^ 2 := (Real.sq_sqrt hB.le).symm
  unfold duR
  generalize √(1 - (P / (√B * √A)) ^ 2) = R at *
  generalize Real.sin (2 * Real.arccos (P / (√B * √A))) = s
  generalize √A = SA at *
  generalize √B = SB at *
  subst hA2 hB2
  field_simp
  ring

/-! ### Energy side -/

theorem eGamma_evalD (γ : Ex) (ρ δ : Nat → ℝ) (h20 : δ 20 = 0) (h21 : δ 21 = 0) (h22 : δ 22 = 0)
    (h23 : δ 23 = 0) :
    (eGamma γ).evalD ρ δ =
      ρ 23 * (ρ 21 * Real.cos (γ.evalR ρ) - 2 * ρ 22 * Real.sin (2 * γ.evalR ρ)) * γ.evalD ρ δ := by
  simp only [eGamma, Ex.evalD, Ex.evalR, two, toReal_20_1, h20, h21, h22, h23]
  ring

/-- tangent of one `e(γ(c,i,j,k))/3` in opaque atoms (with `cos (arccos u) = u` already used) -/
noncomputable def termE (c i j k : Nat) (ρ δ : Nat → ℝ) : ℝ :=
  ρ 23 * (ρ 21 * (Pr c i j k ρ / (√(Br c i j ρ) * √(Ar c k ρ)))
      - 2 * ρ 22 * Real.sin (2 * Real.arccos (Pr c i j k ρ / (√(Br c i j ρ) * √(Ar c k ρ))))) *
    (-(1 / √(1 - (Pr c i j k ρ / (√(Br c i j ρ) * √(Ar c k ρ))) ^ 2)) *
      duR (Pr c i j k ρ) (dPr c i j k ρ δ) (Ar c k ρ) (dAr c k ρ δ) (Br c i j ρ) (dBr c i j ρ δ)) / 3

theorem eGamma_gamma_evalD (c i j k : Nat) (ρ δ : Nat → ℝ) (h20 : δ 20 = 0) (h21 : δ 21 = 0)
    (h22 : δ 22 = 0) (h23 : δ 23 = 0) (hu : |ur c i j k ρ| < 1) :
    (eGamma (gamma c i j k)).evalD ρ δ / 3 = termE c i j k ρ δ := by
  rw [eGamma_evalD _ ρ δ h20 h21 h22 h23, gamma_evalR, gamma_evalD,
    Real.cos_arccos (neg_le_of_abs_le hu.le) (le_of_abs_le hu.le)]
  rfl

/-- The energy tangent, split into the three γ terms in the order the gradient code lists them. -/
theorem inversionE_evalD (ρ δ : Nat → ℝ) (h20 : δ 20 = 0) (h21 : δ 21 = 0)
    (h22 : δ 22 = 0) (h23 : δ 23 = 0) (hu1 : |ur 0 2 3 1 ρ| < 1) (hu2 : |ur 0 3 1 2 ρ| < 1)
    (hu3 : |ur 0 1 2 3 ρ| < 1) :
    inversionE.evalD ρ δ = termE 0 2 3 1 ρ δ + termE 0 3 1 2 ρ δ + termE 0 1 2 3 ρ δ := by
  rw [← eGamma_gamma_evalD 0 2 3 1 ρ δ h20 h21 h22 h23 hu1, ← eGamma_gamma_evalD 0 3 1 2 ρ δ h20 h21 h22 h23 hu2,
    ← eGamma_gamma_evalD 0 1 2 3 ρ δ h20 h21 h22 h23 hu3]
  simp only [inversionE, three, Ex.evalD, Ex.evalR, toReal_30_1]
  ring

theorem add3_congr {a b c a' b' c' : ℝ} (h1 : a = a') (h2 : b = b') (h3 : c = c') :
    a + b + c = a' + b' + c' := by rw [h1, h2, h3]

end OptRs.Lemmas
