/-
Lists as sets keyed by a canonical form: the lemmas about `insertByKey` / `insertAllByKey` every
connectivity theorem uses. Core Lean only.
-/
import OptRs.Model.Topology
namespace OptRs.Model

variable {α κ : Type} [DecidableEq κ]

theorem mem_keys_insertByKey (key : α → κ) (l : List α) (x : α) (k : κ) :
    k ∈ (insertByKey key l x).map key ↔ k ∈ l.map key ∨ k = key x := by
  unfold insertByKey
  split
  · constructor
    · intro h; exact Or.inl h
    · rintro (h | h)
      · exact h
      · subst h; assumption
  · simp [List.map_append]

theorem mem_keys_insertAllByKey (key : α → κ) (xs : List α) : ∀ (l : List α) (k : κ),
    k ∈ (insertAllByKey key l xs).map key ↔ k ∈ l.map key ∨ k ∈ xs.map key := by
  induction xs with
  | nil => intro l k; simp [insertAllByKey]
  | cons x xs ih =>
    intro l k
    have := ih (insertByKey key l x) k
    simp only [insertAllByKey, List.foldl_cons] at this ⊢
    rw [this, mem_keys_insertByKey]
    simp only [List.map_cons, List.mem_cons]
    constructor
    · rintro ((h | h) | h)
      · exact Or.inl h
      · exact Or.inr (Or.inl h)
      · exact Or.inr (Or.inr h)
    · rintro (h | h | h)
      · exact Or.inl (Or.inl h)
      · exact Or.inl (Or.inr h)
      · exact Or.inr h

theorem nodup_keys_insertByKey (key : α → κ) (l : List α) (x : α) (h : (l.map key).Nodup) :
    ((insertByKey key l x).map key).Nodup := by
  unfold insertByKey
  split
  · exact h
  · rename_i hx
    rw [List.map_append, List.nodup_append]
    refine ⟨h, by simp, ?_⟩
    intro a ha b hb
    simp at hb
    subst hb
    intro e
    subst e
    exact hx ha

theorem nodup_keys_insertAllByKey (key : α → κ) (xs : List α) : ∀ (l : List α),
    (l.map key).Nodup → ((insertAllByKey key l xs).map key).Nodup := by
  induction xs with
  | nil => intro l h; simpa [insertAllByKey] using h
  | cons x xs ih =>
    intro l h
    simp only [insertAllByKey, List.foldl_cons]
    exact ih _ (nodup_keys_insertByKey key l x h)

theorem mem_insertByKey (key : α → κ) (l : List α) (x y : α) (h : y ∈ insertByKey key l x) : y ∈ l ∨ y = x := by
  unfold insertByKey at h
  split at h
  · exact Or.inl h
  · simpa using h

theorem mem_insertAllByKey (key : α → κ) (xs : List α) : ∀ (l : List α) (y : α),
    y ∈ insertAllByKey key l xs → y ∈ l ∨ y ∈ xs := by
  induction xs with
  | nil => intro l y h; exact Or.inl (by simpa [insertAllByKey] using h)
  | cons x xs ih =>
    intro l y h
    simp only [insertAllByKey, List.foldl_cons] at h
    rcases ih _ y h with h | h
    · rcases mem_insertByKey key l x y h with h | h
      · exact Or.inl h
      · exact Or.inr (by simp [h])
    · exact Or.inr (by simp [h])

/-- Old elements survive insertions. -/
theorem subset_insertAllByKey (key : α → κ) (xs : List α) : ∀ (l : List α) (y : α),
    y ∈ l → y ∈ insertAllByKey key l xs := by
  induction xs with
  | nil => intro l y h; simpa [insertAllByKey] using h
  | cons x xs ih =>
    intro l y h
    simp only [insertAllByKey, List.foldl_cons]
    apply ih
    unfold insertByKey
    split
    · exact h
    · simp [h]

end OptRs.Model
