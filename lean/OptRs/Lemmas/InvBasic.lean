/-
Inversion term, energy side: the pieces of `gamma c i j k` (triple product `P`, squared axis length `A`,
squared normal length `B`) as `Ex` sub-terms and as opaque real atoms `Pr/Ar/Br` with tangents
`dPr/dAr/dBr`; `evalR`/`evalD`/`Reg` of `gamma` in those atoms (all by `rfl`).
-/
import OptRs.Calc.Real
import OptRs.Model.Energy
import OptRs.Gen.Grad
import OptRs.Lemmas.EnvR
import OptRs.Lemmas.Geometry
import Mathlib.Tactic.Ring
import Mathlib.Tactic.FieldSimp
import Mathlib.Tactic.Linarith

open OptRs OptRs.Model.Energy OptRs.Gen

namespace OptRs.Lemmas

/-! ### Literals -/

@[simp] theorem toReal_20_1 (b : Nat) : Num.toReal (.dec 20 1 b) = 2 := by norm_num [Num.toReal]
@[simp] theorem toReal_30_1 (b : Nat) : Num.toReal (.dec 30 1 b) = 3 := by norm_num [Num.toReal]
@[simp] theorem toReal_1_0 (b : Nat) : Num.toReal (.dec 1 0 b) = 1 := by norm_num [Num.toReal]
@[simp] theorem toReal_2_0 (b : Nat) : Num.toReal (.dec 2 0 b) = 2 := by norm_num [Num.toReal]
@[simp] theorem toReal_3_0 (b : Nat) : Num.toReal (.dec 3 0 b) = 3 := by norm_num [Num.toReal]

/-! ### The pieces of `gamma c i j k` -/

def sumsq (a : V3) : Ex := .add (.add (.powi a.1 2) (.powi a.2.1 2)) (.powi a.2.2 2)

/-- the plane normal `(r_i - r_c) × (r_j - r_c)` -/
def nEx (c i j : Nat) : V3 := cross (vsub (pos i) (pos c)) (vsub (pos j) (pos c))
/-- triple product -/
def PEx (c i j k : Nat) : Ex := dot (nEx c i j) (vsub (pos k) (pos c))
/-- squared length of the axis `r_k - r_c` -/
def AEx (c k : Nat) : Ex := sumsq (vsub (pos k) (pos c))
/-- squared length of the normal -/
def BEx (c i j : Nat) : Ex := sumsq (nEx c i j)

theorem gamma_eq (c i j k : Nat) :
    gamma c i j k = .acos (.div (PEx c i j k) (.mul (.sqrt (BEx c i j)) (.sqrt (AEx c k)))) := rfl

noncomputable def Pr (c i j k : Nat) (ρ : Nat → ℝ) : ℝ := (PEx c i j k).evalR ρ
noncomputable def Ar (c k : Nat) (ρ : Nat → ℝ) : ℝ := (AEx c k).evalR ρ
noncomputable def Br (c i j : Nat) (ρ : Nat → ℝ) : ℝ := (BEx c i j).evalR ρ
noncomputable def dPr (c i j k : Nat) (ρ δ : Nat → ℝ) : ℝ := (PEx c i j k).evalD ρ δ
noncomputable def dAr (c k : Nat) (ρ δ : Nat → ℝ) : ℝ := (AEx c k).evalD ρ δ
noncomputable def dBr (c i j : Nat) (ρ δ : Nat → ℝ) : ℝ := (BEx c i j).evalD ρ δ

/-- argument of the arccos -/
noncomputable def ur (c i j k : Nat) (ρ : Nat → ℝ) : ℝ := Pr c i j k ρ / (√(Br c i j ρ) * √(Ar c k ρ))

theorem gamma_evalR (c i j k : Nat) (ρ : Nat → ℝ) :
    (gamma c i j k).evalR ρ = Real.arccos (ur c i j k ρ) := rfl

/-- tangent of the arccos argument, in opaque atoms -/
noncomputable def duR (P dP A dA B dB : ℝ) : ℝ :=
  (dP * (√B * √A) - P * (dB / (2 * √B) * √A + √B * (dA / (2 * √A)))) / (√B * √A) ^ 2

theorem gamma_evalD (c i j k : Nat) (ρ δ : Nat → ℝ) :
    (gamma c i j k).evalD ρ δ = -(1 / √(1 - (ur c i j k ρ) ^ 2)) *
      duR (Pr c i j k ρ) (dPr c i j k ρ δ) (Ar c k ρ) (dAr c k ρ δ) (Br c i j ρ) (dBr c i j ρ δ) := rfl

theorem gamma_reg (c i j k : Nat) (ρ : Nat → ℝ) (hA : 0 < Ar c k ρ) (hB : 0 < Br c i j ρ)
    (h1 : -1 < ur c i j k ρ) (h2 : ur c i j k ρ < 1) : (gamma c i j k).Reg ρ := by
  have hsA := Real.sqrt_pos.mpr hA
  have hsB := Real.sqrt_pos.mpr hB
  rw [gamma_eq]
  refine ⟨⟨?_, ⟨⟨?_, hB⟩, ⟨?_, hA⟩⟩, ?_⟩, h1, h2⟩
  · simp [PEx, nEx, dot, cross, vsub, pos, Ex.Reg]
  · simp [BEx, nEx, sumsq, cross, vsub, pos, Ex.Reg]
  · simp [AEx, sumsq, vsub, pos, Ex.Reg]
  · exact (mul_pos hsB hsA).ne'

end OptRs.Lemmas
