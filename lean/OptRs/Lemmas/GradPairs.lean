import OptRs.Calc.Real
import OptRs.Model.Energy
import OptRs.Gen.Grad
import OptRs.Lemmas.Geometry
import Mathlib.Tactic.Ring
import Mathlib.Tactic.FieldSimp
import Mathlib.Tactic.Linarith
import Mathlib.Tactic.LinearCombination
import Mathlib.Tactic.IntervalCases
import Mathlib.Tactic.NormNum

open OptRs OptRs.Model.Energy OptRs.Gen Real

namespace OptRs.Lemmas

/-- The two atoms of a pair term do not coincide. -/
def PairRegular (ρ : Nat → ℝ) : Prop := 0 < (ρ 0 - ρ 3) ^ 2 + (ρ 1 - ρ 4) ^ 2 + (ρ 2 - ρ 5) ^ 2

example : PairRegular (fun n => if n = 0 then 1 else if n = 4 then -2 else 0) := by
  unfold PairRegular; norm_num

theorem PairRegular.sqrt_ne {ρ : Nat → ℝ} (h : PairRegular ρ) :
    √((ρ 0 - ρ 3) ^ 2 + (ρ 1 - ρ 4) ^ 2 + (ρ 2 - ρ 5) ^ 2) ≠ 0 := (Real.sqrt_pos.mpr h).ne'

theorem distance_evalR (ρ : Nat → ℝ) :
    (distance 0 1).evalR ρ = √((ρ 0 - ρ 3) ^ 2 + (ρ 1 - ρ 4) ^ 2 + (ρ 2 - ρ 5) ^ 2) := by
  simp [distance, pos, Ex.evalR]

theorem dist_spec (ρ : Nat → ℝ) :
    OptRs.Spec.dist (OptRs.Spec.atom ρ 0) (OptRs.Spec.atom ρ 1)
      = √((ρ 0 - ρ 3) ^ 2 + (ρ 1 - ρ 4) ^ 2 + (ρ 2 - ρ 5) ^ 2) := by
  simp [Spec.dist, Spec.atom, Spec.norm, Spec.vsub]

theorem distance_reg (ρ : Nat → ℝ) (h : PairRegular ρ) : (distance 0 1).Reg ρ := by
  unfold PairRegular at h
  simp [distance, pos, Ex.Reg, Ex.evalR]
  exact h

/-! ## Regularity -/

theorem bond_reg (ρ : Nat → ℝ) (h : PairRegular ρ) : bondE.Reg ρ := by
  have hd := distance_reg ρ h
  simp only [bondE, Ex.Reg, two, Ex.evalR, Num.toReal]
  refine ⟨⟨trivial, trivial, ?_⟩, hd, trivial⟩
  norm_num

theorem lj_reg (ρ : Nat → ℝ) (h : PairRegular ρ) : ljE.Reg ρ := by
  have hd := distance_reg ρ h
  have hne : (distance 0 1).evalR ρ ≠ 0 := by rw [distance_evalR]; exact h.sqrt_ne
  simp only [ljE, Ex.Reg, two]
  exact ⟨trivial, ⟨trivial, hd, hne⟩, trivial, trivial, hd, hne⟩

theorem repulsion_reg (n : Nat) (ρ : Nat → ℝ) (h : PairRegular ρ) : (repulsionE n).Reg ρ := by
  have hd := distance_reg ρ h
  have hne : (distance 0 1).evalR ρ ≠ 0 := by rw [distance_evalR]; exact h.sqrt_ne
  simp only [repulsionE, Ex.Reg, Ex.evalR]
  exact ⟨trivial, hd, pow_ne_zero _ hne⟩

/-! ## Closed forms -/

theorem bond_closed (ρ : Nat → ℝ) :
    bondE.evalR ρ = ρ 21 / 2 *
      (OptRs.Spec.dist (OptRs.Spec.atom ρ 0) (OptRs.Spec.atom ρ 1) - ρ 20) ^ 2 := by
  rw [dist_spec, ← distance_evalR]
  simp only [bondE, two, Ex.evalR, Num.toReal]
  norm_num

theorem lj_closed (ρ : Nat → ℝ) :
    ljE.evalR ρ = ρ 21 *
      ((ρ 20 / OptRs.Spec.dist (OptRs.Spec.atom ρ 0) (OptRs.Spec.atom ρ 1)) ^ 12
        - 2 * (ρ 20 / OptRs.Spec.dist (OptRs.Spec.atom ρ 0) (OptRs.Spec.atom ρ 1)) ^ 6) := by
  rw [dist_spec, ← distance_evalR]
  simp only [ljE, two, Ex.evalR, Num.toReal]
  norm_num

theorem repulsion_closed (n : Nat) (ρ : Nat → ℝ) :
    (repulsionE n).evalR ρ
      = ρ 20 / OptRs.Spec.dist (OptRs.Spec.atom ρ 0) (OptRs.Spec.atom ρ 1) ^ n := by
  rw [dist_spec, ← distance_evalR]
  simp only [repulsionE, Ex.evalR]

/-! ## Bond identities -/

macro "bond_tac" h:ident : tactic => `(tactic| (
  have hs := PairRegular.sqrt_ne $h
  simp only [bondE, bondGrad, Prog.gradR, Prog.gradRaw, List.lookup, Prog.envR, distance, pos, two, Ex.evalD, Ex.evalR,
    bond_v0, bond_v1, bond_v2, bond_v3, bond_v4, bond_v5, bond_v6, bond_g0, bond_g1, bond_g2, bond_g3,
    bond_g4, bond_g5, Num.toReal]
  simp [Ex.evalR]
  field_simp
  ring))

theorem bond_identity_0 (ρ : Nat → ℝ) (h : PairRegular ρ) :
    bondE.evalD ρ (Pi.single 0 1) = bondGrad.gradR ρ 0 := by bond_tac h
theorem bond_identity_1 (ρ : Nat → ℝ) (h : PairRegular ρ) :
    bondE.evalD ρ (Pi.single 1 1) = bondGrad.gradR ρ 1 := by bond_tac h
theorem bond_identity_2 (ρ : Nat → ℝ) (h : PairRegular ρ) :
    bondE.evalD ρ (Pi.single 2 1) = bondGrad.gradR ρ 2 := by bond_tac h
theorem bond_identity_3 (ρ : Nat → ℝ) (h : PairRegular ρ) :
    bondE.evalD ρ (Pi.single 3 1) = bondGrad.gradR ρ 3 := by bond_tac h
theorem bond_identity_4 (ρ : Nat → ℝ) (h : PairRegular ρ) :
    bondE.evalD ρ (Pi.single 4 1) = bondGrad.gradR ρ 4 := by bond_tac h
theorem bond_identity_5 (ρ : Nat → ℝ) (h : PairRegular ρ) :
    bondE.evalD ρ (Pi.single 5 1) = bondGrad.gradR ρ 5 := by bond_tac h

theorem bond_identity (ρ : Nat → ℝ) (h : PairRegular ρ) :
    ∀ s, s < 6 → bondE.evalD ρ (Pi.single s 1) = bondGrad.gradR ρ s := by
  intro s hs
  interval_cases s
  · exact bond_identity_0 ρ h
  · exact bond_identity_1 ρ h
  · exact bond_identity_2 ρ h
  · exact bond_identity_3 ρ h
  · exact bond_identity_4 ρ h
  · exact bond_identity_5 ρ h

/-! ## Lennard-Jones identities -/

macro "lj_tac" ρ:ident h:ident : tactic => `(tactic| (
  have hs := PairRegular.sqrt_ne $h
  have hpos : 0 ≤ ($ρ 0 - $ρ 3) ^ 2 + ($ρ 1 - $ρ 4) ^ 2 + ($ρ 2 - $ρ 5) ^ 2 := le_of_lt $h
  simp only [ljE, ljGrad, Prog.gradR, Prog.gradRaw, List.lookup, Prog.envR, distance, pos, two, Ex.evalD, Ex.evalR,
    lj_v0, lj_v1, lj_v2, lj_v3, lj_v4, lj_v5, lj_v6, lj_v7, lj_g0, lj_g1, lj_g2, lj_g3,
    lj_g4, lj_g5, Num.toReal]
  simp [Ex.evalR, Num.toReal]
  left
  have hS2 := Real.sq_sqrt hpos
  generalize √(($ρ 0 - $ρ 3) ^ 2 + ($ρ 1 - $ρ 4) ^ 2 + ($ρ 2 - $ρ 5) ^ 2) = S at hs hS2 ⊢
  rw [← hS2]
  field_simp
  ring))

theorem lj_identity_0 (ρ : Nat → ℝ) (h : PairRegular ρ) :
    ljE.evalD ρ (Pi.single 0 1) = ljGrad.gradR ρ 0 := by lj_tac ρ h
theorem lj_identity_1 (ρ : Nat → ℝ) (h : PairRegular ρ) :
    ljE.evalD ρ (Pi.single 1 1) = ljGrad.gradR ρ 1 := by lj_tac ρ h
theorem lj_identity_2 (ρ : Nat → ℝ) (h : PairRegular ρ) :
    ljE.evalD ρ (Pi.single 2 1) = ljGrad.gradR ρ 2 := by lj_tac ρ h
theorem lj_identity_3 (ρ : Nat → ℝ) (h : PairRegular ρ) :
    ljE.evalD ρ (Pi.single 3 1) = ljGrad.gradR ρ 3 := by lj_tac ρ h
theorem lj_identity_4 (ρ : Nat → ℝ) (h : PairRegular ρ) :
    ljE.evalD ρ (Pi.single 4 1) = ljGrad.gradR ρ 4 := by lj_tac ρ h
theorem lj_identity_5 (ρ : Nat → ℝ) (h : PairRegular ρ) :
    ljE.evalD ρ (Pi.single 5 1) = ljGrad.gradR ρ 5 := by lj_tac ρ h

theorem lj_identity (ρ : Nat → ℝ) (h : PairRegular ρ) :
    ∀ s, s < 6 → ljE.evalD ρ (Pi.single s 1) = ljGrad.gradR ρ s := by
  intro s hs
  interval_cases s
  · exact lj_identity_0 ρ h
  · exact lj_identity_1 ρ h
  · exact lj_identity_2 ρ h
  · exact lj_identity_3 ρ h
  · exact lj_identity_4 ρ h
  · exact lj_identity_5 ρ h

/-! ## Repulsion identities (all `n : Nat`, including `n = 0` where both sides vanish) -/

macro "rep_tac" ρ:ident h:ident n:ident : tactic => `(tactic| (
  have hs := PairRegular.sqrt_ne $h
  simp only [repulsionE, repulsionGrad, Prog.gradR, Prog.gradRaw, List.lookup, Prog.envR, distance, pos, Ex.evalD,
    Ex.evalR, repulsion_v0, repulsion_v1, repulsion_v2, repulsion_v3, repulsion_v4, repulsion_g0,
    repulsion_g1, repulsion_g2, repulsion_g3, repulsion_g4, repulsion_g5]
  generalize hS : √(($ρ 0 - $ρ 3) ^ 2 + ($ρ 1 - $ρ 4) ^ 2 + ($ρ 2 - $ρ 5) ^ 2) = S at hs
  cases $n:ident with
  | zero => simp [Ex.evalR, hS]
  | succ m =>
    simp [Ex.evalR, hS]
    field_simp
    ring))

theorem repulsion_identity_0 (n : Nat) (ρ : Nat → ℝ) (h : PairRegular ρ) :
    (repulsionE n).evalD ρ (Pi.single 0 1) = (repulsionGrad n).gradR ρ 0 := by rep_tac ρ h n
theorem repulsion_identity_1 (n : Nat) (ρ : Nat → ℝ) (h : PairRegular ρ) :
    (repulsionE n).evalD ρ (Pi.single 1 1) = (repulsionGrad n).gradR ρ 1 := by rep_tac ρ h n
theorem repulsion_identity_2 (n : Nat) (ρ : Nat → ℝ) (h : PairRegular ρ) :
    (repulsionE n).evalD ρ (Pi.single 2 1) = (repulsionGrad n).gradR ρ 2 := by rep_tac ρ h n
theorem repulsion_identity_3 (n : Nat) (ρ : Nat → ℝ) (h : PairRegular ρ) :
    (repulsionE n).evalD ρ (Pi.single 3 1) = (repulsionGrad n).gradR ρ 3 := by rep_tac ρ h n
theorem repulsion_identity_4 (n : Nat) (ρ : Nat → ℝ) (h : PairRegular ρ) :
    (repulsionE n).evalD ρ (Pi.single 4 1) = (repulsionGrad n).gradR ρ 4 := by rep_tac ρ h n
theorem repulsion_identity_5 (n : Nat) (ρ : Nat → ℝ) (h : PairRegular ρ) :
    (repulsionE n).evalD ρ (Pi.single 5 1) = (repulsionGrad n).gradR ρ 5 := by rep_tac ρ h n

theorem repulsion_identity (n : Nat) (ρ : Nat → ℝ) (h : PairRegular ρ) :
    ∀ s, s < 6 → (repulsionE n).evalD ρ (Pi.single s 1) = (repulsionGrad n).gradR ρ s := by
  intro s hs
  interval_cases s
  · exact repulsion_identity_0 n ρ h
  · exact repulsion_identity_1 n ρ h
  · exact repulsion_identity_2 n ρ h
  · exact repulsion_identity_3 n ρ h
  · exact repulsion_identity_4 n ρ h
  · exact repulsion_identity_5 n ρ h

/-! ## Derivative statements -/

theorem bond_hasDerivAt (ρ : Nat → ℝ) (h : PairRegular ρ) (s : Nat) (hs : s < 6) :
    HasDerivAt (fun t => bondE.evalR (Function.update ρ s t)) (bondGrad.gradR ρ s) (ρ s) :=
  hasDerivAt_of_identity bondE bondGrad ρ s (bond_reg ρ h) (bond_identity ρ h s hs)

theorem lj_hasDerivAt (ρ : Nat → ℝ) (h : PairRegular ρ) (s : Nat) (hs : s < 6) :
    HasDerivAt (fun t => ljE.evalR (Function.update ρ s t)) (ljGrad.gradR ρ s) (ρ s) :=
  hasDerivAt_of_identity ljE ljGrad ρ s (lj_reg ρ h) (lj_identity ρ h s hs)

theorem repulsion_hasDerivAt (n : Nat) (ρ : Nat → ℝ) (h : PairRegular ρ) (s : Nat) (hs : s < 6) :
    HasDerivAt (fun t => (repulsionE n).evalR (Function.update ρ s t)) ((repulsionGrad n).gradR ρ s) (ρ s) :=
  hasDerivAt_of_identity (repulsionE n) (repulsionGrad n) ρ s (repulsion_reg n ρ h)
    (repulsion_identity n ρ h s hs)

/-! ## Slots outside 0..5 are not written -/

theorem bond_untouched (ρ : Nat → ℝ) (s : Nat) (hs : 6 ≤ s) : bondGrad.gradR ρ s = 0 := by
  have e : ∀ j, j < 6 → (s == j) = false := fun j hj => beq_eq_false_iff_ne.mpr (by omega)
  simp [Prog.gradR, Prog.gradRaw, bondGrad, List.lookup, e]

theorem lj_untouched (ρ : Nat → ℝ) (s : Nat) (hs : 6 ≤ s) : ljGrad.gradR ρ s = 0 := by
  have e : ∀ j, j < 6 → (s == j) = false := fun j hj => beq_eq_false_iff_ne.mpr (by omega)
  simp [Prog.gradR, Prog.gradRaw, ljGrad, List.lookup, e]

theorem repulsion_untouched (n : Nat) (ρ : Nat → ℝ) (s : Nat) (hs : 6 ≤ s) :
    (repulsionGrad n).gradR ρ s = 0 := by
  have e : ∀ j, j < 6 → (s == j) = false := fun j hj => beq_eq_false_iff_ne.mpr (by omega)
  simp [Prog.gradR, Prog.gradRaw, repulsionGrad, List.lookup, e]


end OptRs.Lemmas
