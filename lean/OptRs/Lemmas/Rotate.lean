/-
Rotation invariance. A proper rotation (orthonormal columns, determinant one) applied to every atom of a
term leaves the specification's distance, bond angle, torsional angle and inversion angle unchanged, hence
(via the closed forms of C02) leaves each of the seven energy expressions unchanged.
-/
import OptRs.Lemmas.GradPairs
import OptRs.Lemmas.GradBends
import OptRs.Lemmas.GradTorsion
import OptRs.Lemmas.GradInversion
import OptRs.Lemmas.Geometry
import Mathlib.Tactic.Ring
import Mathlib.Tactic.Linarith
import Mathlib.Tactic.LinearCombination
import Mathlib.Tactic.NormNum

open OptRs OptRs.Model.Energy

namespace OptRs.Lemmas

/-! ## Rotations -/

/-- A proper rotation of ℝ³: the nine entries `rᵢⱼ` (row `i`, column `j`), the six equations of
`RᵀR = 1` (columns orthonormal) and `det R = 1`. -/
structure Rot where
  r00 : ℝ
  r01 : ℝ
  r02 : ℝ
  r10 : ℝ
  r11 : ℝ
  r12 : ℝ
  r20 : ℝ
  r21 : ℝ
  r22 : ℝ
  c00 : r00 * r00 + r10 * r10 + r20 * r20 = 1
  c11 : r01 * r01 + r11 * r11 + r21 * r21 = 1
  c22 : r02 * r02 + r12 * r12 + r22 * r22 = 1
  c01 : r00 * r01 + r10 * r11 + r20 * r21 = 0
  c02 : r00 * r02 + r10 * r12 + r20 * r22 = 0
  c12 : r01 * r02 + r11 * r12 + r21 * r22 = 0
  det : r00 * (r11 * r22 - r12 * r21) - r01 * (r10 * r22 - r12 * r20)
      + r02 * (r10 * r21 - r11 * r20) = 1

/-- `R v`. -/
def rotV (R : Rot) (v : Spec.V) : Spec.V :=
  (R.r00 * v.1 + R.r01 * v.2.1 + R.r02 * v.2.2,
   R.r10 * v.1 + R.r11 * v.2.1 + R.r12 * v.2.2,
   R.r20 * v.1 + R.r21 * v.2.1 + R.r22 * v.2.2)

/-- Rotate atoms `0 .. na-1` (variables `0 .. 3·na − 1`) of an environment; every other variable (in
particular the parameters, variables `20 ..`) is left alone. -/
def rotEnv (na : Nat) (R : Rot) (ρ : Nat → ℝ) : Nat → ℝ := fun v =>
  if v < 3 * na then
    (if v % 3 = 0 then (rotV R (Spec.atom ρ (v / 3))).1
     else if v % 3 = 1 then (rotV R (Spec.atom ρ (v / 3))).2.1
     else (rotV R (Spec.atom ρ (v / 3))).2.2)
  else ρ v

theorem rotEnv_atom (na : Nat) (R : Rot) (ρ : Nat → ℝ) (a : Nat) (ha : a < na) :
    Spec.atom (rotEnv na R ρ) a = rotV R (Spec.atom ρ a) := by
  have h0 : 3 * a < 3 * na := by omega
  have h1 : 3 * a + 1 < 3 * na := by omega
  have h2 : 3 * a + 2 < 3 * na := by omega
  have m0 : 3 * a % 3 = 0 := by omega
  have m1 : (3 * a + 1) % 3 = 1 := by omega
  have m2 : (3 * a + 2) % 3 = 2 := by omega
  have d0 : 3 * a / 3 = a := by omega
  have d1 : (3 * a + 1) / 3 = a := by omega
  have d2 : (3 * a + 2) / 3 = a := by omega
  simp only [Spec.atom, rotEnv, h0, h1, h2, m0, m1, m2, d0, d1, d2, if_true]
  norm_num

theorem rotEnv_param (na : Nat) (R : Rot) (ρ : Nat → ℝ) (v : Nat) (hv : 3 * na ≤ v) :
    rotEnv na R ρ v = ρ v := by
  have : ¬ v < 3 * na := by omega
  simp only [rotEnv, this, if_false]

/-! ## Invariants of the specification geometry -/

theorem dot_rot (R : Rot) (a b : Spec.V) : Spec.dot (rotV R a) (rotV R b) = Spec.dot a b := by
  obtain ⟨a1, a2, a3⟩ := a
  obtain ⟨b1, b2, b3⟩ := b
  simp only [Spec.dot, rotV]
  linear_combination (a1 * b1) * R.c00 + (a2 * b2) * R.c11 + (a3 * b3) * R.c22
    + (a1 * b2 + a2 * b1) * R.c01 + (a1 * b3 + a3 * b1) * R.c02 + (a2 * b3 + a3 * b2) * R.c12

theorem norm_eq_sqrt_dot (a : Spec.V) : Spec.norm a = √(Spec.dot a a) := by
  simp only [Spec.norm, Spec.dot]
  congr 1
  ring

theorem norm_rot (R : Rot) (a : Spec.V) : Spec.norm (rotV R a) = Spec.norm a := by
  rw [norm_eq_sqrt_dot, norm_eq_sqrt_dot, dot_rot]

theorem vsub_rot (R : Rot) (a b : Spec.V) :
    Spec.vsub (rotV R a) (rotV R b) = rotV R (Spec.vsub a b) := by
  obtain ⟨a1, a2, a3⟩ := a
  obtain ⟨b1, b2, b3⟩ := b
  simp only [Spec.vsub, rotV]
  refine Prod.ext ?_ (Prod.ext ?_ ?_) <;> simp only <;> ring

theorem dist_rot (R : Rot) (a b : Spec.V) : Spec.dist (rotV R a) (rotV R b) = Spec.dist a b := by
  simp only [Spec.dist, vsub_rot, norm_rot]

theorem bondAngle_rot (R : Rot) (p q r : Spec.V) :
    Spec.bondAngle (rotV R p) (rotV R q) (rotV R r) = Spec.bondAngle p q r := by
  simp only [Spec.bondAngle, vsub_rot, norm_rot, dot_rot]

/-! ### The cofactor identity: for `RᵀR = 1`, `det R = 1`, the cofactor matrix of `R` is `R`. -/

theorem Rot.cof00 (R : Rot) : R.r11 * R.r22 - R.r12 * R.r21 = R.r00 := by
  linear_combination R.r00 * R.det
    - (R.r11 * R.r22 - R.r12 * R.r21) * R.c00
    - (R.r12 * R.r20 - R.r10 * R.r22) * R.c01
    - (R.r10 * R.r21 - R.r11 * R.r20) * R.c02

theorem Rot.cof01 (R : Rot) : R.r12 * R.r20 - R.r10 * R.r22 = R.r01 := by
  linear_combination R.r01 * R.det
    - (R.r11 * R.r22 - R.r12 * R.r21) * R.c01
    - (R.r12 * R.r20 - R.r10 * R.r22) * R.c11
    - (R.r10 * R.r21 - R.r11 * R.r20) * R.c12

theorem Rot.cof02 (R : Rot) : R.r10 * R.r21 - R.r11 * R.r20 = R.r02 := by
  linear_combination R.r02 * R.det
    - (R.r11 * R.r22 - R.r12 * R.r21) * R.c02
    - (R.r12 * R.r20 - R.r10 * R.r22) * R.c12
    - (R.r10 * R.r21 - R.r11 * R.r20) * R.c22

theorem Rot.cof10 (R : Rot) : R.r02 * R.r21 - R.r01 * R.r22 = R.r10 := by
  linear_combination R.r10 * R.det
    - (R.r02 * R.r21 - R.r01 * R.r22) * R.c00
    - (R.r00 * R.r22 - R.r02 * R.r20) * R.c01
    - (R.r01 * R.r20 - R.r00 * R.r21) * R.c02

theorem Rot.cof11 (R : Rot) : R.r00 * R.r22 - R.r02 * R.r20 = R.r11 := by
  linear_combination R.r11 * R.det
    - (R.r02 * R.r21 - R.r01 * R.r22) * R.c01
    - (R.r00 * R.r22 - R.r02 * R.r20) * R.c11
    - (R.r01 * R.r20 - R.r00 * R.r21) * R.c12

theorem Rot.cof12 (R : Rot) : R.r01 * R.r20 - R.r00 * R.r21 = R.r12 := by
  linear_combination R.r12 * R.det
    - (R.r02 * R.r21 - R.r01 * R.r22) * R.c02
    - (R.r00 * R.r22 - R.r02 * R.r20) * R.c12
    - (R.r01 * R.r20 - R.r00 * R.r21) * R.c22

theorem Rot.cof20 (R : Rot) : R.r01 * R.r12 - R.r02 * R.r11 = R.r20 := by
  linear_combination R.r20 * R.det
    - (R.r01 * R.r12 - R.r02 * R.r11) * R.c00
    - (R.r02 * R.r10 - R.r00 * R.r12) * R.c01
    - (R.r00 * R.r11 - R.r01 * R.r10) * R.c02

theorem Rot.cof21 (R : Rot) : R.r02 * R.r10 - R.r00 * R.r12 = R.r21 := by
  linear_combination R.r21 * R.det
    - (R.r01 * R.r12 - R.r02 * R.r11) * R.c01
    - (R.r02 * R.r10 - R.r00 * R.r12) * R.c11
    - (R.r00 * R.r11 - R.r01 * R.r10) * R.c12

theorem Rot.cof22 (R : Rot) : R.r00 * R.r11 - R.r01 * R.r10 = R.r22 := by
  linear_combination R.r22 * R.det
    - (R.r01 * R.r12 - R.r02 * R.r11) * R.c02
    - (R.r02 * R.r10 - R.r00 * R.r12) * R.c12
    - (R.r00 * R.r11 - R.r01 * R.r10) * R.c22

/-- Rotations commute with the cross product. -/
theorem cross_rot (R : Rot) (a b : Spec.V) :
    Spec.cross (rotV R a) (rotV R b) = rotV R (Spec.cross a b) := by
  obtain ⟨a1, a2, a3⟩ := a
  obtain ⟨b1, b2, b3⟩ := b
  simp only [Spec.cross, rotV]
  refine Prod.ext ?_ (Prod.ext ?_ ?_) <;> simp only
  · linear_combination (a2 * b3 - a3 * b2) * R.cof00 + (a3 * b1 - a1 * b3) * R.cof01
      + (a1 * b2 - a2 * b1) * R.cof02
  · linear_combination (a2 * b3 - a3 * b2) * R.cof10 + (a3 * b1 - a1 * b3) * R.cof11
      + (a1 * b2 - a2 * b1) * R.cof12
  · linear_combination (a2 * b3 - a3 * b2) * R.cof20 + (a3 * b1 - a1 * b3) * R.cof21
      + (a1 * b2 - a2 * b1) * R.cof22

theorem dihedral_rot (R : Rot) (p q r s : Spec.V) :
    Spec.dihedral (rotV R p) (rotV R q) (rotV R r) (rotV R s) = Spec.dihedral p q r s := by
  simp only [Spec.dihedral, vsub_rot, cross_rot, norm_rot, dot_rot]

theorem inversionAngle_rot (R : Rot) (c i j k : Spec.V) :
    Spec.inversionAngle (rotV R c) (rotV R i) (rotV R j) (rotV R k) = Spec.inversionAngle c i j k := by
  simp only [Spec.inversionAngle, vsub_rot, cross_rot, norm_rot, dot_rot]

/-! ## Energies -/

theorem bond_rotate (R : Rot) (ρ : Nat → ℝ) : bondE.evalR (rotEnv 2 R ρ) = bondE.evalR ρ := by
  rw [bond_closed, bond_closed, rotEnv_atom 2 R ρ 0 (by norm_num), rotEnv_atom 2 R ρ 1 (by norm_num),
    dist_rot, rotEnv_param 2 R ρ 20 (by norm_num), rotEnv_param 2 R ρ 21 (by norm_num)]

theorem lj_rotate (R : Rot) (ρ : Nat → ℝ) : ljE.evalR (rotEnv 2 R ρ) = ljE.evalR ρ := by
  rw [lj_closed, lj_closed, rotEnv_atom 2 R ρ 0 (by norm_num), rotEnv_atom 2 R ρ 1 (by norm_num),
    dist_rot, rotEnv_param 2 R ρ 20 (by norm_num), rotEnv_param 2 R ρ 21 (by norm_num)]

theorem repulsion_rotate (n : Nat) (R : Rot) (ρ : Nat → ℝ) :
    (repulsionE n).evalR (rotEnv 2 R ρ) = (repulsionE n).evalR ρ := by
  rw [repulsion_closed, repulsion_closed, rotEnv_atom 2 R ρ 0 (by norm_num),
    rotEnv_atom 2 R ρ 1 (by norm_num), dist_rot, rotEnv_param 2 R ρ 20 (by norm_num)]

theorem angleA_rotate (R : Rot) (ρ : Nat → ℝ) : angleAE.evalR (rotEnv 3 R ρ) = angleAE.evalR ρ := by
  rw [angleA_closed_form, angleA_closed_form, rotEnv_atom 3 R ρ 0 (by norm_num),
    rotEnv_atom 3 R ρ 1 (by norm_num), rotEnv_atom 3 R ρ 2 (by norm_num), bondAngle_rot,
    rotEnv_param 3 R ρ 20 (by norm_num), rotEnv_param 3 R ρ 21 (by norm_num)]

theorem angleB_rotate (R : Rot) (ρ : Nat → ℝ) : angleBE.evalR (rotEnv 3 R ρ) = angleBE.evalR ρ := by
  rw [angleB_closed_form, angleB_closed_form, rotEnv_atom 3 R ρ 0 (by norm_num),
    rotEnv_atom 3 R ρ 1 (by norm_num), rotEnv_atom 3 R ρ 2 (by norm_num), bondAngle_rot,
    rotEnv_param 3 R ρ 20 (by norm_num), rotEnv_param 3 R ρ 21 (by norm_num),
    rotEnv_param 3 R ρ 22 (by norm_num), rotEnv_param 3 R ρ 23 (by norm_num)]

theorem inversion_rotate (R : Rot) (ρ : Nat → ℝ) :
    inversionE.evalR (rotEnv 4 R ρ) = inversionE.evalR ρ := by
  rw [inversion_closed_form, inversion_closed_form, rotEnv_atom 4 R ρ 0 (by norm_num),
    rotEnv_atom 4 R ρ 1 (by norm_num), rotEnv_atom 4 R ρ 2 (by norm_num),
    rotEnv_atom 4 R ρ 3 (by norm_num), inversionAngle_rot, inversionAngle_rot, inversionAngle_rot,
    rotEnv_param 4 R ρ 20 (by norm_num), rotEnv_param 4 R ρ 21 (by norm_num),
    rotEnv_param 4 R ρ 22 (by norm_num), rotEnv_param 4 R ρ 23 (by norm_num)]

/-- Rotation invariance of the torsion energy, with both regularity hypotheses. -/
theorem torsion_rotate' (R : Rot) (ρ : Nat → ℝ) (h : TorsionRegular ρ)
    (h' : TorsionRegular (rotEnv 4 R ρ)) :
    torsionE.evalR (rotEnv 4 R ρ) = torsionE.evalR ρ := by
  rw [torsion_closed_form _ h', torsion_closed_form _ h, rotEnv_atom 4 R ρ 0 (by norm_num),
    rotEnv_atom 4 R ρ 1 (by norm_num), rotEnv_atom 4 R ρ 2 (by norm_num),
    rotEnv_atom 4 R ρ 3 (by norm_num), dihedral_rot,
    rotEnv_param 4 R ρ 20 (by norm_num), rotEnv_param 4 R ρ 21 (by norm_num),
    rotEnv_param 4 R ρ 22 (by norm_num)]

/-! ### `TorsionRegular` is rotation invariant -/

/-- `TorsionRegular` restated on the four atom positions, in the specification's vector operations. -/
def SpecTorsionRegular (xi xj xk xl : Spec.V) : Prop :=
  0 < Spec.dot (Spec.vsub xk xj) (Spec.vsub xk xj) ∧
  0 < Spec.dot (Spec.cross (Spec.vsub xi xj) (Spec.vsub xk xj))
        (Spec.cross (Spec.vsub xi xj) (Spec.vsub xk xj)) ∧
  0 < Spec.dot (Spec.cross (Spec.vsub xj xk) (Spec.vsub xl xk))
        (Spec.cross (Spec.vsub xj xk) (Spec.vsub xl xk)) ∧
  (Spec.dot (Spec.cross (Spec.cross (Spec.vsub xi xj) (Spec.vsub xk xj)) (Spec.vsub xk xj))
        (Spec.cross (Spec.vsub xj xk) (Spec.vsub xl xk)) ≠ 0 ∨
    0 < Spec.dot (Spec.cross (Spec.vsub xi xj) (Spec.vsub xk xj))
        (Spec.cross (Spec.vsub xj xk) (Spec.vsub xl xk)))

theorem specTorsionRegular_rot (R : Rot) (xi xj xk xl : Spec.V) :
    SpecTorsionRegular (rotV R xi) (rotV R xj) (rotV R xk) (rotV R xl)
      ↔ SpecTorsionRegular xi xj xk xl := by
  simp only [SpecTorsionRegular, vsub_rot, cross_rot, dot_rot]

open Torsion in
theorem torsionRegular_iff_spec (ρ : Nat → ℝ) :
    TorsionRegular ρ ↔
      SpecTorsionRegular (Spec.atom ρ 0) (Spec.atom ρ 1) (Spec.atom ρ 2) (Spec.atom ρ 3) := by
  have e1 : q1 ρ ^ 2 + q2 ρ ^ 2 + q3 ρ ^ 2
      = Spec.dot (Spec.vsub (Spec.atom ρ 2) (Spec.atom ρ 1)) (Spec.vsub (Spec.atom ρ 2) (Spec.atom ρ 1)) := by
    simp only [Spec.dot, Spec.vsub, Spec.atom, q1, q2, q3]; ring
  have e2 : N0x ρ ^ 2 + N0y ρ ^ 2 + N0z ρ ^ 2
      = Spec.dot (Spec.cross (Spec.vsub (Spec.atom ρ 0) (Spec.atom ρ 1)) (Spec.vsub (Spec.atom ρ 2) (Spec.atom ρ 1)))
          (Spec.cross (Spec.vsub (Spec.atom ρ 0) (Spec.atom ρ 1)) (Spec.vsub (Spec.atom ρ 2) (Spec.atom ρ 1))) := by
    simp only [Spec.dot, Spec.cross, Spec.vsub, Spec.atom, N0x, N0y, N0z, p1, p2, p3, q1, q2, q3]; ring
  have e3 : N1x ρ ^ 2 + N1y ρ ^ 2 + N1z ρ ^ 2
      = Spec.dot (Spec.cross (Spec.vsub (Spec.atom ρ 1) (Spec.atom ρ 2)) (Spec.vsub (Spec.atom ρ 3) (Spec.atom ρ 2)))
          (Spec.cross (Spec.vsub (Spec.atom ρ 1) (Spec.atom ρ 2)) (Spec.vsub (Spec.atom ρ 3) (Spec.atom ρ 2))) := by
    simp only [Spec.dot, Spec.cross, Spec.vsub, Spec.atom, N1x, N1y, N1z, q1, q2, q3, s1, s2, s3]; ring
  have e4 : (N0y ρ * q3 ρ - N0z ρ * q2 ρ) * N1x ρ + (N0z ρ * q1 ρ - N0x ρ * q3 ρ) * N1y ρ
        + (N0x ρ * q2 ρ - N0y ρ * q1 ρ) * N1z ρ
      = Spec.dot (Spec.cross (Spec.cross (Spec.vsub (Spec.atom ρ 0) (Spec.atom ρ 1))
            (Spec.vsub (Spec.atom ρ 2) (Spec.atom ρ 1))) (Spec.vsub (Spec.atom ρ 2) (Spec.atom ρ 1)))
          (Spec.cross (Spec.vsub (Spec.atom ρ 1) (Spec.atom ρ 2)) (Spec.vsub (Spec.atom ρ 3) (Spec.atom ρ 2))) := by
    simp only [Spec.dot, Spec.cross, Spec.vsub, Spec.atom, N0x, N0y, N0z, N1x, N1y, N1z, p1, p2, p3,
      q1, q2, q3, s1, s2, s3]; ring
  have e5 : N0x ρ * N1x ρ + N0y ρ * N1y ρ + N0z ρ * N1z ρ
      = Spec.dot (Spec.cross (Spec.vsub (Spec.atom ρ 0) (Spec.atom ρ 1)) (Spec.vsub (Spec.atom ρ 2) (Spec.atom ρ 1)))
          (Spec.cross (Spec.vsub (Spec.atom ρ 1) (Spec.atom ρ 2)) (Spec.vsub (Spec.atom ρ 3) (Spec.atom ρ 2))) := by
    simp only [Spec.dot, Spec.cross, Spec.vsub, Spec.atom, N0x, N0y, N0z, N1x, N1y, N1z, p1, p2, p3,
      q1, q2, q3, s1, s2, s3]; ring
  unfold TorsionRegular SpecTorsionRegular
  rw [e1, e2, e3, e4, e5]

theorem torsionRegular_rotate (R : Rot) (ρ : Nat → ℝ) :
    TorsionRegular (rotEnv 4 R ρ) ↔ TorsionRegular ρ := by
  rw [torsionRegular_iff_spec, torsionRegular_iff_spec, rotEnv_atom 4 R ρ 0 (by norm_num),
    rotEnv_atom 4 R ρ 1 (by norm_num), rotEnv_atom 4 R ρ 2 (by norm_num),
    rotEnv_atom 4 R ρ 3 (by norm_num), specTorsionRegular_rot]

/-- Rotation invariance of the torsion energy at every regular configuration. -/
theorem torsion_rotate (R : Rot) (ρ : Nat → ℝ) (h : TorsionRegular ρ) :
    torsionE.evalR (rotEnv 4 R ρ) = torsionE.evalR ρ :=
  torsion_rotate' R ρ h ((torsionRegular_rotate R ρ).mpr h)

/-! ## Non-vacuity: the quarter turn about z -/

/-- Quarter turn about the z axis: rows (0,−1,0), (1,0,0), (0,0,1). -/
def quarterTurnZ : Rot where
  r00 := 0
  r01 := -1
  r02 := 0
  r10 := 1
  r11 := 0
  r12 := 0
  r20 := 0
  r21 := 0
  r22 := 1
  c00 := by norm_num
  c11 := by norm_num
  c22 := by norm_num
  c01 := by norm_num
  c02 := by norm_num
  c12 := by norm_num
  det := by norm_num

example : rotV quarterTurnZ (1, 2, 3) = (-2, 1, 3) := by
  simp only [rotV, quarterTurnZ]
  norm_num

example (ρ : Nat → ℝ) : bondE.evalR (rotEnv 2 quarterTurnZ ρ) = bondE.evalR ρ :=
  bond_rotate quarterTurnZ ρ

end OptRs.Lemmas
