import OptRs.Calc.Real
import OptRs.Model.Energy
import OptRs.Gen.Grad
import Mathlib.Tactic.Ring
import Mathlib.Tactic.FieldSimp
import Mathlib.Tactic.Linarith

open OptRs OptRs.Model.Energy OptRs.Gen Real

namespace OptRs.Lemmas

/-- The two atoms of a pair term do not coincide. -/
def PairRegular (ρ : Nat → ℝ) : Prop := 0 < (ρ 0 - ρ 3) ^ 2 + (ρ 1 - ρ 4) ^ 2 + (ρ 2 - ρ 5) ^ 2

theorem bond_identity_0 (ρ : Nat → ℝ) (h : PairRegular ρ) :
    bondE.evalD ρ (Pi.single 0 1) = bondGrad.gradR ρ 0 := by
  unfold PairRegular at h
  simp only [bondE, bondGrad, Prog.gradR, List.lookup, Prog.envR, distance, pos, two, Ex.evalD, Ex.evalR,
    bond_v0, bond_v1, bond_v2, bond_v3, bond_v4, bond_v5, bond_v6, bond_g0, Num.toReal]
  simp [Ex.evalR, Function.update_apply]
  have hs : √((ρ 0 - ρ 3) ^ 2 + (ρ 1 - ρ 4) ^ 2 + (ρ 2 - ρ 5) ^ 2) ≠ 0 := (Real.sqrt_pos.mpr h).ne'
  field_simp
  ring

end OptRs.Lemmas
