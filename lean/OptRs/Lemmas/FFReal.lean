/-
The whole force field over the reals: a list of terms, each an instance of one of the seven kinds placed on
chosen atoms of a larger coordinate array. Energy = sum of the terms' energies; gradient = what the terms'
`add_gradient` programs add, slot by slot. One theorem: the gradient is the derivative of the energy
(C01), for any term list — UFF and RB are both of this form.
-/
import OptRs.Lemmas.GradPairs
import OptRs.Lemmas.GradBends
import OptRs.Lemmas.GradTorsion
import OptRs.Lemmas.GradInversion
import Mathlib.Algebra.BigOperators.Pi
import Mathlib.Algebra.BigOperators.Ring.Finset

open OptRs OptRs.Model.Energy OptRs.Gen Real

namespace OptRs

/-! ### The tangent is linear in the direction -/

namespace Ex

theorem evalD_zero (ρ : Nat → ℝ) (e : Ex) : e.evalD ρ (fun _ => 0) = 0 := by
  induction e with
  | var n => simp [evalD]
  | lit c => simp [evalD]
  | nat k => simp [evalD]
  | add a b iha ihb => simp [evalD, iha, ihb]
  | sub a b iha ihb => simp [evalD, iha, ihb]
  | mul a b iha ihb => simp [evalD, iha, ihb]
  | div a b iha ihb => simp [evalD, iha, ihb]
  | neg a iha => simp [evalD, iha]
  | powi a n iha => simp [evalD, iha]
  | pow15 a iha => simp [evalD, iha]
  | sqrt a iha => simp [evalD, iha]
  | sin a iha => simp [evalD, iha]
  | cos a iha => simp [evalD, iha]
  | acos a iha => simp [evalD, iha]
  | ln a iha => simp [evalD, iha]
  | atan2 y x ihy ihx => simp [evalD, ihy, ihx]
  | clamp1 a iha => simp [evalD, iha]

theorem evalD_add (ρ δ₁ δ₂ : Nat → ℝ) (e : Ex) :
    e.evalD ρ (fun n => δ₁ n + δ₂ n) = e.evalD ρ δ₁ + e.evalD ρ δ₂ := by
  induction e with
  | var n => simp [evalD]
  | lit c => simp [evalD]
  | nat k => simp [evalD]
  | add a b iha ihb => simp only [evalD, iha, ihb]; ring
  | sub a b iha ihb => simp only [evalD, iha, ihb]; ring
  | mul a b iha ihb => simp only [evalD, iha, ihb]; ring
  | div a b iha ihb => simp only [evalD, iha, ihb]; ring
  | neg a iha => simp only [evalD, iha]; ring
  | powi a n iha => simp only [evalD, iha]; ring
  | pow15 a iha => simp only [evalD, iha]; ring
  | sqrt a iha => simp only [evalD, iha]; ring
  | sin a iha => simp only [evalD, iha]; ring
  | cos a iha => simp only [evalD, iha]; ring
  | acos a iha => simp only [evalD, iha]; ring
  | ln a iha => simp only [evalD, iha]; ring
  | atan2 y x ihy ihx => simp only [evalD, ihy, ihx]; ring
  | clamp1 a iha => simp only [evalD, iha]; split_ifs <;> ring

theorem evalD_smul (ρ δ : Nat → ℝ) (c : ℝ) (e : Ex) :
    e.evalD ρ (fun n => c * δ n) = c * e.evalD ρ δ := by
  induction e with
  | var n => simp [evalD]
  | lit c => simp [evalD]
  | nat k => simp [evalD]
  | add a b iha ihb => simp only [evalD, iha, ihb]; ring
  | sub a b iha ihb => simp only [evalD, iha, ihb]; ring
  | mul a b iha ihb => simp only [evalD, iha, ihb]; ring
  | div a b iha ihb => simp only [evalD, iha, ihb]; ring
  | neg a iha => simp only [evalD, iha]; ring
  | powi a n iha => simp only [evalD, iha]; ring
  | pow15 a iha => simp only [evalD, iha]; ring
  | sqrt a iha => simp only [evalD, iha]; ring
  | sin a iha => simp only [evalD, iha]; ring
  | cos a iha => simp only [evalD, iha]; ring
  | acos a iha => simp only [evalD, iha]; ring
  | ln a iha => simp only [evalD, iha]; ring
  | atan2 y x ihy ihx => simp only [evalD, ihy, ihx]; ring
  | clamp1 a iha => simp only [evalD, iha]; split_ifs <;> ring

theorem evalD_finset_sum (ρ : Nat → ℝ) (e : Ex) (S : Finset Nat) (f : Nat → Nat → ℝ) :
    e.evalD ρ (fun n => ∑ v ∈ S, f v n) = ∑ v ∈ S, e.evalD ρ (f v) := by
  classical
  induction S using Finset.induction_on with
  | empty => simpa using evalD_zero ρ e
  | insert a S ha ih =>
    simp only [Finset.sum_insert ha]
    rw [evalD_add ρ (f a) (fun n => ∑ v ∈ S, f v n) e, ih]

end Ex

/-! ### Kinds and terms -/

/-- What the per-kind lemma files establish about one kind of term. -/
structure KindSpec where
  na : Nat
  E : Ex
  G : Prog
  Regular : (Nat → ℝ) → Prop
  reg : ∀ ρ, Regular ρ → E.Reg ρ
  identity : ∀ ρ, Regular ρ → ∀ s, s < 3 * na → E.evalD ρ (Pi.single s 1) = G.gradR ρ s
  untouched : ∀ ρ s, 3 * na ≤ s → G.gradR ρ s = 0

open OptRs.Lemmas

def bondKind : KindSpec := ⟨2, bondE, bondGrad, PairRegular, bond_reg, bond_identity, bond_untouched⟩
def ljKind : KindSpec := ⟨2, ljE, ljGrad, PairRegular, lj_reg, lj_identity, lj_untouched⟩
def repulsionKind (n : Nat) : KindSpec :=
  ⟨2, repulsionE n, repulsionGrad n, PairRegular, repulsion_reg n, repulsion_identity n, repulsion_untouched n⟩
def angleAKind : KindSpec :=
  ⟨3, angleAE, angleAGrad, fun ρ => BendRegular ρ ∧ ρ 21 ≠ 0, fun ρ h => angleA_reg ρ h.1 h.2,
    fun ρ h => angleA_identity ρ h.1 h.2, angleA_gradR_untouched⟩
def angleBKind : KindSpec := ⟨3, angleBE, angleBGrad, BendRegular, angleB_reg, angleB_identity, angleB_gradR_untouched⟩
def torsionKind : KindSpec := ⟨4, torsionE, torsionGrad, TorsionRegular, torsion_reg, torsion_identity, torsion_untouched⟩
def inversionKind : KindSpec :=
  ⟨4, inversionE, inversionGrad, InversionRegular, inversion_reg, inversion_identity, inversion_untouched⟩

/-- A term: a kind placed on the atoms `idxs` (as the Rust struct's index fields) with parameters `params`. -/
structure Term where
  kind : KindSpec
  idxs : List Nat
  params : List ℝ

/-- Global coordinate slot read by the term's local variable `v` (coordinate `v % 3` of its atom number `v / 3`). -/
def Term.slot (t : Term) (v : Nat) : Nat := 3 * t.idxs.getD (v / 3) 0 + v % 3

/-- The environment a term evaluates in, given the global coordinates `x` (atom `a`, axis `c` ↦ `x (3a + c)`). -/
def Term.env (t : Term) (x : Nat → ℝ) : Nat → ℝ := fun v =>
  if v < 3 * t.kind.na then x (t.slot v) else if 20 ≤ v then t.params.getD (v - 20) 0 else 0

/-- `EnergyFunction::energy`. -/
noncomputable def Term.energy (t : Term) (x : Nat → ℝ) : ℝ := t.kind.E.evalR (t.env x)

/-- What `EnergyFunction::add_gradient` adds to the global slot `s`. -/
noncomputable def Term.grad (t : Term) (x : Nat → ℝ) (s : Nat) : ℝ :=
  ∑ v ∈ Finset.range (3 * t.kind.na), if t.slot v = s then t.kind.G.gradR (t.env x) v else 0

/-- `Forcefield::energy`: the sum over the terms. -/
noncomputable def energyFF (ts : List Term) (x : Nat → ℝ) : ℝ := (ts.map fun t => t.energy x).sum

/-- `Forcefield::gradient`: zero, then every term adds its contributions. -/
noncomputable def gradFF (ts : List Term) (x : Nat → ℝ) (s : Nat) : ℝ := (ts.map fun t => t.grad x s).sum

/-- One term: its contribution to slot `s` is the partial derivative of its energy along `s`. -/
theorem Term.hasDerivAt (t : Term) (x : Nat → ℝ) (s : Nat) (hreg : t.kind.Regular (t.env x)) :
    HasDerivAt (fun τ => t.energy (Function.update x s τ)) (t.grad x s) (x s) := by
  classical
  -- tangent of the environment along the global coordinate line
  let δ : Nat → ℝ := fun v => if v < 3 * t.kind.na then (Pi.single s (1 : ℝ) : Nat → ℝ) (t.slot v) else 0
  have hγ : ∀ v, HasDerivAt (fun τ => t.env (Function.update x s τ) v) (δ v) (x s) := by
    intro v
    simp only [Term.env, δ]
    by_cases hv : v < 3 * t.kind.na
    · simp only [hv, if_true]; exact hasDerivAt_update x s (t.slot v)
    · simp only [hv, if_false]; exact hasDerivAt_const _ _
  have h0 : t.env (Function.update x s (x s)) = t.env x := by
    rw [Function.update_eq_self]
  have hd := Ex.hasDerivAt_evalR (fun τ => t.env (Function.update x s τ)) δ (x s) hγ t.kind.E
    (by show Ex.Reg (t.env (Function.update x s (x s))) t.kind.E; rw [h0]; exact t.kind.reg _ hreg)
  simp only [h0] at hd
  -- decompose the tangent into coordinate directions and use the per-slot identities
  have hδ : δ = fun n => ∑ v ∈ Finset.range (3 * t.kind.na), (if t.slot v = s then (1 : ℝ) else 0) * (Pi.single v (1 : ℝ) : Nat → ℝ) n := by
    funext n
    simp only [δ]
    by_cases hn : n < 3 * t.kind.na
    · simp only [hn, if_true]
      rw [Finset.sum_eq_single n]
      · simp [Pi.single_apply, eq_comm]
      · intro b _ hb; simp [Ne.symm hb]
      · intro h; exact absurd (Finset.mem_range.mpr hn) h
    · simp only [hn, if_false]
      symm
      apply Finset.sum_eq_zero
      intro v hv
      have : v ≠ n := by have := Finset.mem_range.mp hv; omega
      simp [Ne.symm this]
  have hval : t.kind.E.evalD (t.env x) δ = t.grad x s := by
    rw [hδ, Ex.evalD_finset_sum]
    unfold Term.grad
    apply Finset.sum_congr rfl
    intro v hv
    rw [Ex.evalD_smul]
    have hv' := Finset.mem_range.mp hv
    have hid := t.kind.identity (t.env x) hreg v hv'
    by_cases h : t.slot v = s
    · simp only [h, if_true, one_mul]
      exact hid
    · simp [h]
  rw [hval] at hd
  exact hd

/-- **The force field's gradient is the derivative of its energy**, for any list of terms at any
configuration regular for every term, along every Cartesian coordinate of every atom. -/
theorem gradFF_is_derivative (ts : List Term) (x : Nat → ℝ) (s : Nat)
    (hreg : ∀ t ∈ ts, t.kind.Regular (t.env x)) :
    HasDerivAt (fun τ => energyFF ts (Function.update x s τ)) (gradFF ts x s) (x s) := by
  induction ts with
  | nil => simpa [energyFF, gradFF] using hasDerivAt_const (x s) (0 : ℝ)
  | cons t ts ih =>
    have h1 := t.hasDerivAt x s (hreg t (by simp))
    have h2 := ih (fun u hu => hreg u (by simp [hu]))
    have := h1.fun_add h2
    simpa [energyFF, gradFF] using this

/-- Locality: a term adds nothing to the slots of atoms it does not involve. -/
theorem Term.grad_untouched (t : Term) (x : Nat → ℝ) (s : Nat)
    (h : ∀ v, v < 3 * t.kind.na → t.slot v ≠ s) : t.grad x s = 0 := by
  unfold Term.grad
  apply Finset.sum_eq_zero
  intro v hv
  simp [h v (Finset.mem_range.mp hv)]

end OptRs
