/-
Translation invariance of the seven energy expressions and its consequence: the forces a term puts on its
atoms sum to zero, axis by axis.

`shiftEnv na τ ρ` is the environment of a term with `na` atoms after a rigid translation by the vector `τ`:
every coordinate variable `3a + c` (`a < na`, `c < 3`) gets `τ c` added; every other variable (parameters
`20, 21, …`, and anything else `≥ 3·na`) is untouched.

Route (compositional): `TInv na e` says that both the value and the regularity of `e` are unchanged by every
translation; it is closed under every `Ex` constructor; a parameter variable is `TInv`; a difference of the same
coordinate of two of the term's atoms is `TInv`. The energies only see coordinates through `vsub (pos a) (pos b)`.

Zero net force is generic in the kind: the curve `t ↦ shiftEnv na (t·e_c) ρ` has the indicator of
`{3a + c | a < na}` as tangent, the energy is constant along it, and the tangent `evalD` is linear.
-/
import OptRs.Lemmas.FFReal
import Mathlib.Analysis.Calculus.Deriv.Add
import Mathlib.Tactic.NormNum
import Mathlib.Tactic.Ring

open OptRs OptRs.Model.Energy OptRs.Gen Real

namespace OptRs.Lemmas

/-- The environment of a term with `na` atoms, rigidly translated by `τ`: coordinate variable `v < 3·na`
(axis `v % 3` of atom `v / 3`) gets `τ (v % 3)` added; all other variables (the parameters) are unchanged. -/
def shiftEnv (na : Nat) (τ : Fin 3 → ℝ) (ρ : Nat → ℝ) : Nat → ℝ :=
  fun v => if v < 3 * na then ρ v + τ ⟨v % 3, Nat.mod_lt _ (by norm_num)⟩ else ρ v

theorem shiftEnv_coord (na : Nat) (τ : Fin 3 → ℝ) (ρ : Nat → ℝ) (a : Nat) (c : Fin 3) (ha : a < na) :
    shiftEnv na τ ρ (3 * a + c) = ρ (3 * a + c) + τ c := by
  have h1 : 3 * a + (c : Nat) < 3 * na := by have := c.isLt; omega
  have h2 : (⟨(3 * a + (c : Nat)) % 3, Nat.mod_lt _ (by norm_num)⟩ : Fin 3) = c := by
    apply Fin.ext; show (3 * a + (c : Nat)) % 3 = c; have := c.isLt; omega
  simp only [shiftEnv, h1, if_true, h2]

theorem shiftEnv_param (na : Nat) (τ : Fin 3 → ℝ) (ρ : Nat → ℝ) (v : Nat) (hv : 3 * na ≤ v) :
    shiftEnv na τ ρ v = ρ v := by
  simp only [shiftEnv, Nat.not_lt.mpr hv, if_false]

theorem shiftEnv_zero (na : Nat) (ρ : Nat → ℝ) : shiftEnv na (fun _ => 0) ρ = ρ := by
  funext v; simp [shiftEnv]

/-! ### Translation-invariant expressions -/

/-- Value and regularity of `e` are unchanged by every translation of the `na` atoms. -/
def TInv (na : Nat) (e : Ex) : Prop :=
  ∀ (τ : Fin 3 → ℝ) (ρ : Nat → ℝ),
    e.evalR (shiftEnv na τ ρ) = e.evalR ρ ∧ (e.Reg (shiftEnv na τ ρ) ↔ e.Reg ρ)

namespace TInv
variable {na : Nat} {a b : Ex}

theorem lit (c : Num) : TInv na (.lit c) := fun _ _ => ⟨rfl, Iff.rfl⟩
theorem nat (k : Nat) : TInv na (.nat k) := fun _ _ => ⟨rfl, Iff.rfl⟩

/-- A variable that is not a coordinate of the term's atoms (a parameter). -/
theorem param (v : Nat) (hv : 3 * na ≤ v) : TInv na (.var v) :=
  fun τ ρ => ⟨shiftEnv_param na τ ρ v hv, Iff.rfl⟩

/-- The same coordinate of two of the term's atoms, subtracted. -/
theorem coordDiff (x y : Nat) (c : Fin 3) (hx : x < na) (hy : y < na) :
    TInv na (.sub (.var (3 * x + c)) (.var (3 * y + c))) := by
  intro τ ρ
  refine ⟨?_, Iff.rfl⟩
  simp only [Ex.evalR, shiftEnv_coord na τ ρ x c hx, shiftEnv_coord na τ ρ y c hy]
  ring

theorem add (ha : TInv na a) (hb : TInv na b) : TInv na (.add a b) := fun τ ρ => by
  simp only [Ex.evalR, Ex.Reg, (ha τ ρ).1, (hb τ ρ).1, (ha τ ρ).2, (hb τ ρ).2, and_self]
theorem sub (ha : TInv na a) (hb : TInv na b) : TInv na (.sub a b) := fun τ ρ => by
  simp only [Ex.evalR, Ex.Reg, (ha τ ρ).1, (hb τ ρ).1, (ha τ ρ).2, (hb τ ρ).2, and_self]
theorem mul (ha : TInv na a) (hb : TInv na b) : TInv na (.mul a b) := fun τ ρ => by
  simp only [Ex.evalR, Ex.Reg, (ha τ ρ).1, (hb τ ρ).1, (ha τ ρ).2, (hb τ ρ).2, and_self]
theorem div (ha : TInv na a) (hb : TInv na b) : TInv na (.div a b) := fun τ ρ => by
  simp only [Ex.evalR, Ex.Reg, (ha τ ρ).1, (hb τ ρ).1, (ha τ ρ).2, (hb τ ρ).2, and_self]
theorem neg (ha : TInv na a) : TInv na (.neg a) := fun τ ρ => by
  simp only [Ex.evalR, Ex.Reg, (ha τ ρ).1, (ha τ ρ).2, and_self]
theorem powi (ha : TInv na a) (n : Nat) : TInv na (.powi a n) := fun τ ρ => by
  simp only [Ex.evalR, Ex.Reg, (ha τ ρ).1, (ha τ ρ).2, and_self]
theorem pow15 (ha : TInv na a) : TInv na (.pow15 a) := fun τ ρ => by
  simp only [Ex.evalR, Ex.Reg, (ha τ ρ).1, (ha τ ρ).2, and_self]
theorem sqrt (ha : TInv na a) : TInv na (.sqrt a) := fun τ ρ => by
  simp only [Ex.evalR, Ex.Reg, (ha τ ρ).1, (ha τ ρ).2, and_self]
theorem sin (ha : TInv na a) : TInv na (.sin a) := fun τ ρ => by
  simp only [Ex.evalR, Ex.Reg, (ha τ ρ).1, (ha τ ρ).2, and_self]
theorem cos (ha : TInv na a) : TInv na (.cos a) := fun τ ρ => by
  simp only [Ex.evalR, Ex.Reg, (ha τ ρ).1, (ha τ ρ).2, and_self]
theorem acos (ha : TInv na a) : TInv na (.acos a) := fun τ ρ => by
  simp only [Ex.evalR, Ex.Reg, (ha τ ρ).1, (ha τ ρ).2, and_self]
theorem clamp1 (ha : TInv na a) : TInv na (.clamp1 a) := fun τ ρ => by
  simp only [Ex.evalR, Ex.Reg, (ha τ ρ).1, (ha τ ρ).2, and_self]
theorem ln (ha : TInv na a) : TInv na (.ln a) := fun τ ρ => by
  simp only [Ex.evalR, Ex.Reg, (ha τ ρ).1, (ha τ ρ).2, and_self]
theorem atan2 (ha : TInv na a) (hb : TInv na b) : TInv na (.atan2 a b) := fun τ ρ => by
  simp only [Ex.evalR, Ex.Reg, (ha τ ρ).1, (hb τ ρ).1, (ha τ ρ).2, (hb τ ρ).2, and_self]

end TInv

/-- All three components of a vector of expressions are translation invariant. -/
def TInvV (na : Nat) (v : V3) : Prop := TInv na v.1 ∧ TInv na v.2.1 ∧ TInv na v.2.2

namespace TInvV
variable {na : Nat} {u v : V3}

/-- A difference of positions of two of the term's atoms. -/
theorem vsub_pos (x y : Nat) (hx : x < na) (hy : y < na) : TInvV na (vsub (pos x) (pos y)) :=
  ⟨TInv.coordDiff x y 0 hx hy, TInv.coordDiff x y 1 hx hy, TInv.coordDiff x y 2 hx hy⟩

theorem dot (hu : TInvV na u) (hv : TInvV na v) : TInv na (dot u v) :=
  ((hu.1.mul hv.1).add (hu.2.1.mul hv.2.1)).add (hu.2.2.mul hv.2.2)
theorem len (hu : TInvV na u) : TInv na (len u) :=
  (((hu.1.powi 2).add (hu.2.1.powi 2)).add (hu.2.2.powi 2)).sqrt
theorem cross (hu : TInvV na u) (hv : TInvV na v) : TInvV na (cross u v) :=
  ⟨(hu.2.1.mul hv.2.2).sub (hu.2.2.mul hv.2.1), (hu.2.2.mul hv.1).sub (hu.1.mul hv.2.2),
    (hu.1.mul hv.2.1).sub (hu.2.1.mul hv.1)⟩
theorem vdiv (hu : TInvV na u) {s : Ex} (hs : TInv na s) : TInvV na (vdiv u s) :=
  ⟨hu.1.div hs, hu.2.1.div hs, hu.2.2.div hs⟩
theorem vneg (hu : TInvV na u) : TInvV na (vneg u) := ⟨hu.1.neg, hu.2.1.neg, hu.2.2.neg⟩

end TInvV

/-! ### The geometric helpers -/

theorem distance_tinv {na : Nat} (i j : Nat) (hi : i < na) (hj : j < na) : TInv na (distance i j) :=
  (TInvV.vsub_pos i j hi hj).len

theorem angleValue_tinv {na : Nat} (i j k : Nat) (hi : i < na) (hj : j < na) (hk : k < na) :
    TInv na (angleValue i j k) :=
  have rij := TInvV.vsub_pos (na := na) i j hi hj
  have rkj := TInvV.vsub_pos (na := na) k j hk hj
  ((rij.dot rkj).div (rij.len.mul rkj.len)).clamp1.acos

theorem phi_tinv {na : Nat} (i j k l : Nat) (hi : i < na) (hj : j < na) (hk : k < na) (hl : l < na) :
    TInv na (phi i j k l) :=
  have rij := TInvV.vsub_pos (na := na) i j hi hj
  have rlk := TInvV.vsub_pos (na := na) l k hl hk
  have rkj := TInvV.vsub_pos (na := na) k j hk hj
  have v0 := (rij.cross rkj).vdiv (rij.cross rkj).len
  have v1 := (rkj.vneg.cross rlk).vdiv (rkj.vneg.cross rlk).len
  have rkjn := rkj.vdiv rkj.len
  (((v0.cross rkjn).dot v1).atan2 (v0.dot v1)).neg

theorem gamma_tinv {na : Nat} (c i j k : Nat) (hc : c < na) (hi : i < na) (hj : j < na) (hk : k < na) :
    TInv na (gamma c i j k) :=
  have v0 := TInvV.vsub_pos (na := na) i c hi hc
  have v1 := TInvV.vsub_pos (na := na) j c hj hc
  have v3 := TInvV.vsub_pos (na := na) k c hk hc
  (((v0.cross v1).dot v3).div ((v0.cross v1).len.mul v3.len)).acos

theorem eGamma_tinv {γ : Ex} (h : TInv 4 γ) : TInv 4 (eGamma γ) :=
  (TInv.param 23 (by norm_num)).mul
    (((TInv.param 20 (by norm_num)).add ((TInv.param 21 (by norm_num)).mul h.sin)).add
      ((TInv.param 22 (by norm_num)).mul ((TInv.lit _).mul h).cos))

/-! ### The seven energies -/

theorem bondE_tinv : TInv 2 bondE :=
  ((TInv.param 21 (by norm_num)).div (TInv.lit _)).mul
    (((distance_tinv 0 1 (by norm_num) (by norm_num)).sub (TInv.param 20 (by norm_num))).powi 2)

theorem ljE_tinv : TInv 2 ljE :=
  have q := (TInv.param (na := 2) 20 (by norm_num)).div (distance_tinv 0 1 (by norm_num) (by norm_num))
  (TInv.param 21 (by norm_num)).mul ((q.powi 12).sub ((TInv.lit _).mul (q.powi 6)))

theorem repulsionE_tinv (n : Nat) : TInv 2 (repulsionE n) :=
  (TInv.param 20 (by norm_num)).div ((distance_tinv 0 1 (by norm_num) (by norm_num)).powi n)

theorem angleAE_tinv : TInv 3 angleAE :=
  have θ := angleValue_tinv (na := 3) 0 1 2 (by norm_num) (by norm_num) (by norm_num)
  ((TInv.param 20 (by norm_num)).div ((TInv.param 21 (by norm_num)).powi 2)).mul
    ((TInv.lit _).sub ((TInv.param 21 (by norm_num)).mul θ).cos)

theorem angleBE_tinv : TInv 3 angleBE :=
  have θ := angleValue_tinv (na := 3) 0 1 2 (by norm_num) (by norm_num) (by norm_num)
  (TInv.param 20 (by norm_num)).mul
    (((TInv.param 21 (by norm_num)).add ((TInv.param 22 (by norm_num)).mul θ.cos)).add
      ((TInv.param 23 (by norm_num)).mul ((TInv.lit _).mul θ).cos))

theorem torsionE_tinv : TInv 4 torsionE :=
  have φ := phi_tinv (na := 4) 0 1 2 3 (by norm_num) (by norm_num) (by norm_num) (by norm_num)
  ((TInv.param 22 (by norm_num)).div (TInv.lit _)).mul
    ((TInv.lit _).sub
      (((TInv.param 21 (by norm_num)).mul (TInv.param 20 (by norm_num))).cos.mul
        ((TInv.param 21 (by norm_num)).mul φ).cos))

theorem inversionE_tinv : TInv 4 inversionE :=
  (((eGamma_tinv (gamma_tinv 0 1 2 3 (by norm_num) (by norm_num) (by norm_num) (by norm_num))).add
    (eGamma_tinv (gamma_tinv 0 3 1 2 (by norm_num) (by norm_num) (by norm_num) (by norm_num)))).add
    (eGamma_tinv (gamma_tinv 0 2 3 1 (by norm_num) (by norm_num) (by norm_num) (by norm_num)))).div
    (TInv.lit _)

/-- **Translation invariance of the energies.** -/
theorem bond_translate (τ : Fin 3 → ℝ) (ρ : Nat → ℝ) : bondE.evalR (shiftEnv 2 τ ρ) = bondE.evalR ρ :=
  (bondE_tinv τ ρ).1
theorem lj_translate (τ : Fin 3 → ℝ) (ρ : Nat → ℝ) : ljE.evalR (shiftEnv 2 τ ρ) = ljE.evalR ρ :=
  (ljE_tinv τ ρ).1
theorem repulsion_translate (n : Nat) (τ : Fin 3 → ℝ) (ρ : Nat → ℝ) :
    (repulsionE n).evalR (shiftEnv 2 τ ρ) = (repulsionE n).evalR ρ := (repulsionE_tinv n τ ρ).1
theorem angleA_translate (τ : Fin 3 → ℝ) (ρ : Nat → ℝ) : angleAE.evalR (shiftEnv 3 τ ρ) = angleAE.evalR ρ :=
  (angleAE_tinv τ ρ).1
theorem angleB_translate (τ : Fin 3 → ℝ) (ρ : Nat → ℝ) : angleBE.evalR (shiftEnv 3 τ ρ) = angleBE.evalR ρ :=
  (angleBE_tinv τ ρ).1
theorem torsion_translate (τ : Fin 3 → ℝ) (ρ : Nat → ℝ) :
    torsionE.evalR (shiftEnv 4 τ ρ) = torsionE.evalR ρ := (torsionE_tinv τ ρ).1
theorem inversion_translate (τ : Fin 3 → ℝ) (ρ : Nat → ℝ) :
    inversionE.evalR (shiftEnv 4 τ ρ) = inversionE.evalR ρ := (inversionE_tinv τ ρ).1

/-- **Translation invariance of the energy expressions' regularity.** -/
theorem bond_reg_translate (τ : Fin 3 → ℝ) (ρ : Nat → ℝ) : bondE.Reg (shiftEnv 2 τ ρ) ↔ bondE.Reg ρ :=
  (bondE_tinv τ ρ).2
theorem lj_reg_translate (τ : Fin 3 → ℝ) (ρ : Nat → ℝ) : ljE.Reg (shiftEnv 2 τ ρ) ↔ ljE.Reg ρ :=
  (ljE_tinv τ ρ).2
theorem repulsion_reg_translate (n : Nat) (τ : Fin 3 → ℝ) (ρ : Nat → ℝ) :
    (repulsionE n).Reg (shiftEnv 2 τ ρ) ↔ (repulsionE n).Reg ρ := (repulsionE_tinv n τ ρ).2
theorem angleA_reg_translate (τ : Fin 3 → ℝ) (ρ : Nat → ℝ) : angleAE.Reg (shiftEnv 3 τ ρ) ↔ angleAE.Reg ρ :=
  (angleAE_tinv τ ρ).2
theorem angleB_reg_translate (τ : Fin 3 → ℝ) (ρ : Nat → ℝ) : angleBE.Reg (shiftEnv 3 τ ρ) ↔ angleBE.Reg ρ :=
  (angleBE_tinv τ ρ).2
theorem torsion_reg_translate (τ : Fin 3 → ℝ) (ρ : Nat → ℝ) :
    torsionE.Reg (shiftEnv 4 τ ρ) ↔ torsionE.Reg ρ := (torsionE_tinv τ ρ).2
theorem inversion_reg_translate (τ : Fin 3 → ℝ) (ρ : Nat → ℝ) :
    inversionE.Reg (shiftEnv 4 τ ρ) ↔ inversionE.Reg ρ := (inversionE_tinv τ ρ).2

/-! ### The kinds' regularity predicates are translation invariant as well -/

theorem spec_vsub_translate {na : Nat} (τ : Fin 3 → ℝ) (ρ : Nat → ℝ) (a b : Nat) (ha : a < na) (hb : b < na) :
    Spec.vsub (Spec.atom (shiftEnv na τ ρ) a) (Spec.atom (shiftEnv na τ ρ) b)
      = Spec.vsub (Spec.atom ρ a) (Spec.atom ρ b) := by
  have e0 := shiftEnv_coord na τ ρ a 0 ha
  have e1 := shiftEnv_coord na τ ρ a 1 ha
  have e2 := shiftEnv_coord na τ ρ a 2 ha
  have f0 := shiftEnv_coord na τ ρ b 0 hb
  have f1 := shiftEnv_coord na τ ρ b 1 hb
  have f2 := shiftEnv_coord na τ ρ b 2 hb
  simp only [Fin.val_zero, Fin.val_one, Fin.val_two, Nat.add_zero] at e0 e1 e2 f0 f1 f2
  simp only [Spec.vsub, Spec.atom, e0, e1, e2, f0, f1, f2, add_sub_add_right_eq_sub]

theorem spec_atom_eq_translate {na : Nat} (τ : Fin 3 → ℝ) (ρ : Nat → ℝ) (a b : Nat) (ha : a < na) (hb : b < na) :
    Spec.atom (shiftEnv na τ ρ) a = Spec.atom (shiftEnv na τ ρ) b ↔ Spec.atom ρ a = Spec.atom ρ b := by
  have e0 := shiftEnv_coord na τ ρ a 0 ha
  have e1 := shiftEnv_coord na τ ρ a 1 ha
  have e2 := shiftEnv_coord na τ ρ a 2 ha
  have f0 := shiftEnv_coord na τ ρ b 0 hb
  have f1 := shiftEnv_coord na τ ρ b 1 hb
  have f2 := shiftEnv_coord na τ ρ b 2 hb
  simp only [Fin.val_zero, Fin.val_one, Fin.val_two, Nat.add_zero] at e0 e1 e2 f0 f1 f2
  simp only [Spec.atom, e0, e1, e2, f0, f1, f2, Prod.mk.injEq, add_left_inj]

theorem pairRegular_translate (τ : Fin 3 → ℝ) (ρ : Nat → ℝ) : PairRegular (shiftEnv 2 τ ρ) ↔ PairRegular ρ := by
  simp [PairRegular, shiftEnv]

theorem bendRegular_translate (τ : Fin 3 → ℝ) (ρ : Nat → ℝ) : BendRegular (shiftEnv 3 τ ρ) ↔ BendRegular ρ := by
  simp [BendRegular, shiftEnv]

open Torsion in
theorem torsionRegular_translate (τ : Fin 3 → ℝ) (ρ : Nat → ℝ) :
    TorsionRegular (shiftEnv 4 τ ρ) ↔ TorsionRegular ρ := by
  have hp1 : p1 (shiftEnv 4 τ ρ) = p1 ρ := by simp [p1, shiftEnv]
  have hp2 : p2 (shiftEnv 4 τ ρ) = p2 ρ := by simp [p2, shiftEnv]
  have hp3 : p3 (shiftEnv 4 τ ρ) = p3 ρ := by simp [p3, shiftEnv]
  have hq1 : q1 (shiftEnv 4 τ ρ) = q1 ρ := by simp [q1, shiftEnv]
  have hq2 : q2 (shiftEnv 4 τ ρ) = q2 ρ := by simp [q2, shiftEnv]
  have hq3 : q3 (shiftEnv 4 τ ρ) = q3 ρ := by simp [q3, shiftEnv]
  have hs1 : s1 (shiftEnv 4 τ ρ) = s1 ρ := by simp [s1, shiftEnv]
  have hs2 : s2 (shiftEnv 4 τ ρ) = s2 ρ := by simp [s2, shiftEnv]
  have hs3 : s3 (shiftEnv 4 τ ρ) = s3 ρ := by simp [s3, shiftEnv]
  simp only [TorsionRegular, N0x, N0y, N0z, N1x, N1y, N1z, hp1, hp2, hp3, hq1, hq2, hq3, hs1, hs2, hs3]

theorem inversionRegular_translate (τ : Fin 3 → ℝ) (ρ : Nat → ℝ) :
    InversionRegular (shiftEnv 4 τ ρ) ↔ InversionRegular ρ := by
  simp only [InversionRegular, ne_eq,
    spec_vsub_translate (na := 4) τ ρ 1 0 (by norm_num) (by norm_num),
    spec_vsub_translate (na := 4) τ ρ 2 0 (by norm_num) (by norm_num),
    spec_vsub_translate (na := 4) τ ρ 3 0 (by norm_num) (by norm_num),
    spec_atom_eq_translate (na := 4) τ ρ 1 0 (by norm_num) (by norm_num),
    spec_atom_eq_translate (na := 4) τ ρ 2 0 (by norm_num) (by norm_num),
    spec_atom_eq_translate (na := 4) τ ρ 3 0 (by norm_num) (by norm_num)]

/-! ### Zero net force -/

/-- **Zero net force.** For a kind whose energy is translation invariant, at every regular configuration,
the gradient components along axis `c` of the term's atoms sum to zero. -/
theorem net_force_zero (k : KindSpec)
    (hinv : ∀ τ ρ, k.E.evalR (shiftEnv k.na τ ρ) = k.E.evalR ρ)
    (ρ : Nat → ℝ) (hρ : k.Regular ρ) (c : Fin 3) :
    ∑ a ∈ Finset.range k.na, k.G.gradR ρ (3 * a + c) = 0 := by
  classical
  -- translation by `t` along axis `c`, and its tangent
  let γ : ℝ → Nat → ℝ := fun t => shiftEnv k.na (fun i => if i = c then t else 0) ρ
  let δ : Nat → ℝ := fun v => if v < 3 * k.na ∧ v % 3 = c then 1 else 0
  have hγ0 : γ 0 = ρ := by
    funext v; simp [γ, shiftEnv]
  have hγ : ∀ n, HasDerivAt (fun t => γ t n) (δ n) 0 := by
    intro n
    simp only [γ, δ, shiftEnv]
    by_cases h1 : n < 3 * k.na
    · by_cases h2 : n % 3 = c
      · have h3 : (⟨n % 3, Nat.mod_lt _ (by norm_num)⟩ : Fin 3) = c := Fin.ext h2
        simp only [h1, h2, if_true, and_self]
        simpa using (hasDerivAt_id' (0 : ℝ)).const_add (ρ n)
      · have h3 : (⟨n % 3, Nat.mod_lt _ (by norm_num)⟩ : Fin 3) ≠ c := fun e => h2 (congrArg Fin.val e)
        simp only [h1, h2, h3, if_true, if_false, and_false]
        exact hasDerivAt_const _ _
    · simp only [h1, if_false, false_and]
      exact hasDerivAt_const _ _
  have hd := Ex.hasDerivAt_evalR γ δ 0 hγ k.E (by rw [hγ0]; exact k.reg ρ hρ)
  rw [hγ0] at hd
  have hconst : (fun t => k.E.evalR (γ t)) = fun _ => k.E.evalR ρ := funext fun t => hinv _ ρ
  rw [hconst] at hd
  have h0 : k.E.evalD ρ δ = 0 := hd.unique (hasDerivAt_const _ _)
  -- decompose the tangent into coordinate directions
  have hδ : δ = fun n => ∑ a ∈ Finset.range k.na, (Pi.single (3 * a + (c : Nat)) (1 : ℝ) : Nat → ℝ) n := by
    funext n
    simp only [δ]
    have hc := c.isLt
    by_cases h : n < 3 * k.na ∧ n % 3 = c
    · simp only [h, and_self, if_true]
      have hn : n = 3 * (n / 3) + (c : Nat) := by omega
      rw [Finset.sum_eq_single (n / 3)]
      · rw [← hn]; simp
      · intro b _ hb
        have : n ≠ 3 * b + (c : Nat) := by omega
        simp [this]
      · intro hnot
        exact absurd (Finset.mem_range.mpr (by omega)) hnot
    · simp only [h, if_false]
      symm
      apply Finset.sum_eq_zero
      intro a ha
      have ha' := Finset.mem_range.mp ha
      have : n ≠ 3 * a + (c : Nat) := by
        intro e; apply h; omega
      simp [this]
  rw [hδ, Ex.evalD_finset_sum] at h0
  rw [← h0]
  apply Finset.sum_congr rfl
  intro a ha
  have ha' := Finset.mem_range.mp ha
  have hc := c.isLt
  exact (k.identity ρ hρ (3 * a + c) (by omega)).symm

/-! ### The seven kinds -/

theorem bond_net_force (ρ : Nat → ℝ) (h : PairRegular ρ) (c : Fin 3) :
    ∑ a ∈ Finset.range 2, bondGrad.gradR ρ (3 * a + c) = 0 :=
  net_force_zero bondKind bond_translate ρ h c

theorem lj_net_force (ρ : Nat → ℝ) (h : PairRegular ρ) (c : Fin 3) :
    ∑ a ∈ Finset.range 2, ljGrad.gradR ρ (3 * a + c) = 0 :=
  net_force_zero ljKind lj_translate ρ h c

theorem repulsion_net_force (n : Nat) (ρ : Nat → ℝ) (h : PairRegular ρ) (c : Fin 3) :
    ∑ a ∈ Finset.range 2, (repulsionGrad n).gradR ρ (3 * a + c) = 0 :=
  net_force_zero (repulsionKind n) (repulsion_translate n) ρ h c

theorem angleA_net_force (ρ : Nat → ℝ) (h : BendRegular ρ) (hn : ρ 21 ≠ 0) (c : Fin 3) :
    ∑ a ∈ Finset.range 3, angleAGrad.gradR ρ (3 * a + c) = 0 :=
  net_force_zero angleAKind angleA_translate ρ ⟨h, hn⟩ c

theorem angleB_net_force (ρ : Nat → ℝ) (h : BendRegular ρ) (c : Fin 3) :
    ∑ a ∈ Finset.range 3, angleBGrad.gradR ρ (3 * a + c) = 0 :=
  net_force_zero angleBKind angleB_translate ρ h c

theorem torsion_net_force (ρ : Nat → ℝ) (h : TorsionRegular ρ) (c : Fin 3) :
    ∑ a ∈ Finset.range 4, torsionGrad.gradR ρ (3 * a + c) = 0 :=
  net_force_zero torsionKind torsion_translate ρ h c

theorem inversion_net_force (ρ : Nat → ℝ) (h : InversionRegular ρ) (c : Fin 3) :
    ∑ a ∈ Finset.range 4, inversionGrad.gradR ρ (3 * a + c) = 0 :=
  net_force_zero inversionKind inversion_translate ρ h c

/-! ### Non-vacuity: the statements apply at concrete regular configurations -/

example (c : Fin 3) :
    ∑ a ∈ Finset.range 2, bondGrad.gradR (fun n => if n = 0 then 1 else if n = 4 then -2 else 0) (3 * a + c) = 0 :=
  bond_net_force _ (by unfold PairRegular; norm_num) c

example (c : Fin 3) :
    ∑ a ∈ Finset.range 3, angleBGrad.gradR (fun n => if n = 0 ∨ n = 7 then 1 else 0) (3 * a + c) = 0 :=
  angleB_net_force _ (by simp [BendRegular]) c

open Torsion in
example (c : Fin 3) :
    ∑ a ∈ Finset.range 4,
      torsionGrad.gradR (fun n => if n = 0 ∨ n = 8 ∨ n = 10 ∨ n = 11 then 1 else 0) (3 * a + c) = 0 :=
  torsion_net_force _
    (by simp [TorsionRegular, p1, p2, p3, q1, q2, q3, s1, s2, s3, N0x, N0y, N0z, N1x, N1y, N1z]) c

example (c : Fin 3) : ∑ a ∈ Finset.range 4, inversionGrad.gradR exampleGeometry (3 * a + c) = 0 := by
  refine inversion_net_force _ ⟨⟨?_, ?_, ?_⟩, ⟨?_, ?_, ?_⟩, ⟨?_, ?_, ?_⟩⟩ c
  · simp [Spec.atom, exampleGeometry]
  · simp [Spec.atom, exampleGeometry]
  · simp [Spec.atom, exampleGeometry]
  · simp [Spec.atom, Spec.vsub, Spec.cross, exampleGeometry]
  · simp [Spec.atom, Spec.vsub, Spec.cross, exampleGeometry]
  · simp [Spec.atom, Spec.vsub, Spec.cross, exampleGeometry]
  · apply spec_abs_lt_one <;> norm_num [Spec.atom, Spec.vsub, Spec.cross, Spec.dot, exampleGeometry]
  · apply spec_abs_lt_one <;> norm_num [Spec.atom, Spec.vsub, Spec.cross, Spec.dot, exampleGeometry]
  · apply spec_abs_lt_one <;> norm_num [Spec.atom, Spec.vsub, Spec.cross, Spec.dot, exampleGeometry]

/-- Written out for one axis: the four x-components of the torsion gradient cancel. -/
example (ρ : Nat → ℝ) (h : TorsionRegular ρ) :
    torsionGrad.gradR ρ 0 + torsionGrad.gradR ρ 3 + torsionGrad.gradR ρ 6 + torsionGrad.gradR ρ 9 = 0 := by
  have := torsion_net_force ρ h 0
  simpa [Finset.sum_range_succ] using this


end OptRs.Lemmas
