/-
Zero net torque: the rotational analogue of `net_force_zero`.

`rotAxis c t` is the rotation by the angle `t` about coordinate axis `c`. The curve
`t ↦ rotEnv na (rotAxis c t) ρ` passes through `ρ` at `t = 0` with tangent `infRot na c ρ`, the infinitesimal
rotation `e_c × r_a` on the three coordinates of every atom `a < na` and `0` on every other variable. A
kind's energy is constant along the curve (rotation invariance, `Rotate.lean`), so its tangent along
`infRot` vanishes; by linearity of `evalD` and the kind's per-slot identity that tangent is
`∑ₐ (e_c × r_a) · g_a = ∑ₐ (r_a × g_a)_c`, the `c` component of the torque of the translated gradient.
-/
import OptRs.Lemmas.FFReal
import OptRs.Lemmas.Rotate
import Mathlib.Analysis.SpecialFunctions.Trigonometric.Deriv
import Mathlib.Analysis.Calculus.Deriv.Add
import Mathlib.Analysis.Calculus.Deriv.Mul
import Mathlib.Tactic.NormNum
import Mathlib.Tactic.Ring
import Mathlib.Tactic.LinearCombination

open OptRs OptRs.Model.Energy OptRs.Gen Real

namespace OptRs.Lemmas

/-! ### One-parameter rotation groups about the coordinate axes -/

/-- Rotation by `t` about the x axis: rows (1,0,0), (0,cos t,−sin t), (0,sin t,cos t). -/
noncomputable def rotX (t : ℝ) : Rot where
  r00 := 1
  r01 := 0
  r02 := 0
  r10 := 0
  r11 := cos t
  r12 := -sin t
  r20 := 0
  r21 := sin t
  r22 := cos t
  c00 := by ring1
  c11 := by linear_combination cos_sq_add_sin_sq t
  c22 := by linear_combination cos_sq_add_sin_sq t
  c01 := by ring1
  c02 := by ring1
  c12 := by ring1
  det := by linear_combination cos_sq_add_sin_sq t

/-- Rotation by `t` about the y axis: rows (cos t,0,sin t), (0,1,0), (−sin t,0,cos t). -/
noncomputable def rotY (t : ℝ) : Rot where
  r00 := cos t
  r01 := 0
  r02 := sin t
  r10 := 0
  r11 := 1
  r12 := 0
  r20 := -sin t
  r21 := 0
  r22 := cos t
  c00 := by linear_combination cos_sq_add_sin_sq t
  c11 := by ring1
  c22 := by linear_combination cos_sq_add_sin_sq t
  c01 := by ring1
  c02 := by ring1
  c12 := by ring1
  det := by linear_combination cos_sq_add_sin_sq t

/-- Rotation by `t` about the z axis: rows (cos t,−sin t,0), (sin t,cos t,0), (0,0,1). -/
noncomputable def rotZ (t : ℝ) : Rot where
  r00 := cos t
  r01 := -sin t
  r02 := 0
  r10 := sin t
  r11 := cos t
  r12 := 0
  r20 := 0
  r21 := 0
  r22 := 1
  c00 := by linear_combination cos_sq_add_sin_sq t
  c11 := by linear_combination cos_sq_add_sin_sq t
  c22 := by ring1
  c01 := by ring1
  c02 := by ring1
  c12 := by ring1
  det := by linear_combination cos_sq_add_sin_sq t

/-- Rotation by the angle `t` about coordinate axis `c` (`0` = x, `1` = y, `2` = z). -/
noncomputable def rotAxis (c : Fin 3) (t : ℝ) : Rot :=
  match c with
  | 0 => rotX t
  | 1 => rotY t
  | 2 => rotZ t

/-- The infinitesimal rotation about axis `c`: `e_c × p`. -/
def infRotV (c : Fin 3) (p : Spec.V) : Spec.V :=
  match c with
  | 0 => (0, -p.2.2, p.2.1)
  | 1 => (p.2.2, 0, -p.1)
  | 2 => (-p.2.1, p.1, 0)

theorem rotV_rotAxis_zero (c : Fin 3) (p : Spec.V) : rotV (rotAxis c 0) p = p := by
  obtain ⟨x, y, z⟩ := p
  match c with
  | 0 => simp [rotAxis, rotX, rotV]
  | 1 => simp [rotAxis, rotY, rotV]
  | 2 => simp [rotAxis, rotZ, rotV]

/-- The three coordinates of `t ↦ (rotAxis c t) p` are differentiable at `0`, with derivative `e_c × p`. -/
theorem hasDerivAt_rotV (c : Fin 3) (p : Spec.V) :
    HasDerivAt (fun t => (rotV (rotAxis c t) p).1) (infRotV c p).1 0 ∧
    HasDerivAt (fun t => (rotV (rotAxis c t) p).2.1) (infRotV c p).2.1 0 ∧
    HasDerivAt (fun t => (rotV (rotAxis c t) p).2.2) (infRotV c p).2.2 0 := by
  obtain ⟨x, y, z⟩ := p
  have hc := hasDerivAt_cos 0
  have hs := hasDerivAt_sin 0
  have h1 := hasDerivAt_const (0 : ℝ) (1 : ℝ)
  have h0 := hasDerivAt_const (0 : ℝ) (0 : ℝ)
  match c with
  | 0 =>
    simp only [rotAxis, rotX, rotV, infRotV]
    refine ⟨?_, ?_, ?_⟩
    · exact (((h1.mul_const x).add (h0.mul_const y)).add (h0.mul_const z)).congr_deriv (by simp)
    · exact (((h0.mul_const x).add (hc.mul_const y)).add (hs.neg.mul_const z)).congr_deriv (by simp)
    · exact (((h0.mul_const x).add (hs.mul_const y)).add (hc.mul_const z)).congr_deriv (by simp)
  | 1 =>
    simp only [rotAxis, rotY, rotV, infRotV]
    refine ⟨?_, ?_, ?_⟩
    · exact (((hc.mul_const x).add (h0.mul_const y)).add (hs.mul_const z)).congr_deriv (by simp)
    · exact (((h0.mul_const x).add (h1.mul_const y)).add (h0.mul_const z)).congr_deriv (by simp)
    · exact (((hs.neg.mul_const x).add (h0.mul_const y)).add (hc.mul_const z)).congr_deriv (by simp)
  | 2 =>
    simp only [rotAxis, rotZ, rotV, infRotV]
    refine ⟨?_, ?_, ?_⟩
    · exact (((hc.mul_const x).add (hs.neg.mul_const y)).add (h0.mul_const z)).congr_deriv (by simp)
    · exact (((hs.mul_const x).add (hc.mul_const y)).add (h0.mul_const z)).congr_deriv (by simp)
    · exact (((h0.mul_const x).add (h0.mul_const y)).add (h1.mul_const z)).congr_deriv (by simp)

/-! ### The curve of rotated environments and its tangent -/

/-- Tangent at `t = 0` of `t ↦ rotEnv na (rotAxis c t) ρ`: on the coordinates of atom `a < na` the
infinitesimal rotation `e_c × r_a`; `0` on every other variable. -/
def infRot (na : Nat) (c : Fin 3) (ρ : Nat → ℝ) : Nat → ℝ := fun v =>
  if v < 3 * na then
    (if v % 3 = 0 then (infRotV c (Spec.atom ρ (v / 3))).1
     else if v % 3 = 1 then (infRotV c (Spec.atom ρ (v / 3))).2.1
     else (infRotV c (Spec.atom ρ (v / 3))).2.2)
  else 0

theorem infRot_atom (na : Nat) (c : Fin 3) (ρ : Nat → ℝ) (a : Nat) (ha : a < na) :
    (infRot na c ρ (3 * a), infRot na c ρ (3 * a + 1), infRot na c ρ (3 * a + 2))
      = infRotV c (Spec.atom ρ a) := by
  have h0 : 3 * a < 3 * na := by omega
  have h1 : 3 * a + 1 < 3 * na := by omega
  have h2 : 3 * a + 2 < 3 * na := by omega
  have m0 : 3 * a % 3 = 0 := by omega
  have m1 : (3 * a + 1) % 3 = 1 := by omega
  have m2 : (3 * a + 2) % 3 = 2 := by omega
  have d0 : 3 * a / 3 = a := by omega
  have d1 : (3 * a + 1) / 3 = a := by omega
  have d2 : (3 * a + 2) / 3 = a := by omega
  simp only [infRot, h0, h1, h2, m0, m1, m2, d0, d1, d2, if_true]
  norm_num

theorem infRot_param (na : Nat) (c : Fin 3) (ρ : Nat → ℝ) (v : Nat) (hv : 3 * na ≤ v) :
    infRot na c ρ v = 0 := by
  have : ¬ v < 3 * na := by omega
  simp only [infRot, this, if_false]

/-- The rotation by the angle `0` leaves the environment alone. -/
theorem rotEnv_rotAxis_zero (na : Nat) (c : Fin 3) (ρ : Nat → ℝ) : rotEnv na (rotAxis c 0) ρ = ρ := by
  funext v
  unfold rotEnv
  rw [rotV_rotAxis_zero]
  by_cases h : v < 3 * na
  · by_cases m0 : v % 3 = 0
    · have e : 3 * (v / 3) = v := by omega
      simp only [h, m0, if_true, Spec.atom, e]
    · by_cases m1 : v % 3 = 1
      · have e : 3 * (v / 3) + 1 = v := by omega
        simp only [h, m1, one_ne_zero, if_true, if_false, Spec.atom, e]
      · have e : 3 * (v / 3) + 2 = v := by omega
        simp only [h, m0, m1, if_true, if_false, Spec.atom, e]
  · simp only [h, if_false]

/-- **The curve of rotations is differentiable at `0` coordinate-wise, with the infinitesimal rotation as
tangent.** -/
theorem hasDerivAt_rotEnv (na : Nat) (c : Fin 3) (ρ : Nat → ℝ) (n : Nat) :
    HasDerivAt (fun t => rotEnv na (rotAxis c t) ρ n) (infRot na c ρ n) 0 := by
  obtain ⟨d0, d1, d2⟩ := hasDerivAt_rotV c (Spec.atom ρ (n / 3))
  by_cases h : n < 3 * na
  · by_cases m0 : n % 3 = 0
    · simpa only [rotEnv, infRot, h, m0, if_true] using d0
    · by_cases m1 : n % 3 = 1
      · simpa only [rotEnv, infRot, h, m1, one_ne_zero, if_true, if_false] using d1
      · simpa only [rotEnv, infRot, h, m0, m1, if_true, if_false] using d2
  · simp only [rotEnv, infRot, h, if_false]
    exact hasDerivAt_const _ _

/-- The tangent written out, axis by axis, for atom `a < na` with position `(x, y, z)`:
about x `(0, −z, y)`, about y `(z, 0, −x)`, about z `(−y, x, 0)`. -/
theorem infRot_explicit (na : Nat) (ρ : Nat → ℝ) (a : Nat) (ha : a < na) :
    (infRot na 0 ρ (3 * a) = 0 ∧ infRot na 0 ρ (3 * a + 1) = -ρ (3 * a + 2)
      ∧ infRot na 0 ρ (3 * a + 2) = ρ (3 * a + 1)) ∧
    (infRot na 1 ρ (3 * a) = ρ (3 * a + 2) ∧ infRot na 1 ρ (3 * a + 1) = 0
      ∧ infRot na 1 ρ (3 * a + 2) = -ρ (3 * a)) ∧
    (infRot na 2 ρ (3 * a) = -ρ (3 * a + 1) ∧ infRot na 2 ρ (3 * a + 1) = ρ (3 * a)
      ∧ infRot na 2 ρ (3 * a + 2) = 0) := by
  have hx := infRot_atom na 0 ρ a ha
  have hy := infRot_atom na 1 ρ a ha
  have hz := infRot_atom na 2 ρ a ha
  simp only [infRotV, Spec.atom, Prod.mk.injEq] at hx hy hz
  exact ⟨hx, hy, hz⟩

/-! ### Linearity: the tangent of a kind's energy along any direction supported on its atoms -/

theorem sum_range_three_mul (f : Nat → ℝ) (n : Nat) :
    ∑ v ∈ Finset.range (3 * n), f v = ∑ a ∈ Finset.range n, (f (3 * a) + f (3 * a + 1) + f (3 * a + 2)) := by
  induction n with
  | zero => simp
  | succ n ih =>
    rw [show 3 * (n + 1) = 3 * n + 2 + 1 from by ring, Finset.sum_range_succ,
      show 3 * n + 2 = 3 * n + 1 + 1 from rfl, Finset.sum_range_succ, Finset.sum_range_succ, ih,
      Finset.sum_range_succ]
    ring

/-- The tangent of a kind's energy along a direction `δ` that moves only the kind's atoms is the pairing
of `δ` with the translated gradient, atom by atom. -/
theorem evalD_eq_sum_grad (k : KindSpec) (ρ : Nat → ℝ) (hρ : k.Regular ρ) (δ : Nat → ℝ)
    (hδ : ∀ v, 3 * k.na ≤ v → δ v = 0) :
    k.E.evalD ρ δ = ∑ a ∈ Finset.range k.na,
      (δ (3 * a) * k.G.gradR ρ (3 * a) + δ (3 * a + 1) * k.G.gradR ρ (3 * a + 1)
        + δ (3 * a + 2) * k.G.gradR ρ (3 * a + 2)) := by
  classical
  have hdec : δ = fun n => ∑ v ∈ Finset.range (3 * k.na), δ v * (Pi.single v (1 : ℝ) : Nat → ℝ) n := by
    funext n
    by_cases hn : n < 3 * k.na
    · rw [Finset.sum_eq_single n]
      · simp
      · intro b _ hb; simp [Ne.symm hb]
      · intro h; exact absurd (Finset.mem_range.mpr hn) h
    · rw [hδ n (by omega)]
      symm
      apply Finset.sum_eq_zero
      intro v hv
      have : v ≠ n := by have := Finset.mem_range.mp hv; omega
      simp [Ne.symm this]
  calc k.E.evalD ρ δ
      = k.E.evalD ρ (fun n => ∑ v ∈ Finset.range (3 * k.na), δ v * (Pi.single v (1 : ℝ) : Nat → ℝ) n) :=
        congrArg (fun d => k.E.evalD ρ d) hdec
    _ = ∑ v ∈ Finset.range (3 * k.na), δ v * k.G.gradR ρ v := by
        rw [Ex.evalD_finset_sum]
        apply Finset.sum_congr rfl
        intro v hv
        rw [Ex.evalD_smul, k.identity ρ hρ v (Finset.mem_range.mp hv)]
    _ = _ := sum_range_three_mul (fun v => δ v * k.G.gradR ρ v) k.na

/-- If a kind's energy is constant along the rotations about axis `c`, its tangent along the infinitesimal
rotation about `c` vanishes. -/
theorem evalD_infRot_eq_zero (k : KindSpec) (ρ : Nat → ℝ) (hρ : k.Regular ρ) (c : Fin 3)
    (hinv : ∀ t, k.E.evalR (rotEnv k.na (rotAxis c t) ρ) = k.E.evalR ρ) :
    k.E.evalD ρ (infRot k.na c ρ) = 0 := by
  have hγ0 := rotEnv_rotAxis_zero k.na c ρ
  have hd := Ex.hasDerivAt_evalR (fun t => rotEnv k.na (rotAxis c t) ρ) (infRot k.na c ρ) 0
    (hasDerivAt_rotEnv k.na c ρ) k.E (by rw [hγ0]; exact k.reg ρ hρ)
  rw [hγ0] at hd
  have hconst : (fun t => k.E.evalR (rotEnv k.na (rotAxis c t) ρ)) = fun _ => k.E.evalR ρ :=
    funext hinv
  rw [hconst] at hd
  exact hd.unique (hasDerivAt_const _ _)

/-! ### Zero net torque -/

/-- **Zero net torque about x.** -/
theorem net_torque_zero_x (k : KindSpec) (ρ : Nat → ℝ) (hρ : k.Regular ρ)
    (hinv : ∀ t, k.E.evalR (rotEnv k.na (rotAxis 0 t) ρ) = k.E.evalR ρ) :
    ∑ a ∈ Finset.range k.na,
      (ρ (3 * a + 1) * k.G.gradR ρ (3 * a + 2) - ρ (3 * a + 2) * k.G.gradR ρ (3 * a + 1)) = 0 := by
  have h0 := evalD_infRot_eq_zero k ρ hρ 0 hinv
  rw [evalD_eq_sum_grad k ρ hρ _ (infRot_param k.na 0 ρ)] at h0
  rw [← h0]
  apply Finset.sum_congr rfl
  intro a ha
  obtain ⟨⟨e0, e1, e2⟩, -, -⟩ := infRot_explicit k.na ρ a (Finset.mem_range.mp ha)
  rw [e0, e1, e2]
  ring

/-- **Zero net torque about y.** -/
theorem net_torque_zero_y (k : KindSpec) (ρ : Nat → ℝ) (hρ : k.Regular ρ)
    (hinv : ∀ t, k.E.evalR (rotEnv k.na (rotAxis 1 t) ρ) = k.E.evalR ρ) :
    ∑ a ∈ Finset.range k.na,
      (ρ (3 * a + 2) * k.G.gradR ρ (3 * a) - ρ (3 * a) * k.G.gradR ρ (3 * a + 2)) = 0 := by
  have h0 := evalD_infRot_eq_zero k ρ hρ 1 hinv
  rw [evalD_eq_sum_grad k ρ hρ _ (infRot_param k.na 1 ρ)] at h0
  rw [← h0]
  apply Finset.sum_congr rfl
  intro a ha
  obtain ⟨-, ⟨e0, e1, e2⟩, -⟩ := infRot_explicit k.na ρ a (Finset.mem_range.mp ha)
  rw [e0, e1, e2]
  ring

/-- **Zero net torque about z.** -/
theorem net_torque_zero_z (k : KindSpec) (ρ : Nat → ℝ) (hρ : k.Regular ρ)
    (hinv : ∀ t, k.E.evalR (rotEnv k.na (rotAxis 2 t) ρ) = k.E.evalR ρ) :
    ∑ a ∈ Finset.range k.na,
      (ρ (3 * a) * k.G.gradR ρ (3 * a + 1) - ρ (3 * a + 1) * k.G.gradR ρ (3 * a)) = 0 := by
  have h0 := evalD_infRot_eq_zero k ρ hρ 2 hinv
  rw [evalD_eq_sum_grad k ρ hρ _ (infRot_param k.na 2 ρ)] at h0
  rw [← h0]
  apply Finset.sum_congr rfl
  intro a ha
  obtain ⟨-, -, ⟨e0, e1, e2⟩⟩ := infRot_explicit k.na ρ a (Finset.mem_range.mp ha)
  rw [e0, e1, e2]
  ring

/-- The three components of `∑ₐ r_a × g_a` vanish, where `r_a = (ρ (3a), ρ (3a+1), ρ (3a+2))` and `g_a` is
the slice `3a, 3a+1, 3a+2` of the gradient `g`. -/
def TorqueFree (na : Nat) (ρ g : Nat → ℝ) : Prop :=
  ∑ a ∈ Finset.range na, (ρ (3 * a + 1) * g (3 * a + 2) - ρ (3 * a + 2) * g (3 * a + 1)) = 0 ∧
  ∑ a ∈ Finset.range na, (ρ (3 * a + 2) * g (3 * a) - ρ (3 * a) * g (3 * a + 2)) = 0 ∧
  ∑ a ∈ Finset.range na, (ρ (3 * a) * g (3 * a + 1) - ρ (3 * a + 1) * g (3 * a)) = 0

/-- **Zero net torque.** For a kind whose energy is constant along the rotations of `ρ` about the three
coordinate axes, at a regular configuration `ρ`, the torque `∑ₐ r_a × g_a` of the translated gradient
vanishes, component by component. -/
theorem net_torque_zero (k : KindSpec) (ρ : Nat → ℝ) (hρ : k.Regular ρ)
    (hinv : ∀ (c : Fin 3) (t : ℝ), k.E.evalR (rotEnv k.na (rotAxis c t) ρ) = k.E.evalR ρ) :
    TorqueFree k.na ρ (k.G.gradR ρ) :=
  ⟨net_torque_zero_x k ρ hρ (hinv 0), net_torque_zero_y k ρ hρ (hinv 1), net_torque_zero_z k ρ hρ (hinv 2)⟩

/-! ### The seven kinds -/

theorem bond_net_torque (ρ : Nat → ℝ) (h : PairRegular ρ) : TorqueFree 2 ρ (bondGrad.gradR ρ) :=
  net_torque_zero bondKind ρ h fun c t => bond_rotate (rotAxis c t) ρ

theorem lj_net_torque (ρ : Nat → ℝ) (h : PairRegular ρ) : TorqueFree 2 ρ (ljGrad.gradR ρ) :=
  net_torque_zero ljKind ρ h fun c t => lj_rotate (rotAxis c t) ρ

theorem repulsion_net_torque (n : Nat) (ρ : Nat → ℝ) (h : PairRegular ρ) :
    TorqueFree 2 ρ ((repulsionGrad n).gradR ρ) :=
  net_torque_zero (repulsionKind n) ρ h fun c t => repulsion_rotate n (rotAxis c t) ρ

theorem angleA_net_torque (ρ : Nat → ℝ) (h : BendRegular ρ) (hn : ρ 21 ≠ 0) :
    TorqueFree 3 ρ (angleAGrad.gradR ρ) :=
  net_torque_zero angleAKind ρ ⟨h, hn⟩ fun c t => angleA_rotate (rotAxis c t) ρ

theorem angleB_net_torque (ρ : Nat → ℝ) (h : BendRegular ρ) : TorqueFree 3 ρ (angleBGrad.gradR ρ) :=
  net_torque_zero angleBKind ρ h fun c t => angleB_rotate (rotAxis c t) ρ

theorem torsion_net_torque (ρ : Nat → ℝ) (h : TorsionRegular ρ) : TorqueFree 4 ρ (torsionGrad.gradR ρ) :=
  net_torque_zero torsionKind ρ h fun c t => torsion_rotate (rotAxis c t) ρ h

theorem inversion_net_torque (ρ : Nat → ℝ) (h : InversionRegular ρ) :
    TorqueFree 4 ρ (inversionGrad.gradR ρ) :=
  net_torque_zero inversionKind ρ h fun c t => inversion_rotate (rotAxis c t) ρ

/-! ### Non-vacuity and the statements written out -/

example : rotV (rotAxis 2 (π / 2)) (1, 2, 3) = (-2, 1, 3) := by
  simp [rotAxis, rotZ, rotV]

open Torsion in
/-- The 90° torsion of `GradTorsion.lean` is torque free. -/
example :
    TorqueFree 4 (fun n => if n = 0 ∨ n = 8 ∨ n = 10 ∨ n = 11 then 1 else 0)
      (torsionGrad.gradR (fun n => if n = 0 ∨ n = 8 ∨ n = 10 ∨ n = 11 then 1 else 0)) :=
  torsion_net_torque _
    (by simp [TorsionRegular, p1, p2, p3, q1, q2, q3, s1, s2, s3, N0x, N0y, N0z, N1x, N1y, N1z])

/-- Written out for a bond, about z: `x₀ g₀ʸ − y₀ g₀ˣ + x₁ g₁ʸ − y₁ g₁ˣ = 0`. -/
example (ρ : Nat → ℝ) (h : PairRegular ρ) :
    ρ 0 * bondGrad.gradR ρ 1 - ρ 1 * bondGrad.gradR ρ 0
      + (ρ 3 * bondGrad.gradR ρ 4 - ρ 4 * bondGrad.gradR ρ 3) = 0 := by
  have := (bond_net_torque ρ h).2.2
  simp [Finset.sum_range_succ] at this
  linarith

end OptRs.Lemmas
