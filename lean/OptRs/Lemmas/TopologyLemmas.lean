/-
Helper lemmas for the connectivity theorems (C10, C16, C17, C08). Core Lean only.
-/
import OptRs.Lemmas.Sets
namespace OptRs.Model

/-- Bond lists the code can hold: indices inside the molecule, two distinct ends. -/
def WellFormed (n : Nat) (bs : List Bond) : Prop := ∀ b ∈ bs, b.i < n ∧ b.j < n ∧ b.i ≠ b.j

instance (n : Nat) (bs : List Bond) : Decidable (WellFormed n bs) := by unfold WellFormed; infer_instance

theorem pairKey_comm (a b : Nat) : pairKey a b = pairKey b a := by
  unfold pairKey; split <;> split <;> first | rfl | (congr 1 <;> omega) | omega

theorem pairKey_eq_iff (a b c d : Nat) : pairKey a b = pairKey c d ↔ (a = c ∧ b = d) ∨ (a = d ∧ b = c) := by
  unfold pairKey
  split <;> split <;> simp only [Prod.mk.injEq] <;> omega

theorem bonded_iff (bs : List Bond) (i j : Nat) :
    bonded bs i j = true ↔ i ≠ j ∧ ∃ b ∈ bs, (b.i = i ∧ b.j = j) ∨ (b.i = j ∧ b.j = i) := by
  unfold bonded
  simp only [Bool.and_eq_true, bne_iff_ne, ne_eq, List.any_eq_true, beq_iff_eq, Bond.key]
  constructor
  · rintro ⟨h, b, hb, hk⟩
    exact ⟨h, b, hb, (pairKey_eq_iff _ _ _ _).mp hk⟩
  · rintro ⟨h, b, hb, hk⟩
    exact ⟨h, b, hb, (pairKey_eq_iff _ _ _ _).mpr hk⟩

theorem bonded_symm (bs : List Bond) (i j : Nat) : bonded bs i j = bonded bs j i := by
  have key : ∀ i j, bonded bs i j = true → bonded bs j i = true := by
    intro i j h
    obtain ⟨hne, b, hb, hk⟩ := (bonded_iff bs i j).mp h
    exact (bonded_iff bs j i).mpr ⟨fun e => hne e.symm, b, hb, by omega⟩
  cases h1 : bonded bs i j <;> cases h2 : bonded bs j i <;> try rfl
  · have := key j i h2; simp_all
  · have := key i j h1; simp_all

theorem bonded_ne (bs : List Bond) (i j : Nat) (h : bonded bs i j = true) : i ≠ j :=
  ((bonded_iff bs i j).mp h).1

theorem bonded_lt (n : Nat) (bs : List Bond) (hw : WellFormed n bs) (i j : Nat) (h : bonded bs i j = true) :
    i < n ∧ j < n := by
  obtain ⟨_, b, hb, hk⟩ := (bonded_iff bs i j).mp h
  have := hw b hb
  omega

theorem mem_insertNat (x y : Nat) (l : List Nat) : y ∈ insertNat x l ↔ y = x ∨ y ∈ l := by
  induction l with
  | nil => simp [insertNat]
  | cons z zs ih =>
    unfold insertNat
    split
    · simp
    · simp only [List.mem_cons, ih]
      constructor
      · rintro (h | h | h)
        · exact Or.inr (Or.inl h)
        · exact Or.inl h
        · exact Or.inr (Or.inr h)
      · rintro (h | h | h)
        · exact Or.inr (Or.inl h)
        · exact Or.inl h
        · exact Or.inr (Or.inr h)

theorem mem_sortNat (y : Nat) (l : List Nat) : y ∈ sortNat l ↔ y ∈ l := by
  induction l with
  | nil => simp [sortNat]
  | cons z zs ih =>
    have : sortNat (z :: zs) = insertNat z (sortNat zs) := rfl
    rw [this, mem_insertNat, ih]
    simp

/-- The neighbour list of `a` is exactly the atoms bonded to it. -/
theorem mem_neighbours (n : Nat) (bs : List Bond) (hw : WellFormed n bs) (a x : Nat) :
    x ∈ neighbours bs a ↔ bonded bs a x = true := by
  unfold neighbours
  rw [mem_sortNat, List.mem_filterMap, bonded_iff]
  constructor
  · rintro ⟨b, hb, ho⟩
    have hwf := hw b hb
    unfold Bond.other at ho
    split at ho
    · simp at ho; exact ⟨by omega, b, hb, by omega⟩
    · split at ho
      · simp at ho; exact ⟨by omega, b, hb, by omega⟩
      · simp at ho
  · rintro ⟨hne, b, hb, hk⟩
    refine ⟨b, hb, ?_⟩
    have hwf := hw b hb
    unfold Bond.other
    rcases hk with ⟨h1, h2⟩ | ⟨h1, h2⟩
    · simp [h1, h2]
    · have : a ≠ b.i := by omega
      simp [h2, h1]

end OptRs.Model
