/-
TorsionalDihedral: the translated gradient program `torsionGrad` is the gradient of the hand energy model
`torsionE` at every regular configuration (all twelve slots), the slots it does not write, regularity of the
energy expression, and the closed form of the energy in the specification's dihedral angle.

Route (compositional, no global `ring` over inlined polynomials):
* `TorsionAtoms.lean`  — named real atoms (difference vectors, the two cross products N0, N1, three lengths,
  the energy's `atan2` arguments `A`, `B`) and `env_eq`: the environment after the 36 `let`s in atoms;
* `TorsionEnergy.lean` — value/tangent of every named sub-term of `phi` in atoms (all by `rfl`), and
  `torsionE_evalD_shape`: the tangent of the energy matched against the common shape of the twelve outputs;
* here — per slot, two small `field_simp; ring` goals (tangent of `B`, tangent of `A`) over the atoms.
-/
import OptRs.Lemmas.TorsionEnergy
import OptRs.Lemmas.Geometry
import Mathlib.Tactic.IntervalCases

open OptRs OptRs.Model.Energy OptRs.Gen Real
open OptRs.Lemmas.Torsion

namespace OptRs.Lemmas

/-- Regular configuration of a torsion i–j–k–l (atoms at positions 0–3 of the term):
* `r_kj ≠ 0` (atoms j, k distinct),
* `N0 = r_ij × r_kj ≠ 0` (i, j, k not collinear),
* `N1 = (−r_kj) × r_lk ≠ 0` (j, k, l not collinear),
* off the branch cut of `atan2`: `(N0 × r_kj) · N1 ≠ 0 ∨ 0 < N0 · N1` (φ ≠ ±π, i.e. not trans-planar);
  these are the energy's `atan2` arguments up to the positive factors `1 / (|N0| |r_kj| |N1|)`, `1 / (|N0| |N1|)`. -/
def TorsionRegular (ρ : Nat → ℝ) : Prop :=
  0 < q1 ρ ^ 2 + q2 ρ ^ 2 + q3 ρ ^ 2 ∧
  0 < N0x ρ ^ 2 + N0y ρ ^ 2 + N0z ρ ^ 2 ∧
  0 < N1x ρ ^ 2 + N1y ρ ^ 2 + N1z ρ ^ 2 ∧
  ((N0y ρ * q3 ρ - N0z ρ * q2 ρ) * N1x ρ + (N0z ρ * q1 ρ - N0x ρ * q3 ρ) * N1y ρ
      + (N0x ρ * q2 ρ - N0y ρ * q1 ρ) * N1z ρ ≠ 0 ∨
    0 < N0x ρ * N1x ρ + N0y ρ * N1y ρ + N0z ρ * N1z ρ)

namespace Torsion

theorem gradR_eq (ρ : Nat → ℝ) (s : Nat) (e : Ex) (h : torsionGrad.outs.lookup s = some e) :
    torsionGrad.gradR ρ s = e.evalR (envT ρ) := by
  rw [Prog.gradR_of_no_guard _ rfl]; unfold Prog.gradRaw; rw [h, env_eq]

theorem aG_eq (ρ : Nat → ℝ) :
    N1z ρ * C3 ρ / L1 ρ + N1y ρ * C2 ρ / L1 ρ + N1x ρ * C1 ρ / L1 ρ = A ρ := by
  unfold A C1 C2 C3; ring
theorem bG_eq (ρ : Nat → ℝ) :
    N0z ρ * N1z ρ / (L0 ρ * L1 ρ) + N0y ρ * N1y ρ / (L0 ρ * L1 ρ) + N0x ρ * N1x ρ / (L0 ρ * L1 ρ) = B ρ := by
  unfold B; ring
theorem v35_eq (ρ : Nat → ℝ) :
    -(N1z ρ * C3 ρ) / L1 ρ - N1y ρ * C2 ρ / L1 ρ - N1x ρ * C1 ρ / L1 ρ = -A ρ := by
  unfold A C1 C2 C3; ring

theorem L0_sq (ρ : Nat → ℝ) : N0z ρ ^ 2 + N0y ρ ^ 2 + N0x ρ ^ 2 = L0 ρ ^ 2 := by
  unfold L0; rw [Real.sq_sqrt (by positivity)]; ring
theorem L1_sq (ρ : Nat → ℝ) : N1z ρ ^ 2 + N1y ρ ^ 2 + N1x ρ ^ 2 = L1 ρ ^ 2 := by
  unfold L1; rw [Real.sq_sqrt (by positivity)]; ring
theorem Lq_sq (ρ : Nat → ℝ) : q1 ρ ^ 2 + q2 ρ ^ 2 + q3 ρ ^ 2 = Lq ρ ^ 2 := by
  unfold Lq; rw [Real.sq_sqrt (by positivity)]
theorem sqrt_L0_sq (ρ : Nat → ℝ) : √(L0 ρ ^ 2) = L0 ρ := Real.sqrt_sq (Real.sqrt_nonneg _)
theorem sqrt_L1_sq (ρ : Nat → ℝ) : √(L1 ρ ^ 2) = L1 ρ := Real.sqrt_sq (Real.sqrt_nonneg _)
theorem sqrt_Lq_sq (ρ : Nat → ℝ) : √(Lq ρ ^ 2) = Lq ρ := Real.sqrt_sq (Real.sqrt_nonneg _)

end Torsion
open Torsion

theorem TorsionRegular.L0_ne {ρ : Nat → ℝ} (h : TorsionRegular ρ) : L0 ρ ≠ 0 := (Real.sqrt_pos.mpr h.2.1).ne'
theorem TorsionRegular.L1_ne {ρ : Nat → ℝ} (h : TorsionRegular ρ) : L1 ρ ≠ 0 := (Real.sqrt_pos.mpr h.2.2.1).ne'
theorem TorsionRegular.Lq_ne {ρ : Nat → ℝ} (h : TorsionRegular ρ) : Lq ρ ≠ 0 := (Real.sqrt_pos.mpr h.1).ne'

theorem Torsion.A_eq (ρ : Nat → ℝ) :
    A ρ = ((N0y ρ * q3 ρ - N0z ρ * q2 ρ) * N1x ρ + (N0z ρ * q1 ρ - N0x ρ * q3 ρ) * N1y ρ
      + (N0x ρ * q2 ρ - N0y ρ * q1 ρ) * N1z ρ) / (L0 ρ * Lq ρ * L1 ρ) := by
  unfold A; ring
theorem Torsion.B_eq (ρ : Nat → ℝ) :
    B ρ = (N0x ρ * N1x ρ + N0y ρ * N1y ρ + N0z ρ * N1z ρ) / (L0 ρ * L1 ρ) := by
  unfold B; ring

/-- The energy's `atan2` arguments are off the branch cut. -/
theorem TorsionRegular.cut {ρ : Nat → ℝ} (h : TorsionRegular ρ) : A ρ ≠ 0 ∨ 0 < B ρ := by
  have h0 : 0 < L0 ρ := Real.sqrt_pos.mpr h.2.1
  have h1 : 0 < L1 ρ := Real.sqrt_pos.mpr h.2.2.1
  have hq : 0 < Lq ρ := Real.sqrt_pos.mpr h.1
  rw [A_eq, B_eq]
  rcases h.2.2.2 with hc | hc
  · exact Or.inl (div_ne_zero hc (by positivity))
  · exact Or.inr (div_pos hc (by positivity))

/-- Closes `⟨gradient-side expression in atoms⟩ = aEx/bEx.evalD ρ (Pi.single s 1) [* B ρ]`. -/
macro "torsion_core" : tactic =>
  `(tactic| (
    simp only [L0_sq, L1_sq, Lq_sq, sqrt_L0_sq, sqrt_L1_sq, sqrt_Lq_sq]
    simp only [aEx, bEx, dot, vdiv, cross, Ex.evalD, Ex.evalR, qx_R, qy_R, qz_R, qx_D, qy_D, qz_D,
      n0x_R, n0y_R, n0z_R, n1x_R, n1y_R, n1z_R, n0x_D, n0y_D, n0z_D, n1x_D, n1y_D, n1z_D,
      l0_R, l1_R, lq_R, l0_D, l1_D, lq_D]
    simp only [dL0, dL1, dLq, dN0x, dN0y, dN0z, dN1x, dN1y, dN1z, dp1, dp2, dp3, dq1, dq2, dq3, ds1, ds2, ds3,
      Pi.single_apply, Nat.reduceEqDiff, ↓reduceIte, Nat.cast_ofNat, pow_zero, div_one]
    simp only [C1, C2, C3, p1, p2, p3, q1, q2, q3, s1, s2, s3]
    field_simp
    ring))

/-- Proof script shared by the twelve slots (`g` = the translated output expression of the slot). -/
macro "torsion_slot " s:num g:ident : tactic =>
  `(tactic| (
    rw [gradR_eq _ $s $g rfl]
    simp only [$g:ident, Ex.evalR, envT_vals, Num.toReal, aG_eq, bG_eq, v35_eq]
    refine torsionE_evalD_shape _ _ (by simp) (by simp) (by simp) (by norm_num) rfl ?_ rfl ?_ rfl rfl rfl
    · torsion_core
    · first
        | refine congrArg (· * B _) ?_
        | (rw [mul_comm]; refine congrArg (· * B _) ?_)
      torsion_core))

theorem torsion_identity_0 (ρ : Nat → ℝ) (h : TorsionRegular ρ) :
    torsionE.evalD ρ (Pi.single 0 1) = torsionGrad.gradR ρ 0 := by
  have hL0 := h.L0_ne
  have hL1 := h.L1_ne
  have hLq := h.Lq_ne
  torsion_slot 0 torsion_g0

theorem torsion_identity_1 (ρ : Nat → ℝ) (h : TorsionRegular ρ) :
    torsionE.evalD ρ (Pi.single 1 1) = torsionGrad.gradR ρ 1 := by
  have hL0 := h.L0_ne
  have hL1 := h.L1_ne
  have hLq := h.Lq_ne
  torsion_slot 1 torsion_g1

theorem torsion_identity_2 (ρ : Nat → ℝ) (h : TorsionRegular ρ) :
    torsionE.evalD ρ (Pi.single 2 1) = torsionGrad.gradR ρ 2 := by
  have hL0 := h.L0_ne
  have hL1 := h.L1_ne
  have hLq := h.Lq_ne
  torsion_slot 2 torsion_g2

theorem torsion_identity_3 (ρ : Nat → ℝ) (h : TorsionRegular ρ) :
    torsionE.evalD ρ (Pi.single 3 1) = torsionGrad.gradR ρ 3 := by
  have hL0 := h.L0_ne
  have hL1 := h.L1_ne
  have hLq := h.Lq_ne
  torsion_slot 3 torsion_g3

theorem torsion_identity_4 (ρ : Nat → ℝ) (h : TorsionRegular ρ) :
    torsionE.evalD ρ (Pi.single 4 1) = torsionGrad.gradR ρ 4 := by
  have hL0 := h.L0_ne
  have hL1 := h.L1_ne
  have hLq := h.Lq_ne
  torsion_slot 4 torsion_g4

theorem torsion_identity_5 (ρ : Nat → ℝ) (h : TorsionRegular ρ) :
    torsionE.evalD ρ (Pi.single 5 1) = torsionGrad.gradR ρ 5 := by
  have hL0 := h.L0_ne
  have hL1 := h.L1_ne
  have hLq := h.Lq_ne
  torsion_slot 5 torsion_g5

theorem torsion_identity_6 (ρ : Nat → ℝ) (h : TorsionRegular ρ) :
    torsionE.evalD ρ (Pi.single 6 1) = torsionGrad.gradR ρ 6 := by
  have hL0 := h.L0_ne
  have hL1 := h.L1_ne
  have hLq := h.Lq_ne
  torsion_slot 6 torsion_g6

theorem torsion_identity_7 (ρ : Nat → ℝ) (h : TorsionRegular ρ) :
    torsionE.evalD ρ (Pi.single 7 1) = torsionGrad.gradR ρ 7 := by
  have hL0 := h.L0_ne
  have hL1 := h.L1_ne
  have hLq := h.Lq_ne
  torsion_slot 7 torsion_g7

theorem torsion_identity_8 (ρ : Nat → ℝ) (h : TorsionRegular ρ) :
    torsionE.evalD ρ (Pi.single 8 1) = torsionGrad.gradR ρ 8 := by
  have hL0 := h.L0_ne
  have hL1 := h.L1_ne
  have hLq := h.Lq_ne
  torsion_slot 8 torsion_g8

theorem torsion_identity_9 (ρ : Nat → ℝ) (h : TorsionRegular ρ) :
    torsionE.evalD ρ (Pi.single 9 1) = torsionGrad.gradR ρ 9 := by
  have hL0 := h.L0_ne
  have hL1 := h.L1_ne
  have hLq := h.Lq_ne
  torsion_slot 9 torsion_g9

theorem torsion_identity_10 (ρ : Nat → ℝ) (h : TorsionRegular ρ) :
    torsionE.evalD ρ (Pi.single 10 1) = torsionGrad.gradR ρ 10 := by
  have hL0 := h.L0_ne
  have hL1 := h.L1_ne
  have hLq := h.Lq_ne
  torsion_slot 10 torsion_g10

theorem torsion_identity_11 (ρ : Nat → ℝ) (h : TorsionRegular ρ) :
    torsionE.evalD ρ (Pi.single 11 1) = torsionGrad.gradR ρ 11 := by
  have hL0 := h.L0_ne
  have hL1 := h.L1_ne
  have hLq := h.Lq_ne
  torsion_slot 11 torsion_g11

theorem torsion_reg (ρ : Nat → ℝ) (h : TorsionRegular ρ) : torsionE.Reg ρ := by
  have hL0 := h.L0_ne
  have hL1 := h.L1_ne
  have hLq := h.Lq_ne
  have hpoly : n0x.Reg ρ ∧ n0y.Reg ρ ∧ n0z.Reg ρ ∧ n1x.Reg ρ ∧ n1y.Reg ρ ∧ n1z.Reg ρ ∧ qx.Reg ρ ∧ qy.Reg ρ ∧ qz.Reg ρ := by
    simp [n0x, n0y, n0z, n1x, n1y, n1z, qx, qy, qz, cross, rij, rkj, rlk, vsub, vneg, pos, Ex.Reg]
  obtain ⟨r1, r2, r3, r4, r5, r6, r7, r8, r9⟩ := hpoly
  have hl0 : l0.Reg ρ := by
    simp only [l0, len, Ex.Reg, Ex.evalR, n0x_R, n0y_R, n0z_R, r1, r2, r3, true_and]
    exact h.2.1
  have hl1 : l1.Reg ρ := by
    simp only [l1, len, Ex.Reg, Ex.evalR, n1x_R, n1y_R, n1z_R, r4, r5, r6, true_and]
    exact h.2.2.1
  have hlq : lq.Reg ρ := by
    simp only [lq, len, Ex.Reg, Ex.evalR, qx_R, qy_R, qz_R, r7, r8, r9, true_and]
    exact h.1
  simp only [torsionE, phi_eq, Ex.Reg, Ex.evalR, aEx_R, bEx_R, two, one, Num.toReal]
  simp only [aEx, bEx, dot, cross, vdiv, Ex.Reg, l0_R, l1_R, lq_R, r1, r2, r3, r4, r5, r6, r7, r8, r9,
    hl0, hl1, hlq, true_and, and_true, ne_eq, hL0, hL1, hLq, not_false_eq_true]
  exact ⟨by norm_num, h.cut⟩

theorem torsion_untouched (ρ : Nat → ℝ) (s : Nat) (hs : 12 ≤ s) : torsionGrad.gradR ρ s = 0 := by
  have : torsionGrad.outs.lookup s = none := by
    rw [List.lookup_eq_none_iff]
    simp only [torsionGrad, List.forall_mem_cons]
    simp
    omega
  rw [Prog.gradR_of_no_guard _ rfl]; unfold Prog.gradRaw; rw [this]

theorem torsion_identity (ρ : Nat → ℝ) (h : TorsionRegular ρ) :
    ∀ s, s < 12 → torsionE.evalD ρ (Pi.single s 1) = torsionGrad.gradR ρ s := by
  intro s hs
  interval_cases s
  exacts [torsion_identity_0 ρ h, torsion_identity_1 ρ h, torsion_identity_2 ρ h, torsion_identity_3 ρ h,
    torsion_identity_4 ρ h, torsion_identity_5 ρ h, torsion_identity_6 ρ h, torsion_identity_7 ρ h,
    torsion_identity_8 ρ h, torsion_identity_9 ρ h, torsion_identity_10 ρ h, torsion_identity_11 ρ h]

/-- The translated gradient of the torsion term is the gradient of its energy. -/
theorem torsion_hasDerivAt (ρ : Nat → ℝ) (h : TorsionRegular ρ) (s : Nat) (hs : s < 12) :
    HasDerivAt (fun t => torsionE.evalR (Function.update ρ s t)) (torsionGrad.gradR ρ s) (ρ s) :=
  hasDerivAt_of_identity torsionE torsionGrad ρ s (torsion_reg ρ h) (torsion_identity ρ h s hs)

/-- A 90° torsion: i = (1,0,0), j = (0,0,0), k = (0,0,1), l = (0,1,1). -/
example : TorsionRegular (fun n => if n = 0 ∨ n = 8 ∨ n = 10 ∨ n = 11 then 1 else 0) := by
  simp [TorsionRegular, p1, p2, p3, q1, q2, q3, s1, s2, s3, N0x, N0y, N0z, N1x, N1y, N1z]

/-! ### Closed form against the specification geometry -/

/-- `atan2` is invariant under a common positive factor. -/
theorem at2_smul {c : ℝ} (hc : 0 < c) (y x : ℝ) : at2 (c * y) (c * x) = at2 y x := by
  unfold at2
  have h1 : (c * y = 0 ∧ c * x < 0) ↔ (y = 0 ∧ x < 0) := by
    constructor
    · rintro ⟨a, b⟩
      exact ⟨(mul_eq_zero.mp a).resolve_left hc.ne', by nlinarith⟩
    · rintro ⟨a, b⟩
      exact ⟨by rw [a, mul_zero], by nlinarith⟩
  have h2 : √((c * x) ^ 2 + (c * y) ^ 2) = c * √(x ^ 2 + y ^ 2) := by
    rw [show (c * x) ^ 2 + (c * y) ^ 2 = c ^ 2 * (x ^ 2 + y ^ 2) by ring, Real.sqrt_mul (sq_nonneg c),
      Real.sqrt_sq hc.le]
  simp only [h1, h2]
  rw [← mul_add, mul_div_mul_left _ _ hc.ne']

/-- Off the branch cut `atan2` is odd in its first argument. -/
theorem at2_neg {y x : ℝ} (h : y ≠ 0 ∨ 0 < x) : at2 (-y) x = -at2 y x := by
  unfold at2
  have h1 : ¬ (y = 0 ∧ x < 0) := by
    rintro ⟨a, b⟩
    rcases h with h | h
    · exact h a
    · linarith
  have h2 : ¬ (-y = 0 ∧ x < 0) := by rwa [neg_eq_zero]
  rw [if_neg h1, if_neg h2, neg_sq, neg_div, Real.arctan_neg, mul_neg]

/-- The model's `phi` is the IUPAC dihedral of the specification. -/
theorem phi_evalR (ρ : Nat → ℝ) (h : TorsionRegular ρ) :
    (phi 0 1 2 3).evalR ρ =
      Spec.dihedral (Spec.atom ρ 0) (Spec.atom ρ 1) (Spec.atom ρ 2) (Spec.atom ρ 3) := by
  have h0 : 0 < L0 ρ := Real.sqrt_pos.mpr h.2.1
  have h1 : 0 < L1 ρ := Real.sqrt_pos.mpr h.2.2.1
  have hq : 0 < Lq ρ := Real.sqrt_pos.mpr h.1
  set T := (N0y ρ * q3 ρ - N0z ρ * q2 ρ) * N1x ρ + (N0z ρ * q1 ρ - N0x ρ * q3 ρ) * N1y ρ
      + (N0x ρ * q2 ρ - N0y ρ * q1 ρ) * N1z ρ with hT
  set X := N0x ρ * N1x ρ + N0y ρ * N1y ρ + N0z ρ * N1z ρ with hX
  have hspec : Spec.dihedral (Spec.atom ρ 0) (Spec.atom ρ 1) (Spec.atom ρ 2) (Spec.atom ρ 3)
      = at2 (-T / Lq ρ) X := by
    simp only [Spec.dihedral, Spec.atom, Spec.vsub, Spec.cross, Spec.dot, Spec.norm, hT, hX, Lq,
      N0x, N0y, N0z, N1x, N1y, N1z, p1, p2, p3, q1, q2, q3, s1, s2, s3]
    norm_num
    congr 1
    · congr 1
      ring
    · ring
  have hcut : -T / Lq ρ ≠ 0 ∨ 0 < X := by
    rcases h.2.2.2 with hc | hc
    · exact Or.inl (div_ne_zero (neg_ne_zero.mpr hc) hq.ne')
    · exact Or.inr hc
  have hc : 0 < 1 / (L0 ρ * L1 ρ) := by positivity
  have hA : A ρ = 1 / (L0 ρ * L1 ρ) * -(-T / Lq ρ) := by
    rw [A_eq]; field_simp; rw [hT]; ring
  have hB : B ρ = 1 / (L0 ρ * L1 ρ) * X := by
    rw [B_eq]; field_simp; rw [hX]
  rw [hspec, phi_eq]
  simp only [Ex.evalR, aEx_R, bEx_R]
  rw [hA, hB, at2_smul hc, at2_neg hcut, neg_neg]

/-- Closed form of the torsion energy in the specification's dihedral angle. -/
theorem torsion_closed_form (ρ : Nat → ℝ) (h : TorsionRegular ρ) :
    torsionE.evalR ρ = ρ 22 / 2 * (1 - Real.cos (ρ 21 * ρ 20) *
      Real.cos (ρ 21 * Spec.dihedral (Spec.atom ρ 0) (Spec.atom ρ 1) (Spec.atom ρ 2) (Spec.atom ρ 3))) := by
  rw [← phi_evalR ρ h]
  simp only [torsionE, Ex.evalR, two, one, Num.toReal]
  norm_num

end OptRs.Lemmas
