/-
Inversion term, gradient side: the value of each `let` of `inversionGrad` in the final environment `ienv ρ`
(each stated via earlier ones, using `Prog.envR_mem`), and the folding lemmas that identify the inline
spellings of `P`, `A`, `B` of the second and third γ term with the energy-side atoms.
-/
import OptRs.Lemmas.InvBasic

open OptRs OptRs.Model.Energy OptRs.Gen

set_option linter.unusedSimpArgs false

namespace OptRs.Lemmas

/-- Environment after the 26 `let`s of the inversion gradient. -/
noncomputable def ienv (ρ : Nat → ℝ) : Nat → ℝ := Prog.envR ρ inversionGrad.lets

theorem inversion_scoped : Prog.wellScoped 100 inversionGrad.lets = true := by decide

theorem ienv_low (ρ : Nat → ℝ) (n : Nat) (h : n < 100) : ienv ρ n = ρ n :=
  Prog.envR_low _ 100 ρ inversion_scoped n h

theorem ienv_let (ρ : Nat → ℝ) (v : Nat) (e : Ex) (h : (v, e) ∈ inversionGrad.lets) :
    ienv ρ v = e.evalR (ienv ρ) :=
  Prog.envR_mem _ 100 ρ inversion_scoped v e h

theorem gradR_eq (ρ : Nat → ℝ) (s : Nat) (e : Ex) (h : inversionGrad.outs.lookup s = some e) :
    inversionGrad.gradR ρ s = e.evalR (ienv ρ) := by
  rw [Prog.gradR_of_no_guard _ rfl]; unfold Prog.gradRaw; rw [h]; rfl

section
variable (ρ : Nat → ℝ)

theorem ienv_0 : ienv ρ 0 = ρ 0 := ienv_low ρ _ (by norm_num)
theorem ienv_1 : ienv ρ 1 = ρ 1 := ienv_low ρ _ (by norm_num)
theorem ienv_2 : ienv ρ 2 = ρ 2 := ienv_low ρ _ (by norm_num)
theorem ienv_3 : ienv ρ 3 = ρ 3 := ienv_low ρ _ (by norm_num)
theorem ienv_4 : ienv ρ 4 = ρ 4 := ienv_low ρ _ (by norm_num)
theorem ienv_5 : ienv ρ 5 = ρ 5 := ienv_low ρ _ (by norm_num)
theorem ienv_6 : ienv ρ 6 = ρ 6 := ienv_low ρ _ (by norm_num)
theorem ienv_7 : ienv ρ 7 = ρ 7 := ienv_low ρ _ (by norm_num)
theorem ienv_8 : ienv ρ 8 = ρ 8 := ienv_low ρ _ (by norm_num)
theorem ienv_9 : ienv ρ 9 = ρ 9 := ienv_low ρ _ (by norm_num)
theorem ienv_10 : ienv ρ 10 = ρ 10 := ienv_low ρ _ (by norm_num)
theorem ienv_11 : ienv ρ 11 = ρ 11 := ienv_low ρ _ (by norm_num)
theorem ienv_21 : ienv ρ 21 = ρ 21 := ienv_low ρ _ (by norm_num)
theorem ienv_22 : ienv ρ 22 = ρ 22 := ienv_low ρ _ (by norm_num)
theorem ienv_23 : ienv ρ 23 = ρ 23 := ienv_low ρ _ (by norm_num)

/-- tactic: one `let`, read in the final environment -/
local macro "env_let" v:term : tactic =>
  `(tactic| (rw [ienv_let _ _ $v (by simp [inversionGrad])]))

theorem ienv_102 : ienv ρ 102 = -ρ 2 + ρ 5 := by
  env_let inversion_v2; simp only [inversion_v2, Ex.evalR, ienv_2, ienv_5]
theorem ienv_104 : ienv ρ 104 = -ρ 0 + ρ 6 := by
  env_let inversion_v4; simp only [inversion_v4, Ex.evalR, ienv_0, ienv_6]
theorem ienv_105 : ienv ρ 105 = -ρ 0 + ρ 9 := by
  env_let inversion_v5; simp only [inversion_v5, Ex.evalR, ienv_0, ienv_9]
theorem ienv_106 : ienv ρ 106 = -ρ 1 + ρ 7 := by
  env_let inversion_v6; simp only [inversion_v6, Ex.evalR, ienv_1, ienv_7]
theorem ienv_107 : ienv ρ 107 = -ρ 2 + ρ 8 := by
  env_let inversion_v7; simp only [inversion_v7, Ex.evalR, ienv_2, ienv_8]
theorem ienv_108 : ienv ρ 108 = -ρ 2 + ρ 11 := by
  env_let inversion_v8; simp only [inversion_v8, Ex.evalR, ienv_2, ienv_11]
theorem ienv_109 : ienv ρ 109 = -ρ 1 + ρ 10 := by
  env_let inversion_v9; simp only [inversion_v9, Ex.evalR, ienv_1, ienv_10]
theorem ienv_112 : ienv ρ 112 = -ρ 0 + ρ 3 := by
  env_let inversion_v12; simp only [inversion_v12, Ex.evalR, ienv_0, ienv_3]
theorem ienv_113 : ienv ρ 113 = -ρ 1 + ρ 4 := by
  env_let inversion_v13; simp only [inversion_v13, Ex.evalR, ienv_1, ienv_4]
theorem ienv_100 : ienv ρ 100 = (-ρ 0 + ρ 3) ^ 2 := by
  env_let inversion_v0; simp only [inversion_v0, Ex.evalR, ienv_0, ienv_3]
theorem ienv_101 : ienv ρ 101 = (-ρ 1 + ρ 4) ^ 2 := by
  env_let inversion_v1; simp only [inversion_v1, Ex.evalR, ienv_1, ienv_4]
theorem ienv_103 : ienv ρ 103 = (-ρ 2 + ρ 5) ^ 2 := by
  env_let inversion_v3; simp only [inversion_v3, Ex.evalR, ienv_102]
theorem ienv_111 : ienv ρ 111 = (-ρ 0 + ρ 6) * (-ρ 1 + ρ 10) - (-ρ 0 + ρ 9) * (-ρ 1 + ρ 7) := by
  env_let inversion_v11; simp only [inversion_v11, Ex.evalR, ienv_104, ienv_109, ienv_105, ienv_106]
theorem ienv_114 : ienv ρ 114 = -(-ρ 0 + ρ 6) * (-ρ 2 + ρ 11) + (-ρ 0 + ρ 9) * (-ρ 2 + ρ 8) := by
  env_let inversion_v14; simp only [inversion_v14, Ex.evalR, ienv_104, ienv_108, ienv_105, ienv_107]
theorem ienv_117 : ienv ρ 117 = (-ρ 1 + ρ 7) * (-ρ 2 + ρ 11) - (-ρ 1 + ρ 10) * (-ρ 2 + ρ 8) := by
  env_let inversion_v17; simp only [inversion_v17, Ex.evalR, ienv_106, ienv_108, ienv_109, ienv_107]

/-- the names of the three γ terms, in the order the gradient code lists them:
term 1 = γ(c,j,k,i), term 2 = γ(c,k,i,j), term 3 = γ(c,i,j,k). -/
theorem Ar_unfold (c k : Nat) : Ar c k ρ =
    (ρ (3 * k) - ρ (3 * c)) ^ 2 + (ρ (3 * k + 1) - ρ (3 * c + 1)) ^ 2 + (ρ (3 * k + 2) - ρ (3 * c + 2)) ^ 2 := rfl

theorem Br_unfold (c i j : Nat) : Br c i j ρ =
    ((ρ (3 * i + 1) - ρ (3 * c + 1)) * (ρ (3 * j + 2) - ρ (3 * c + 2)) - (ρ (3 * i + 2) - ρ (3 * c + 2)) * (ρ (3 * j + 1) - ρ (3 * c + 1))) ^ 2
    + ((ρ (3 * i + 2) - ρ (3 * c + 2)) * (ρ (3 * j) - ρ (3 * c)) - (ρ (3 * i) - ρ (3 * c)) * (ρ (3 * j + 2) - ρ (3 * c + 2))) ^ 2
    + ((ρ (3 * i) - ρ (3 * c)) * (ρ (3 * j + 1) - ρ (3 * c + 1)) - (ρ (3 * i + 1) - ρ (3 * c + 1)) * (ρ (3 * j) - ρ (3 * c))) ^ 2 := rfl

theorem Pr_unfold (c i j k : Nat) : Pr c i j k ρ =
    ((ρ (3 * i + 1) - ρ (3 * c + 1)) * (ρ (3 * j + 2) - ρ (3 * c + 2)) - (ρ (3 * i + 2) - ρ (3 * c + 2)) * (ρ (3 * j + 1) - ρ (3 * c + 1))) * (ρ (3 * k) - ρ (3 * c))
    + ((ρ (3 * i + 2) - ρ (3 * c + 2)) * (ρ (3 * j) - ρ (3 * c)) - (ρ (3 * i) - ρ (3 * c)) * (ρ (3 * j + 2) - ρ (3 * c + 2))) * (ρ (3 * k + 1) - ρ (3 * c + 1))
    + ((ρ (3 * i) - ρ (3 * c)) * (ρ (3 * j + 1) - ρ (3 * c + 1)) - (ρ (3 * i + 1) - ρ (3 * c + 1)) * (ρ (3 * j) - ρ (3 * c))) * (ρ (3 * k + 2) - ρ (3 * c + 2)) := rfl

theorem ienv_110 : ienv ρ 110 = Ar 0 1 ρ := by
  env_let inversion_v10; simp only [inversion_v10, Ex.evalR, ienv_100, ienv_101, ienv_103, Ar_unfold]; ring
theorem ienv_119 : ienv ρ 119 = Br 0 2 3 ρ := by
  env_let inversion_v19
  simp only [inversion_v19, Ex.evalR]
  rw [ienv_let _ _ inversion_v16 (by simp [inversionGrad]), ienv_let _ _ inversion_v15 (by simp [inversionGrad]),
    ienv_let _ _ inversion_v18 (by simp [inversionGrad])]
  simp only [inversion_v15, inversion_v16, inversion_v18, Ex.evalR, ienv_111, ienv_114, ienv_117, Br_unfold]; ring
theorem ienv_120 : ienv ρ 120 = Pr 0 2 3 1 ρ := by
  env_let inversion_v20
  simp only [inversion_v20, Ex.evalR, ienv_111, ienv_114, ienv_117, ienv_112, ienv_113, ienv_102, Pr_unfold]; ring
theorem ienv_122 : ienv ρ 122 = Pr 0 2 3 1 ρ ^ 2 := by
  env_let inversion_v22; simp only [inversion_v22, Ex.evalR, ienv_120]
theorem ienv_121 : ienv ρ 121 = Ar 0 1 ρ * Br 0 2 3 ρ := by
  env_let inversion_v21; simp only [inversion_v21, Ex.evalR, ienv_110, ienv_119]
theorem ienv_123 : ienv ρ 123 = 2 * Ar 0 1 ρ * Br 0 2 3 ρ := by
  env_let inversion_v23; simp only [inversion_v23, Ex.evalR, ienv_110, ienv_119, toReal_2_0]
theorem ienv_124 : ienv ρ 124 = √(Br 0 2 3 ρ) := by
  env_let inversion_v24; simp only [inversion_v24, Ex.evalR, ienv_119]
theorem ienv_125 : ienv ρ 125 = √(-Pr 0 2 3 1 ρ ^ 2 / (Ar 0 1 ρ * Br 0 2 3 ρ) + 1) := by
  env_let inversion_v25; simp only [inversion_v25, Ex.evalR, ienv_122, ienv_121, toReal_1_0]

/-! Folding the inline spellings of terms 2 and 3. -/

def eP2 : Ex := (.add (.add (.mul (.var 104) (.add (.mul (.neg (.var 113)) (.var 108)) (.mul (.var 109) (.var 102)))) (.mul (.var 106) (.sub (.mul (.var 112) (.var 108)) (.mul (.var 105) (.var 102))))) (.mul (.var 107) (.add (.mul (.neg (.var 112)) (.var 109)) (.mul (.var 105) (.var 113)))))
def eA2 : Ex := (.add (.add (.powi (.var 104) 2) (.powi (.var 106) 2)) (.powi (.var 107) 2))
def eB2 : Ex := (.add (.add (.powi (.add (.mul (.neg (.var 112)) (.var 109)) (.mul (.var 105) (.var 113))) 2) (.powi (.sub (.mul (.var 112) (.var 108)) (.mul (.var 105) (.var 102))) 2)) (.powi (.add (.mul (.neg (.var 113)) (.var 108)) (.mul (.var 109) (.var 102))) 2))
def eP3 : Ex := (.add (.add (.mul (.var 105) (.sub (.mul (.var 113) (.var 107)) (.mul (.var 106) (.var 102)))) (.mul (.var 109) (.add (.mul (.neg (.var 112)) (.var 107)) (.mul (.var 104) (.var 102))))) (.mul (.var 108) (.sub (.mul (.var 112) (.var 106)) (.mul (.var 104) (.var 113)))))
def eA3 : Ex := (.add (.add (.powi (.var 105) 2) (.powi (.var 109) 2)) (.powi (.var 108) 2))
def eB3 : Ex := (.add (.add (.powi (.sub (.mul (.var 112) (.var 106)) (.mul (.var 104) (.var 113))) 2) (.powi (.add (.mul (.neg (.var 112)) (.var 107)) (.mul (.var 104) (.var 102))) 2)) (.powi (.sub (.mul (.var 113) (.var 107)) (.mul (.var 106) (.var 102))) 2))

theorem fold_P2 : eP2.evalR (ienv ρ) = Pr 0 3 1 2 ρ := by
  simp only [eP2, Ex.evalR, ienv_102, ienv_104, ienv_105, ienv_106, ienv_107, ienv_108, ienv_109, ienv_112, ienv_113, Pr_unfold]; ring
theorem fold_A2 : eA2.evalR (ienv ρ) = Ar 0 2 ρ := by
  simp only [eA2, Ex.evalR, ienv_102, ienv_104, ienv_105, ienv_106, ienv_107, ienv_108, ienv_109, ienv_112, ienv_113, Ar_unfold]; ring
theorem fold_B2 : eB2.evalR (ienv ρ) = Br 0 3 1 ρ := by
  simp only [eB2, Ex.evalR, ienv_102, ienv_104, ienv_105, ienv_106, ienv_107, ienv_108, ienv_109, ienv_112, ienv_113, Br_unfold]; ring
theorem fold_P3 : eP3.evalR (ienv ρ) = Pr 0 1 2 3 ρ := by
  simp only [eP3, Ex.evalR, ienv_102, ienv_104, ienv_105, ienv_106, ienv_107, ienv_108, ienv_109, ienv_112, ienv_113, Pr_unfold]; ring
theorem fold_A3 : eA3.evalR (ienv ρ) = Ar 0 3 ρ := by
  simp only [eA3, Ex.evalR, ienv_102, ienv_104, ienv_105, ienv_106, ienv_107, ienv_108, ienv_109, ienv_112, ienv_113, Ar_unfold]; ring
theorem fold_B3 : eB3.evalR (ienv ρ) = Br 0 1 2 ρ := by
  simp only [eB3, Ex.evalR, ienv_102, ienv_104, ienv_105, ienv_106, ienv_107, ienv_108, ienv_109, ienv_112, ienv_113, Br_unfold]; ring

end

end OptRs.Lemmas
