import OptRs.Driver.Util
import OptRs.Driver.Decimal
import OptRs.Model.Xyz
import OptRs.Model.Atoms
namespace OptRs.Driver
open OptRs.Model OptRs.Model.Xyz

def bytesOfHex (s : String) : List UInt8 :=
  let cs := s.toList
  let rec go : List Char → List UInt8
    | a :: b :: rest => UInt8.ofNat (hexDigit a * 16 + hexDigit b) :: go rest
    | _ => []
  go cs

def hexOfBytes (bs : List UInt8) : String :=
  String.ofList (bs.flatMap fun b => (hexOfNat b.toNat 2).toList)

/-- `BufRead::lines` on a byte string: split after each `\n`, strip that `\n` and a `\r` before it; a line that is not
valid UTF-8 is `none`. -/
def linesOfBytes (bs : List UInt8) : List (Option (List Char)) :=
  let rec split (cur : List UInt8) : List UInt8 → List (List UInt8)
    | [] => if cur.isEmpty then [] else [cur.reverse]
    | b :: rest =>
      if b = 0x0A then
        let line := match cur with
          | 0x0D :: more => more.reverse
          | _ => cur.reverse
        line :: split [] rest
      else split (b :: cur) rest
  (split [] bs).map fun l => (String.fromUTF8? (ByteArray.mk l.toArray)).map String.toList

def parseSymC (s : List Char) : Option Nat := fromString (s.map Char.toNat)

def showAtoms (r : Option (List (Nat × Float × Float × Float))) : String :=
  match r with
  | none => "err"
  | some l => "ok " ++ ";".intercalate (l.map fun a => s!"{a.1}:{hexOfFloat a.2.1}:{hexOfFloat a.2.2.1}:{hexOfFloat a.2.2.2}")

def xyzReadLine (line : String) : String :=
  match words line with
  | ["read", hex] => showAtoms (readLines parseSymC parseF64 (linesOfBytes (bytesOfHex hex)))
  | ["read"] => showAtoms (readLines parseSymC parseF64 [])
  | _ => "bad-op"

/-- `XYZFile::write`: the file's bytes. -/
def xyzFileText (zs : List Nat) (xs : List Float) : List Char :=
  let a := xs.toArray
  let atoms := (List.range zs.length).map fun i =>
    ((toSymbol (zs.getD i 0)).map Char.ofNat, fmt6 a[3*i]!, fmt6 a[3*i+1]!, fmt6 a[3*i+2]!)
  (writeFile (toString zs.length).toList atoms).flatMap fun l => l ++ ['\n']

def xyzWriteLine (line : String) : String :=
  match line.splitOn " ; " with
  | [l, r] =>
    match words l with
    | ["write", zs] =>
      let text := xyzFileText (parseNatList zs) ((words r).map floatOfHex)
      let bytes := (String.ofList text).toUTF8.toList
      -- the file, and what reading it back gives
      s!"{hexOfBytes bytes} {showAtoms (readLines parseSymC parseF64 (linesOfBytes bytes))}"
    | _ => "bad-op"
  | _ => "bad-op"

end OptRs.Driver
