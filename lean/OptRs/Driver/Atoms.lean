import OptRs.Driver.Util
import OptRs.Model.Atoms
import OptRs.Props.C20Ref
namespace OptRs.Driver
open OptRs.Model

def describeZ (z : Nat) : String :=
  let period := match period z with | some p => toString p | none => "panic"
  s!"ok z={z} sym={joinNat (toSymbol z)} group={group z} period={period} radius={hexOfFloat (covalentRadiusF z)} valence={maximalValence z} en={hexOfFloat (electronegativityF z)} main={if isMainGroup z then 1 else 0} metal={if isMetal z then 1 else 0} tm={if isTransitionMetal z then 1 else 0}"

def atomsLine (line : String) : String :=
  match words line with
  | ["z", n] =>
    match fromInteger n.toNat! with
    | some z => describeZ z
    | none => "refused"
  | ["sym", cps] =>
    match fromString (parseNatList cps) with
    | some z => describeZ z
    | none => "refused"
  | _ => "bad-op"


/-! Direct oracle for C20 on the *implementation's* outputs: reference data only (`OptRs.Ref`, the
independent layout in `Props/C20.lean`), nothing translated from /repo. Used to find and replay a concrete
failing element when a C20 theorem or the correspondence breaks, and as a cross-check on every run. -/
namespace AtomsOracle
open OptRs.Ref

def check (line : String) : String :=
  let toks := words line
  match toks with
  | "refused" :: _ => "pass"
  | "ok" :: rest =>
    match field? rest "z", field? rest "sym", field? rest "group", field? rest "period", field? rest "radius",
          field? rest "valence", field? rest "en", field? rest "main" with
    | some z, some sym, some g, some p, some r, some v, some en, some mg =>
      let z := z.toNat!
      let fails : List String := Id.run do
        let mut fs : List String := []
        if z = 0 ∨ z > 118 then fs := fs ++ [s!"number {z} accepted"]
        if OptRs.Ref.symbols[z - 1]? ≠ some (parseNatList sym) then fs := fs ++ [s!"z={z} symbol {sym} is not the IUPAC symbol"]
        if g.toNat! ≠ refGroup z then fs := fs ++ [s!"z={z} group {g} ≠ {refGroup z}"]
        if p ≠ toString (refPeriod z) then fs := fs ++ [s!"z={z} period {p} ≠ {refPeriod z}"]
        let rf := floatOfHex r
        match OptRs.Ref.corderoPm[z - 1]? with
        | some pm =>
          if !((rf - pm.toFloat / 100.0).abs < 1e-9) then fs := fs ++ [s!"z={z} covalent_radius {rf} ≠ published {pm.toFloat / 100.0}"]
        | none =>
          if !(rf == 2.0) then fs := fs ++ [s!"z={z} covalent_radius {rf} is not the documented default 2.0"]
        if !(rf.isFinite && rf > 0.0) then fs := fs ++ [s!"z={z} covalent_radius {rf} not finite positive"]
        let e := floatOfHex en
        if !(e.isFinite && e > 0.0) then fs := fs ++ [s!"z={z} electronegativity {e} not finite positive"]
        if z > 51 ∧ !(e == 5.0) then fs := fs ++ [s!"z={z} electronegativity {e} is not the documented default 5.0"]
        if z > 38 ∧ v.toNat! ≠ 6 then fs := fs ++ [s!"z={z} maximal_valence {v} is not the documented default 6"]
        if v.toNat! > 8 then fs := fs ++ [s!"z={z} maximal_valence {v} out of range"]
        let mgRef := decide (13 ≤ refGroup z ∧ 2 ≤ refPeriod z)
        if (mg == "1") ≠ mgRef then fs := fs ++ [s!"z={z} main-group flag {mg} wrong"]
        return fs
      if fails.isEmpty then "pass" else "FAIL " ++ "; ".intercalate fails
    | _, _, _, _, _, _, _, _ => "FAIL unparsable line"
  | _ => "FAIL unparsable line"

end AtomsOracle
end OptRs.Driver
