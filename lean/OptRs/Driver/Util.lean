/-
Helpers of the model driver: token parsing and bit-exact float I/O. No Mathlib anywhere below the driver.
-/
namespace OptRs.Driver

def hexDigit (c : Char) : Nat :=
  if '0' ≤ c ∧ c ≤ '9' then c.toNat - '0'.toNat
  else if 'a' ≤ c ∧ c ≤ 'f' then c.toNat - 'a'.toNat + 10
  else if 'A' ≤ c ∧ c ≤ 'F' then c.toNat - 'A'.toNat + 10
  else 0

def parseHex (s : String) : Nat := s.toList.foldl (fun acc c => acc * 16 + hexDigit c) 0

/-- A float from its 16-hex-digit bit pattern. -/
def floatOfHex (s : String) : Float := Float.ofBits (UInt64.ofNat (parseHex s))

def hexOfNat (n : Nat) (digits : Nat) : String :=
  let rec go (n : Nat) (k : Nat) (acc : List Char) : List Char :=
    match k with
    | 0 => acc
    | k + 1 =>
      let d := n % 16
      let c := if d < 10 then Char.ofNat ('0'.toNat + d) else Char.ofNat ('a'.toNat + d - 10)
      go (n / 16) k (c :: acc)
  String.ofList (go n digits [])

/-- The 16-hex-digit bit pattern of a float (NaNs are canonicalised by `Float.toBits`; the harness does the same). -/
def hexOfFloat (f : Float) : String := hexOfNat f.toBits.toNat 16

def splitOn (s : String) (sep : String) : List String := s.splitOn sep

def parseNatList (s : String) : List Nat :=
  if s = "-" ∨ s = "" then [] else (s.splitOn ",").map (fun t => t.toNat!)

def joinNat (l : List Nat) (sep : String := ",") : String :=
  if l.isEmpty then "-" else sep.intercalate (l.map toString)

def words (s : String) : List String := (s.splitOn " ").filter (· ≠ "")

/-- Look up `key=value` among tokens. -/
def field? (toks : List String) (key : String) : Option String :=
  toks.findSome? fun t => if t.startsWith (key ++ "=") then some ((t.drop (key.length + 1)).toString) else none

end OptRs.Driver
