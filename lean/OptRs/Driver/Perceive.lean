import OptRs.Driver.Topology
import OptRs.Model.Perceive
namespace OptRs.Driver
open OptRs.Model OptRs.Gen

structure P3 where
  x : Float
  y : Float
  z : Float
deriving Inhabited

def parseCoords (toks : List String) : Array P3 :=
  let fs := (toks.map floatOfHex).toArray
  (Array.range (fs.size / 3)).map fun a => { x := fs[3*a]!, y := fs[3*a+1]!, z := fs[3*a+2]! }

/-- `Atom::distance_to` (powi(2) is `v*v`). -/
def distanceTo (c0 c1 : P3) : Float :=
  let dx := c0.x - c1.x; let dy := c0.y - c1.y; let dz := c0.z - c1.z
  Float.sqrt (dx * dx + dy * dy + dz * dz)

/-- `Atom::could_be_bonded_to`. -/
def couldBeBonded (zs : Array Nat) (xs : Array P3) (i j : Nat) : Bool :=
  let r := distanceTo xs[i]! xs[j]!
  let isIdentical := r < identicalAtomTol.toFloat
  !isIdentical && r < bondTolerance.toFloat * (covalentRadiusF zs[i]! + covalentRadiusF zs[j]!)

/-- Stable insertion sort by a float key (what `sort_by(partial_cmp.unwrap_or(Equal))` does on comparable keys). -/
def stableSortBy (key : Nat → Float) (l : List Nat) : List Nat :=
  l.foldl (fun acc x =>
    let (before, after) := acc.span (fun y => !(key x < key y))
    before ++ [x] ++ after) []

/-- `Neighbours::from_atom_and_molecule`. -/
def candidates (zs : Array Nat) (xs : Array P3) (i : Nat) : List Nat :=
  let cs := (List.range zs.size).filter fun j => couldBeBonded zs xs i j
  stableSortBy (fun j => distanceTo xs[i]! xs[j]!) cs

def perceiveLine (line : String) : String :=
  match line.splitOn " ; " with
  | [l, r] =>
    match words l with
    | ["perceive", zs] =>
      let zs := parseNatList zs
      let xs := parseCoords (words r)
      canonConn (perceiveAll zs (candidates zs.toArray xs))
    | _ => "bad-op"
  | _ => "bad-op"

end OptRs.Driver
