import OptRs.Driver.Terms
namespace OptRs.Driver
open OptRs

structure FTerm where
  kind : String
  idxs : List Nat
  params : List Float

def parseTerm (s : String) : Option FTerm :=
  match words s with
  | [k, ix, ps] => some { kind := k, idxs := parseNatList ix, params := if ps = "-" then [] else (ps.splitOn ",").map floatOfHex }
  | _ => none

def parseTerms (s : String) : List FTerm :=
  if s.trimAscii.toString = "-" then [] else (s.splitOn ";").filterMap parseTerm

/-- The coordinates of a term's atoms, in the order of its index list. -/
def termCoords (t : FTerm) (xs : Array Float) : List Float :=
  t.idxs.flatMap fun a => [xs.getD (3*a) 0.0, xs.getD (3*a+1) 0.0, xs.getD (3*a+2) 0.0]

/-- `Forcefield::energy`: UFF accumulates from `0.0`; RB uses `Iterator::sum` (which starts from `-0.0`). -/
def ffEnergy (ff : String) (ts : List FTerm) (xs : Array Float) : Float :=
  let start : Float := if ff = "rb" then -0.0 else 0.0
  ts.foldl (fun acc t =>
    match termEval t.kind t.params (termCoords t xs) with
    | some (e, _) => acc + e
    | none => acc) start

/-- `Forcefield::gradient`: zero the buffer, then every term adds its slots at its atoms. -/
def ffGradient (n : Nat) (ts : List FTerm) (xs : Array Float) : Array Float :=
  ts.foldl (fun buf t =>
    match termEval t.kind t.params (termCoords t xs) with
    | some (_, g) =>
      (g.zipIdx).foldl (fun buf (v, s) =>
        let a := t.idxs.getD (s / 3) 0
        let slot := 3 * a + s % 3
        buf.setIfInBounds slot (buf.getD slot 0.0 + v)) buf
    | none => buf) (Array.replicate (3 * n) 0.0)

def ffLine (line : String) : String :=
  match line.splitOn " | " with
  | [h, ts, xs] =>
    match words h with
    | ["ff", ff, n] =>
      let terms := parseTerms ts
      let coords := ((words xs).map floatOfHex).toArray
      let e := ffEnergy ff terms coords
      let g := ffGradient n.toNat! terms coords
      " ".intercalate ((e :: g.toList).map hexOfFloat)
    | _ => "bad-op"
  | _ => "bad-op"

end OptRs.Driver
