import OptRs.Driver.Terms
import OptRs.Model.FFObj
namespace OptRs.Driver
open OptRs

structure FTerm where
  kind : String
  idxs : List Nat
  params : List Float

def parseTerm (s : String) : Option FTerm :=
  match words s with
  | [k, ix, ps] => some { kind := k, idxs := parseNatList ix, params := if ps = "-" then [] else (ps.splitOn ",").map floatOfHex }
  | _ => none

def parseTerms (s : String) : List FTerm :=
  if s.trimAscii.toString = "-" then [] else (s.splitOn ";").filterMap parseTerm

/-- The coordinates of a term's atoms, in the order of its index list. -/
def termCoords (t : FTerm) (xs : Array Float) : List Float :=
  t.idxs.flatMap fun a => [xs.getD (3*a) 0.0, xs.getD (3*a+1) 0.0, xs.getD (3*a+2) 0.0]

/-- `Forcefield::energy`: UFF accumulates from `0.0`; RB uses `Iterator::sum` (which starts from `-0.0`). -/
def ffEnergy (ff : String) (ts : List FTerm) (xs : Array Float) : Float :=
  let start : Float := if ff = "rb" then -0.0 else 0.0
  ts.foldl (fun acc t =>
    match termEval t.kind t.params (termCoords t xs) with
    | some (e, _) => acc + e
    | none => acc) start

/-- `Forcefield::gradient`: zero the buffer, then every term adds its slots at its atoms. -/
def ffGradient (n : Nat) (ts : List FTerm) (xs : Array Float) : Array Float :=
  ts.foldl (fun buf t =>
    match termEval t.kind t.params (termCoords t xs) with
    | some (_, g) =>
      (g.zipIdx).foldl (fun buf (v, s) =>
        let a := t.idxs.getD (s / 3) 0
        let slot := 3 * a + s % 3
        buf.setIfInBounds slot (buf.getD slot 0.0 + v)) buf
    | none => buf) (Array.replicate (3 * n) 0.0)

def ffLine (line : String) : String :=
  match line.splitOn " | " with
  | [h, ts, xs] =>
    match words h with
    | ["ff", ff, n] =>
      let terms := parseTerms ts
      let coords := ((words xs).map floatOfHex).toArray
      let e := ffEnergy ff terms coords
      let g := ffGradient n.toNat! terms coords
      " ".intercalate ((e :: g.toList).map hexOfFloat)
    | _ => "bad-op"
  | _ => "bad-op"

end OptRs.Driver

namespace OptRs.Driver
open OptRs OptRs.Model

/-- The object model's operations at `f64` over the translated terms. -/
def ffOpsF (ff : String) : FFOps Float (Array Float) FTerm where
  zero := 0.0
  add := (· + ·)
  start := if ff = "rb" then -0.0 else 0.0
  termE := fun t xs => match termEval t.kind t.params (termCoords t xs) with | some (e, _) => e | none => 0.0
  termAdd := fun t xs buf =>
    match termEval t.kind t.params (termCoords t xs) with
    | some (_, g) =>
      ((g.zipIdx).foldl (fun (b : Array Float) (v, s) =>
        let slot := 3 * t.idxs.getD (s / 3) 0 + s % 3
        b.setIfInBounds slot (b.getD slot 0.0 + v)) buf.toArray).toList
    | none => buf

def fnvF (fs : List Float) : String :=
  let h := fs.foldl (fun (h : UInt64) f =>
    let w : UInt64 := if f.isNaN then (0x7ff8000000000000 : UInt64) else f.toBits
    (List.range 8).foldl (fun (h : UInt64) k =>
      (h ^^^ ((w >>> (UInt64.ofNat (8 * k))) &&& (0xff : UInt64))) * (0x100000001b3 : UInt64)) h) (0xcbf29ce484222325 : UInt64)
  hexOfNat h.toNat 16

/-- `history <ff> <n> | terms | E coords;G coords;…`: one object serves the whole history; answers are printed
(energies in full, gradients as fingerprints). The buffer starts with arbitrary non-zero contents to show they do not matter. -/
def historyLine (line : String) : String :=
  match line.splitOn " | " with
  | [h, ts, reqs] =>
    match words h with
    | ["history", ff, n] =>
      let terms := parseTerms ts
      let n := n.toNat!
      let qs : List (FFReq (Array Float)) := (reqs.splitOn ";").filterMap fun r =>
        match words r with
        | "E" :: cs => some (.energy (cs.map floatOfHex).toArray)
        | "G" :: cs => some (.gradient (cs.map floatOfHex).toArray)
        | _ => none
      let o : FFObj Float FTerm := { terms := terms, energyCache := 123.0, buf := List.replicate (3 * n) 7.5 }
      let ans := (o.serveAll (ffOpsF ff) qs).2
      ";".intercalate (ans.map fun a => match a with
        | .e v => "e" ++ hexOfFloat v
        | .g v => "g" ++ fnvF v)
    | _ => "bad-op"
  | _ => "bad-op"

end OptRs.Driver
