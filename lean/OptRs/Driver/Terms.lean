import OptRs.Driver.Util
import OptRs.Model.Energy
import OptRs.Gen.Grad
namespace OptRs.Driver
open OptRs OptRs.Model.Energy OptRs.Gen

/-- Number of atoms, energy expression and gradient program of a kind (the repulsion exponent is its last parameter). -/
def termModel (kind : String) (params : List Float) : Option (Nat × Ex × Prog) :=
  match kind with
  | "bond" => some (2, bondE, bondGrad)
  | "angle_a" => some (3, angleAE, angleAGrad)
  | "angle_b" => some (3, angleBE, angleBGrad)
  | "torsion" => some (4, torsionE, torsionGrad)
  | "inversion" => some (4, inversionE, inversionGrad)
  | "lj" => some (2, ljE, ljGrad)
  | "repulsion" =>
    let n := (params.getD 1 2.0).toUInt64.toNat
    some (2, repulsionE n, repulsionGrad n)
  | _ => none

/-- Environment: coordinates at 0.., parameters at 20... -/
def termEnv (params coords : Array Float) : Nat → Float := fun n =>
  if n < 20 then coords.getD n 0.0 else params.getD (n - 20) 0.0

/-- Energy and the 3·natoms gradient contributions (in slot order) of one term. -/
def termEval (kind : String) (params coords : List Float) : Option (Float × List Float) :=
  match termModel kind params with
  | none => none
  | some (na, e, g) =>
    let env := termEnv params.toArray coords.toArray
    let outs := g.runF env
    let slots := (List.range (3 * na)).map fun s => ((outs.find? (·.1 = s)).map (·.2)).getD 0.0
    some (e.evalF env, slots)

def termsLine (line : String) : String :=
  match line.splitOn " ; " with
  | [l, r] =>
    match words l with
    | kind :: ps =>
      let params := ps.map floatOfHex
      let coords := (words r).map floatOfHex
      match termEval kind params coords with
      -- the reference zeroes a buffer and lets `add_gradient` do `+=` on it: a contribution of `-0.0` reads back as `0.0`
      | some (e, g) => " ".intercalate ((e :: g.map (0.0 + ·)).map hexOfFloat)
      | none => "bad-kind"
    | _ => "bad-op"
  | _ => "bad-op"

end OptRs.Driver
