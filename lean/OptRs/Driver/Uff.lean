/-
The numeric layer of UFF at `f64` for the model driver: atom typing (`UFFAtomType::match_quality`,
`set_coordination_environment`, `Molecule::set_formal_charges`), the per-type derived quantities
(`hybridisation`, `u_phi`, `is_main_group`, `gmp_electronegativity`), the `DihedralBond` decision, the inversion
lookup, and the translated parameter formulas evaluated on the translated tables.
-/
import OptRs.Driver.Perceive
import OptRs.Model.BuildUFF
import OptRs.Model.Wrapper
import OptRs.Model.Cli
import OptRs.Driver.FF
import OptRs.Model.Energy
import OptRs.Gen.AtomTypes
import OptRs.Gen.UffFormulas
namespace OptRs.Driver
open OptRs OptRs.Model OptRs.Gen

def strOf (cs : List Nat) : String := String.ofList (cs.map Char.ofNat)

structure RowF where
  name : String
  symbol : String
  z? : Option Nat             -- atomic number of `symbol`, if it is an element symbol (some rows are garbled)
  aromatic : Bool
  valency : Nat
  r : Float
  theta : Float
  d : Float
  zEff : Float
  vPhi : Float
deriving Inhabited

def rowsF : Array RowF := (atomTypes.map fun t =>
  { name := strOf t.name, symbol := strOf t.symbol, z? := fromString t.symbol, aromatic := t.aromatic,
    valency := t.valency, r := t.r.toFloat, theta := t.theta.toFloat, d := t.d.toFloat, zEff := t.zEff.toFloat,
    vPhi := t.vPhi.toFloat : RowF }).toArray

def piF : Float := Float.ofBits 0x400921FB54442D18

/-- Evaluate a closed `Ex` built from float constants. -/
def evalC (e : Ex) : Float := e.evalF (fun _ => 0.0)
def fl (f : Float) : Ex := .lit (.dec 0 0 f.toBits.toNat)

/-- `coordinates::angle_value(i, j, k)` at doubles (through the energy model's expression, so the bits are the source's). -/
def angleValueF (xs : Array P3) (i j k : Nat) : Float :=
  let p := fun (a : Nat) => xs.getD a default
  let env : Nat → Float := fun v =>
    let a := if v / 3 = 0 then p i else if v / 3 = 1 then p j else p k
    if v % 3 = 0 then a.x else if v % 3 = 1 then a.y else a.z
  (Model.Energy.angleValue 0 1 2).evalF env

/-- `UFFAtomType::match_quality`. -/
def matchQuality (row : RowF) (symbol : String) (nn : Nat) (angle : Float) (nArom : Nat) : Float :=
  let v : Float := 0.0
  let v := if symbol = row.symbol then v + 10.0 else v
  if row.name = "O_3_z" then 0.0 else
  let v := v - (nn.toFloat - row.valency.toFloat).abs
  let v := if nn > 1 then v - (angle - row.theta).abs / piF else v
  if nArom = 2 && row.aromatic then v + 5.0 else v

/-- `Iterator::max_by(partial_cmp.unwrap_or(Equal))`: the last of the maximal elements. -/
def argmaxLast (qs : Array Float) : Nat :=
  (List.range qs.size).foldl (fun best i => if i = 0 then 0 else if qs[best]! > qs[i]! then best else i) 0

/-- Formal charge as `set_formal_charges` computes it for molecular charge 0, from the atom's view (the subtraction of
bond orders one by one is exact in doubles: all values are small multiples of 1/2). -/
def formalCharge (z : Nat) (v : AtomView) : Float :=
  let g := group z
  let ve : Float := (if g = 13 then 3 else if g = 14 then 4 else if g = 15 then 5 else if g = 16 then 6 else if g = 17 then 7 else g).toFloat
  let n := ve - v.orderSumTwice.toFloat / 2.0
  let rec red (n : Float) : Nat → Float
    | 0 => n
    | k + 1 => if n > 2.0 then red (n - 2.0) k else n
  red n 64

/-- `Atom::is_d8`. -/
def isD8 (z : Nat) (v : AtomView) : Bool :=
  isTransitionMetal z && (((group z).toFloat - formalCharge z v) - 8.0).abs ≤ 1e-8

structure Typing where
  row : Array Nat
  env : Array Env

/-- `UFF::set_atom_types`. -/
def assignTypes (zs : Array Nat) (xs : Array P3) (bs : List Bond) : Typing :=
  let per := (List.range zs.size).map fun a =>
    let z := zs[a]!
    let sym := strOf (toSymbol z)
    let v := atomView bs a
    let nn := v.nbrs.length
    let angle := if nn > 1 then angleValueF xs (v.nbrs.getD 0 0) a (v.nbrs.getD 1 0) else 0.0
    let qs := rowsF.map fun row => matchQuality row sym nn angle v.nAromatic
    let best := argmaxLast qs
    let env := coordinationEnvironment nn (group z) (isD8 z v) (sym = "Xe")
    (best, env)
  { row := (per.map (·.1)).toArray, env := (per.map (·.2)).toArray }

/-! ### Per-row derived quantities (each `unwrap`s the symbol lookup in the source: `none` = abort) -/

inductive Hyb where | sp3 | sp2 | sp | none
deriving DecidableEq

def hybridisation (row : RowF) : Option Hyb :=
  row.z?.map fun z =>
    let g := group z
    let v := row.valency
    if g = 14 then (if v = 4 then .sp3 else if v = 3 then .sp2 else if v = 2 then .sp else .none)
    else if g = 15 then (if v = 3 ∨ v = 4 then .sp3 else if v = 2 then .sp2 else if v = 1 then .sp else .none)
    else if g = 16 then (if v = 2 then .sp3 else if v = 1 ∨ v = 3 then .sp2 else .none)
    else .none

def uPhi (row : RowF) : Option Float :=
  row.z?.map fun z => match period z with
    | some 2 => 2.0 | some 3 => 1.25 | some 4 => 0.7 | some 5 => 0.2 | some 6 => 0.1 | _ => 0.0

/-- `DihedralBond::from_atom_types` + `contains_only_main_group_elements`: `none` = abort (garbled symbol);
`some none` = no torsion (not both main-group); `some (some (phi0, n, v))`. -/
def torsionF (rj rk : RowF) : Option (Option (Float × Float × Float)) :=
  match hybridisation rj, hybridisation rk, rj.z?, rk.z?, uPhi rj, uPhi rk with
  | some hj, some hk, some zj, some zk, some uj, some uk =>
    let joint : Nat := -- 0 none, 1 sp3sp3, 2 sp2sp3, 3 sp2sp2
      if hj = .sp3 ∧ hk = .sp3 then 1 else if (hj = .sp3 ∧ hk = .sp2) ∨ (hj = .sp2 ∧ hk = .sp3) then 2
      else if hj = .sp2 ∧ hk = .sp2 then 3 else 0
    let nbo : Float := if rj.aromatic && rk.aromatic then 1.5 else if joint = 3 then 2.0 else 1.0
    let vsp3 := evalC (uffVsp3 (fl rj.vPhi) (fl rk.vPhi))
    let vsp2 := evalC (uffVsp2 (fl uj) (fl uk) (fl nbo))
    let both16 := group zj = 16 ∧ group zk = 16
    let res : Float × Float × Float :=
      if joint = 1 then (if both16 then (piF / 3.0, 2.0, vsp3) else (piF, 3.0, vsp3))
      else if joint = 2 then (0.0, 6.0, vsp2)
      else if joint = 3 then (piF, 2.0, vsp2)
      else (0.0, 0.0, 0.0)
    if isMainGroup zj && isMainGroup zk then some (some res) else some none
  | _, _, _, _, _, _ => none

def containsSub (s sub : String) : Bool := (s.splitOn sub).length > 1

structure InvRowF where
  name : String
  k : Float
  c0 : Float
  c1 : Float
  c2 : Float

def invRowsF : List InvRowF := inversionCenters.map fun r =>
  { name := strOf r.name, k := r.k.toFloat, c0 := r.c0.toFloat, c1 := r.c1.toFloat, c2 := r.c2.toFloat }

/-- The `match` in `add_dihedral_inversions`. -/
def inversionF (row : RowF) : InvDecision Float :=
  if uffInvCarbonNames.contains row.name then .carbon
  else if uffInvTodoNames.contains row.name then .todo
  else if uffInvSkipNames.contains row.name then .skip
  else match invRowsF.find? (fun y => containsSub row.name y.name) with
    | some y => .table y.k y.c0 y.c1 y.c2
    | none => .skip

/-- The numeric layer; `none`-valued pieces (garbled symbols) are folded into an abort flag by the caller. -/
def uffFnsF : UffFns Float where
  ofNat := Nat.toFloat
  r0 := fun ti tj o =>
    let ri := rowsF[ti]!; let rj := rowsF[tj]!
    let bo := o.twice.toFloat / 2.0
    let chi := fun (r : RowF) => match r.z? with | some z => electronegativityF z | none => Float.ofBits 0x7ff8000000000000
    evalC (uffR0 (fl ri.r) (fl rj.r) (fl (evalC (uffRbo (fl ri.r) (fl rj.r) (fl bo))))
      (fl (evalC (uffRen (fl ri.r) (fl rj.r) (fl (chi ri)) (fl (chi rj))))))
  kij := fun ti tj r0 => evalC (uffKij (fl rowsF[ti]!.zEff) (fl rowsF[tj]!.zEff) (fl r0))
  kijk := fun ti tj tk rij rjk => evalC (uffKijk (fl rowsF[tj]!.theta) (fl rij) (fl rjk) (fl rowsF[ti]!.zEff) (fl rowsF[tk]!.zEff))
  typeB := fun tj =>
    let th := fl rowsF[tj]!.theta
    let c2 := evalC (uffC2 th)
    (evalC (uffC0 (fl c2) th), evalC (uffC1 (fl c2) th), c2)
  torsion := fun tj tk => match torsionF rowsF[tj]! rowsF[tk]! with | some r => r | none => none
  inversion := fun tc => inversionF rowsF[tc]!
  isO2 := fun t => rowsF[t]!.name = "O_2"
  invCarbon := fun o2 => (uffInvCarbonC0.toFloat, uffInvCarbonC1.toFloat, uffInvCarbonC2.toFloat, if o2 then uffInvCarbonKO2.toFloat else uffInvCarbonK.toFloat)
  ljSigma := fun ti tj => evalC (uffLjSigma (fl rowsF[ti]!.r) (fl rowsF[tj]!.r))
  ljD := fun ti tj => evalC (uffLjD (fl rowsF[ti]!.d) (fl rowsF[tj]!.d))

/-- Does construction hit one of the `unwrap`s on a garbled type symbol? (bond ends need an electronegativity, the
central atoms of every proper dihedral need a hybridisation) -/
def abortsOnGarbled (t : Typing) (c : Conn) : Bool :=
  (c.bonds.any fun b => rowsF[t.row[b.i]!]!.z?.isNone || rowsF[t.row[b.j]!]!.z?.isNone) ||
  (c.propers.any fun d => rowsF[t.row[d.2.1]!]!.z?.isNone || rowsF[t.row[d.2.2.1]!]!.z?.isNone)

def kindName : TermKind → String
  | .bond => "bond" | .angleA => "angle_a" | .angleB => "angle_b" | .torsion => "torsion"
  | .inversion => "inversion" | .lj => "lj" | .repulsion => "repulsion"

def showTerm (t : UTerm Float) : String :=
  s!"{kindName t.kind} {joinNat t.idxs} {if t.params.isEmpty then "-" else ",".intercalate (t.params.map hexOfFloat)}"

/-- `is_close(angle_value(i, j, k), PI, 0.1)`. -/
def closeToLinearF (xs : Array P3) (i j k : Nat) : Bool := (angleValueF xs i j k - piF).abs ≤ linearAngleTol.toFloat

/-- Sorted term texts (the push order is hash-dependent in the source; the multiset is what is compared). -/
def showTerms (ts : List (UTerm Float)) : String :=
  let l := sortStrings (ts.map showTerm)
  if l.isEmpty then "-" else ";".intercalate l

def envName : Env → String
  | .none => "None" | .linear => "Linear" | .bent => "Bent" | .trigonalPlanar => "TrigonalPlanar"
  | .trigonalPyramidal => "TrigonalPyramidal" | .squarePlanar => "SquarePlanar" | .tetrahedral => "Tetrahedral"
  | .trigonalBipyramidal => "TrigonalBipyramidal" | .octahedral => "Octahedral" | .unknown => "Unknown"

def typesText (t : Typing) : String :=
  if t.row.size = 0 then "-" else ",".intercalate ((List.range t.row.size).map fun a => s!"{rowsF[t.row[a]!]!.name}:{envName t.env[a]!}")

/-- `build <uff|rb> Z.. ; coords`: perceive, type, construct; print the assigned types and the sorted term list. -/
def buildCore (ff : String) (zs : List Nat) (xs : Array P3) (conn : Conn) : String :=
      if ff = "rb" then
        "types - terms " ++ showTerms (buildRB (fun a => covalentRadiusF (zs.getD a 0)) (· + ·) rbBondK.toFloat rbRepulsionC.toFloat
          rbExponent.toFloat conn)
      else
        let t := assignTypes zs.toArray xs conn.bonds
        if abortsOnGarbled t conn then s!"types {typesText t} terms panic" else
        match buildUFF uffFnsF (fun a => t.row[a]!) (fun a => t.env[a]!) (closeToLinearF xs) conn with
        | some ts => s!"types {typesText t} terms {showTerms ts}"
        | none => s!"types {typesText t} terms panic"

/-- `build <uff|rb> Z.. ; coords` — perceive, type, construct — or `build <uff|rb> Z.. ; coords ; bonds` with the bond table
given (`i-j:o2,...` as the bond-order matrix interface would install it: the lists are derived from exactly these bonds). -/
def buildLine (line : String) : String :=
  match line.splitOn " ; " with
  | [l, r] =>
    match words l with
    | ["build", ff, zs] =>
      let zs := parseNatList zs
      let xs := parseCoords (words r)
      buildCore ff zs xs (perceiveAll zs (candidates zs.toArray xs))
    | _ => "bad-op"
  | [l, r, b] =>
    match words l with
    | ["build", ff, zs] =>
      let zs := parseNatList zs
      let xs := parseCoords (words r)
      buildCore ff zs xs (Conn.ofBonds zs.length (parseBonds b.trimAscii.toString))
    | _ => "bad-op"
  | _ => "bad-op"

end OptRs.Driver

namespace OptRs.Driver
open OptRs OptRs.Model OptRs.Gen

/-- `params r0 ti tj o2` / `params kijk ti tj tk r0ij r0jk` / `params typeb tj` / `params lj ti tj`: the private parameter
methods on arbitrary rows of the type table. -/
def paramsLine (line : String) : String :=
  match words line with
  | ["r0", ti, tj, o2] =>
    let (ti, tj) := (ti.toNat!, tj.toNat!)
    match orderOfTwice o2.toNat!, rowsF[ti]!.z?, rowsF[tj]!.z? with
    | some o, some zi, some zj =>
      let ri := rowsF[ti]!; let rj := rowsF[tj]!
      let bo := o.twice.toFloat / 2.0
      let rbo := evalC (uffRbo (fl ri.r) (fl rj.r) (fl bo))
      let ren := evalC (uffRen (fl ri.r) (fl rj.r) (fl (electronegativityF zi)) (fl (electronegativityF zj)))
      let r0 := uffFnsF.r0 ti tj o
      s!"{hexOfFloat r0} {hexOfFloat rbo} {hexOfFloat ren} {hexOfFloat (uffFnsF.kij ti tj r0)}"
    | _, _, _ => "panic"
  | ["kijk", ti, tj, tk, a, b] =>
    hexOfFloat (uffFnsF.kijk ti.toNat! tj.toNat! tk.toNat! (floatOfHex a) (floatOfHex b))
  | _ => "bad-op"

end OptRs.Driver

namespace OptRs.Driver
open OptRs OptRs.Model OptRs.Gen

/-- Candidate lists from a list of points (the wrapper model's `cands`). -/
def candsOfPoints (zs : List Nat) (pts : List P3) : Nat → List Nat := candidates zs.toArray pts.toArray

def p3Hash (pts : List P3) : String := fnvF (pts.flatMap fun p => [p.x, p.y, p.z])

def showWState (s : WState P3) : String := s!"{canonConn s.conn} X:{p3Hash s.coords}"

/-- `wrapper Z.. | op ; op ; …` with ops `C <hex…>` (set_coordinates with that flat list), `G` (generate_connectivty),
`M <hex…>` (set_bond_orders), `B` (build_3d guard), `O <hex…>` (optimise; the resulting coordinates as observed).
Prints the state (or the refusal) after every call. -/
def wrapperLine (line : String) : String :=
  match line.splitOn " | " with
  | [h, opsText] =>
    match words h with
    | ["wrapper", zsT] =>
      let zs := parseNatList zsT
      let cands := fun (pts : List P3) => candsOfPoints zs pts
      let s0 : WState P3 := fromSymbols cands { x := 0.0, y := 0.0, z := 0.0 } zs
      let ops := (opsText.splitOn " ; ").filter (· ≠ "")
      let (_, outs) := ops.foldl (fun (acc : WState P3 × List String) op =>
        let (s, outs) := acc
        match words op with
        | "C" :: vals =>
          let vals := if vals = ["-"] then [] else vals
          let fs := vals.map floatOfHex
          match setCoordinates s fs.length (parseCoords vals).toList with
          | .ok s' => (s', outs ++ [showWState s'])
          | .error e => (s, outs ++ [showWrapErr e ++ " " ++ showWState s])
        | ["G"] => let s' := generateConnectivity cands s; (s', outs ++ [showWState s'])
        | "M" :: vals =>
          let vals := if vals = ["-"] then [] else vals
          let r := wSetBondOrders s (vals.map fun v => classifyEntry (floatOfHex v))
          match r.1 with
          | .ok s' => (s', outs ++ [showWState s'])
          | .error e => (r.2, outs ++ [showWrapErr e])
        | ["B"] =>
          match build3dGuard s with
          | .ok _ => (s, outs ++ ["ok-would-build"])
          | .error e => (s, outs ++ [showWrapErr e ++ " " ++ showWState s])
        | "O" :: vals =>
          let s' := { s with coords := (parseCoords vals).toList }
          (s', outs ++ [showWState s'])
        | _ => (s, outs ++ ["bad-op"])) (s0, [showWState s0])
      " ;; ".intercalate outs
    | _ => "bad-op"
  | _ => "bad-op"

end OptRs.Driver

namespace OptRs.Driver
open OptRs OptRs.Model

/-- `b3d n bonds`: the structural model of `build_3d` (coordinates are opaque: the identity stands for whatever the
optimiser does) on a record derived from the given bonds. -/
def b3dLine (line : String) : String :=
  match words line with
  | ["b3d", n, bonds] =>
    let n := n.toNat!
    let bs := insertAllByKey Bond.key [] (parseBonds bonds)
    let s : WState Nat := { zs := List.replicate n 6, coords := [], conn := Conn.ofBonds n bs }
    canonConn (build3d id (fun _ _ xs => xs) s).conn
  | _ => "bad-op"

end OptRs.Driver

namespace OptRs.Driver
open OptRs.Model.Cli

/-- `cli <ok|bad|missing> args…`: the decision of the command-line model. The molecule is opaque (`Unit`): what is
compared is refuse / wrote-with-which-force-field. -/
def cliLine (line : String) : String :=
  match words line with
  | "cli" :: status :: args =>
    let args := args.map fun a => if a = "<empty>" then [] else a.toList
    let readMol : Str → Option Unit := fun _ => if status = "ok" then some () else none
    -- remember which force field was selected by threading it through the "molecule"
    match parseArgs args with
    | none => "refuse"
    | some (file, ffName) =>
      match run readMol (fun _ m => m) args with
      | .refuse => "refuse"
      | .wrote _ => match chooseFF ffName with
        | some .uff => s!"wrote uff {String.ofList file}"
        | some .rb => s!"wrote rb {String.ofList file}"
        | none => "refuse"
  | _ => "bad-op"

end OptRs.Driver
