import OptRs.Driver.Util
import OptRs.Model.Topology
import OptRs.Gen.Tables
namespace OptRs.Driver
open OptRs.Model

def orderOfTwice : Nat → Option BondOrder
  | 2 => some .single | 3 => some .aromatic | 4 => some .double | 6 => some .triple | 8 => some .quadruple
  | _ => none

/-- `i-j:o2,...` -/
def parseBonds (s : String) : List Bond :=
  if s = "-" ∨ s = "" then [] else
  (s.splitOn ",").filterMap fun t =>
    match t.splitOn ":" with
    | [ij, o] =>
      match ij.splitOn "-", orderOfTwice o.toNat! with
      | [i, j], some ord => some { i := i.toNat!, j := j.toNat!, order := ord }
      | _, _ => none
    | _ => none

def sortStrings (l : List String) : List String := (l.toArray.qsort (· < ·)).toList

def natKeyLt : List Nat → List Nat → Bool
  | [], [] => false
  | [], _ => true
  | _, [] => false
  | a :: as, b :: bs => if a < b then true else if a > b then false else natKeyLt as bs

def sortKeys (l : List (List Nat)) : List (List Nat) := (l.toArray.qsort natKeyLt).toList

def showKeys (l : List (List Nat)) (sort : Bool := true) : String :=
  let l := if sort then sortKeys l else l
  if l.isEmpty then "-" else ",".intercalate (l.map fun k => "-".intercalate (k.map toString))

/-- Canonical text of a connectivity record (same format as the harness's `canon_conn`). -/
def canonConn (c : Conn) : String :=
  let bs := sortKeys (c.bonds.map fun b => [b.key.1, b.key.2, b.order.twice])
  let btxt := if bs.isEmpty then "-" else ",".intercalate (bs.map fun k =>
    match k with | [i, j, o] => s!"{i}-{j}:{o}" | _ => "?")
  let a := c.angles.map fun x => let k := angleKey x; [k.1, k.2.1, k.2.2]
  let p := c.propers.map fun x => let k := properKey x; [k.1, k.2.1, k.2.2.1, k.2.2.2]
  let i := c.impropers.map fun x => let k := improperKey x; [k.1, k.2.1, k.2.2.1, k.2.2.2]
  let n := c.nbPairs.map fun x => [x.1, x.2]
  s!"B:{btxt} A:{showKeys a} P:{showKeys p} I:{showKeys i} N:{showKeys n false}"

def topologyLine (line : String) : String :=
  match words line with
  | ["graph", n, bonds] =>
    let bs := insertAllByKey Bond.key [] (parseBonds bonds)
    canonConn (Conn.ofBonds n.toNat! bs)
  | _ => "bad-op"


/-- How `set_bond_orders` reads a float: `is_very_close(&0.)` first, then `BondOrder::from_value` (first order in
iterator order within the tolerance), else unsupported. -/
def classifyEntry (v : Float) : Entry :=
  let tol := OptRs.Gen.veryCloseTol.toFloat
  if (v - 0.0).abs < tol then .zero
  else match BondOrder.all.find? (fun o => (o.twice.toFloat / 2.0 - v).abs < tol) with
    | some o => .ord o
    | none => .bad

def showWrapErr : WrapErr → String
  | .wrongSize => "err size" | .badOrder => "err order" | .wrongLength => "err length" | .noBonds => "err nobonds"

def matrixLine (line : String) : String :=
  match words line with
  | "matrix" :: n :: vals =>
    let vals := if vals = ["-"] then [] else vals
    match setBondOrders n.toNat! (vals.map fun h => classifyEntry (floatOfHex h)) with
    | .ok c => canonConn c
    | .error e => showWrapErr e
  | _ => "bad-op"

end OptRs.Driver
