/-
Exact decimal ↔ binary64 conversions for the driver (integer arithmetic only):
`parseF64` — the grammar of Rust's `f64::from_str` with correct rounding (nearest, ties to even);
`fmt6` — what `format!("{:.6}", x)` prints (exact decimal expansion, rounded half to even at the sixth place).
Validated against the real `str::parse` / `format!` by the xyz correspondences on every run.
-/
namespace OptRs.Driver

/-- Bits of the double nearest to `n / d` (n, d > 0), ties to even; overflow gives infinity. -/
def bitsOfRatio (n d : Nat) : UInt64 :=
  if n = 0 then 0 else
  -- binary exponent e2 = floor(log2(n/d))
  let est : Int := (n.log2 : Int) - (d.log2 : Int)
  let ge (e : Int) : Bool := if e ≥ 0 then decide (n ≥ d * 2 ^ e.toNat) else decide (n * 2 ^ (-e).toNat ≥ d)
  let e2 : Int := if ge (est + 1) then est + 1 else if ge est then est else est - 1
  let k : Int := max (e2 - 52) (-1074)
  let (num, den) : Nat × Nat := if k ≥ 0 then (n, d * 2 ^ k.toNat) else (n * 2 ^ (-k).toNat, d)
  let q := num / den
  let r := num % den
  let q := if 2 * r > den ∨ (2 * r = den ∧ q % 2 = 1) then q + 1 else q
  let (q, k) := if q = 2 ^ 53 then (2 ^ 52, k + 1) else (q, k)
  if q < 2 ^ 52 then UInt64.ofNat q   -- subnormal (k = -1074) or zero
  else
    let ef : Int := k + 52 + 1023
    if ef ≥ 2047 then 0x7FF0000000000000
    else UInt64.ofNat (ef.toNat * 2 ^ 52 + (q - 2 ^ 52))

def isDigit (c : Char) : Bool := '0' ≤ c ∧ c ≤ '9'

def digitsVal (ds : List Char) : Nat := ds.foldl (fun a c => a * 10 + (c.toNat - '0'.toNat)) 0

def lower (cs : List Char) : List Char := cs.map fun c => if 'A' ≤ c ∧ c ≤ 'Z' then Char.ofNat (c.toNat + 32) else c

/-- `f64::from_str`: `[+-] (inf | infinity | nan | digits [. [digits]] [exp] | . digits [exp])`, `exp = (e|E) [+-] digits`. -/
def parseF64 (s : List Char) : Option Float :=
  let (neg, body) := match s with
    | '-' :: r => (true, r)
    | '+' :: r => (false, r)
    | r => (false, r)
  let signBit : UInt64 := if neg then 0x8000000000000000 else 0
  let lb := lower body
  if lb = "inf".toList ∨ lb = "infinity".toList then some (Float.ofBits (signBit ||| 0x7FF0000000000000))
  else if lb = "nan".toList then some (Float.ofBits 0x7FF8000000000000)
  else
    let ip := body.takeWhile isDigit
    let r1 := body.dropWhile isDigit
    let (fp, r2, hadDot) := match r1 with
      | '.' :: r => (r.takeWhile isDigit, r.dropWhile isDigit, true)
      | r => ([], r, false)
    if ip.isEmpty ∧ fp.isEmpty then none else
    let _ := hadDot
    let expo : Option Int := match r2 with
      | [] => some 0
      | c :: r =>
        if c = 'e' ∨ c = 'E' then
          let (eneg, ds) := match r with
            | '-' :: t => (true, t)
            | '+' :: t => (false, t)
            | t => (false, t)
          if ds.isEmpty ∨ !ds.all isDigit then none
          else some (if eneg then -(digitsVal ds : Int) else (digitsVal ds : Int))
        else none
    match expo with
    | none => none
    | some e =>
      let m := digitsVal (ip ++ fp)
      let e10 : Int := e - fp.length
      if m = 0 then some (Float.ofBits signBit)
      else if e10 > 400 then some (Float.ofBits (signBit ||| 0x7FF0000000000000))
      else if e10 < -800 then some (Float.ofBits signBit)
      else
        let bits := if e10 ≥ 0 then bitsOfRatio (m * 10 ^ e10.toNat) 1 else bitsOfRatio m (10 ^ (-e10).toNat)
        some (Float.ofBits (signBit ||| bits))

/-- Exact value of a finite double as `(negative, m, e)` meaning `± m · 2^e`. -/
def decompose (f : Float) : Bool × Nat × Int :=
  let b := f.toBits.toNat
  let neg := b / 2 ^ 63 = 1
  let ef : Nat := (b / 2 ^ 52) % 2048
  let mant : Nat := b % 2 ^ 52
  if ef = 0 then (neg, mant, -1074) else (neg, mant + 2 ^ 52, (ef : Int) - 1075)

def natDigits (n : Nat) : List Char := (toString n).toList

/-- `format!("{:.6}", f)` for finite `f` (NaN / infinities as Rust prints them). -/
def fmt6 (f : Float) : List Char :=
  if f.isNaN then "NaN".toList
  else if f.isInf then (if f < 0 then "-inf".toList else "inf".toList)
  else
    let (neg, m, e) := decompose f
    let (n, d) : Nat × Nat := if e ≥ 0 then (m * 2 ^ e.toNat * 10 ^ 6, 1) else (m * 10 ^ 6, 2 ^ (-e).toNat)
    let q := n / d
    let r := n % d
    let q := if 2 * r > d ∨ (2 * r = d ∧ q % 2 = 1) then q + 1 else q
    let ip := natDigits (q / 10 ^ 6)
    let fp := natDigits (q % 10 ^ 6)
    let fp := List.replicate (6 - fp.length) '0' ++ fp
    (if neg then ['-'] else []) ++ ip ++ ['.'] ++ fp

end OptRs.Driver
