import OptRs.Driver.Util
import OptRs.Model.SD
import OptRs.Gen.Tables
namespace OptRs.Driver
open OptRs.Model OptRs.Gen

/-- `SteepestDecentOptimiser::grad_rms`. -/
def gradRms (g : Geom Float) : Float :=
  let s := g.foldl (fun acc v => acc + Float.sqrt (v.1 * v.1 + v.2.1 * v.2.1 + v.2.2 * v.2.2)) 0.0
  Float.sqrt (s / g.length.toFloat)

/-- The loop's scalar operations at `f64`, constants from the translated source. -/
def sdOpsF : SDOps Float where
  stepCoord := fun p a v => p - a * v
  half := fun a => a / sdAlphaDivisor.toFloat
  gt := fun a b => a > b
  converged := fun g => gradRms g < sdGradTol.toFloat
  window := sdHistoryWindow

def geomOfFloats (fs : List Float) : Geom Float :=
  let a := fs.toArray
  (List.range (a.size / 3)).map fun i => (a[3*i]!, a[3*i+1]!, a[3*i+2]!)

def floatsOfGeom (g : Geom Float) : List Float := g.flatMap fun p => [p.1, p.2.1, p.2.2]

/-- FNV-1a over the little-endian bytes of the bit patterns: a compact fingerprint of a geometry. -/
def fnv (fs : List Float) : UInt64 :=
  fs.foldl (fun (h : UInt64) f =>
    let w : UInt64 := if f.isNaN then (0x7ff8000000000000 : UInt64) else f.toBits
    (List.range 8).foldl (fun (h : UInt64) k =>
      (h ^^^ ((w >>> (UInt64.ofNat (8 * k))) &&& (0xff : UInt64))) * (0x100000001b3 : UInt64)) h) (0xcbf29ce484222325 : UInt64)

def parseAns (s : String) : Option (Ans Float) :=
  match words s with
  | "e" :: [v] => some (.e (floatOfHex v))
  | "g" :: vs => some (.g (geomOfFloats (vs.map floatOfHex)))
  | _ => none

def showReqs (rs : List (Req Float)) : String :=
  ";".intercalate (rs.map fun r => match r with
    | .energy x => "E" ++ hexOfNat (fnv (floatsOfGeom x)).toNat 16
    | .gradient x => "G" ++ hexOfNat (fnv (floatsOfGeom x)).toNat 16)

/-- `sd <maxIter> | <x0> | <answers separated by ;>` ↦ request fingerprints and final coordinates. -/
def sdLine (line : String) : String :=
  match line.splitOn " | " with
  | [h, x0, ans] =>
    match words h with
    | ["sd", maxIter] =>
      let x0 := geomOfFloats ((words x0).map floatOfHex)
      let answers := if ans.trimAscii.toString = "-" then [] else (ans.splitOn ";").filterMap parseAns
      let (ps, xf, _) := optimise sdOpsF sdAlpha0.toFloat maxIter.toNat! x0 answers
      s!"{showReqs (requests ps)} | {" ".intercalate ((floatsOfGeom xf).map hexOfFloat)}"
    | _ => "bad-op"
  | _ => "bad-op"

end OptRs.Driver
