/-
C14 — The xyz reader returns exactly the atoms in the file, never misaligned.

Model: `OptRs.Model.Xyz.readLines` (hand model of `XYZFile::read` + `append_atom_on_line`), tied to the code by the
correspondence on well-formed and corrupted files (including invalid UTF-8, CRLF, Unicode spaces, every exponent
spelling). `parseSym` / `parseNum` are arbitrary functions here: the theorems hold whatever the token parsers accept.
-/
import OptRs.Model.Xyz
namespace OptRs.Props.C14
open OptRs.Model.Xyz

variable {F : Type} (parseSym : List Char → Option Nat) (parseNum : List Char → Option F)

/-- **Alignment, for any text whatsoever**: if the reader succeeds, the element list and the coordinate list have the
same length, and entry `i` of both comes from the same line — both are projections of one list of per-line results,
each of which was produced by `parseLine` from a single line of the file. -/
theorem aligned (lines : List (Option (List Char))) (r : List (Nat × F × F × F))
    (h : readLines parseSym parseNum lines = some r) :
    (result r).1.length = (result r).2.length ∧
    (result r).1.zip (result r).2 = r ∧
    ∀ a ∈ r, ∃ l, some l ∈ lines.drop 2 ∧ l ≠ [] ∧ parseLine parseSym parseNum l = some a := by
  refine ⟨by simp [result], ?_, ?_⟩
  · simp only [result]
    rw [List.zip_map']
    simp
  · intro a ha
    unfold readLines at h
    simp only at h
    split at h
    · simp at h
    · simp only [Option.some.injEq] at h
      subst h
      obtain ⟨l, hl, hp⟩ := List.mem_filterMap.mp ha
      cases l with
      | none => simp [atomOfLine] at hp
      | some l =>
        simp only [atomOfLine] at hp
        split at hp
        · simp at hp
        · rename_i hne
          exact ⟨l, hl, by intro e; subst e; simp at hne, hp⟩

/-- A reader success never returns an empty molecule; a file without a readable atom line is refused. -/
theorem refuses_empty (lines : List (Option (List Char)))
    (h : ∀ l ∈ lines.drop 2, atomOfLine parseSym parseNum l = none) :
    readLines parseSym parseNum lines = none := by
  unfold readLines
  have : (lines.drop 2).filterMap (atomOfLine parseSym parseNum) = [] := by
    apply List.filterMap_eq_nil_iff.mpr
    exact h
  simp [this]

theorem success_nonempty (lines : List (Option (List Char))) (r : List (Nat × F × F × F))
    (h : readLines parseSym parseNum lines = some r) : r ≠ [] := by
  unfold readLines at h
  simp only at h
  split at h
  · simp at h
  · rename_i hne
    simp only [Option.some.injEq] at h
    subst h
    intro e
    rw [e] at hne
    simp at hne

/-- A body line of a well-formed file: blank, or `symbol x y z` (any spacing, any trailing columns) with tokens the
parsers accept. `none` stands for a blank line (empty, which the reader skips before tokenising). -/
def WellFormedLine (l : List Char) (a : Option (Nat × F × F × F)) : Prop :=
  match a with
  | none => l = []
  | some a => l ≠ [] ∧ ∃ s x y z junk, tokens l = s :: x :: y :: z :: junk ∧
      parseSym s = some a.1 ∧ parseNum x = some a.2.1 ∧ parseNum y = some a.2.2.1 ∧ parseNum z = some a.2.2.2

/-- **Well-formed files are read exactly**: count line, comment line, then body lines each blank or `symbol x y z …` —
the reader returns exactly those atoms, in file order, with exactly the parsed coordinates. -/
theorem wellformed_exact (l0 l1 : Option (List Char)) (body : List (List Char × Option (Nat × F × F × F)))
    (hwf : ∀ b ∈ body, WellFormedLine parseSym parseNum b.1 b.2) (hne : body.filterMap (·.2) ≠ []) :
    readLines parseSym parseNum (l0 :: l1 :: body.map (fun b => some b.1)) = some (body.filterMap (·.2)) := by
  unfold readLines
  simp only [List.drop_succ_cons, List.drop_zero]
  have key : ∀ bs : List (List Char × Option (Nat × F × F × F)), (∀ b ∈ bs, WellFormedLine parseSym parseNum b.1 b.2) →
      (bs.map (fun b => some b.1)).filterMap (atomOfLine parseSym parseNum) = bs.filterMap (·.2) := by
    intro bs
    induction bs with
    | nil => intro _; rfl
    | cons b bs ih =>
      intro h
      have hb := h b (by simp)
      have ih' := ih (fun c hc => h c (by simp [hc]))
      obtain ⟨l, a⟩ := b
      cases a with
      | none =>
        simp only [WellFormedLine] at hb
        subst hb
        simp only [List.map_cons, List.filterMap_cons, atomOfLine, List.isEmpty_nil, if_true]
        exact ih'
      | some a =>
        simp only [WellFormedLine] at hb
        obtain ⟨hne, s, x, y, z, junk, ht, h1, h2, h3, h4⟩ := hb
        have hemp : l.isEmpty = false := by cases l <;> simp_all
        have hp : parseLine parseSym parseNum l = some a := by
          unfold parseLine
          rw [ht]
          simp [h1, h2, h3, h4]
        simp only [List.map_cons, List.filterMap_cons, atomOfLine, hemp, Bool.false_eq_true, if_false, hp]
        congr 1
  rw [key body hwf]
  have : (body.filterMap (·.2)).isEmpty = false := by
    cases h : body.filterMap (·.2) with
    | nil => exact absurd h hne
    | cons a as => simp
  simp [this]

/-- CRLF endings, tabs, runs of spaces and trailing columns do not matter: tokenisation drops all white space. -/
example : tokens " \t H \t 1e0   -2.5E-1\t+.5 extra cols \r".toList =
    ["H".toList, "1e0".toList, "-2.5E-1".toList, "+.5".toList, "extra".toList, "cols".toList] := by decide

/-- The misaligning file of the original defect (a bad coordinate on the middle line) is now read as two aligned atoms. -/
example : (readLines (fun s => if s = "H".toList then some 1 else if s = "C".toList then some 6 else if s = "O".toList then some 8 else none)
    (fun s => if s.all Char.isDigit then some (s.foldl (fun a c => 10 * a + (c.toNat - 48)) 0) else none)
    (["3".toList, [], "H 0 0 0".toList, "C 1 x 0".toList, "O 2 0 0".toList].map some)) = some [(1, 0, 0, 0), (8, 2, 0, 0)] := by
  decide

end OptRs.Props.C14
