/-
Reference data for C20, transcribed by hand and independent of /repo:
* the 118 IUPAC element symbols in order of atomic number (as code-point lists, with the readable
  form in the comment on each line);
* the covalent radii of Cordero et al., Dalton Trans. 2008, 2832 (pm, Z = 1..86; C sp3; Mn, Fe, Co high spin).
This file is part of the trusted base of C20 (an oracle), it is never regenerated.
-/
namespace OptRs.Ref

def symbols : List (List Nat) := [
  [72], [72, 101], [76, 105], [66, 101], [66], [67],   -- H He Li Be B C
  [78], [79], [70], [78, 101], [78, 97], [77, 103],   -- N O F Ne Na Mg
  [65, 108], [83, 105], [80], [83], [67, 108], [65, 114],   -- Al Si P S Cl Ar
  [75], [67, 97], [83, 99], [84, 105], [86], [67, 114],   -- K Ca Sc Ti V Cr
  [77, 110], [70, 101], [67, 111], [78, 105], [67, 117], [90, 110],   -- Mn Fe Co Ni Cu Zn
  [71, 97], [71, 101], [65, 115], [83, 101], [66, 114], [75, 114],   -- Ga Ge As Se Br Kr
  [82, 98], [83, 114], [89], [90, 114], [78, 98], [77, 111],   -- Rb Sr Y Zr Nb Mo
  [84, 99], [82, 117], [82, 104], [80, 100], [65, 103], [67, 100],   -- Tc Ru Rh Pd Ag Cd
  [73, 110], [83, 110], [83, 98], [84, 101], [73], [88, 101],   -- In Sn Sb Te I Xe
  [67, 115], [66, 97], [76, 97], [67, 101], [80, 114], [78, 100],   -- Cs Ba La Ce Pr Nd
  [80, 109], [83, 109], [69, 117], [71, 100], [84, 98], [68, 121],   -- Pm Sm Eu Gd Tb Dy
  [72, 111], [69, 114], [84, 109], [89, 98], [76, 117], [72, 102],   -- Ho Er Tm Yb Lu Hf
  [84, 97], [87], [82, 101], [79, 115], [73, 114], [80, 116],   -- Ta W Re Os Ir Pt
  [65, 117], [72, 103], [84, 108], [80, 98], [66, 105], [80, 111],   -- Au Hg Tl Pb Bi Po
  [65, 116], [82, 110], [70, 114], [82, 97], [65, 99], [84, 104],   -- At Rn Fr Ra Ac Th
  [80, 97], [85], [78, 112], [80, 117], [65, 109], [67, 109],   -- Pa U Np Pu Am Cm
  [66, 107], [67, 102], [69, 115], [70, 109], [77, 100], [78, 111],   -- Bk Cf Es Fm Md No
  [76, 114], [82, 102], [68, 98], [83, 103], [66, 104], [72, 115],   -- Lr Rf Db Sg Bh Hs
  [77, 116], [68, 115], [82, 103], [67, 110], [78, 104], [70, 108],   -- Mt Ds Rg Cn Nh Fl
  [77, 99], [76, 118], [84, 115], [79, 103]   -- Mc Lv Ts Og
  ]

def corderoPm : List Nat := [
  31, 28, 128, 96, 84, 76, 71, 66, 57, 58, 166, 141, 121, 111, 107, 105, 102, 106,
  203, 176, 170, 160, 153, 139, 161, 152, 150, 124, 132, 122, 122, 120, 119, 120, 120, 116,
  220, 195, 190, 175, 164, 154, 147, 146, 142, 139, 145, 144, 142, 139, 139, 138, 139, 140,
  244, 215, 207, 204, 203, 201, 199, 198, 198, 196, 194, 192, 192, 189, 190, 187, 187, 175,
  170, 162, 151, 144, 141, 136, 136, 132, 145, 146, 148, 140, 150, 150]

/-- All atomic numbers. -/
def zs : List Nat := List.range' 1 118

/-! ### Independent statement of the layout of the periodic table -/

/-- Number of elements in periods 1..7. -/
def shellLengths : List Nat := [2, 8, 8, 18, 18, 32, 32]

/-- Period from the shell lengths: the first period whose cumulative end reaches `z`. -/
def refPeriod (z : Nat) : Nat :=
  go z shellLengths 1
where
  go (z : Nat) : List Nat → Nat → Nat
    | [], p => p
    | n :: rest, p => if z ≤ n then p else go (z - n) rest (p + 1)

/-- Position inside the period (1-based). -/
def refPos (z : Nat) : Nat :=
  go z shellLengths
where
  go (z : Nat) : List Nat → Nat
    | [] => z
    | n :: rest => if z ≤ n then z else go (z - n) rest

/-- IUPAC group: s-block columns 1–2, p-block 13–18, d-block 3–12 (4–12 after the f-block rows);
the fifteen La–Lu and fifteen Ac–Lr have no group (0). -/
def refGroup (z : Nat) : Nat :=
  let p := refPeriod z
  let k := refPos z
  if p = 1 then (if k = 1 then 1 else 18)
  else if p ≤ 3 then (if k ≤ 2 then k else k + 10)
  else if p ≤ 5 then k
  else if k ≤ 2 then k
  else if k ≤ 17 then 0
  else k - 14


end OptRs.Ref
