/-
C12 — UFF parameters follow the documented equations and the shipped data table.

Equations: the Rust expressions of `r0`, `r_bo`, `r_en`, `k_ij`, `k_ijk`, the type-B coefficients, the Lennard-Jones
mixing and the torsional barriers are re-translated from src/ff/uff/{core,dihedral_bond}.rs on every run
(`Gen/UffFormulas.lean`); each theorem says their real-number reading IS the published closed form, for all argument values.
Data: the compiled `ATOM_TYPES` equals, row for row and field for field, what `generate_atom_types.py` (re-expressed in
`Model/GenTypes.lean`) makes of the shipped `atom_types.txt` — kernel evaluation over the whole table.
The numeric layer evaluated at `f64` from these same translated formulas and tables reproduces every parameter of every
real term bit for bit (`build` and `params` streams).
-/
import OptRs.Calc.Real
import OptRs.Gen.UffFormulas
import OptRs.Model.GenTypes
import OptRs.Model.BuildUFF
import Mathlib.Tactic.Ring
import Mathlib.Tactic.FieldSimp
import Mathlib.Tactic.NormNum
import Mathlib.Analysis.SpecialFunctions.Trigonometric.Deriv
namespace OptRs.Props.C12
open OptRs OptRs.Gen Real

variable (ρ : Nat → ℝ)

/-! ### Equations -/

/-- r₀ = r_i + r_j + r_BO + r_EN -/
theorem r0_formula (ri rj rbo ren : Ex) :
    (uffR0 ri rj rbo ren).evalR ρ = ri.evalR ρ + rj.evalR ρ + rbo.evalR ρ + ren.evalR ρ := by
  simp [uffR0, Ex.evalR]

/-- r_BO = −0.1332 (r_i + r_j) ln n -/
theorem rbo_formula (ri rj bo : Ex) :
    (uffRbo ri rj bo).evalR ρ = -(0.1332 : ℝ) * (ri.evalR ρ + rj.evalR ρ) * Real.log (bo.evalR ρ) := by
  simp only [uffRbo, Ex.evalR, Num.toReal]; norm_num

/-- r_EN = r_i r_j (√χ_i − √χ_j)² / (χ_i r_i + χ_j r_j) -/
theorem ren_formula (ri rj ci cj : Ex) :
    (uffRen ri rj ci cj).evalR ρ =
      ri.evalR ρ * rj.evalR ρ * ((√(ci.evalR ρ) - √(cj.evalR ρ)) ^ 2 / (ci.evalR ρ * ri.evalR ρ + cj.evalR ρ * rj.evalR ρ)) := by
  simp [uffRen, Ex.evalR]

/-- The whole rest length, composed: r_i + r_j − 0.1332 (r_i + r_j) ln(order) + r_i r_j (√χ_i − √χ_j)² / (χ_i r_i + χ_j r_j). -/
theorem rest_length (ri rj bo ci cj : Ex) :
    (uffR0 ri rj (uffRbo ri rj bo) (uffRen ri rj ci cj)).evalR ρ =
      ri.evalR ρ + rj.evalR ρ - 0.1332 * (ri.evalR ρ + rj.evalR ρ) * Real.log (bo.evalR ρ) +
        ri.evalR ρ * rj.evalR ρ * (√(ci.evalR ρ) - √(cj.evalR ρ)) ^ 2 / (ci.evalR ρ * ri.evalR ρ + cj.evalR ρ * rj.evalR ρ) := by
  rw [r0_formula, rbo_formula, ren_formula]; ring

/-- k_ij = 664.12 Z_i Z_j / r₀³ -/
theorem kij_formula (zi zj r0 : Ex) :
    (uffKij zi zj r0).evalR ρ = 664.12 * (zi.evalR ρ * zj.evalR ρ) / r0.evalR ρ ^ 3 := by
  simp only [uffKij, Ex.evalR, Num.toReal]; norm_num

/-- k_ijk = 664.12 Z_i Z_k [r_ij r_jk (1 − cos²θ₀) − r_ik² cos θ₀] / (r_ij r_jk r_ik⁵), r_ik from the cosine rule. -/
theorem kijk_formula (th rij rjk zi zk : Ex) :
    let rik := √(rij.evalR ρ ^ 2 + rjk.evalR ρ ^ 2 - 2 * rij.evalR ρ * rjk.evalR ρ * Real.cos (th.evalR ρ))
    (uffKijk th rij rjk zi zk).evalR ρ =
      664.12 / (rij.evalR ρ * rjk.evalR ρ) * (zi.evalR ρ * zk.evalR ρ / rik ^ 5) *
        (rij.evalR ρ * rjk.evalR ρ * (1 - Real.cos (th.evalR ρ) ^ 2) - rik ^ 2 * Real.cos (th.evalR ρ)) := by
  simp only [uffKijk, Ex.evalR, Num.toReal]; norm_num

theorem kijk_as_stated (th rij rjk zi zk : Ex) (rik : ℝ)
    (hrik : rik = √(rij.evalR ρ ^ 2 + rjk.evalR ρ ^ 2 - 2 * rij.evalR ρ * rjk.evalR ρ * Real.cos (th.evalR ρ)))
    (h1 : rij.evalR ρ ≠ 0) (h2 : rjk.evalR ρ ≠ 0) (h3 : rik ≠ 0) :
    (uffKijk th rij rjk zi zk).evalR ρ =
      664.12 * zi.evalR ρ * zk.evalR ρ *
        (rij.evalR ρ * rjk.evalR ρ * (1 - Real.cos (th.evalR ρ) ^ 2) - rik ^ 2 * Real.cos (th.evalR ρ)) /
        (rij.evalR ρ * rjk.evalR ρ * rik ^ 5) := by
  have := kijk_formula ρ th rij rjk zi zk
  simp only at this
  rw [this, ← hrik]
  field_simp

/-- van der Waals: geometric means of the two types' distance and well-depth parameters. -/
theorem lj_mixing (a b : Ex) : (uffLjSigma a b).evalR ρ = √(a.evalR ρ * b.evalR ρ) ∧ (uffLjD a b).evalR ρ = √(a.evalR ρ * b.evalR ρ) := by
  simp [uffLjSigma, uffLjD, Ex.evalR]

/-- Which fields are mixed: the distance from the type's `r` column, the depth from its `d` column (as theory.tex defines σ and D). -/
theorem lj_fields : uffLjSigmaField = "r" ∧ uffLjDField = "d" := by decide

/-- Torsional barriers: V_sp3 = √(V_j V_k); V_sp2 = 5 √(U_j U_k) (1 + 4.18 ln n_BO). -/
theorem torsion_barriers (a b n : Ex) :
    (uffVsp3 a b).evalR ρ = √(a.evalR ρ * b.evalR ρ) ∧
    (uffVsp2 a b n).evalR ρ = 5 * √(a.evalR ρ * b.evalR ρ) * (1 + 4.18 * Real.log (n.evalR ρ)) := by
  constructor
  · simp [uffVsp3, Ex.evalR]
  · simp only [uffVsp2, Ex.evalR, Num.toReal]; norm_num

/-! ### The cosine-harmonic (type-B) bend -/

/-- The source's coefficients as real functions of θ₀. -/
noncomputable def c2 (t0 : ℝ) : ℝ := 1 / (4 * Real.sin t0 ^ 2)
noncomputable def c1 (t0 : ℝ) : ℝ := -4 * c2 t0 * Real.cos t0
noncomputable def c0 (t0 : ℝ) : ℝ := c2 t0 * (2 * Real.cos t0 ^ 2 + 1)

theorem coefficients (th : Ex) :
    (uffC2 th).evalR ρ = c2 (th.evalR ρ) ∧
    (uffC1 (uffC2 th) th).evalR ρ = c1 (th.evalR ρ) ∧
    (uffC0 (uffC2 th) th).evalR ρ = c0 (th.evalR ρ) := by
  refine ⟨?_, ?_, ?_⟩ <;> simp only [uffC2, uffC1, uffC0, Ex.evalR, Num.toReal, c2, c1, c0] <;> norm_num

/-- With these coefficients the bend is harmonic in cos θ about cos θ₀: k (cos θ − cos θ₀)² / (2 sin² θ₀). -/
theorem typeB_harmonic_in_cos (k t0 t : ℝ) (h : Real.sin t0 ≠ 0) :
    k * (c0 t0 + c1 t0 * Real.cos t + c2 t0 * Real.cos (2 * t)) = k * (Real.cos t - Real.cos t0) ^ 2 / (2 * Real.sin t0 ^ 2) := by
  unfold c0 c1 c2
  rw [Real.cos_two_mul]
  have hs : Real.sin t0 ^ 2 ≠ 0 := pow_ne_zero 2 h
  field_simp
  ring

/-- Zero energy at the natural angle. -/
theorem typeB_zero_at_theta0 (k t0 : ℝ) (h : Real.sin t0 ≠ 0) :
    k * (c0 t0 + c1 t0 * Real.cos t0 + c2 t0 * Real.cos (2 * t0)) = 0 := by
  rw [typeB_harmonic_in_cos k t0 t0 h]; simp

/-- The energy is never negative for k ≥ 0: θ₀ is a minimum. -/
theorem typeB_nonneg (k t0 t : ℝ) (hk : 0 ≤ k) (h : Real.sin t0 ≠ 0) :
    0 ≤ k * (c0 t0 + c1 t0 * Real.cos t + c2 t0 * Real.cos (2 * t)) := by
  rw [typeB_harmonic_in_cos k t0 t h]
  apply div_nonneg
  · exact mul_nonneg hk (sq_nonneg _)
  · positivity

/-- First derivative in θ: −k (c₁ sin θ + 2 c₂ sin 2θ); it vanishes at θ₀ … -/
theorem typeB_hasDerivAt (k t0 t : ℝ) :
    HasDerivAt (fun s => k * (c0 t0 + c1 t0 * Real.cos s + c2 t0 * Real.cos (2 * s)))
      (k * (c1 t0 * (-Real.sin t) + c2 t0 * (-Real.sin (2 * t) * 2))) t := by
  have h1 : HasDerivAt (fun s => Real.cos (2 * s)) (-Real.sin (2 * t) * 2) t := by
    have := ((hasDerivAt_id' t).const_mul (2 : ℝ)).cos
    simpa using this
  have := (((Real.hasDerivAt_cos t).const_mul (c1 t0)).add (h1.const_mul (c2 t0))).const_add (c0 t0) |>.const_mul k
  refine this.congr_of_eventuallyEq ?_ |>.congr_deriv ?_
  · exact Filter.Eventually.of_forall fun s => by simp [add_assoc]
  · ring

theorem typeB_stationary_at_theta0 (k t0 : ℝ) (h : Real.sin t0 ≠ 0) :
    k * (c1 t0 * (-Real.sin t0) + c2 t0 * (-Real.sin (2 * t0) * 2)) = 0 := by
  unfold c1 c2
  rw [Real.sin_two_mul]
  have hs : Real.sin t0 ^ 2 ≠ 0 := pow_ne_zero 2 h
  field_simp
  ring

/-- … and the curvature there (second derivative in θ) equals the force constant k. -/
theorem typeB_curvature_at_theta0 (k t0 : ℝ) (h : Real.sin t0 ≠ 0) :
    HasDerivAt (fun t => k * (c1 t0 * (-Real.sin t) + c2 t0 * (-Real.sin (2 * t) * 2))) k t0 := by
  have h2 : HasDerivAt (fun s => Real.sin (2 * s)) (Real.cos (2 * t0) * 2) t0 := by
    have := ((hasDerivAt_id' t0).const_mul (2 : ℝ)).sin
    simpa using this
  have hd := ((((Real.hasDerivAt_sin t0).neg).const_mul (c1 t0)).add (((h2.neg).mul_const 2).const_mul (c2 t0))).const_mul k
  refine hd.congr_deriv ?_
  unfold c1 c2
  rw [Real.cos_two_mul]
  have hs : Real.sin t0 ^ 2 ≠ 0 := pow_ne_zero 2 h
  have hc : Real.cos t0 ^ 2 = 1 - Real.sin t0 ^ 2 := by have := Real.sin_sq_add_cos_sq t0; linarith
  field_simp
  rw [hc]; ring

/-! ### Which form and which multiplicity: decided by the coordination environment -/

open OptRs.Model in
/-- Periodic form k/n² (1 − cos nθ) with n = 3 at trigonal-planar (three-coordinate) centres and n = 4 at linear,
square-planar and octahedral ones; the cosine-harmonic form everywhere else. -/
theorem bend_form_table :
    (∀ e : Env, e.isTypeA = true ↔ e = .linear ∨ e = .trigonalPlanar ∨ e = .squarePlanar ∨ e = .octahedral) ∧
    Env.bendN .trigonalPlanar = 3 ∧ Env.bendN .linear = 4 ∧ Env.bendN .squarePlanar = 4 ∧ Env.bendN .octahedral = 4 := by
  refine ⟨?_, rfl, rfl, rfl, rfl⟩
  intro e; cases e <;> simp [Env.isTypeA]

/-! ### Data: the compiled table is the generated table -/

open OptRs.Model.GenTypes in
/-- **Entry for entry over all 127 rows × 14 fields** the compiled `ATOM_TYPES` is what `generate_atom_types.py` makes of
`atom_types.txt` (text fields identical; numbers equal as exact decimals; θ to the five decimals the generator prints,
with the compiled π, π/2 standing for 3.14159, 1.57080; `environment` is `None` in every row by construction of the translator). -/
theorem table_identity :
    atomTypes.length = 127 ∧ sourceRows.length = 127 ∧
    (atomTypes.zip sourceRows).all (fun p => rowMatches p.1 p.2) = true := by decide +kernel

end OptRs.Props.C12
