/-
C16 — The bond-order matrix interface creates exactly the specified bonds.

Model: `OptRs.Model.setBondOrders` / `matrixBonds` (hand model of `PyMoleculeWrapper::set_bond_orders`, tied to
the code by the exhaustive small-matrix correspondence). Entries are abstract (`Entry`): how a float is read
as zero / a supported order / unsupported is the driver's `classify`, corresponded separately.
Theorems hold for every N and every matrix.
-/
import OptRs.Lemmas.TopologyLemmas
namespace OptRs.Props.C16
open OptRs.Model

/-- What the matrix specifies at flat index `idx`: a bond (row, column, order) when column > row and the entry is an order. -/
def specAt (n : Nat) (idx : Nat) (e : Entry) : Option Bond :=
  if idx % n ≤ idx / n then none else
  match e with
  | .ord o => some { i := idx / n, j := idx % n, order := o }
  | _ => none

/-- The bonds specified by the entries `es` sitting at flat indices `k, k+1, …`. -/
def specFrom (n : Nat) : Nat → List Entry → List Bond
  | _, [] => []
  | k, e :: rest => (specAt n k e).toList ++ specFrom n (k + 1) rest

/-- An unsupported value in the upper triangle (the only entries the interface reads). -/
def HasBad (n : Nat) : Nat → List Entry → Prop
  | _, [] => False
  | k, e :: rest => (k / n < k % n ∧ e = .bad) ∨ HasBad n (k + 1) rest

theorem key_of_upper (i j : Nat) (h : i < j) : pairKey i j = (i, j) := by simp [pairKey, h]

/-- Invariant of the loop: everything inserted so far came from a smaller flat index. -/
def Below (n k : Nat) (acc : List Bond) : Prop := ∀ b ∈ acc, b.i < b.j ∧ b.j < n ∧ b.i * n + b.j < k

theorem go_exact (n : Nat) (hn : 0 < n) : ∀ (es : List Entry) (k : Nat) (acc : List Bond),
    Below n k acc → ¬ HasBad n k es →
      matrixBonds.go n k es acc = .ok (acc ++ specFrom n k es) ∧ Below n (k + es.length) (acc ++ specFrom n k es) := by
  intro es
  induction es with
  | nil =>
    intro k acc hb _
    simp only [matrixBonds.go, specFrom, List.append_nil, List.length_nil, Nat.add_zero]
    exact ⟨by trivial, hb⟩
  | cons e rest ih =>
    intro k acc hb hbad
    have hbad' : ¬ HasBad n (k + 1) rest := fun h => hbad (Or.inr h)
    have hmono : Below n (k + 1) acc := fun b hbm => by have := hb b hbm; omega
    have hlen : k + (e :: rest).length = (k + 1) + rest.length := by simp; omega
    rw [hlen]
    unfold matrixBonds.go
    simp only [specFrom, specAt]
    by_cases hji : k % n ≤ k / n
    · simp only [hji, if_true, Option.toList_none, List.nil_append]
      exact ih (k + 1) acc hmono hbad'
    · simp only [hji, if_false]
      cases e with
      | zero => simpa using ih (k + 1) acc hmono hbad'
      | bad => exact absurd (Or.inl ⟨by omega, rfl⟩) hbad
      | ord o =>
        simp only [Option.toList_some]
        -- the key is new: every earlier bond has a smaller flat index
        have hnew : Bond.key { i := k / n, j := k % n, order := o } ∉ acc.map Bond.key := by
          intro hmem
          obtain ⟨b, hbm, hk⟩ := List.mem_map.mp hmem
          have hbb := hb b hbm
          simp only [Bond.key] at hk
          rw [key_of_upper _ _ hbb.1, key_of_upper _ _ (by omega)] at hk
          simp only [Prod.mk.injEq] at hk
          have := Nat.div_add_mod k n
          have : b.i * n + b.j = k := by rw [hk.1, hk.2, Nat.mul_comm]; exact this
          omega
        have hins : insertByKey Bond.key acc { i := k / n, j := k % n, order := o } = acc ++ [{ i := k / n, j := k % n, order := o }] := by
          unfold insertByKey; simp [hnew]
        rw [hins]
        have hb' : Below n (k + 1) (acc ++ [{ i := k / n, j := k % n, order := o }]) := by
          intro b hbm
          rcases List.mem_append.mp hbm with h | h
          · exact hmono b h
          · simp only [List.mem_singleton] at h
            subst h
            have := Nat.div_add_mod k n
            have hlt := Nat.mod_lt k hn
            refine ⟨by simp only; omega, hlt, ?_⟩
            simp only
            rw [Nat.mul_comm]; omega
        have := ih (k + 1) _ hb' hbad'
        simpa [List.append_assoc] using this

/-- **Exactness**: a matrix without unsupported upper-triangle values yields exactly the specified bonds, in row-major order. -/
theorem matrixBonds_exact (n : Nat) (hn : 0 < n) (m : List Entry) (h : ¬ HasBad n 0 m) :
    matrixBonds n m = .ok (specFrom n 0 m) := by
  have := (go_exact n hn m 0 [] (by intro b hb; simp at hb) h).1
  simpa [matrixBonds] using this

/-- Membership in the specification, spelled out: bond (i, j, o) is present iff i < j < n and m[i·n + j] is the order o. -/
theorem mem_specFrom (n : Nat) (hn : 0 < n) : ∀ (es : List Entry) (k : Nat) (b : Bond),
    b ∈ specFrom n k es ↔ b.i < b.j ∧ b.j < n ∧ k ≤ b.i * n + b.j ∧ es[b.i * n + b.j - k]? = some (.ord b.order) := by
  intro es
  induction es with
  | nil => intro k b; simp [specFrom]
  | cons e rest ih =>
    intro k b
    simp only [specFrom, List.mem_append, Option.mem_toList, ih]
    constructor
    · rintro (h | ⟨h1, h2, h3, h4⟩)
      · unfold specAt at h
        split at h
        · simp at h
        · rename_i hji
          cases e with
          | zero => simp at h
          | bad => simp at h
          | ord o =>
            simp only [Option.some.injEq] at h
            subst h
            have := Nat.div_add_mod k n
            have hlt := Nat.mod_lt k hn
            have hk : k / n * n + k % n = k := by rw [Nat.mul_comm]; exact this
            refine ⟨by simp only; omega, hlt, by simp only; omega, ?_⟩
            simp only [hk, Nat.sub_self, List.getElem?_cons_zero]
      · refine ⟨h1, h2, by omega, ?_⟩
        have : b.i * n + b.j - k = (b.i * n + b.j - (k + 1)) + 1 := by omega
        rw [this, List.getElem?_cons_succ]; exact h4
    · rintro ⟨h1, h2, h3, h4⟩
      by_cases hk : b.i * n + b.j = k
      · left
        have hdiv : k / n = b.i := by
          rw [← hk, Nat.mul_comm, Nat.mul_add_div hn, Nat.div_eq_of_lt h2]; simp
        have hmod : k % n = b.j := by
          rw [← hk, Nat.mul_comm, Nat.mul_add_mod, Nat.mod_eq_of_lt h2]
        simp only [hk, Nat.sub_self, List.getElem?_cons_zero, Option.some.injEq] at h4
        unfold specAt
        have : ¬ b.j ≤ b.i := by omega
        simp only [h4, hdiv, hmod, this, if_false]
      · right
        refine ⟨h1, h2, by omega, ?_⟩
        have : b.i * n + b.j - k = (b.i * n + b.j - (k + 1)) + 1 := by omega
        rw [this, List.getElem?_cons_succ] at h4; exact h4

/-- **C16, bonds**: after `set_bond_orders` the bond (i, j, o) exists iff i < j < N and m[i][j] denotes the order o; nothing else exists. -/
theorem bonds_exact (n : Nat) (hn : 0 < n) (m : List Entry) (hlen : m.length = n ^ 2) (h : ¬ HasBad n 0 m) :
    ∃ c, setBondOrders n m = .ok c ∧ c = Conn.ofBonds n c.bonds ∧
      ∀ b : Bond, b ∈ c.bonds ↔ b.i < b.j ∧ b.j < n ∧ m[b.i * n + b.j]? = some (.ord b.order) := by
  refine ⟨Conn.ofBonds n (specFrom n 0 m), ?_, ?_, ?_⟩
  · unfold setBondOrders
    simp [hlen, matrixBonds_exact n hn m h]
  · simp [Conn.ofBonds, Conn.derive]
  · intro b
    have := mem_specFrom n hn m 0 b
    simp only [Nat.zero_le, Nat.sub_zero, true_and] at this
    simpa [Conn.ofBonds, Conn.derive] using this

/-- Angles, dihedrals and pairs after the call are *the* functions of the new bonds (the record was cleared first):
C10's theorems apply to them verbatim. -/
theorem derived_from_new_bonds (n : Nat) (m : List Entry) (c : Conn) (h : setBondOrders n m = .ok c) :
    c = Conn.ofBonds n c.bonds := by
  unfold setBondOrders at h
  split at h
  · simp at h
  · split at h
    · simp at h
    · simp only [Except.ok.injEq] at h
      subst h
      simp [Conn.ofBonds, Conn.derive]

/-- A matrix of the wrong size is rejected. -/
theorem rejects_size (n : Nat) (m : List Entry) (h : m.length ≠ n ^ 2) : setBondOrders n m = .error .wrongSize := by
  unfold setBondOrders; simp [h]

theorem go_bad (n : Nat) : ∀ (es : List Entry) (k : Nat) (acc : List Bond), HasBad n k es →
    matrixBonds.go n k es acc = .error .badOrder := by
  intro es
  induction es with
  | nil => intro k acc h; exact absurd h (by simp [HasBad])
  | cons e rest ih =>
    intro k acc h
    unfold matrixBonds.go
    by_cases hji : k % n ≤ k / n
    · simp only [hji, if_true]
      rcases h with ⟨h1, _⟩ | h
      · omega
      · exact ih _ _ h
    · simp only [hji, if_false]
      cases e with
      | bad => rfl
      | zero =>
        rcases h with ⟨_, h2⟩ | h
        · cases h2
        · exact ih _ _ h
      | ord o =>
        rcases h with ⟨_, h2⟩ | h
        · cases h2
        · exact ih _ _ h

/-- An unsupported order value in the upper triangle is rejected. -/
theorem rejects_value (n : Nat) (m : List Entry) (hlen : m.length = n ^ 2) (h : HasBad n 0 m) :
    setBondOrders n m = .error .badOrder := by
  unfold setBondOrders
  simp [hlen, matrixBonds, go_bad n m 0 [] h]

/-! Non-vacuity: water-like 3×3 matrix whose only non-zero upper entry is m[1][2] (a bond that does not involve atom 0). -/
example : (setBondOrders 3 [.zero, .zero, .zero, .zero, .zero, .ord .double, .zero, .ord .double, .zero]).toOption.map (·.bonds)
    = some [{ i := 1, j := 2, order := .double }] := by decide

end OptRs.Props.C16
