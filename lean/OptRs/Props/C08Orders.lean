/-
C08 (continued) — bond-order assignment does not depend on the enumeration of the bond set.

`guess_bond_orders` + `refine_bond_orders` (src/molecule.rs) loop over a `HashSet<Bond>`; the model `assignOrders` takes the
bond list in the order given. Everything the assignment reads of the set is a count, a sum, a membership test or a pointwise
map, so a re-enumeration (any hash seed) gives each pair the same order. The lemmas are in Lemmas/OrdersPerm.lean (it uses
C08's and C09's theorems, hence this separate file).
-/
import OptRs.Lemmas.OrdersPerm
namespace OptRs.Props.C08
open OptRs OptRs.Model

/-- **Bond-order assignment commutes with re-enumeration of the bond set.** -/
theorem bond_orders_perm (zs : List Nat) {bs bs' : List Bond} (h : bs.Perm bs') :
    (assignOrders zs bs).Perm (assignOrders zs bs') :=
  OptRs.Lemmas.OrdersPerm.assignOrders_perm zs h

/-- With one bond per pair (which perception guarantees — C09), every pair gets the same bond order whatever the
enumeration: the order is a function of the pair. -/
theorem bond_order_of_pair_perm (zs : List Nat) {bs bs' : List Bond} (h : bs.Perm bs')
    (hnd : (bs.map Bond.key).Nodup) (k : Nat × Nat) :
    ((assignOrders zs bs).find? (fun b => b.key == k)).map Bond.order =
      ((assignOrders zs bs').find? (fun b => b.key == k)).map Bond.order :=
  OptRs.Lemmas.OrdersPerm.order_assignOrders_perm zs h hnd k

/-- Non-vacuity: a carbonyl carbon's bonds enumerated two ways — the assignment gives C=O a double bond in both and the
two results are permutations of each other, not equal lists. -/
example :
    let bs : List Bond := [{ i := 0, j := 1 }, { i := 0, j := 2 }, { i := 0, j := 3 }]
    let bs' : List Bond := [{ i := 0, j := 3 }, { i := 0, j := 1 }, { i := 0, j := 2 }]
    ((assignOrders [6, 8, 1, 1] bs).find? (fun b => b.key == (0, 1))).map Bond.order = some .double ∧
    ((assignOrders [6, 8, 1, 1] bs').find? (fun b => b.key == (0, 1))).map Bond.order = some .double ∧
    assignOrders [6, 8, 1, 1] bs ≠ assignOrders [6, 8, 1, 1] bs' := by decide

end OptRs.Props.C08
