/-
C02 — Each energy term equals its documented closed form and its exact gradient, and touches no other atom.

Left of every statement: `Ex` values — the hand energy model (`Model/Energy.lean`, bit-for-bit equal to the Rust
`energy` functions on every run's correspondence) and the gradient programs translated from the Rust `add_gradient`
bodies on this run (`Gen/Grad.lean`). Right: the theory document's expressions over ℝ in the spec geometry of
`Lemmas/Geometry.lean`, and Mathlib's derivative. All parameter values are variables (`ρ 20 …`), all positions
off the stated singular sets, the multiplicity n of the periodic bend and the torsion is any real, the repulsion
exponent any natural number. Variable numbering: see `Model/Energy.lean`.
-/
import OptRs.Lemmas.FFReal
namespace OptRs.Props.C02
open OptRs OptRs.Lemmas OptRs.Model.Energy OptRs.Gen Real

local notation "r₀₁(" ρ ")" => Spec.dist (Spec.atom ρ 0) (Spec.atom ρ 1)
local notation "θ(" ρ ")" => Spec.bondAngle (Spec.atom ρ 0) (Spec.atom ρ 1) (Spec.atom ρ 2)
local notation "φ(" ρ ")" => Spec.dihedral (Spec.atom ρ 0) (Spec.atom ρ 1) (Spec.atom ρ 2) (Spec.atom ρ 3)

/-! ### Closed forms (theory.tex) -/

/-- Harmonic stretch: k/2 (r − r₀)². -/
theorem bond_closed_form (ρ : Nat → ℝ) : bondE.evalR ρ = ρ 21 / 2 * (r₀₁(ρ) - ρ 20) ^ 2 := bond_closed ρ

/-- Type-A bend: k/n² (1 − cos nθ). -/
theorem angleA_closed_form (ρ : Nat → ℝ) : angleAE.evalR ρ = ρ 20 / ρ 21 ^ 2 * (1 - Real.cos (ρ 21 * θ(ρ))) :=
  Lemmas.angleA_closed_form ρ

/-- Type-B bend: k (c₀ + c₁ cos θ + c₂ cos 2θ). -/
theorem angleB_closed_form (ρ : Nat → ℝ) :
    angleBE.evalR ρ = ρ 20 * (ρ 21 + ρ 22 * Real.cos θ(ρ) + ρ 23 * Real.cos (2 * θ(ρ))) := Lemmas.angleB_closed_form ρ

/-- Torsion: V/2 (1 − cos(nφ₀) cos(nφ)) with φ the IUPAC dihedral (off the branch cut φ = ±π and the collinear cases). -/
theorem torsion_closed_form (ρ : Nat → ℝ) (h : TorsionRegular ρ) :
    torsionE.evalR ρ = ρ 22 / 2 * (1 - Real.cos (ρ 21 * ρ 20) * Real.cos (ρ 21 * φ(ρ))) := Lemmas.torsion_closed_form ρ h

/-- Three-axis inversion: k/3 Σ_axes (c₀ + c₁ sin γ + c₂ cos 2γ). -/
theorem inversion_closed_form (ρ : Nat → ℝ) :
    inversionE.evalR ρ = ρ 23 / 3 *
      ((ρ 20 + ρ 21 * Real.sin (Spec.inversionAngle (Spec.atom ρ 0) (Spec.atom ρ 1) (Spec.atom ρ 2) (Spec.atom ρ 3))
          + ρ 22 * Real.cos (2 * Spec.inversionAngle (Spec.atom ρ 0) (Spec.atom ρ 1) (Spec.atom ρ 2) (Spec.atom ρ 3)))
        + (ρ 20 + ρ 21 * Real.sin (Spec.inversionAngle (Spec.atom ρ 0) (Spec.atom ρ 3) (Spec.atom ρ 1) (Spec.atom ρ 2))
          + ρ 22 * Real.cos (2 * Spec.inversionAngle (Spec.atom ρ 0) (Spec.atom ρ 3) (Spec.atom ρ 1) (Spec.atom ρ 2)))
        + (ρ 20 + ρ 21 * Real.sin (Spec.inversionAngle (Spec.atom ρ 0) (Spec.atom ρ 2) (Spec.atom ρ 3) (Spec.atom ρ 1))
          + ρ 22 * Real.cos (2 * Spec.inversionAngle (Spec.atom ρ 0) (Spec.atom ρ 2) (Spec.atom ρ 3) (Spec.atom ρ 1)))) :=
  Lemmas.inversion_closed_form ρ

/-- Lennard-Jones 12-6: D ((σ/r)¹² − 2 (σ/r)⁶). -/
theorem lj_closed_form (ρ : Nat → ℝ) :
    ljE.evalR ρ = ρ 21 * ((ρ 20 / r₀₁(ρ)) ^ 12 - 2 * (ρ 20 / r₀₁(ρ)) ^ 6) := lj_closed ρ

/-- Inverse-power repulsion: c / rⁿ. -/
theorem repulsion_closed_form (n : Nat) (ρ : Nat → ℝ) : (repulsionE n).evalR ρ = ρ 20 / r₀₁(ρ) ^ n := repulsion_closed n ρ

/-! ### The translated gradient is the exact derivative, slot by slot -/

theorem bond_gradient (ρ : Nat → ℝ) (h : PairRegular ρ) (s : Nat) (hs : s < 6) :
    HasDerivAt (fun t => bondE.evalR (Function.update ρ s t)) (bondGrad.gradR ρ s) (ρ s) := bond_hasDerivAt ρ h s hs

theorem lj_gradient (ρ : Nat → ℝ) (h : PairRegular ρ) (s : Nat) (hs : s < 6) :
    HasDerivAt (fun t => ljE.evalR (Function.update ρ s t)) (ljGrad.gradR ρ s) (ρ s) := lj_hasDerivAt ρ h s hs

theorem repulsion_gradient (n : Nat) (ρ : Nat → ℝ) (h : PairRegular ρ) (s : Nat) (hs : s < 6) :
    HasDerivAt (fun t => (repulsionE n).evalR (Function.update ρ s t)) ((repulsionGrad n).gradR ρ s) (ρ s) :=
  repulsion_hasDerivAt n ρ h s hs

theorem angleA_gradient (ρ : Nat → ℝ) (h : BendRegular ρ) (hn : ρ 21 ≠ 0) (s : Nat) (hs : s < 9) :
    HasDerivAt (fun t => angleAE.evalR (Function.update ρ s t)) (angleAGrad.gradR ρ s) (ρ s) := angleA_hasDerivAt ρ h hn s hs

theorem angleB_gradient (ρ : Nat → ℝ) (h : BendRegular ρ) (s : Nat) (hs : s < 9) :
    HasDerivAt (fun t => angleBE.evalR (Function.update ρ s t)) (angleBGrad.gradR ρ s) (ρ s) := angleB_hasDerivAt ρ h s hs

theorem torsion_gradient (ρ : Nat → ℝ) (h : TorsionRegular ρ) (s : Nat) (hs : s < 12) :
    HasDerivAt (fun t => torsionE.evalR (Function.update ρ s t)) (torsionGrad.gradR ρ s) (ρ s) := torsion_hasDerivAt ρ h s hs

theorem inversion_gradient (ρ : Nat → ℝ) (h : InversionRegular ρ) (s : Nat) (hs : s < 12) :
    HasDerivAt (fun t => inversionE.evalR (Function.update ρ s t)) (inversionGrad.gradR ρ s) (ρ s) := inversion_hasDerivAt ρ h s hs

/-! ### Locality -/

/-- The seven programs write only the 3·(number of atoms) slots of their own atoms … -/
theorem programs_write_only_their_slots (ρ : Nat → ℝ) (n : Nat) :
    (∀ s, 6 ≤ s → bondGrad.gradR ρ s = 0) ∧ (∀ s, 6 ≤ s → ljGrad.gradR ρ s = 0) ∧
    (∀ s, 6 ≤ s → (repulsionGrad n).gradR ρ s = 0) ∧ (∀ s, 9 ≤ s → angleAGrad.gradR ρ s = 0) ∧
    (∀ s, 9 ≤ s → angleBGrad.gradR ρ s = 0) ∧ (∀ s, 12 ≤ s → torsionGrad.gradR ρ s = 0) ∧
    (∀ s, 12 ≤ s → inversionGrad.gradR ρ s = 0) :=
  ⟨bond_untouched ρ, lj_untouched ρ, repulsion_untouched n ρ, angleA_gradR_untouched ρ, angleB_gradR_untouched ρ,
    torsion_untouched ρ, inversion_untouched ρ⟩

/-- … and, placed at any indices of a larger coordinate array, a term adds nothing to the coordinates of atoms it does
not involve. -/
theorem term_touches_only_its_atoms (t : Term) (x : Nat → ℝ) (s : Nat)
    (h : ∀ v, v < 3 * t.kind.na → t.slot v ≠ s) : t.grad x s = 0 := t.grad_untouched x s h

/-- For any index assignment inside a larger array, a term's gradient contribution is the derivative of its energy. -/
theorem term_gradient_any_indices (t : Term) (x : Nat → ℝ) (s : Nat) (hreg : t.kind.Regular (t.env x)) :
    HasDerivAt (fun τ => t.energy (Function.update x s τ)) (t.grad x s) (x s) := t.hasDerivAt x s hreg

/-! ### Non-vacuity: the hypotheses are met by ordinary geometries -/
example : PairRegular (fun n => if n = 0 then 1 else if n = 4 then -2 else 0) := by
  unfold PairRegular; norm_num
example : BendRegular (fun n => if n = 0 ∨ n = 7 then 1 else 0) := by simp [BendRegular]

end OptRs.Props.C02
