/-
C06 — Sensible input never produces aborts or non-finite numbers.   (PARTIAL)

This property lives in floating point and in panics; what a theorem contributes is the MAP of where it can fail:
* construction is total: with the source's match arms as translated on this run no type name reaches a `todo!()`, and
  every rest-length lookup a bend makes succeeds because angles are made of bonds — so `UFF::new` cannot abort in its
  decision logic (the remaining `unwrap`s are on symbol lookups of the type table, which succeed for every row: `rows_have_elements`);
* the bends' singular set over ℝ: the translated bend energy is regular exactly off r_ij = 0, r_kj = 0, sin θ = 0 (and n ≠ 0);
* the cosine-harmonic coefficients are defined iff sin θ₀ ≠ 0, and the rows of the compiled table with θ₀ = π are enumerated:
  they are where the type-B overflow can occur (centres of those types that the environment rule sends to the type-B form).
The verdict itself — no panic, no NaN/∞, no overflow-scale energy on inputs with pairwise distances ≥ 0.5 Å — is explored
on the real code (`robust` stream) with every failure attributed to a signature; the two open defects are listed in
known_findings.json.
-/
import OptRs.Props.C10
import OptRs.Model.BuildUFF
import OptRs.Model.GenTypes
import OptRs.Model.Atoms
import OptRs.Gen.UffFormulas
import OptRs.Lemmas.GradBends
namespace OptRs.Props.C06
open OptRs OptRs.Model OptRs.Gen

variable {R : Type} (F : UffFns R) (row : Nat → Nat) (env : Nat → Env) (lin : Nat → Nat → Nat → Bool)

/-- In the source as translated on this run, no type name is sent to `todo!()`. -/
theorem no_todo_arm : uffInvTodoNames = [] := by decide

/-- Every row of the compiled type table carries a real element symbol (so the `unwrap`s in `gmp_electronegativity`,
`is_main_group`, `hybridisation`, `u_phi` cannot fail whichever row an atom is assigned). -/
theorem rows_have_elements : atomTypes.all (fun t => (fromString t.symbol).isSome) = true := by decide +kernel

/-- A bend's two rest-length lookups succeed whenever its legs are bonds. -/
theorem lookup_succeeds (bs : List Bond) (i j : Nat) (h : bonded bs i j = true) : (r0Lookup F row bs i j).isSome = true := by
  unfold r0Lookup
  obtain ⟨_, b, hb, hk⟩ := (bonded_iff bs i j).mp h
  have : ∃ b ∈ bs, (b.key == pairKey i j) = true := ⟨b, hb, by simp [Bond.key, (pairKey_eq_iff _ _ _ _).mpr hk]⟩
  cases hf : bs.find? (fun b => b.key == pairKey i j) with
  | none =>
    rw [List.find?_eq_none] at hf
    obtain ⟨b', hb', hk'⟩ := this
    exact absurd hk' (hf b' hb')
  | some b => simp

/-- **Construction is total**: for connectivity derived from a well-formed bond list, if the inversion decision never says
`todo`, `UFF::new`'s term construction does not abort — for any numeric layer, typing and geometry. -/
theorem builder_total (n : Nat) (bs : List Bond) (hw : WellFormed n bs)
    (hno : ∀ r, (match F.inversion r with | .todo => False | _ => True)) :
    (buildUFF F row env lin (Conn.ofBonds n bs)).isSome = true := by
  unfold buildUFF
  simp only
  have hb : (addAngleBends F row env (Conn.ofBonds n bs).bonds (Conn.ofBonds n bs).angles).all Option.isSome = true := by
    rw [List.all_eq_true]
    intro t ht
    simp only [addAngleBends, List.mem_map] at ht
    obtain ⟨a, ha, rfl⟩ := ht
    obtain ⟨i, j, k⟩ := a
    -- every angle is a bonded path
    have hbonds : (Conn.ofBonds n bs).bonds = bs := rfl
    have hpath : bonded bs i j = true ∧ bonded bs j k = true := by
      have hmem : (i, j, k) ∈ (Conn.ofBonds n bs).angles := ha
      unfold Conn.ofBonds Conn.derive addAngles at hmem
      simp only at hmem
      split at hmem
      · simp at hmem
      · rcases mem_insertAllByKey angleKey _ _ _ hmem with h | h
        · simp at h
        · have := (C10.angle_insertions_mem n bs hw (i, j, k)).mp h
          exact ⟨this.1, this.2.1⟩
    rw [hbonds]
    have h1 := lookup_succeeds F row bs i j hpath.1
    have h2 := lookup_succeeds F row bs j k hpath.2
    cases hr1 : r0Lookup F row bs i j with
    | none => rw [hr1] at h1; simp at h1
    | some a =>
      cases hr2 : r0Lookup F row bs j k with
      | none => rw [hr2] at h2; simp at h2
      | some b => simp only; split <;> simp
  have hi : (addInversions F row (Conn.ofBonds n bs).bonds (Conn.ofBonds n bs).impropers).all Option.isSome = true := by
    rw [List.all_eq_true]
    intro t ht
    simp only [addInversions, List.mem_filterMap] at ht
    obtain ⟨d, _, hd⟩ := ht
    obtain ⟨c, i, j, k⟩ := d
    have := hno (row c)
    unfold inversionOf at hd
    cases hdec : F.inversion (row c) with
    | carbon => simp [hdec] at hd; subst hd; rfl
    | todo => rw [hdec] at this; exact absurd this (by simp)
    | table kc c0 c1 c2 => simp [hdec] at hd; subst hd; rfl
    | skip => simp [hdec] at hd
  simp [hb, hi]

/-! ### Where the bends are singular (reals) -/

open OptRs.Lemmas OptRs.Model.Energy in
/-- The bend energies are regular (differentiable, all denominators non-zero) at every geometry with r_ij ≠ 0, r_kj ≠ 0
and sin θ ≠ 0 — those three are the only singular configurations of the bend terms (with n ≠ 0 for the periodic form). -/
theorem bend_regular_off_singular_set (ρ : Nat → ℝ) (h : BendRegular ρ) :
    angleBE.Reg ρ ∧ (ρ 21 ≠ 0 → angleAE.Reg ρ) := ⟨angleB_reg ρ h, fun hn => angleA_reg ρ h hn⟩

/-- The cosine-harmonic coefficient c₂ = 1/(4 sin²θ₀): a division by zero exactly when sin θ₀ = 0. -/
theorem c2_denominator_zero_iff (t0 : ℝ) : 4 * Real.sin t0 ^ 2 = 0 ↔ Real.sin t0 = 0 := by
  constructor
  · intro h
    have : Real.sin t0 ^ 2 = 0 := by linarith
    exact pow_eq_zero_iff (by norm_num) |>.mp this
  · intro h; rw [h]; norm_num

/-- The rows of the compiled table whose natural angle is exactly π (sin θ₀ = 0): the centre types for which a
cosine-harmonic bend would have infinite coefficients. They get that form whenever the environment rule does not
send the centre to linear / trigonal-planar / square-planar / octahedral. -/
theorem theta_pi_rows :
    (atomTypes.filter fun t => t.theta == Num.pi).map (·.name) =
      ["H_", "Li", "C_1", "N_1", "O_1", "F_", "Na", "Mg3+2", "P_3+5", "Br", "Rb", "Ta3+5", "Ru6+2", "Pd4+2", "Hg1+2", "Th6+4", "U_6+4"].map
        (fun s => s.toList.map Char.toNat) := by decide +kernel

/-- Which environments take the cosine-harmonic form. -/
theorem typeB_environments (e : Env) :
    e.isTypeA = false ↔ e = .none ∨ e = .bent ∨ e = .trigonalPyramidal ∨ e = .tetrahedral ∨ e = .trigonalBipyramidal ∨ e = .unknown := by
  cases e <;> simp [Env.isTypeA]

end OptRs.Props.C06
