/-
C03 — Energy is invariant to rigid motion; forces carry no net force or torque.

Proved over the reals, for the energy model of each of the seven term kinds and the gradient programs translated from the
source on this run:
* translation invariance of every term's energy (unconditional) — hence of any force field;
* rotation invariance of every term's energy under any proper rotation (RᵀR = 1, det R = 1) — the torsion off its branch cut;
* zero net force of every term's translated gradient (consequence of invariance + "gradient = derivative", C02), and of
  every force field built from such terms;
* perception depends on the coordinates only through the candidate lists (distances), so it is unchanged by any map that
  preserves them.
Explored on the real code (`rigid` stream): energy invariance, gradient covariance under rotation, zero net force AND
torque, connectivity and force field rebuilt from moved coordinates — at offsets up to 1e4 Å.
* zero net torque of every term's translated gradient about each coordinate axis through the origin (by differentiating
  the invariance along the one-parameter rotation groups) — together with zero net force this is zero torque about any point.
* rotation covariance of every term's translated gradient: at the rotated geometry it is the rotated gradient, atom by
  atom (`Lemmas/Covariance.lean`: differentiate the invariance along straight lines; torsion: regularity is an open condition).
Not proved (explored only): float-level invariance.
-/
import OptRs.Lemmas.Translate
import OptRs.Lemmas.Rotate
import OptRs.Lemmas.Torque
import OptRs.Lemmas.Covariance
import OptRs.Model.Perceive
namespace OptRs.Props.C03
open OptRs OptRs.Lemmas OptRs.Model.Energy OptRs.Gen

/-! ### Translation -/

/-- Every term kind's energy is unchanged when all its atoms are moved by the same vector. -/
theorem energy_translation_invariant (τ : Fin 3 → ℝ) (ρ : Nat → ℝ) (n : Nat) :
    bondE.evalR (shiftEnv 2 τ ρ) = bondE.evalR ρ ∧ ljE.evalR (shiftEnv 2 τ ρ) = ljE.evalR ρ ∧
    (repulsionE n).evalR (shiftEnv 2 τ ρ) = (repulsionE n).evalR ρ ∧
    angleAE.evalR (shiftEnv 3 τ ρ) = angleAE.evalR ρ ∧ angleBE.evalR (shiftEnv 3 τ ρ) = angleBE.evalR ρ ∧
    torsionE.evalR (shiftEnv 4 τ ρ) = torsionE.evalR ρ ∧ inversionE.evalR (shiftEnv 4 τ ρ) = inversionE.evalR ρ :=
  ⟨bond_translate τ ρ, lj_translate τ ρ, repulsion_translate n τ ρ, angleA_translate τ ρ, angleB_translate τ ρ,
    torsion_translate τ ρ, inversion_translate τ ρ⟩

/-! ### Rotation -/

/-- Every term kind's energy is unchanged when all its atoms are rotated by the same proper rotation. -/
theorem energy_rotation_invariant (R : Rot) (ρ : Nat → ℝ) (n : Nat) :
    bondE.evalR (rotEnv 2 R ρ) = bondE.evalR ρ ∧ ljE.evalR (rotEnv 2 R ρ) = ljE.evalR ρ ∧
    (repulsionE n).evalR (rotEnv 2 R ρ) = (repulsionE n).evalR ρ ∧
    angleAE.evalR (rotEnv 3 R ρ) = angleAE.evalR ρ ∧ angleBE.evalR (rotEnv 3 R ρ) = angleBE.evalR ρ ∧
    inversionE.evalR (rotEnv 4 R ρ) = inversionE.evalR ρ ∧
    (TorsionRegular ρ → torsionE.evalR (rotEnv 4 R ρ) = torsionE.evalR ρ) :=
  ⟨bond_rotate R ρ, lj_rotate R ρ, repulsion_rotate n R ρ, angleA_rotate R ρ, angleB_rotate R ρ, inversion_rotate R ρ,
    fun h => torsion_rotate R ρ h⟩

/-- The geometric facts behind it: a proper rotation preserves dot products, commutes with the cross product, and so
preserves distances, bond angles, dihedral angles and inversion angles. -/
theorem rotation_preserves_geometry (R : Rot) (a b c d : Spec.V) :
    Spec.dot (rotV R a) (rotV R b) = Spec.dot a b ∧ Spec.cross (rotV R a) (rotV R b) = rotV R (Spec.cross a b) ∧
    Spec.dist (rotV R a) (rotV R b) = Spec.dist a b ∧
    Spec.bondAngle (rotV R a) (rotV R b) (rotV R c) = Spec.bondAngle a b c ∧
    Spec.dihedral (rotV R a) (rotV R b) (rotV R c) (rotV R d) = Spec.dihedral a b c d ∧
    Spec.inversionAngle (rotV R a) (rotV R b) (rotV R c) (rotV R d) = Spec.inversionAngle a b c d :=
  ⟨dot_rot R a b, cross_rot R a b, dist_rot R a b, bondAngle_rot R a b c, dihedral_rot R a b c d, inversionAngle_rot R a b c d⟩

/-! ### Zero net force -/

/-- **Per term**: along each axis the translated gradient's contributions to the term's atoms sum to zero. -/
theorem term_net_force_zero (ρ : Nat → ℝ) (c : Fin 3) (n : Nat) :
    (PairRegular ρ → ∑ a ∈ Finset.range 2, bondGrad.gradR ρ (3 * a + c) = 0) ∧
    (PairRegular ρ → ∑ a ∈ Finset.range 2, ljGrad.gradR ρ (3 * a + c) = 0) ∧
    (PairRegular ρ → ∑ a ∈ Finset.range 2, (repulsionGrad n).gradR ρ (3 * a + c) = 0) ∧
    (BendRegular ρ → ρ 21 ≠ 0 → ∑ a ∈ Finset.range 3, angleAGrad.gradR ρ (3 * a + c) = 0) ∧
    (BendRegular ρ → ∑ a ∈ Finset.range 3, angleBGrad.gradR ρ (3 * a + c) = 0) ∧
    (TorsionRegular ρ → ∑ a ∈ Finset.range 4, torsionGrad.gradR ρ (3 * a + c) = 0) ∧
    (InversionRegular ρ → ∑ a ∈ Finset.range 4, inversionGrad.gradR ρ (3 * a + c) = 0) :=
  ⟨fun h => bond_net_force ρ h c, fun h => lj_net_force ρ h c, fun h => repulsion_net_force n ρ h c,
    fun h hn => angleA_net_force ρ h hn c, fun h => angleB_net_force ρ h c, fun h => torsion_net_force ρ h c,
    fun h => inversion_net_force ρ h c⟩

/-- Generic form: any kind whose energy is translation invariant has zero net force at every regular point. -/
theorem net_force_zero_of_invariance (k : KindSpec)
    (hinv : ∀ τ ρ, k.E.evalR (shiftEnv k.na τ ρ) = k.E.evalR ρ) (ρ : Nat → ℝ) (hρ : k.Regular ρ) (c : Fin 3) :
    ∑ a ∈ Finset.range k.na, k.G.gradR ρ (3 * a + c) = 0 := net_force_zero k hinv ρ hρ c

/-! ### Zero net torque -/

/-- **Per term**: the translated gradient exerts no net torque — Σ_a r_a × g_a = 0, component by component. -/
theorem term_net_torque_zero (ρ : Nat → ℝ) (n : Nat) :
    (PairRegular ρ → TorqueFree 2 ρ (bondGrad.gradR ρ)) ∧ (PairRegular ρ → TorqueFree 2 ρ (ljGrad.gradR ρ)) ∧
    (PairRegular ρ → TorqueFree 2 ρ ((repulsionGrad n).gradR ρ)) ∧
    (BendRegular ρ → ρ 21 ≠ 0 → TorqueFree 3 ρ (angleAGrad.gradR ρ)) ∧ (BendRegular ρ → TorqueFree 3 ρ (angleBGrad.gradR ρ)) ∧
    (TorsionRegular ρ → TorqueFree 4 ρ (torsionGrad.gradR ρ)) ∧ (InversionRegular ρ → TorqueFree 4 ρ (inversionGrad.gradR ρ)) :=
  ⟨bond_net_torque ρ, lj_net_torque ρ, repulsion_net_torque n ρ, angleA_net_torque ρ, angleB_net_torque ρ,
    torsion_net_torque ρ, inversion_net_torque ρ⟩

/-- Generic form: any kind whose energy is invariant along the three one-parameter rotation groups is torque free at
every regular point. -/
theorem net_torque_zero_of_invariance (k : KindSpec) (ρ : Nat → ℝ) (hρ : k.Regular ρ)
    (hinv : ∀ (c : Fin 3) (t : ℝ), k.E.evalR (rotEnv k.na (rotAxis c t) ρ) = k.E.evalR ρ) :
    TorqueFree k.na ρ (k.G.gradR ρ) := net_torque_zero k ρ hρ hinv

/-! ### Rotation covariance of the gradient -/

/-- **Per term**: for every proper rotation `R` and every regular geometry, the translated gradient at the rotated geometry
is the rotated gradient: `g_a(Rx) = R g_a(x)` for each atom `a` of the term. -/
theorem term_gradient_covariant (R : Rot) (ρ : Nat → ℝ) (n : Nat) :
    (PairRegular ρ → ∀ a < 2, Spec.atom (bondGrad.gradR (rotEnv 2 R ρ)) a = rotV R (Spec.atom (bondGrad.gradR ρ) a)) ∧
    (PairRegular ρ → ∀ a < 2, Spec.atom (ljGrad.gradR (rotEnv 2 R ρ)) a = rotV R (Spec.atom (ljGrad.gradR ρ) a)) ∧
    (PairRegular ρ → ∀ a < 2, Spec.atom ((repulsionGrad n).gradR (rotEnv 2 R ρ)) a = rotV R (Spec.atom ((repulsionGrad n).gradR ρ) a)) ∧
    (BendRegular ρ → ρ 21 ≠ 0 → ∀ a < 3, Spec.atom (angleAGrad.gradR (rotEnv 3 R ρ)) a = rotV R (Spec.atom (angleAGrad.gradR ρ) a)) ∧
    (BendRegular ρ → ∀ a < 3, Spec.atom (angleBGrad.gradR (rotEnv 3 R ρ)) a = rotV R (Spec.atom (angleBGrad.gradR ρ) a)) ∧
    (TorsionRegular ρ → ∀ a < 4, Spec.atom (torsionGrad.gradR (rotEnv 4 R ρ)) a = rotV R (Spec.atom (torsionGrad.gradR ρ) a)) ∧
    (InversionRegular ρ → ∀ a < 4, Spec.atom (inversionGrad.gradR (rotEnv 4 R ρ)) a = rotV R (Spec.atom (inversionGrad.gradR ρ) a)) :=
  ⟨fun h a ha => bond_grad_covariant R ρ h a ha, fun h a ha => lj_grad_covariant R ρ h a ha,
   fun h a ha => repulsion_grad_covariant n R ρ h a ha, fun h hn a ha => angleA_grad_covariant R ρ h hn a ha,
   fun h a ha => angleB_grad_covariant R ρ h a ha, fun h a ha => torsion_grad_covariant R ρ h a ha,
   fun h a ha => inversion_grad_covariant R ρ h a ha⟩

/-- Non-vacuity: the bond kind at a concrete geometry under the quarter turn about z — atom 0's gradient `(gx, gy, gz)`
becomes `(−gy, gx, gz)`. -/
example (ρ : Nat → ℝ) (h : PairRegular ρ) :
    Spec.atom (bondGrad.gradR (rotEnv 2 quarterTurnZ ρ)) 0 = rotV quarterTurnZ (Spec.atom (bondGrad.gradR ρ) 0) :=
  bond_grad_covariant quarterTurnZ ρ h 0 (by norm_num)

/-! ### Perception -/

open OptRs.Model in
/-- Perceived connectivity depends on the geometry only through the candidate lists (which atoms are within bonding
distance of which, nearest first): two geometries with the same candidate lists — e.g. related by a rigid motion, which
preserves every distance — are perceived identically. -/
theorem perception_depends_only_on_candidates (zs : List Nat) (cands cands' : Nat → List Nat) (h : ∀ i, cands i = cands' i) :
    perceiveAll zs cands = perceiveAll zs cands' := by
  have : cands = cands' := funext h
  rw [this]

end OptRs.Props.C03
