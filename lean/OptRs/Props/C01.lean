/-
C01 — Analytic forces equal the derivative of the energy (whole force field).

`energyFF`/`gradFF` (Lemmas/FFReal.lean) model `Forcefield::energy` / `Forcefield::gradient` of both UFF and RB:
the energy is the sum of the terms' energies, the gradient is a zeroed buffer to which every term's translated
`add_gradient` program adds at its own atoms' slots. The correspondence (`ff` stream) checks on every run that the
Rust `energy`/`gradient` of built force fields equal exactly this sum/fold over the exported term list, bit for bit.
-/
import OptRs.Lemmas.FFReal
namespace OptRs.Props.C01
open OptRs

/-- For every list of terms (any kinds, any atoms, any parameters), every configuration regular for each term,
every atom and axis (slot `s = 3·atom + axis`): the gradient component is the partial derivative of the energy. -/
theorem gradient_is_derivative (ts : List Term) (x : Nat → ℝ) (s : Nat)
    (hreg : ∀ t ∈ ts, t.kind.Regular (t.env x)) :
    HasDerivAt (fun τ => energyFF ts (Function.update x s τ)) (gradFF ts x s) (x s) :=
  gradFF_is_derivative ts x s hreg

/-- The seven kinds the two force fields are made of all satisfy the per-kind obligations (regularity ⇒ differentiable,
tangent = translated gradient on every slot, nothing written elsewhere). -/
def kinds (n : Nat) : List KindSpec :=
  [bondKind, angleAKind, angleBKind, torsionKind, inversionKind, ljKind, repulsionKind n]

theorem kinds_atoms (n : Nat) : (kinds n).map (·.na) = [2, 3, 3, 4, 4, 2, 2] := rfl

/-- Non-vacuity: a two-term force field (a stretch and a repulsion on a three-atom array) at a regular point. -/
noncomputable def demoX : Nat → ℝ := fun n => if n = 3 then 1 else if n = 7 then 2 else 0
noncomputable def demoFF : List Term :=
  [{ kind := bondKind, idxs := [0, 1], params := [1, 700] }, { kind := repulsionKind 2, idxs := [2, 0], params := [10] }]

example : ∀ t ∈ demoFF, t.kind.Regular (t.env demoX) := by
  intro t ht
  simp only [demoFF, List.mem_cons, List.not_mem_nil, or_false] at ht
  rcases ht with rfl | rfl <;>
    simp [bondKind, repulsionKind, Lemmas.PairRegular, Term.env, Term.slot, demoX]

end OptRs.Props.C01
