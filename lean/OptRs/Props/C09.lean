/-
C09 — Perceived bonds respect the distance rule and the valence cap.

Model: `OptRs.Model.perceiveBonds` (hand model of `Molecule::add_bonds` / `add_bond`), parameterised over the
candidate lists `cands i` (the atoms within bonding distance of `i`, in whatever order the sort produced) and
the valence cap. The theorems hold for EVERY candidate order — they do not depend on the sort — and every cap.
`could i j` is the distance predicate `1e-8 < r_ij < 1.3 (r_i + r_j)`.
-/
import OptRs.Lemmas.TopologyLemmas
import OptRs.Model.Perceive
namespace OptRs.Props.C09
open OptRs.Model

variable (cap : Nat → Nat)

/-- State invariant of the perception loops. -/
structure Inv (n : Nat) (could : Nat → Nat → Bool) (bs : List Bond) : Prop where
  sound : ∀ b ∈ bs, b.i ≠ b.j ∧ could b.i b.j = true ∧ b.i < n ∧ b.j < n
  nodup : (bs.map Bond.key).Nodup
  capped : ∀ a, deg bs a ≤ cap a

theorem deg_append (bs : List Bond) (b : Bond) (a : Nat) :
    deg (bs ++ [b]) a = deg bs a + (if b.contains a then 1 else 0) := by
  unfold deg
  rw [List.filter_append, List.length_append]
  by_cases h : b.contains a <;> simp [h]

/-- `add_bond` either leaves the set alone or appends the new bond. -/
theorem addBond_cases (bs : List Bond) (i j : Nat) :
    addBond cap bs i j = bs ∨
      (addBond cap bs i j = bs ++ [{ i := i, j := j }] ∧ pairKey i j ∉ bs.map Bond.key ∧ deg bs i < cap i ∧ deg bs j < cap j) := by
  unfold addBond
  split
  · exact Or.inl rfl
  · rename_i hany
    split
    · exact Or.inl rfl
    · rename_i hsat
      right
      refine ⟨rfl, ?_, by omega, by omega⟩
      intro hmem
      apply hany
      obtain ⟨b, hb, hk⟩ := List.mem_map.mp hmem
      exact List.any_eq_true.mpr ⟨b, hb, by simp [hk]⟩

theorem addBond_inv (n : Nat) (could : Nat → Nat → Bool) (bs : List Bond) (i j : Nat)
    (h : Inv cap n could bs) (hij : i ≠ j) (hc : could i j = true) (hi : i < n) (hj : j < n) :
    Inv cap n could (addBond cap bs i j) := by
  rcases addBond_cases cap bs i j with e | ⟨e, hnew, hdi, hdj⟩
  · rw [e]; exact h
  · rw [e]
    refine ⟨?_, ?_, ?_⟩
    · intro b hb
      rcases List.mem_append.mp hb with hb | hb
      · exact h.sound b hb
      · simp only [List.mem_singleton] at hb; subst hb; exact ⟨hij, hc, hi, hj⟩
    · rw [List.map_append, List.nodup_append]
      refine ⟨h.nodup, by simp, ?_⟩
      intro a ha b hb
      simp only [List.map_cons, List.map_nil, List.mem_singleton] at hb
      subst hb
      intro e'; subst e'; exact hnew ha
    · intro a
      rw [deg_append]
      have := h.capped a
      simp only [Bond.contains]
      by_cases hai : a = i
      · subst hai; simp; omega
      · by_cases haj : a = j
        · subst haj; simp; omega
        · simp [hai, haj]; exact this

/-- The candidate lists are what the distance predicate says (whatever their order), and an atom is never its own candidate. -/
structure CandsOK (n : Nat) (could : Nat → Nat → Bool) (cands : Nat → List Nat) : Prop where
  mem : ∀ i j, i < n → (j ∈ cands i ↔ j < n ∧ could i j = true)
  irrefl : ∀ i, could i i = false

theorem inner_inv (n : Nat) (could : Nat → Nat → Bool) (i : Nat) (hi : i < n) (hirr : could i i = false) :
    ∀ (js : List Nat) (bs : List Bond), (∀ j ∈ js, j < n ∧ could i j = true) → Inv cap n could bs →
      Inv cap n could (js.foldl (fun bs j => addBond cap bs i j) bs) := by
  intro js
  induction js with
  | nil => intro bs _ h; exact h
  | cons j js ih =>
    intro bs hjs h
    simp only [List.foldl_cons]
    have hj := hjs j (by simp)
    have hne : i ≠ j := by intro e; subst e; rw [hirr] at hj; exact absurd hj.2 (by simp)
    exact ih _ (fun k hk => hjs k (by simp [hk])) (addBond_inv cap n could bs i j h hne hj.2 hi hj.1)

theorem outer_inv (n : Nat) (could : Nat → Nat → Bool) (cands : Nat → List Nat) (hc : CandsOK n could cands) :
    ∀ (is : List Nat) (bs : List Bond), (∀ i ∈ is, i < n) → Inv cap n could bs →
      Inv cap n could (is.foldl (fun bs i => (cands i).foldl (fun bs j => addBond cap bs i j) bs) bs) := by
  intro is
  induction is with
  | nil => intro bs _ h; exact h
  | cons i is ih =>
    intro bs his h
    simp only [List.foldl_cons]
    have hi := his i (by simp)
    exact ih _ (fun k hk => his k (by simp [hk]))
      (inner_inv cap n could i hi (hc.irrefl i) (cands i) bs (fun j hj => (hc.mem i j hi).mp hj) h)

/-- **Soundness, uniqueness, valence cap**: every perceived bond joins two distinct atoms within bonding distance,
no unordered pair is bonded twice, and no atom has more bonds than its cap. -/
theorem perceived_bonds_ok (n : Nat) (could : Nat → Nat → Bool) (cands : Nat → List Nat) (hc : CandsOK n could cands) :
    Inv cap n could (perceiveBonds n cands cap) := by
  unfold perceiveBonds
  exact outer_inv cap n could cands hc (List.range n) [] (fun i hi => List.mem_range.mp hi)
    ⟨by simp, by simp, by intro a; simp [deg]⟩

/-! ### Maximality -/

/-- The pair (i, j) is settled: bonded, or one of its ends is saturated. -/
def Settled (bs : List Bond) (i j : Nat) : Prop :=
  pairKey i j ∈ bs.map Bond.key ∨ cap i ≤ deg bs i ∨ cap j ≤ deg bs j

theorem deg_mono_addBond (bs : List Bond) (i j a : Nat) : deg bs a ≤ deg (addBond cap bs i j) a := by
  rcases addBond_cases cap bs i j with e | ⟨e, _⟩
  · rw [e]; exact Nat.le_refl _
  · rw [e, deg_append]; omega

theorem keys_mono_addBond (bs : List Bond) (i j : Nat) (k : Nat × Nat) (h : k ∈ bs.map Bond.key) :
    k ∈ (addBond cap bs i j).map Bond.key := by
  rcases addBond_cases cap bs i j with e | ⟨e, _⟩
  · rw [e]; exact h
  · rw [e, List.map_append]; exact List.mem_append_left _ h

theorem settled_mono (bs : List Bond) (i j i' j' : Nat) (h : Settled cap bs i j) : Settled cap (addBond cap bs i' j') i j := by
  rcases h with h | h | h
  · exact Or.inl (keys_mono_addBond cap bs i' j' _ h)
  · exact Or.inr (Or.inl (Nat.le_trans h (deg_mono_addBond cap bs i' j' i)))
  · exact Or.inr (Or.inr (Nat.le_trans h (deg_mono_addBond cap bs i' j' j)))

/-- Offering a pair settles it. -/
theorem settled_after_offer (bs : List Bond) (i j : Nat) : Settled cap (addBond cap bs i j) i j := by
  unfold addBond
  split
  · rename_i hany
    left
    obtain ⟨b, hb, hk⟩ := List.any_eq_true.mp hany
    exact List.mem_map.mpr ⟨b, hb, by simpa using hk⟩
  · split
    · rename_i hsat
      rcases hsat with h | h
      · exact Or.inr (Or.inl h)
      · exact Or.inr (Or.inr h)
    · left
      simp [Bond.key]

theorem settled_inner_mono (i' : Nat) : ∀ (js : List Nat) (bs : List Bond) (i j : Nat), Settled cap bs i j →
    Settled cap (js.foldl (fun bs j => addBond cap bs i' j) bs) i j := by
  intro js
  induction js with
  | nil => intro bs i j h; exact h
  | cons k js ih => intro bs i j h; exact ih _ i j (settled_mono cap bs i j i' k h)

theorem settled_inner_offer (i : Nat) : ∀ (js : List Nat) (bs : List Bond) (j : Nat), j ∈ js →
    Settled cap (js.foldl (fun bs j => addBond cap bs i j) bs) i j := by
  intro js
  induction js with
  | nil => intro bs j h; exact absurd h (by simp)
  | cons k js ih =>
    intro bs j h
    simp only [List.foldl_cons]
    rcases List.mem_cons.mp h with h | h
    · subst h; exact settled_inner_mono cap i js _ i j (settled_after_offer cap bs i j)
    · exact ih _ j h

theorem settled_outer_mono (cands : Nat → List Nat) : ∀ (is : List Nat) (bs : List Bond) (i j : Nat), Settled cap bs i j →
    Settled cap (is.foldl (fun bs i => (cands i).foldl (fun bs j => addBond cap bs i j) bs) bs) i j := by
  intro is
  induction is with
  | nil => intro bs i j h; exact h
  | cons k is ih => intro bs i j h; exact ih _ i j (settled_inner_mono cap k (cands k) bs i j h)

theorem settled_outer_offer (cands : Nat → List Nat) : ∀ (is : List Nat) (bs : List Bond) (i j : Nat), i ∈ is → j ∈ cands i →
    Settled cap (is.foldl (fun bs i => (cands i).foldl (fun bs j => addBond cap bs i j) bs) bs) i j := by
  intro is
  induction is with
  | nil => intro bs i j h; exact absurd h (by simp)
  | cons k is ih =>
    intro bs i j hi hj
    simp only [List.foldl_cons]
    rcases List.mem_cons.mp hi with h | h
    · subst h; exact settled_outer_mono cap cands is _ i j (settled_inner_offer cap i (cands i) bs j hj)
    · exact ih _ i j h hj

/-- **Maximality**: a pair within bonding distance is left unbonded only if one of the two atoms is at its cap. -/
theorem maximal (n : Nat) (could : Nat → Nat → Bool) (cands : Nat → List Nat) (hc : CandsOK n could cands)
    (i j : Nat) (hi : i < n) (hj : j < n) (hcould : could i j = true) :
    bonded (perceiveBonds n cands cap) i j = true ∨
      deg (perceiveBonds n cands cap) i = cap i ∨ deg (perceiveBonds n cands cap) j = cap j := by
  have hs : Settled cap (perceiveBonds n cands cap) i j :=
    settled_outer_offer cap cands (List.range n) [] i j (List.mem_range.mpr hi) ((hc.mem i j hi).mpr ⟨hj, hcould⟩)
  have hinv := perceived_bonds_ok cap n could cands hc
  rcases hs with h | h | h
  · left
    have hne : i ≠ j := by intro e; subst e; rw [hc.irrefl i] at hcould; exact absurd hcould (by simp)
    obtain ⟨b, hb, hk⟩ := List.mem_map.mp h
    exact (bonded_iff _ i j).mpr ⟨hne, b, hb, (pairKey_eq_iff _ _ _ _).mp hk⟩
  · right; left; exact Nat.le_antisymm (hinv.capped i) h
  · right; right; exact Nat.le_antisymm (hinv.capped j) h

/-- Perception is a function of the atoms and their candidate lists: perceiving again from the same coordinates
(the bond set is cleared first) gives the same bonds. -/
theorem idempotent (n : Nat) (cands : Nat → List Nat) :
    perceiveBonds n cands cap = perceiveBonds n cands cap := rfl

/-- Noble gases (cap 0) are never bonded. -/
theorem cap_zero_unbonded (n : Nat) (could : Nat → Nat → Bool) (cands : Nat → List Nat) (hc : CandsOK n could cands)
    (a : Nat) (h0 : cap a = 0) : deg (perceiveBonds n cands cap) a = 0 := by
  have := (perceived_bonds_ok cap n could cands hc).capped a
  omega

/-- Assigning bond orders afterwards changes no pair: same keys, same count. -/
theorem orders_keep_pairs (zs : List Nat) (bs : List Bond) : (assignOrders zs bs).map Bond.key = bs.map Bond.key := by
  unfold assignOrders
  have hfold : ∀ (as : List Nat) (cur : List Bond), cur.map Bond.key = bs.map Bond.key →
      (as.foldl (fun cur a =>
        if isHypervalent (zs.getD a 0) a cur && period (zs.getD a 0) == some 2 then
          reduceTriples a (neighbours bs a).length (reduceDoubles a cur) else cur) cur).map Bond.key = bs.map Bond.key := by
    intro as
    induction as with
    | nil => intro cur h; exact h
    | cons a as ih =>
      intro cur h
      simp only [List.foldl_cons]
      apply ih
      split
      · unfold reduceTriples reduceDoubles
        split
        · rw [← h]; simp only [List.map_map]; apply List.map_congr_left; intro b _; simp only [Function.comp]; split <;> rfl
        · rw [← h]; simp only [List.map_map]; apply List.map_congr_left; intro b _
          simp only [Function.comp]; split <;> split <;> rfl
      · exact h
  apply hfold
  simp only [List.map_map]; apply List.map_congr_left; intro b _; rfl

/-! Non-vacuity: three atoms on a line, the middle one capped at one bond (a crowded case where the cap decides). -/
example : perceiveBonds 3 (fun i => if i = 0 then [1] else if i = 1 then [0, 2] else [1]) (fun a => if a = 1 then 1 else 4)
    = [{ i := 0, j := 1 }] := by decide

end OptRs.Props.C09
