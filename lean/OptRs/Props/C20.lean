/-
C20 — Periodic-table lookups are correct for all 118 elements.

The quantifier is finite, so kernel evaluation (`decide +kernel`) over the whole domain *is* the proof.
Left of every equation: the hand model `OptRs.Model.*` over the tables translated from /repo on this run.
Right: reference data in `C20Ref.lean` or an independently written layout below.
-/
import OptRs.Model.Atoms
import OptRs.Props.C20Ref
namespace OptRs.Props.C20
open OptRs OptRs.Model OptRs.Gen OptRs.Ref

/-! ### Symbols and numbers -/

/-- The compiled symbol table is the IUPAC one. -/
theorem symbols_are_iupac : elements = Ref.symbols := by decide +kernel

theorem symbols_nodup : elements.Nodup := by decide +kernel

theorem symbols_count : elements.length = 118 := by decide +kernel

/-- symbol → number → symbol and number → symbol → number are identities on the 118 elements. -/
theorem symbol_number_bijection :
    (∀ z ∈ zs, fromString (toSymbol z) = some z) ∧
    (∀ s ∈ elements, ∃ z ∈ zs, fromString s = some z ∧ toSymbol z = s) := by
  constructor
  · decide +kernel
  · have h : elements.all (fun s => match fromString s with
        | some z => decide (z ∈ zs) && decide (toSymbol z = s)
        | none => false) = true := by decide +kernel
    intro s hs
    have := List.all_eq_true.mp h s hs
    revert this
    cases hfs : fromString s with
    | none => simp
    | some z => intro h; simp at h; exact ⟨z, h.1, rfl, h.2⟩

/-- Atomic numbers 0 and > 118 are refused — for every such number, not a sample. -/
theorem fromInteger_refuses (z : Nat) (h : z = 0 ∨ z > 118) : fromInteger z = none := by
  have : elements.length = 118 := symbols_count
  unfold fromInteger; rw [this]; simp [h]

theorem fromInteger_accepts (z : Nat) (h : 1 ≤ z ∧ z ≤ 118) : fromInteger z = some z := by
  have : elements.length = 118 := symbols_count
  unfold fromInteger; rw [this]
  have : ¬ (z = 0 ∨ z > 118) := by omega
  simp [this]

/-- Strings that are not element symbols are refused — for every such string. -/
theorem fromString_refuses (s : List Nat) (h : s ∉ elements) : fromString s = none := by
  unfold fromString; simp [h]

/-! ### Period and group -/

theorem period_correct : ∀ z ∈ zs, period z = some (refPeriod z) := by decide +kernel

theorem period_range : ∀ z ∈ zs, 1 ≤ refPeriod z ∧ refPeriod z ≤ 7 := by decide +kernel

theorem group_correct : ∀ z ∈ zs, group z = refGroup z := by decide +kernel

/-- The fifteen lanthanides and fifteen actinides report 0, everything else 1..18. -/
theorem group_zero_iff : ∀ z ∈ zs, (group z = 0 ↔ (57 ≤ z ∧ z ≤ 71) ∨ (89 ≤ z ∧ z ≤ 103)) := by decide +kernel

theorem group_range : ∀ z ∈ zs, group z ≤ 18 := by decide +kernel

/-- The main-group flag is set exactly for the p-block (groups 13–18) of periods 2–7. -/
theorem main_group_flag : ∀ z ∈ zs, (isMainGroup z = true ↔ (13 ≤ refGroup z ∧ 2 ≤ refPeriod z)) := by decide +kernel

/-! ### Covalent radii -/

/-- The tabulated radius as a natural number of picometres when it is one. -/
def pmNat? : Num → Option Nat
  | .dec n 0 _ => if 0 ≤ n then some n.toNat else none
  | _ => none

theorem radii_count : covalentRadiiPm.length = 86 := by decide +kernel

/-- Every tabulated radius (Z ≤ 86) is the published Cordero value. -/
theorem radii_published : covalentRadiiPm.map pmNat? = Ref.corderoPm.map some := by decide +kernel

/-- The conversion factor is exactly 1/100 (pm → Å). -/
theorem pm_to_angstrom : picometersToAngstroms.frac? = some (1, 100) := by decide +kernel

/-- Tabulated radius of `z` in whole picometres (0 when absent). -/
def pmOf (z : Nat) : Nat := (((covalentRadiiPm.map pmNat?)[z - 1]?).bind id).getD 0

/-- Consequence for the compiled table: each alkali metal is the strict maximum of its period (periods 2–6). -/
theorem alkali_is_largest :
    ∀ z ∈ List.range' 3 84, ∀ a ∈ [3, 11, 19, 37, 55], refPeriod z = refPeriod a → z ≠ a → pmOf z < pmOf a := by
  decide +kernel

/-- Consequence: radii do not rise from Yb through Lu, Hf, Ta to W (the contraction continues into the 5d row). -/
theorem lanthanide_contraction_into_5d :
    pmOf 74 ≤ pmOf 73 ∧ pmOf 73 ≤ pmOf 72 ∧ pmOf 72 ≤ pmOf 71 ∧ pmOf 71 ≤ pmOf 70 := by decide +kernel

/-! ### Lookups are total, positive, and default where the tables end -/

/-- A strictly positive exact decimal. -/
def numPos : Num → Bool
  | .dec n _ _ => decide (0 < n)
  | _ => false

theorem radius_positive : ∀ z ∈ zs, (radiusPm? z).all numPos = true := by decide +kernel

theorem radius_table_extent : ∀ z ∈ zs, ((radiusPm? z).isSome ↔ z ≤ 86) := by decide +kernel

/-- Past the table the lookup yields the documented default 2.0 Å, which is positive. -/
theorem radius_default_value : defaultRadius.frac? = some (20, 10) := by decide +kernel

theorem valence_bounds : ∀ z ∈ zs, maximalValence z ≤ 7 := by decide +kernel

theorem valence_default_past_table : ∀ z ∈ zs, 38 < z → maximalValence z = 6 := by decide +kernel

theorem valence_table_extent : maximalValencies.length = 38 ∧ defaultValence = 6 := by decide +kernel

theorem electronegativity_positive : ∀ z ∈ zs, (electronegativity? z).all numPos = true := by decide +kernel

theorem electronegativity_table_extent : ∀ z ∈ zs, ((electronegativity? z).isSome ↔ z ≤ 51) := by decide +kernel

theorem electronegativity_default : defaultElectronegativity.frac? = some (50, 10) := by decide +kernel

end OptRs.Props.C20
