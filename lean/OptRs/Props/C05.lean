/-
C05 — Every optimisation is a bounded steepest-descent walk.

Model: `OptRs.Model.optimise` (hand model of `SteepestDecentOptimiser::optimise`), a reactive machine fed an
arbitrary list of answers. Every theorem below quantifies over ALL answer lists, all start geometries, all
initial step lengths and budgets, and an arbitrary scalar type with arbitrary operations — so it covers UFF, RB and
every synthetic or stateful implementation of the energy/gradient interface, including NaN answers. The model is
tied to the code by the recorded-history correspondence (`sd` stream): fed the recorded answers it must emit the
recorded request sequence and final coordinates bit for bit.
-/
import OptRs.Model.SD
namespace OptRs.Props.C05
open OptRs.Model

variable {R : Type} (ops : SDOps R) (init : Geom R)

/-- The shape of a walk entered with step length `a` at geometry `x`. -/
def Walk : R → Geom R → List (Pass R) → Prop
  | _, _, [] => True
  | a, x, p :: rest =>
    p.alphaBefore = a ∧ p.xBefore = x ∧
    -- the step length is kept, or halved together with a restart from the input geometry
    ((p.restarted = false ∧ p.alphaAt = a ∧ p.xAt = x) ∨ (p.restarted = true ∧ p.alphaAt = ops.half a ∧ p.xAt = init)) ∧
    -- the convergence test is applied to the gradient just received
    p.converged = ops.converged p.grad ∧
    -- converged: stop here, coordinates untouched; otherwise move every atom against its gradient by the one step length
    ((p.converged = true ∧ p.xAfter = p.xAt ∧ rest = []) ∨
      (p.converged = false ∧ p.xAfter = stepGeom ops p.alphaAt p.xAt p.grad)) ∧
    Walk p.alphaAt p.xAfter rest

theorem pass_shape (s : SDState R) (answers : List (Ans R)) (p : Pass R) (s' : SDState R) (rest : List (Ans R))
    (h : pass ops init s answers = some (p, s', rest)) :
    p.alphaBefore = s.alpha ∧ p.xBefore = s.x ∧
    ((p.restarted = false ∧ p.alphaAt = s.alpha ∧ p.xAt = s.x) ∨ (p.restarted = true ∧ p.alphaAt = ops.half s.alpha ∧ p.xAt = init)) ∧
    p.converged = ops.converged p.grad ∧
    ((p.converged = true ∧ p.xAfter = p.xAt) ∨ (p.converged = false ∧ p.xAfter = stepGeom ops p.alphaAt p.xAt p.grad)) ∧
    s'.alpha = p.alphaAt ∧ s'.x = p.xAfter ∧
    (p.energyAsked.isSome = true ↔ s.hist.length < ops.window) := by
  unfold pass at h
  -- split on the optional energy request
  by_cases hw : s.hist.length < ops.window
  · simp only [hw, if_true] at h
    match answers, h with
    | .e v :: more, h =>
      simp only at h
      match more, h with
      | .g g :: more', h =>
        simp only [Option.some.injEq, Prod.mk.injEq] at h
        obtain ⟨rfl, rfl, _⟩ := h
        refine ⟨rfl, rfl, ?_, rfl, ?_, rfl, rfl, by simp [hw]⟩
        · by_cases hr : rising ops (s.hist ++ [v]) = true <;> simp [hr]
        · by_cases hc : ops.converged g = true <;> simp [hc]
  · simp only [hw, if_false] at h
    match answers, h with
    | .g g :: more', h =>
      simp only [Option.some.injEq, Prod.mk.injEq] at h
      obtain ⟨rfl, rfl, _⟩ := h
      refine ⟨rfl, rfl, ?_, rfl, ?_, rfl, rfl, by simp [hw]⟩
      · by_cases hr : rising ops s.hist = true <;> simp [hr]
      · by_cases hc : ops.converged g = true <;> simp [hc]

/-- **Shape of every run** (all answer lists): the passes form a `Walk`, and the coordinates left behind are those of
the last pass (or the entry geometry if no pass was made). -/
theorem runPasses_walk : ∀ (fuel : Nat) (s : SDState R) (answers : List (Ans R)),
    Walk ops init s.alpha s.x (runPasses ops init fuel s answers).1 ∧
    (runPasses ops init fuel s answers).2.1.x =
      (match (runPasses ops init fuel s answers).1.getLast? with | some p => p.xAfter | none => s.x) := by
  intro fuel
  induction fuel with
  | zero => intro s answers; simp [runPasses, Walk]
  | succ fuel ih =>
    intro s answers
    unfold runPasses
    match hp : pass ops init s answers with
    | none => simp [Walk]
    | some (p, s', rest) =>
      obtain ⟨h1, h2, h3, h4, h5, h6, h7, _⟩ := pass_shape ops init s answers p s' rest hp
      dsimp only
      by_cases hc : p.converged = true
      · rw [if_pos hc]
        simp only [Walk, List.getLast?_singleton]
        refine ⟨⟨h1, h2, h3, h4, ?_, trivial⟩, h7⟩
        rcases h5 with h5 | h5
        · exact Or.inl ⟨hc, h5.2, trivial⟩
        · rw [hc] at h5; exact absurd h5.1 (by simp)
      · have hc' : p.converged = false := by cases h : p.converged <;> simp_all
        rw [if_neg hc]
        have ih' := ih s' rest
        rw [h6, h7] at ih'
        simp only [Walk]
        refine ⟨⟨h1, h2, h3, h4, ?_, ih'.1⟩, ?_⟩
        · rcases h5 with h5 | h5
          · rw [hc'] at h5; exact absurd h5.1 (by simp)
          · exact Or.inr ⟨hc', h5.2⟩
        · rw [ih'.2]
          cases hl : (runPasses ops init fuel s' rest).1 with
          | nil => simp
          | cons q qs =>
            have hne : (q :: qs) ≠ [] := by simp
            rw [List.getLast?_cons_cons, List.getLast?_eq_some_getLast hne]

/-- **Budget**: at most `fuel` gradients are requested (one per pass). -/
theorem runPasses_budget : ∀ (fuel : Nat) (s : SDState R) (answers : List (Ans R)),
    (runPasses ops init fuel s answers).1.length ≤ fuel := by
  intro fuel
  induction fuel with
  | zero => intro s answers; simp [runPasses]
  | succ fuel ih =>
    intro s answers
    unfold runPasses
    match pass ops init s answers with
    | none => simp
    | some (p, s', rest) =>
      by_cases hc : p.converged = true
      · simp [hc]
      · simp only [hc, Bool.false_eq_true, if_false, List.length_cons]
        have := ih s' rest
        omega

/-- **It stops early only when converged, and exactly then**: the outcome `budget` means all `fuel` passes were made;
`converged` means the last pass's gradient met the criterion; no earlier pass did. -/
theorem runPasses_outcome : ∀ (fuel : Nat) (s : SDState R) (answers : List (Ans R)),
    let r := runPasses ops init fuel s answers
    (r.2.2 = .budget → r.1.length = fuel) ∧
    (r.2.2 = .converged → ∃ p, r.1.getLast? = some p ∧ p.converged = true) ∧
    (∀ p ∈ r.1.dropLast, p.converged = false) := by
  intro fuel
  induction fuel with
  | zero => intro s answers; simp [runPasses]
  | succ fuel ih =>
    intro s answers
    unfold runPasses
    match pass ops init s answers with
    | none => simp
    | some (p, s', rest) =>
      by_cases hc : p.converged = true
      · simp [hc]
      · have hc' : p.converged = false := by cases h : p.converged <;> simp_all
        simp only [hc', Bool.false_eq_true, if_false]
        obtain ⟨i1, i2, i3⟩ := ih s' rest
        refine ⟨fun h => by simp [i1 h], ?_, ?_⟩
        · intro h
          obtain ⟨q, hq, hqc⟩ := i2 h
          refine ⟨q, ?_, hqc⟩
          cases hl : (runPasses ops init fuel s' rest).1 with
          | nil => rw [hl] at hq; simp at hq
          | cons a as => rw [hl] at hq; simp [List.getLast?_cons_cons, hq]
        · intro q hq
          cases hl : (runPasses ops init fuel s' rest).1 with
          | nil => rw [hl] at hq; simp at hq
          | cons a as =>
            rw [hl] at hq
            simp only [List.dropLast_cons_cons, List.mem_cons] at hq
            rcases hq with rfl | hq
            · exact hc'
            · exact i3 q (by rw [hl]; exact hq)

/-! ### The property's clauses, for `optimise` -/

variable (alpha₀ : R) (maxIter : Nat) (x₀ : Geom R) (answers : List (Ans R))

/-- Step shape, restart on shrink, and (by unfolding `Walk`) “the step length never grows”. -/
theorem walk : Walk ops x₀ alpha₀ x₀ (optimise ops alpha₀ maxIter x₀ answers).1 :=
  (runPasses_walk ops x₀ maxIter { alpha := alpha₀, iter := 0, hist := [], x := x₀ } answers).1

/-- At most `maxIter` (500; 20 inside the 3-D builder) gradients are requested. -/
theorem budget : (optimise ops alpha₀ maxIter x₀ answers).1.length ≤ maxIter :=
  runPasses_budget ops x₀ maxIter _ answers

/-- The run ends before the budget only at a geometry whose gradient met the convergence test, and never continues past one. -/
theorem stops_iff_converged :
    let r := optimise ops alpha₀ maxIter x₀ answers
    (r.2.2 = .budget → r.1.length = maxIter) ∧
    (r.2.2 = .converged → ∃ p, r.1.getLast? = some p ∧ ops.converged p.grad = true) ∧
    (∀ p ∈ r.1.dropLast, ops.converged p.grad = false) := by
  have h := runPasses_outcome ops x₀ maxIter { alpha := alpha₀, iter := 0, hist := [], x := x₀ } answers
  have hw := walk ops alpha₀ maxIter x₀ answers
  -- `p.converged = ops.converged p.grad` for every pass of a walk
  have hconv : ∀ (l : List (Pass R)) (a : R) (x : Geom R), Walk ops x₀ a x l → ∀ p ∈ l, p.converged = ops.converged p.grad := by
    intro l
    induction l with
    | nil => intro _ _ _ p hp; simp at hp
    | cons q qs ih =>
      intro a x hw p hp
      simp only [Walk] at hw
      rcases List.mem_cons.mp hp with rfl | hp
      · exact hw.2.2.2.1
      · exact ih _ _ hw.2.2.2.2.2 p hp
  refine ⟨h.1, ?_, ?_⟩
  · intro ho
    obtain ⟨p, hp, hc⟩ := h.2.1 ho
    exact ⟨p, hp, by rw [← hconv _ _ _ hw p (List.mem_of_getLast? hp)]; exact hc⟩
  · intro p hp
    rw [← hconv _ _ _ hw p (List.dropLast_subset _ hp)]
    exact h.2.2 p hp

/-- The returned coordinates are those of the last step taken (or the input if no gradient was requested). -/
theorem returns_last :
    (optimise ops alpha₀ maxIter x₀ answers).2.1 =
      (match (optimise ops alpha₀ maxIter x₀ answers).1.getLast? with | some p => p.xAfter | none => x₀) :=
  (runPasses_walk ops x₀ maxIter { alpha := alpha₀, iter := 0, hist := [], x := x₀ } answers).2

/-- Any property of step lengths preserved by halving (positivity, “is α₀/2ᵏ”, “≤ α₀”) holds of every step length used. -/
theorem alpha_invariant (P : R → Prop) (h0 : P alpha₀) (hh : ∀ a, P a → P (ops.half a)) :
    ∀ p ∈ (optimise ops alpha₀ maxIter x₀ answers).1, P p.alphaAt := by
  have hw := walk ops alpha₀ maxIter x₀ answers
  have gen : ∀ (l : List (Pass R)) (a : R) (x : Geom R), P a → Walk ops x₀ a x l → ∀ p ∈ l, P p.alphaAt := by
    intro l
    induction l with
    | nil => intro _ _ _ _ p hp; simp at hp
    | cons q qs ih =>
      intro a x ha hw p hp
      simp only [Walk] at hw
      have hq : P q.alphaAt := by
        rcases hw.2.2.1 with h | h
        · rw [h.2.1]; exact ha
        · rw [h.2.1]; exact hh a ha
      rcases List.mem_cons.mp hp with rfl | hp
      · exact hq
      · exact ih _ _ hq hw.2.2.2.2.2 p hp
  exact gen _ _ _ h0 hw

/-- Every energy request is made at the geometry the pass was entered with, which is the geometry of the gradient
request that follows unless a restart intervenes. -/
theorem energy_request_geometry : ∀ p ∈ (optimise ops alpha₀ maxIter x₀ answers).1,
    p.restarted = false → p.xAt = p.xBefore := by
  have hw := walk ops alpha₀ maxIter x₀ answers
  have gen : ∀ (l : List (Pass R)) (a : R) (x : Geom R), Walk ops x₀ a x l → ∀ p ∈ l, p.restarted = false → p.xAt = p.xBefore := by
    intro l
    induction l with
    | nil => intro _ _ _ p hp; simp at hp
    | cons q qs ih =>
      intro a x hw p hp hr
      simp only [Walk] at hw
      rcases List.mem_cons.mp hp with rfl | hp
      · rcases hw.2.2.1 with h | h
        · rw [h.2.2, hw.2.1]
        · rw [h.1] at hr; exact absurd hr (by simp)
      · exact ih _ _ hw.2.2.2.2.2 p hp hr
  exact gen _ _ _ hw

/-- A start that already meets the criterion is returned unchanged: one energy request, one gradient request, stop. -/
theorem converged_start_unchanged (e : R) (g : Geom R) (rest : List (Ans R)) (hwin : 0 < ops.window)
    (hc : ops.converged g = true) (hm : 0 < maxIter) :
    (optimise ops alpha₀ maxIter x₀ (.e e :: .g g :: rest)).2.1 = x₀ ∧
    (optimise ops alpha₀ maxIter x₀ (.e e :: .g g :: rest)).1.length = 1 := by
  obtain ⟨m, rfl⟩ : ∃ m, maxIter = m + 1 := ⟨maxIter - 1, by omega⟩
  simp [optimise, runPasses, pass, hwin, rising, hc]

/-! Non-vacuity: a two-pass run over the naturals (step = truncated subtraction) that restarts once. -/
def natOps : SDOps Nat :=
  { stepCoord := fun p a v => p - a * v, half := fun a => a / 2, gt := fun a b => a > b,
    converged := fun g => g.all (fun v => v.1 + v.2.1 + v.2.2 == 0), window := 5 }

example : (optimise natOps 4 10 [(100, 100, 100)] [.e 5, .g [(1, 1, 1)], .e 7, .g [(1, 1, 1)], .e 6, .g [(0, 0, 0)]]).1.map
    (fun p => (p.restarted, p.alphaAt, p.xAt)) =
    [(false, 4, [(100, 100, 100)]), (true, 2, [(100, 100, 100)]), (false, 2, [(98, 98, 98)])] := by decide

end OptRs.Props.C05
