/-
C04 — Optimisation never returns a higher-energy structure; only coordinates change.

What is proved (on the optimiser model of C05, for all answer histories):
* frame: `Molecule::optimise` replaces the coordinates and nothing else;
* fixed point: a start that already meets the convergence criterion is returned unchanged, bit for bit;
* the energies the optimiser remembers are never rising (so before any restart no checked iterate is above the start);
* conditional descent over ℝ: one step against the gradient with `α·L ≤ 2` does not raise an `L`-smooth energy.
What is NOT provable and is explored instead (`opt` stream): the unconditional "never higher" clause on UFF/RB — it is a
property of floating-point trajectories of a non-convex function, after the fifth iterate the optimiser does not look at
the energy at all. The full statement is `NeverHigher` below; it is not proved, and the file says so.
-/
import OptRs.Props.C05
import Mathlib.Tactic.Linarith
import Mathlib.Tactic.Ring
import Mathlib.Data.Real.Basic
namespace OptRs.Props.C04
open OptRs.Model

/-- The molecule as `optimise` sees it: everything except the coordinates is carried along untouched. -/
structure MolRec (R C : Type) where
  atoms : List Nat
  connectivity : C
  coords : Geom R

variable {R C : Type} (ops : SDOps R)

/-- `Molecule::optimise(ff)`: run the optimiser on the coordinates, store the result. -/
def optimiseMol (alpha₀ : R) (maxIter : Nat) (m : MolRec R C) (answers : List (Ans R)) : MolRec R C :=
  { m with coords := (optimise ops alpha₀ maxIter m.coords answers).2.1 }

/-- **Frame**: atoms, their order and the connectivity are untouched, whatever the force field answers. -/
theorem only_coordinates_change (alpha₀ : R) (maxIter : Nat) (m : MolRec R C) (answers : List (Ans R)) :
    (optimiseMol ops alpha₀ maxIter m answers).atoms = m.atoms ∧
    (optimiseMol ops alpha₀ maxIter m answers).connectivity = m.connectivity := ⟨rfl, rfl⟩

/-- **Fixed point**: if the first gradient meets the criterion, the molecule is returned unchanged — no arithmetic touches it. -/
theorem converged_input_unchanged (alpha₀ : R) (maxIter : Nat) (m : MolRec R C) (e : R) (g : Geom R) (rest : List (Ans R))
    (hwin : 0 < ops.window) (hc : ops.converged g = true) (hm : 0 < maxIter) :
    optimiseMol ops alpha₀ maxIter m (.e e :: .g g :: rest) = m := by
  unfold optimiseMol
  rw [(C05.converged_start_unchanged ops alpha₀ maxIter m.coords e g rest hwin hc hm).1]

/-! ### The remembered energies never rise -/

/-- No entry of the history is greater than its predecessor. -/
def NonRising : List R → Prop
  | [] => True
  | [_] => True
  | a :: b :: rest => ops.gt b a = false ∧ NonRising (b :: rest)

/-- `rising` looks only at the last two entries. -/
theorem rising_cons (a : R) (l : List R) (hl : 2 ≤ l.length) : rising ops (a :: l) = rising ops l := by
  unfold rising
  rw [List.reverse_cons]
  match hrev : l.reverse with
  | [] => have := congrArg List.length hrev; simp only [List.length_reverse, List.length_nil] at this; omega
  | [x] => have := congrArg List.length hrev; simp only [List.length_reverse, List.length_cons, List.length_nil] at this; omega
  | x :: y :: rest => simp

theorem nonRising_append (hist : List R) (v : R) (h : NonRising ops hist) (hr : rising ops (hist ++ [v]) = false) :
    NonRising ops (hist ++ [v]) := by
  induction hist with
  | nil => simp [NonRising]
  | cons a as ih =>
    cases as with
    | nil =>
      simp only [List.cons_append, List.nil_append, NonRising, and_true]
      simpa [rising] using hr
    | cons b bs =>
      simp only [List.cons_append, NonRising] at h ⊢
      refine ⟨h.1, ?_⟩
      apply ih h.2
      have hlen : 2 ≤ (b :: bs ++ [v]).length := by simp
      have := rising_cons ops a (b :: bs ++ [v]) hlen
      simp only [List.cons_append] at this hr ⊢
      rw [← this]; exact hr

/-- One pass keeps the history non-rising: a rise clears it. -/
theorem pass_nonRising (init : Geom R) (s : SDState R) (answers : List (Ans R)) (p : Pass R) (s' : SDState R)
    (rest : List (Ans R)) (h : pass ops init s answers = some (p, s', rest)) (hs : NonRising ops s.hist) :
    NonRising ops s'.hist := by
  unfold pass at h
  by_cases hw : s.hist.length < ops.window
  · simp only [hw, if_true] at h
    match answers, h with
    | .e v :: .g g :: more, h =>
      simp only [Option.some.injEq, Prod.mk.injEq] at h
      obtain ⟨_, rfl, _⟩ := h
      by_cases hr : rising ops (s.hist ++ [v]) = true
      · simp [hr, NonRising]
      · have hr' : rising ops (s.hist ++ [v]) = false := by cases h : rising ops (s.hist ++ [v]) <;> simp_all
        simp only [hr', Bool.false_eq_true, if_false]
        exact nonRising_append ops s.hist v hs hr'
  · simp only [hw, if_false] at h
    match answers, h with
    | .g g :: more, h =>
      simp only [Option.some.injEq, Prod.mk.injEq] at h
      obtain ⟨_, rfl, _⟩ := h
      by_cases hr : rising ops s.hist = true
      · simp [hr, NonRising]
      · have hr' : rising ops s.hist = false := by cases h : rising ops s.hist <;> simp_all
        simp only [hr', Bool.false_eq_true, if_false]
        exact hs

/-- **Checked prefix**: at every moment the energies remembered since the last restart are non-rising. -/
theorem remembered_energies_nonRising (init : Geom R) : ∀ (fuel : Nat) (s : SDState R) (answers : List (Ans R)),
    NonRising ops s.hist → NonRising ops (runPasses ops init fuel s answers).2.1.hist := by
  intro fuel
  induction fuel with
  | zero => intro s _ h; exact h
  | succ fuel ih =>
    intro s answers hs
    unfold runPasses
    match hp : pass ops init s answers with
    | none => exact hs
    | some (p, s', rest) =>
      have h' := pass_nonRising ops init s answers p s' rest hp hs
      dsimp only
      by_cases hc : p.converged = true
      · rw [if_pos hc]; exact h'
      · rw [if_neg hc]; exact ih s' rest h'

/-! ### Conditional descent (real arithmetic) -/

/-- One steepest-descent step does not raise an energy that satisfies the quadratic upper bound along the step:
with `g2 = ‖∇E(x)‖²`, the step `y = x − α ∇E(x)` has `∇E(x)·(y − x) = −α g2` and `‖y − x‖² = α² g2`. -/
theorem descent_step (Ex Ey α L g2 : ℝ) (hα : 0 ≤ α) (hg : 0 ≤ g2) (hL : α * L ≤ 2)
    (hub : Ey ≤ Ex + (-(α * g2)) + L / 2 * (α ^ 2 * g2)) : Ey ≤ Ex := by
  have h : α * g2 * (α * L) ≤ α * g2 * 2 := by
    apply mul_le_mul_of_nonneg_left hL
    exact mul_nonneg hα hg
  nlinarith [h]

/-- The full energy clause of C04 for a given energy function, start and answer history — **not proved** (see header);
decided per input by the `opt` search on the real optimiser. -/
def NeverHigher (E : Geom ℝ → ℝ) (ops : SDOps ℝ) (alpha₀ : ℝ) (maxIter : Nat) (x₀ : Geom ℝ) (answers : List (Ans ℝ)) : Prop :=
  E (optimise ops alpha₀ maxIter x₀ answers).2.1 ≤ E x₀

end OptRs.Props.C04
