/-
C11 — The force field contains each interaction exactly once.

Model: `OptRs.Model.buildUFF` / `buildRB` (hand model of `UFF::new` / `RB::new`), generic in the numeric layer: the
theorems hold for ANY parameter functions, any typing and any geometry predicate. Combined with C10 (angles,
dihedrals, pairs are exactly the bond graph's, each once) they give the property. The model — with the translated
tables, formulas and typing rules at `f64` — reproduces the real term lists (kinds, atoms, parameter bit patterns)
on every generated molecule (`build` stream).
-/
import OptRs.Model.BuildUFF
import OptRs.Lemmas.TopologyLemmas
set_option linter.unusedSimpArgs false
namespace OptRs.Props.C11
open OptRs.Model

variable {R : Type} (F : UffFns R) (row : Nat → Nat) (env : Nat → Env) (lin : Nat → Nat → Nat → Bool)

/-- **Stretches**: exactly one per bond, on its two atoms, in the bonds' order. -/
theorem stretches_one_per_bond (bs : List Bond) :
    (addBondStretches F row bs).map (·.idxs) = bs.map (fun b => [b.i, b.j]) ∧
    ∀ t ∈ addBondStretches F row bs, t.kind = .bond := by
  constructor
  · simp [addBondStretches, List.map_map, Function.comp]
  · intro t ht
    simp only [addBondStretches, List.mem_map] at ht
    obtain ⟨b, _, rfl⟩ := ht
    rfl

/-- **van der Waals**: exactly one per non-bonded pair. -/
theorem vdw_one_per_pair (ps : List (Nat × Nat)) :
    (addVdw F row ps).map (·.idxs) = ps.map (fun p => [p.1, p.2]) ∧ ∀ t ∈ addVdw F row ps, t.kind = .lj := by
  constructor
  · simp [addVdw, List.map_map, Function.comp]
  · intro t ht
    simp only [addVdw, List.mem_map] at ht
    obtain ⟨b, _, rfl⟩ := ht
    rfl

/-- **Bends**: when construction succeeds, exactly one per angle, on its three atoms, of the periodic form exactly at
centres whose environment is linear / trigonal-planar / square-planar / octahedral. -/
theorem bends_one_per_angle (bs : List Bond) (angles : List Angle)
    (hok : (addAngleBends F row env bs angles).all Option.isSome = true) :
    ((addAngleBends F row env bs angles).filterMap id).map (·.idxs) = angles.map (fun a => [a.1, a.2.1, a.2.2]) ∧
    ∀ t ∈ (addAngleBends F row env bs angles).filterMap id,
      (t.kind = .angleA ∨ t.kind = .angleB) ∧ (t.kind = .angleA ↔ (env (t.idxs.getD 1 0)).isTypeA = true) := by
  induction angles with
  | nil => simp [addAngleBends]
  | cons a as ih =>
    obtain ⟨i, j, k⟩ := a
    simp only [addAngleBends, List.map_cons, List.all_cons, Bool.and_eq_true] at hok ⊢
    have ih' := ih (by simpa [addAngleBends] using hok.2)
    simp only [addAngleBends] at ih'
    cases h1 : r0Lookup F row bs i j with
    | none => simp [h1] at hok
    | some rij =>
      cases h2 : r0Lookup F row bs j k with
      | none => simp [h1, h2] at hok
      | some rjk =>
        by_cases hA : (env j).isTypeA = true
        · simp only [h1, h2, hA, if_true, List.filterMap_cons, id, List.map_cons, ih'.1, true_and, List.mem_cons]
          rintro t (rfl | ht)
          · simp [hA]
          · exact ih'.2 t ht
        · simp only [h1, h2, hA, Bool.false_eq_true, if_false, List.filterMap_cons, id, List.map_cons, ih'.1, true_and, List.mem_cons]
          rintro t (rfl | ht)
          · simp [hA]
          · exact ih'.2 t ht

/-- **Torsions**: at most one per proper dihedral and none elsewhere (a sublist of the propers, atoms kept); a torsion is
present exactly when both central types are main-group (the numeric layer returns constants) and no flanking angle is
close to linear. -/
theorem torsions_sublist (propers : List Proper) :
    ((addTorsions F row lin propers).map (·.idxs)).Sublist (propers.map fun d => [d.1, d.2.1, d.2.2.1, d.2.2.2]) ∧
    ∀ d ∈ propers, (([d.1, d.2.1, d.2.2.1, d.2.2.2] ∈ (addTorsions F row lin propers).map (·.idxs)) →
      True) ∧
      ((∃ c, F.torsion (row d.2.1) (row d.2.2.1) = some c) ∧ lin d.1 d.2.1 d.2.2.1 = false ∧ lin d.2.1 d.2.2.1 d.2.2.2 = false →
        [d.1, d.2.1, d.2.2.1, d.2.2.2] ∈ (addTorsions F row lin propers).map (·.idxs)) := by
  constructor
  · induction propers with
    | nil => simp [addTorsions]
    | cons d ds ih =>
      obtain ⟨i, j, k, l⟩ := d
      simp only [addTorsions, List.filterMap_cons, List.map_cons] at ih ⊢
      cases ht : F.torsion (row j) (row k) with
      | none => simp only [ht]; exact List.Sublist.cons _ ih
      | some c =>
        obtain ⟨p0, n, v⟩ := c
        by_cases hl : (lin i j k || lin j k l) = true
        · simp only [ht, hl, if_true]; exact List.Sublist.cons _ ih
        · simp only [ht, hl, Bool.false_eq_true, if_false, List.map_cons]; exact List.Sublist.cons_cons _ ih
  · intro d hd
    refine ⟨fun _ => trivial, ?_⟩
    rintro ⟨⟨c, hc⟩, h1, h2⟩
    simp only [addTorsions, List.mem_map, List.mem_filterMap]
    obtain ⟨i, j, k, l⟩ := d
    obtain ⟨p0, n, v⟩ := c
    refine ⟨{ kind := .torsion, idxs := [i, j, k, l], params := [p0, n, v] }, ⟨(i, j, k, l), hd, ?_⟩, rfl⟩
    simp only at hc h1 h2
    simp [hc, h1, h2]

/-- No torsion at all on a dihedral whose central types are not both main-group (so certainly no non-zero barrier). -/
theorem no_torsion_off_main_group (propers : List Proper) (t : UTerm R) (ht : t ∈ addTorsions F row lin propers) :
    ∃ d ∈ propers, t.idxs = [d.1, d.2.1, d.2.2.1, d.2.2.2] ∧ (F.torsion (row d.2.1) (row d.2.2.1)).isSome = true := by
  simp only [addTorsions, List.mem_filterMap] at ht
  obtain ⟨d, hd, h⟩ := ht
  obtain ⟨i, j, k, l⟩ := d
  refine ⟨(i, j, k, l), hd, ?_⟩
  cases hc : F.torsion (row j) (row k) with
  | none => simp [hc] at h
  | some c =>
    obtain ⟨p0, n, v⟩ := c
    simp only [hc] at h
    split at h
    · simp at h
    · simp only [Option.some.injEq] at h
      subst h
      simp [hc]

theorem inversionOf_cases (bs : List Bond) (d : Improper) :
    (inversionOf F row bs d = none ∧ (match F.inversion (row d.1) with | .skip => True | _ => False)) ∨
    (inversionOf F row bs d = some none ∧ (match F.inversion (row d.1) with | .todo => True | _ => False)) ∨
    (∃ t, inversionOf F row bs d = some (some t) ∧ t.idxs = [d.1, d.2.1, d.2.2.1, d.2.2.2] ∧ t.kind = .inversion ∧
      (match F.inversion (row d.1) with | .carbon => True | .table .. => True | _ => False)) := by
  obtain ⟨c, i, j, k⟩ := d
  unfold inversionOf
  cases hdec : F.inversion (row c) with
  | carbon => right; right; simp [hdec]
  | todo => right; left; simp [hdec]
  | table kc c0 c1 c2 => right; right; simp [hdec]
  | skip => left; simp [hdec]

/-- **Inversions**: the inversion terms are a sublist of the impropers (atoms kept) — at most one per improper, none elsewhere. -/
theorem inversions_sublist (bs : List Bond) (impropers : List Improper) :
    (((addInversions F row bs impropers).filterMap id).map (·.idxs)).Sublist
      (impropers.map fun d => [d.1, d.2.1, d.2.2.1, d.2.2.2]) := by
  induction impropers with
  | nil => simp [addInversions]
  | cons d ds ih =>
    simp only [addInversions, List.filterMap_cons, List.map_cons] at ih ⊢
    rcases inversionOf_cases F row bs d with ⟨h, _⟩ | ⟨h, _⟩ | ⟨t, h, hi, _, _⟩
    · rw [h]; exact List.Sublist.cons _ ih
    · rw [h]; simp only [List.filterMap_cons, id]; exact List.Sublist.cons _ ih
    · rw [h]; simp only [List.filterMap_cons, id, List.map_cons, hi]; exact List.Sublist.cons_cons _ ih

/-- **Exactly one inversion for every three-coordinate centre whose type has constants, none elsewhere**: for an improper
`d` (centres are distinct: C10), a term centred on `d`'s centre exists iff the decision on its type is `carbon` or `table`. -/
theorem inversion_present_iff (bs : List Bond) (impropers : List Improper) (d : Improper) (hd : d ∈ impropers)
    (hnd : (impropers.map (·.1)).Nodup) :
    (∃ t ∈ (addInversions F row bs impropers).filterMap id, t.idxs.head? = some d.1) ↔
      (match F.inversion (row d.1) with | .carbon => True | .table .. => True | _ => False) := by
  -- terms made from other impropers are centred elsewhere
  have other : ∀ (es : List Improper) (c : Nat), c ∉ es.map (·.1) →
      ¬ ∃ t ∈ (addInversions F row bs es).filterMap id, t.idxs.head? = some c := by
    intro es c hc
    rintro ⟨t, ht, hh⟩
    simp only [addInversions, List.mem_filterMap, id] at ht
    obtain ⟨ot, ⟨e, he, hoe⟩, rfl⟩ := ht
    rcases inversionOf_cases F row bs e with ⟨h, _⟩ | ⟨h, _⟩ | ⟨t', h, hi, _, _⟩
    · rw [h] at hoe; simp at hoe
    · rw [h] at hoe; simp at hoe
    · rw [h] at hoe
      simp only [Option.some.injEq] at hoe
      subst hoe
      rw [hi] at hh
      simp only [List.head?_cons, Option.some.injEq] at hh
      exact hc (List.mem_map.mpr ⟨e, he, hh⟩)
  induction impropers with
  | nil => simp at hd
  | cons e es ih =>
    simp only [List.map_cons, List.nodup_cons] at hnd
    rcases List.mem_cons.mp hd with rfl | hd'
    · have hrest := other es d.1 hnd.1
      simp only [addInversions, List.filterMap_cons] at hrest ⊢
      rcases inversionOf_cases F row bs d with ⟨h, hm⟩ | ⟨h, hm⟩ | ⟨t, h, hi, _, hm⟩
      · rw [h]
        constructor
        · intro hx; exact absurd hx hrest
        · intro hx; revert hm hx; cases F.inversion (row d.1) <;> simp
      · rw [h]; simp only [List.filterMap_cons, id]
        constructor
        · intro hx; exact absurd hx hrest
        · intro hx; revert hm hx; cases F.inversion (row d.1) <;> simp
      · rw [h]; simp only [List.filterMap_cons, id]
        constructor
        · intro _; exact hm
        · intro _; exact ⟨t, List.mem_cons_self, by rw [hi]; rfl⟩
    · have hne : e.1 ≠ d.1 := by
        intro heq
        exact hnd.1 (heq ▸ List.mem_map.mpr ⟨d, hd', rfl⟩)
      refine Iff.trans ?_ (ih hd' hnd.2)
      simp only [addInversions, List.filterMap_cons]
      rcases inversionOf_cases F row bs e with ⟨h, _⟩ | ⟨h, _⟩ | ⟨t, h, hi, _, _⟩
      · rw [h]
      · rw [h]; simp only [List.filterMap_cons, id]
      · rw [h]; simp only [List.filterMap_cons, id, List.mem_cons]
        constructor
        · rintro ⟨t', rfl | ht', hh⟩
          · rw [hi] at hh; simp only [List.head?_cons, Option.some.injEq] at hh; exact absurd hh hne
          · exact ⟨t', ht', hh⟩
        · rintro ⟨t', ht', hh⟩; exact ⟨t', Or.inr ht', hh⟩

/-- **UFF as a whole**: a successful construction is stretches ++ bends ++ torsions ++ inversions ++ van der Waals of exactly
the molecule's bonds, angles, proper dihedrals, improper dihedrals and non-bonded pairs. -/
theorem buildUFF_structure (c : Conn) (ts : List (UTerm R)) (h : buildUFF F row env lin c = some ts) :
    ts = addBondStretches F row c.bonds ++ (addAngleBends F row env c.bonds c.angles).filterMap id ++
      addTorsions F row lin c.propers ++ (addInversions F row c.bonds c.impropers).filterMap id ++ addVdw F row c.nbPairs ∧
    (addAngleBends F row env c.bonds c.angles).all Option.isSome = true := by
  unfold buildUFF at h
  simp only at h
  split at h
  · rename_i hok
    simp only [Option.some.injEq] at h
    simp only [Bool.and_eq_true] at hok
    exact ⟨h.symm, hok.1⟩
  · simp at h

/-- **RB**: exactly one stretch per bond resting at the sum of the two covalent radii with the one common force constant,
exactly one repulsion per non-bonded pair with the one common strength and exponent, nothing else. -/
theorem buildRB_structure (radius : Nat → R) (add : R → R → R) (k cc ex : R) (conn : Conn) :
    buildRB radius add k cc ex conn =
      (conn.bonds.map fun b => ({ kind := .bond, idxs := [b.i, b.j], params := [add (radius b.i) (radius b.j), k] } : UTerm R)) ++
      (conn.nbPairs.map fun p => ({ kind := .repulsion, idxs := [p.1, p.2], params := [cc, ex] } : UTerm R)) := rfl

/-! Non-vacuity: ethene-like connectivity (two three-coordinate carbons) with a toy numeric layer. -/
def toyF : UffFns Nat :=
  { ofNat := id, r0 := fun _ _ _ => 1, kij := fun _ _ _ => 2, kijk := fun _ _ _ _ _ => 3, typeB := fun _ => (0, 0, 0),
    torsion := fun a b => if a = 6 ∧ b = 6 then some (0, 2, 5) else none,
    inversion := fun r => if r = 6 then .carbon else .skip, isO2 := fun _ => false, invCarbon := fun _ => (1, 1, 0, 6),
    ljSigma := fun _ _ => 1, ljD := fun _ _ => 1 }

def ethene : Conn := Conn.ofBonds 6 [{ i := 0, j := 1, order := .double }, { i := 0, j := 2 }, { i := 0, j := 3 }, { i := 1, j := 4 }, { i := 1, j := 5 }]

example : ((buildUFF toyF (fun a => if a < 2 then 6 else 1) (fun a => if a < 2 then .trigonalPlanar else .linear) (fun _ _ _ => false) ethene).map
    (fun ts => (ts.filter (·.kind == .bond)).length + 100 * (ts.filter (·.kind == .angleA)).length + 10000 * (ts.filter (·.kind == .torsion)).length
      + 1000000 * (ts.filter (·.kind == .inversion)).length + 100000000 * (ts.filter (·.kind == .lj)).length)) = some 1002040605 := by
  decide

end OptRs.Props.C11
