/-
C08 — Results are reproducible: independent of hash-table iteration order.

Every traversal of a `HashSet` is modelled as a traversal of SOME enumeration of the set; "all hash seeds" is "all
permutations" (`List.Perm`). Theorems: whatever the enumeration of the bond set,
* the neighbour lists, the view atom typing reads, the improper dihedrals and the non-bonded pairs are EQUAL;
* angles and proper dihedrals are equal as sets of keys;
* the constructed UFF / RB term lists are permutations of each other with equal atoms and parameters;
* over the reals, energy and gradient of permuted term lists are equal (in doubles only the summation order differs:
  the statement's "equal to rounding").
Perception itself (`add_bonds`) never traverses a set in hash order except to count and to test membership.
Tied to the code by the `build` correspondence (the deterministic model reproduces every construction) and searched by
repeated construction in one process and repeated runs of the command-line tool (`repro` stream).
-/
import OptRs.Props.C10
import OptRs.Model.BuildUFF
import OptRs.Lemmas.FFReal
namespace OptRs.Props.C08
open OptRs OptRs.Model

/-! ### Sorting makes the neighbour list independent of the enumeration -/

theorem insertNat_perm (x : Nat) (l : List Nat) : (insertNat x l).Perm (x :: l) := by
  induction l with
  | nil => exact List.Perm.refl _
  | cons y ys ih =>
    unfold insertNat
    split
    · exact List.Perm.refl _
    · exact (List.Perm.cons y ih).trans (List.Perm.swap x y ys)

theorem sortNat_perm (l : List Nat) : (sortNat l).Perm l := by
  induction l with
  | nil => exact List.Perm.refl _
  | cons x xs ih =>
    have : sortNat (x :: xs) = insertNat x (sortNat xs) := rfl
    rw [this]
    exact (insertNat_perm x _).trans (List.Perm.cons x ih)

theorem insertNat_sorted (x : Nat) (l : List Nat) (h : l.Pairwise (· ≤ ·)) : (insertNat x l).Pairwise (· ≤ ·) := by
  induction l with
  | nil => simp [insertNat]
  | cons y ys ih =>
    unfold insertNat
    split
    · rename_i hxy
      refine List.Pairwise.cons ?_ h
      intro z hz
      rcases List.mem_cons.mp hz with rfl | hz
      · exact hxy
      · exact Nat.le_trans hxy ((List.pairwise_cons.mp h).1 z hz)
    · rename_i hxy
      have hy := List.pairwise_cons.mp h
      refine List.Pairwise.cons ?_ (ih hy.2)
      intro z hz
      rcases (mem_insertNat x z ys).mp hz with rfl | hz
      · omega
      · exact hy.1 z hz

theorem sortNat_sorted (l : List Nat) : (sortNat l).Pairwise (· ≤ ·) := by
  induction l with
  | nil => simp [sortNat]
  | cons x xs ih =>
    have : sortNat (x :: xs) = insertNat x (sortNat xs) := rfl
    rw [this]; exact insertNat_sorted x _ ih

/-- Sorting forgets the order of its input. -/
theorem sortNat_eq_of_perm {l₁ l₂ : List Nat} (h : l₁.Perm l₂) : sortNat l₁ = sortNat l₂ :=
  List.Perm.eq_of_pairwise (fun _ _ _ _ h1 h2 => Nat.le_antisymm h1 h2) (sortNat_sorted l₁) (sortNat_sorted l₂)
    ((sortNat_perm l₁).trans (h.trans (sortNat_perm l₂).symm))

variable {bs bs' : List Bond}

/-- **Neighbour lists do not depend on the enumeration of the bond set.** -/
theorem neighbours_perm (h : bs.Perm bs') (a : Nat) : neighbours bs a = neighbours bs' a := by
  unfold neighbours
  exact sortNat_eq_of_perm (h.filterMap _)

theorem bonded_perm (h : bs.Perm bs') (i j : Nat) : bonded bs i j = bonded bs' i j := by
  unfold bonded
  congr 1
  have : ∀ p : Bond → Bool, bs.any p = bs'.any p := by
    intro p
    induction h with
    | nil => rfl
    | cons x _ ih => simp [ih]
    | swap x y l => simp only [List.any_cons]; cases p x <;> cases p y <;> simp
    | trans _ _ ih1 ih2 => exact ih1.trans ih2
  exact this _

theorem sum_perm {l₁ l₂ : List Nat} (h : l₁.Perm l₂) : l₁.sum = l₂.sum := by
  induction h with
  | nil => rfl
  | cons x _ ih => simp [ih]
  | swap x y l => simp only [List.sum_cons]; omega
  | trans _ _ ih1 ih2 => exact ih1.trans ih2

/-- **Atom typing reads the same view of the bond set whatever its enumeration** — so any typing rule that is a function
of (element, view, coordinates), as `match_quality` + `set_coordination_environment` are, assigns the same type. -/
theorem atomView_perm (h : bs.Perm bs') (a : Nat) : atomView bs a = atomView bs' a := by
  unfold atomView
  congr 1
  · exact neighbours_perm h a
  · exact h.countP_eq _
  · exact sum_perm ((h.filter _).map _)

/-- Impropers and non-bonded pairs come out equal, element for element. -/
theorem impropers_pairs_perm (n : Nat) (h : bs.Perm bs') :
    (Conn.ofBonds n bs).impropers = (Conn.ofBonds n bs').impropers ∧ (Conn.ofBonds n bs).nbPairs = (Conn.ofBonds n bs').nbPairs := by
  constructor
  · simp only [Conn.ofBonds, Conn.derive, addDihedrals]
    split
    · rfl
    · simp only [improperInsertions]
      congr 2
      funext c
      rw [neighbours_perm h c]
  · simp only [Conn.ofBonds, Conn.derive, nonBondedPairs]
    congr 1
    funext i
    congr 1
    funext j
    rw [bonded_perm h i j]

theorem wellFormed_perm (n : Nat) (h : bs.Perm bs') (hw : WellFormed n bs) : WellFormed n bs' :=
  fun b hb => hw b (h.symm.subset hb)

/-- Angles and proper dihedrals: the same sets of keys (each key once, by C10). -/
theorem angles_propers_perm (n : Nat) (h : bs.Perm bs') (hw : WellFormed n bs) :
    (∀ key, key ∈ (Conn.ofBonds n bs).angles.map angleKey ↔ key ∈ (Conn.ofBonds n bs').angles.map angleKey) ∧
    (∀ key, key ∈ (Conn.ofBonds n bs).propers.map properKey ↔ key ∈ (Conn.ofBonds n bs').propers.map properKey) := by
  have hw' := wellFormed_perm n h hw
  constructor
  · intro key
    rw [C10.angles_exact n bs hw, C10.angles_exact n bs' hw']
    unfold C10.IsAnglePath
    simp only [bonded_perm h]
  · intro key
    by_cases hn : 4 ≤ n
    · rw [C10.propers_exact n bs hw hn, C10.propers_exact n bs' hw' hn]
      unfold C10.IsProperPath
      simp only [bonded_perm h]
    · have : n < 4 := by omega
      simp [Conn.ofBonds, Conn.derive, addDihedrals, this]

/-! ### Term lists -/

variable {R : Type} (F : UffFns R) (row : Nat → Nat) (env : Nat → Env) (lin : Nat → Nat → Nat → Bool)

theorem find_perm_of_nodup (h : bs.Perm bs') (hnd : (bs.map Bond.key).Nodup) (k : Nat × Nat) :
    bs.find? (fun b => b.key == k) = bs'.find? (fun b => b.key == k) := by
  -- at most one element has the key, so `find?` returns it wherever it sits
  have uniq : ∀ (l : List Bond), (l.map Bond.key).Nodup → ∀ b ∈ l, b.key = k → l.find? (fun b => b.key == k) = some b := by
    intro l
    induction l with
    | nil => intro _ b hb; simp at hb
    | cons c cs ih =>
      intro hnd b hb hk
      simp only [List.map_cons, List.nodup_cons] at hnd
      rcases List.mem_cons.mp hb with rfl | hb'
      · simp [hk]
      · have hck : c.key ≠ k := by
          intro e
          exact hnd.1 (List.mem_map.mpr ⟨b, hb', by rw [hk, e]⟩)
        have hbeq : (c.key == k) = false := by simpa using hck
        rw [List.find?_cons, hbeq]
        exact ih hnd.2 b hb' hk
  have hnd' : (bs'.map Bond.key).Nodup := (h.map _).nodup_iff.mp hnd
  cases hf : bs.find? (fun b => b.key == k) with
  | none =>
    have hnone : ∀ b ∈ bs, ¬ (b.key == k) = true := by simpa [List.find?_eq_none] using hf
    symm
    rw [List.find?_eq_none]
    intro b hb
    exact hnone b (h.symm.subset hb)
  | some b =>
    have hb := List.mem_of_find?_eq_some hf
    have hk : b.key = k := by simpa using List.find?_some hf
    exact (uniq bs' hnd' b (h.subset hb) hk).symm

theorem r0Lookup_perm (h : bs.Perm bs') (hnd : (bs.map Bond.key).Nodup) (i j : Nat) :
    r0Lookup F row bs i j = r0Lookup F row bs' i j := by
  unfold r0Lookup; rw [find_perm_of_nodup h hnd]

/-- **The UFF pieces are permutations of each other with equal atoms and parameters**: enumerate the bonds, angles, proper
and improper dihedrals in any order — each list of terms is the same multiset. -/
theorem stretches_perm (h : bs.Perm bs') : (addBondStretches F row bs).Perm (addBondStretches F row bs') := h.map _

theorem bends_perm (h : bs.Perm bs') (hnd : (bs.map Bond.key).Nodup) {as as' : List Angle} (ha : as.Perm as') :
    (addAngleBends F row env bs as).Perm (addAngleBends F row env bs' as') := by
  have : addAngleBends F row env bs as' = addAngleBends F row env bs' as' := by
    unfold addAngleBends
    apply List.map_congr_left
    intro a _
    obtain ⟨i, j, k⟩ := a
    simp only [r0Lookup_perm F row h hnd]
  rw [← this]
  exact ha.map _

theorem torsions_perm {ps ps' : List Proper} (hp : ps.Perm ps') :
    (addTorsions F row lin ps).Perm (addTorsions F row lin ps') := hp.filterMap _

theorem inversions_perm (h : bs.Perm bs') {is is' : List Improper} (hi : is.Perm is') :
    (addInversions F row bs is).Perm (addInversions F row bs' is') := by
  have : addInversions F row bs is' = addInversions F row bs' is' := by
    unfold addInversions
    congr 1
    funext d
    obtain ⟨c, i, j, k⟩ := d
    simp only [inversionOf, neighbours_perm h]
  rw [← this]
  exact hi.filterMap _

theorem vdw_perm {ps ps' : List (Nat × Nat)} (hp : ps.Perm ps') : (addVdw F row ps).Perm (addVdw F row ps') := hp.map _

/-! ### Energy and gradient (reals) -/

/-- **Energy and forces do not depend on the order in which the terms were pushed** (over the reals; in doubles the two
sums differ by rounding only). -/
theorem energy_gradient_perm {ts ts' : List Term} (h : ts.Perm ts') (x : Nat → ℝ) (s : Nat) :
    energyFF ts x = energyFF ts' x ∧ gradFF ts x s = gradFF ts' x s := by
  constructor
  · unfold energyFF; exact (h.map _).sum_eq
  · unfold gradFF; exact (h.map _).sum_eq

/-! Non-vacuity: two enumerations (and storage directions) of the same four bonds -/
example : neighbours C10.demo 2 = neighbours C10.demo.reverse 2 ∧ neighbours C10.demo 2 = [0, 1, 3] := by decide

end OptRs.Props.C08
