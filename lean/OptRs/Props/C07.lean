/-
C07 — Energy and gradient are pure functions of the geometry (no history dependence).

Model: `OptRs.Model.FFObj` (hand model of `UFF`/`RB` as objects with a cached energy and a reused gradient buffer).
`numerical_gradient` and `optimise` talk to the object only through `energy`/`gradient` calls, so "every finite
sequence of energy / gradient / numerical-gradient / optimise requests" is "every finite list of energy / gradient
requests at arbitrary geometries" — which is what the theorems quantify over, for an arbitrary scalar type, term type
and term semantics. The two sides of each equation are the same expression tree, so the equality is syntactic and
therefore bit-for-bit at `f64`. Tied to the code by the history correspondence (`history` stream).
-/
import OptRs.Model.FFObj
namespace OptRs.Props.C07
open OptRs.Model

variable {R X T : Type} (ops : FFOps R X T)

/-- Adding a term's gradient keeps the buffer's length (true of every `add_gradient`: it only does `gradient[i].c += …`). -/
def LengthPreserving : Prop := ∀ t x (b : List R), (ops.termAdd t x b).length = b.length

theorem fold_length (h : LengthPreserving ops) (terms : List T) (x : X) (b : List R) :
    (terms.foldl (fun b t => ops.termAdd t x b) b).length = b.length := by
  induction terms generalizing b with
  | nil => rfl
  | cons t ts ih => simp only [List.foldl_cons]; rw [ih, h]

/-- The answer to an energy request never depends on the object's history. -/
theorem energy_pure (o : FFObj R T) (x : X) : (o.energy ops x).2 = pureE ops o.terms x := rfl

/-- The answer to a gradient request depends on the object only through its terms and the buffer's *length*:
the contents are overwritten with zeros first. -/
theorem gradient_pure (o : FFObj R T) (x : X) : (o.gradient ops x).2 = pureG ops o.terms o.buf.length x := by
  unfold FFObj.gradient pureG
  simp only
  congr 1
  induction o.buf with
  | nil => rfl
  | cons b bs ih => simp [List.replicate_succ, ih]

/-- Serving requests changes neither the terms nor the buffer length. -/
theorem serve_invariant (h : LengthPreserving ops) (o : FFObj R T) (q : FFReq X) :
    (o.serve ops q).1.terms = o.terms ∧ (o.serve ops q).1.buf.length = o.buf.length := by
  cases q with
  | energy x => exact ⟨rfl, rfl⟩
  | gradient x =>
    refine ⟨rfl, ?_⟩
    simp only [FFObj.serve, FFObj.gradient]
    rw [fold_length ops h]
    simp

theorem serveAll_invariant (h : LengthPreserving ops) (qs : List (FFReq X)) : ∀ (o : FFObj R T),
    (o.serveAll ops qs).1.terms = o.terms ∧ (o.serveAll ops qs).1.buf.length = o.buf.length := by
  induction qs with
  | nil => intro o; exact ⟨rfl, rfl⟩
  | cons q qs ih =>
    intro o
    have h1 := serve_invariant ops h o q
    have h2 := ih (o.serve ops q).1
    simp only [FFObj.serveAll]
    exact ⟨h2.1.trans h1.1, h2.2.trans h1.2⟩

/-- **History independence**: after ANY finite sequence of energy / gradient requests at arbitrary geometries, the
answers to a further energy or gradient request are the pure functions of the geometry — identical to what a freshly
built object with the same terms would answer. -/
theorem history_independent (h : LengthPreserving ops) (o : FFObj R T) (qs : List (FFReq X)) (x : X) :
    ((o.serveAll ops qs).1.energy ops x).2 = pureE ops o.terms x ∧
    ((o.serveAll ops qs).1.gradient ops x).2 = pureG ops o.terms o.buf.length x := by
  have hi := serveAll_invariant ops h qs o
  refine ⟨?_, ?_⟩
  · rw [energy_pure, hi.1]
  · rw [gradient_pure, hi.1, hi.2]

/-- Gradients are never accumulated from one request to the next: asking twice gives the same answer, not the double. -/
theorem no_accumulation (h : LengthPreserving ops) (o : FFObj R T) (x : X) :
    ((o.gradient ops x).1.gradient ops x).2 = (o.gradient ops x).2 := by
  have := history_independent ops h o [.gradient x] x
  simp only [FFObj.serveAll, FFObj.serve] at this
  rw [this.2, gradient_pure]

/-- Every answer in a history equals the pure function at that request's geometry. -/
theorem all_answers_pure (h : LengthPreserving ops) : ∀ (qs : List (FFReq X)) (o : FFObj R T),
    (o.serveAll ops qs).2 = qs.map fun q => match q with
      | .energy x => FFAns.e (pureE ops o.terms x)
      | .gradient x => FFAns.g (pureG ops o.terms o.buf.length x) := by
  intro qs
  induction qs with
  | nil => intro o; rfl
  | cons q qs ih =>
    intro o
    have hi := serve_invariant ops h o q
    simp only [FFObj.serveAll, List.map_cons]
    rw [ih, hi.1, hi.2]
    congr 1
    cases q with
    | energy x => rfl
    | gradient x => simp only [FFObj.serve]; rw [gradient_pure]

/-! ### Negative control: without the zeroing step the property fails (so the theorem is not vacuous) -/

/-- One term that adds 1 to slot 0. -/
def ctlOps : FFOps Nat Unit Unit :=
  { zero := 0, add := (· + ·), termE := fun _ _ => 1, start := 0,
    termAdd := fun _ _ b => match b with | [] => [] | v :: vs => (v + 1) :: vs }

example : LengthPreserving ctlOps := by intro t x b; cases b <;> rfl

/-- With zeroing: two requests, same answer. -/
example : let o : FFObj Nat Unit := { terms := [()], energyCache := 0, buf := [0] }
    ((o.gradient ctlOps ()).1.gradient ctlOps ()).2 = [1] := by decide

/-- Without zeroing: the second answer is the double — the accumulation the property forbids. -/
example : let o : FFObj Nat Unit := { terms := [()], energyCache := 0, buf := [0] }
    ((o.gradientNoZero ctlOps ()).1.gradientNoZero ctlOps ()).2 = [2] := by decide

end OptRs.Props.C07
