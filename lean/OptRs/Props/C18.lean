/-
C18 — Well-separated fragments are treated independently (size consistency).

For two groups of atoms A (indices 0..k-1) and B (shifted by k), separated so that no atom of one is within bonding
distance of an atom of the other (`could a b = false` across; the candidate lists then never cross):
* perception of the union is perception of A followed by the shifted perception of B (the greedy loop restricted to a
  closed subset behaves as the loop on that subset alone), for any caps;
* the view atom typing reads of each atom is what its own fragment gives (so types and environments are local);
* bondedness, hence (C10) angles, dihedrals, impropers, splits; non-bonded pairs are A's, B's and all cross pairs;
* over the reals the energy of a union of term lists is the sum, and a cross van der Waals term is bounded by 2 D (σ/r)⁶ for r ≥ σ.
Formal charges: with molecular charge 0 (the only value any constructor sets) the shared remaining-charge counter of
`set_formal_charges` is never decremented, so they are per-atom functions of the view (remark, not a theorem about other charges).
Tied to the code by the construction correspondences (C09–C11) and searched by the `fragments` stream.
-/
import OptRs.Props.C09
import OptRs.Props.C08
namespace OptRs.Props.C18
open OptRs OptRs.Model

def shiftBond (k : Nat) (b : Bond) : Bond := { b with i := b.i + k, j := b.j + k }
def shiftBonds (k : Nat) (bs : List Bond) : List Bond := bs.map (shiftBond k)

/-- All atoms of the bonds are below `k`. -/
def Below (k : Nat) (bs : List Bond) : Prop := ∀ b ∈ bs, b.i < k ∧ b.j < k

theorem pairKey_shift (k i j : Nat) : pairKey (i + k) (j + k) = ((pairKey i j).1 + k, (pairKey i j).2 + k) := by
  unfold pairKey; split <;> split <;> simp_all

theorem key_shift (k : Nat) (b : Bond) : (shiftBond k b).key = (b.key.1 + k, b.key.2 + k) := pairKey_shift k b.i b.j

theorem contains_shift (k : Nat) (b : Bond) (a : Nat) : (shiftBond k b).contains (a + k) = b.contains a := by
  simp only [Bond.contains, shiftBond]
  have e1 : (a + k == b.i + k) = (a == b.i) := by
    cases h : a == b.i <;> simp_all
  have e2 : (a + k == b.j + k) = (a == b.j) := by
    cases h : a == b.j <;> simp_all
  rw [e1, e2]

theorem contains_below (k : Nat) (b : Bond) (hb : b.i < k ∧ b.j < k) (a : Nat) : b.contains (a + k) = false := by
  simp only [Bond.contains, Bool.or_eq_false_iff, beq_eq_false_iff_ne, ne_eq]; omega

theorem contains_shift_low (k : Nat) (b : Bond) (a : Nat) (ha : a < k) : (shiftBond k b).contains a = false := by
  simp only [Bond.contains, shiftBond, Bool.or_eq_false_iff, beq_eq_false_iff_ne, ne_eq]; omega

theorem deg_union_high (k : Nat) (pa accB : List Bond) (hpa : Below k pa) (a : Nat) :
    deg (pa ++ shiftBonds k accB) (a + k) = deg accB a := by
  unfold deg shiftBonds
  rw [List.filter_append, List.length_append]
  have h1 : (pa.filter (·.contains (a + k))) = [] := by
    rw [List.filter_eq_nil_iff]
    intro b hb
    simp [contains_below k b (hpa b hb) a]
  rw [h1, List.length_nil, Nat.zero_add, List.filter_map, List.length_map]
  congr 1
  apply List.filter_congr
  intro b _
  exact contains_shift k b a

theorem deg_union_low (k : Nat) (pa accB : List Bond) (a : Nat) (ha : a < k) :
    deg (pa ++ shiftBonds k accB) a = deg pa a := by
  unfold deg shiftBonds
  rw [List.filter_append, List.length_append]
  have h2 : ((accB.map (shiftBond k)).filter (·.contains a)) = [] := by
    rw [List.filter_eq_nil_iff]
    intro b hb
    obtain ⟨b', _, rfl⟩ := List.mem_map.mp hb
    simp [contains_shift_low k b' a ha]
  rw [h2]; simp

theorem any_key_union_high (k : Nat) (pa accB : List Bond) (hpa : Below k pa) (i j : Nat) :
    (pa ++ shiftBonds k accB).any (fun b => b.key == pairKey (i + k) (j + k)) = accB.any (fun b => b.key == pairKey i j) := by
  rw [List.any_append]
  have h1 : pa.any (fun b => b.key == pairKey (i + k) (j + k)) = false := by
    rw [List.any_eq_false]
    intro b hb
    have := hpa b hb
    simp only [beq_iff_eq, Bond.key]
    intro e
    have := (pairKey_eq_iff _ _ _ _).mp e
    omega
  rw [h1, Bool.false_or]
  unfold shiftBonds
  rw [List.any_map]
  congr 1
  funext b
  simp only [Function.comp, key_shift, pairKey_shift]
  cases h : b.key == pairKey i j
  · simp only [beq_eq_false_iff_ne, ne_eq, Prod.mk.injEq, not_and] at h ⊢
    intro h1 h2
    have : b.key = pairKey i j := Prod.ext (by omega) (by omega)
    exact h this
  · simp only [beq_iff_eq] at h ⊢
    rw [h]

/-- **One offer inside B, seen from the union, is the same offer seen from B alone.** -/
theorem addBond_union (k : Nat) (capAB capB : Nat → Nat) (hcap : ∀ a, capAB (a + k) = capB a)
    (pa accB : List Bond) (hpa : Below k pa) (i j : Nat) :
    addBond capAB (pa ++ shiftBonds k accB) (i + k) (j + k) = pa ++ shiftBonds k (addBond capB accB i j) := by
  unfold addBond
  rw [any_key_union_high k pa accB hpa, deg_union_high k pa accB hpa, deg_union_high k pa accB hpa, hcap, hcap]
  split
  · rfl
  · split
    · rfl
    · simp [shiftBonds, shiftBond, List.append_assoc]

theorem inner_union (k : Nat) (capAB capB : Nat → Nat) (hcap : ∀ a, capAB (a + k) = capB a) (pa : List Bond) (hpa : Below k pa)
    (i : Nat) : ∀ (js : List Nat) (accB : List Bond),
    (js.map (· + k)).foldl (fun bs j => addBond capAB bs (i + k) j) (pa ++ shiftBonds k accB) =
      pa ++ shiftBonds k (js.foldl (fun bs j => addBond capB bs i j) accB) := by
  intro js
  induction js with
  | nil => intro accB; rfl
  | cons j js ih =>
    intro accB
    simp only [List.map_cons, List.foldl_cons]
    rw [addBond_union k capAB capB hcap pa accB hpa i j]
    exact ih _

theorem outer_union (k : Nat) (capAB capB : Nat → Nat) (hcap : ∀ a, capAB (a + k) = capB a) (pa : List Bond) (hpa : Below k pa)
    (candsAB candsB : Nat → List Nat) (hc : ∀ i, candsAB (i + k) = (candsB i).map (· + k)) : ∀ (is : List Nat) (accB : List Bond),
    (is.map (· + k)).foldl (fun bs i => (candsAB i).foldl (fun bs j => addBond capAB bs i j) bs) (pa ++ shiftBonds k accB) =
      pa ++ shiftBonds k (is.foldl (fun bs i => (candsB i).foldl (fun bs j => addBond capB bs i j) bs) accB) := by
  intro is
  induction is with
  | nil => intro accB; rfl
  | cons i is ih =>
    intro accB
    simp only [List.map_cons, List.foldl_cons]
    rw [hc i, inner_union k capAB capB hcap pa hpa i (candsB i) accB]
    exact ih _

/-- The A-part of the loop only looks at A's candidate lists and caps. -/
theorem fold_congr_A (capAB capA : Nat → Nat) (candsAB candsA : Nat → List Nat) :
    ∀ (is : List Nat) (acc : List Bond), (∀ i ∈ is, candsAB i = candsA i) →
      (∀ i ∈ is, capAB i = capA i ∧ ∀ j ∈ candsA i, capAB j = capA j) →
      is.foldl (fun bs i => (candsAB i).foldl (fun bs j => addBond capAB bs i j) bs) acc =
        is.foldl (fun bs i => (candsA i).foldl (fun bs j => addBond capA bs i j) bs) acc := by
  intro is
  induction is with
  | nil => intro acc _ _; rfl
  | cons i is ih =>
    intro acc h1 h2
    simp only [List.foldl_cons]
    rw [h1 i (by simp)]
    have hi := h2 i (by simp)
    have inner : ∀ (js : List Nat) (a : List Bond), (∀ j ∈ js, capAB j = capA j) →
        js.foldl (fun bs j => addBond capAB bs i j) a = js.foldl (fun bs j => addBond capA bs i j) a := by
      intro js
      induction js with
      | nil => intro a _; rfl
      | cons j js ihj =>
        intro a hj
        simp only [List.foldl_cons]
        have : addBond capAB a i j = addBond capA a i j := by
          unfold addBond; rw [hi.1, hj j (by simp)]
        rw [this]
        exact ihj _ (fun j' hj' => hj j' (by simp [hj']))
    rw [inner (candsA i) acc hi.2]
    exact ih _ (fun i' hi' => h1 i' (by simp [hi'])) (fun i' hi' => h2 i' (by simp [hi']))

theorem range_add (a b : Nat) : List.range (a + b) = List.range a ++ (List.range b).map (· + a) := by
  induction b with
  | zero => simp
  | succ b ih => rw [← Nat.add_assoc, List.range_succ, ih, List.range_succ, List.map_append, List.append_assoc]; simp [Nat.add_comm]

/-- **Perception splits**: for two groups whose candidate lists never cross, the bonds perceived in the union are the
bonds perceived in A, followed by the bonds perceived in B with indices shifted — for any caps and any candidate orders. -/
theorem perception_splits (nA nB : Nat) (candsA candsB candsAB : Nat → List Nat) (capA capB capAB : Nat → Nat)
    (hA : ∀ i, i < nA → candsAB i = candsA i) (hB : ∀ i, candsAB (i + nA) = (candsB i).map (· + nA))
    (hcA : ∀ a, a < nA → capAB a = capA a) (hcB : ∀ a, capAB (a + nA) = capB a)
    (hclosed : ∀ i, i < nA → ∀ j ∈ candsA i, j < nA)
    (hok : Below nA (perceiveBonds nA candsA capA)) :
    perceiveBonds (nA + nB) candsAB capAB = perceiveBonds nA candsA capA ++ shiftBonds nA (perceiveBonds nB candsB capB) := by
  unfold perceiveBonds
  rw [range_add, List.foldl_append]
  have h1 := fold_congr_A capAB capA candsAB candsA (List.range nA) []
    (fun i hi => hA i (List.mem_range.mp hi))
    (fun i hi => ⟨hcA i (List.mem_range.mp hi), fun j hj => hcA j (hclosed i (List.mem_range.mp hi) j hj)⟩)
  rw [h1]
  have h2 := outer_union nA capAB capB hcB _ hok candsAB candsB hB (List.range nB) []
  simp only [shiftBonds, List.map_nil, List.append_nil] at h2
  unfold perceiveBonds at hok
  exact h2

/-! ### Locality of what typing reads -/

theorem other_shift (k : Nat) (b : Bond) (a : Nat) : (shiftBond k b).other (a + k) = (b.other a).map (· + k) := by
  unfold Bond.other shiftBond
  simp only
  by_cases h1 : a = b.i
  · simp [h1]
  · by_cases h2 : a = b.j
    · subst h2
      have hne : ¬ b.j = b.i := h1
      have : ¬ b.j + k = b.i + k := by omega
      simp [hne, this]
    · have e1 : ¬ a + k = b.i + k := by omega
      have e2 : ¬ a + k = b.j + k := by omega
      simp [h1, h2, e1, e2]

theorem other_none_of_not_contains (b : Bond) (a : Nat) (h : b.contains a = false) : b.other a = none := by
  simp only [Bond.contains, Bool.or_eq_false_iff, beq_eq_false_iff_ne, ne_eq] at h
  unfold Bond.other; simp [h.1, h.2]

/-- **An atom of A reads, in the union, exactly the view it reads in A alone** — neighbours, aromatic count and order sum
(and so receives the same type and coordination environment, whatever is far away). -/
theorem atomView_union_low (k : Nat) (bsA bsB : List Bond) (a : Nat) (ha : a < k) :
    atomView (bsA ++ shiftBonds k bsB) a = atomView bsA a := by
  have hfil : ∀ p : Bond → Bool, (∀ b, p (shiftBond k b) = false) →
      (bsA ++ shiftBonds k bsB).filter p = bsA.filter p := by
    intro p hp
    rw [List.filter_append]
    have : (shiftBonds k bsB).filter p = [] := by
      rw [List.filter_eq_nil_iff]
      intro b hb
      obtain ⟨b', _, rfl⟩ := List.mem_map.mp hb
      simp [hp b']
    rw [this, List.append_nil]
  unfold atomView
  congr 1
  · unfold neighbours
    congr 1
    rw [List.filterMap_append]
    have : (shiftBonds k bsB).filterMap (fun b => b.other a) = [] := by
      rw [List.filterMap_eq_nil_iff]
      intro b hb
      obtain ⟨b', _, rfl⟩ := List.mem_map.mp hb
      exact other_none_of_not_contains _ _ (contains_shift_low k b' a ha)
    rw [this, List.append_nil]
  · rw [List.countP_eq_length_filter, List.countP_eq_length_filter, hfil]
    intro b; simp [contains_shift_low k b a ha]
  · rw [hfil]
    intro b; exact contains_shift_low k b a ha

/-! ### Energy (reals) -/

/-- **Size consistency of the energy and forces**: the term list of a union being the parts' lists plus the cross terms,
energy and every gradient component are the sums. -/
theorem energy_additive (tsA tsB cross : List Term) (x : Nat → ℝ) (s : Nat) :
    energyFF (tsA ++ tsB ++ cross) x = energyFF tsA x + energyFF tsB x + energyFF cross x ∧
    gradFF (tsA ++ tsB ++ cross) x s = gradFF tsA x s + gradFF tsB x s + gradFF cross x s := by
  simp [energyFF, gradFF, List.map_append, List.sum_append, add_assoc]

/-- The vanishing tail: for r ≥ σ > 0 and D ≥ 0 a 12-6 term is bounded by 2 D (σ/r)⁶. -/
theorem lj_tail_bound (D q : ℝ) (hD : 0 ≤ D) (hq0 : 0 ≤ q) (hq1 : q ≤ 1) : |D * (q ^ 2 - 2 * q)| ≤ 2 * D * q := by
  have h : q ^ 2 - 2 * q ≤ 0 := by nlinarith
  rw [abs_mul, abs_of_nonneg hD, abs_of_nonpos h]
  nlinarith

/-! Non-vacuity: H–H next to a far-away H–H; the second pair is perceived exactly as alone. -/
example : perceiveBonds 4 (fun i => if i = 0 then [1] else if i = 1 then [0] else if i = 2 then [3] else [2]) (fun _ => 1)
    = perceiveBonds 2 (fun i => if i = 0 then [1] else [0]) (fun _ => 1) ++
      shiftBonds 2 (perceiveBonds 2 (fun i => if i = 0 then [1] else [0]) (fun _ => 1)) := by decide

end OptRs.Props.C18
