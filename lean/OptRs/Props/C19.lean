/-
C19 — 3-D building keeps the bond list and yields a sane embedded structure.

Structural half (proved): in the model of `Molecule::build_3d` — take an enumeration of the bond set, empty the set, and for
each bond run a 20-step RB optimisation then re-insert it, finally a 500-step one — the final bond set equals the initial
one with orders, for EVERY enumeration and EVERY outcome of the optimisations (they only write coordinates: C04), and the
atoms, angles, dihedrals and pair list are untouched. Budgets 20 / 500 come from the translated constants (C05 bounds the
gradient requests by them).
Geometric half (NOT proved — explored): "every bonded pair within 25 % of the sum of covalent radii, no two atoms closer
than 0.3 Å, finite coordinates" is the outcome of a floating-point descent from random starts; it is evaluated on real
builds by the `build3d` stream.
-/
import OptRs.Model.Wrapper
import OptRs.Lemmas.Sets
import OptRs.Gen.Tables
namespace OptRs.Props.C19
open OptRs.Model

variable {X : Type}

theorem fold_bonds (opt : Nat → Conn → List X → List X) (c : Conn) : ∀ (all acc : List Bond) (xs : List X),
    ((acc ++ all).map Bond.key).Nodup →
    (all.foldl (fun (a : List Bond × List X) b =>
      (insertByKey Bond.key a.1 b, opt OptRs.Gen.build3dIterations { c with bonds := a.1 } a.2)) (acc, xs)).1 = acc ++ all := by
  intro all
  induction all with
  | nil => intro acc xs _; simp
  | cons b bs ih =>
    intro acc xs hnd
    simp only [List.foldl_cons]
    have hnew : Bond.key b ∉ acc.map Bond.key := by
      intro hmem
      rw [List.map_append, List.map_cons, List.nodup_append] at hnd
      exact hnd.2.2 _ hmem _ (List.mem_cons_self) rfl
    have hins : insertByKey Bond.key acc b = acc ++ [b] := by unfold insertByKey; simp [hnew]
    rw [hins]
    have := ih (acc ++ [b]) (opt OptRs.Gen.build3dIterations { c with bonds := acc } xs) (by simpa [List.append_assoc] using hnd)
    simpa [List.append_assoc] using this

/-- **The bond set with orders, the atoms and everything derived from the bonds are exactly what they were**, for every
enumeration of the bond set, every random placement and every outcome of the optimisations. -/
theorem bonds_preserved (randomise : List X → List X) (opt : Nat → Conn → List X → List X) (s : WState X)
    (hnd : (s.conn.bonds.map Bond.key).Nodup) :
    (build3d randomise opt s).conn = s.conn ∧ (build3d randomise opt s).zs = s.zs := by
  unfold build3d
  simp only
  have := fold_bonds opt s.conn s.conn.bonds [] (randomise s.coords) (by simpa using hnd)
  simp only [List.nil_append] at this
  constructor
  · rw [this]
  · trivial

/-- The optimiser budgets inside `build_3d`. -/
theorem budgets : OptRs.Gen.build3dIterations = 20 ∧ OptRs.Gen.sdMaxIterations = 500 := by decide

/-! Non-vacuity: an "optimiser" that scrambles coordinates and a reversed enumeration leave the bonds alone. -/
example : (build3d (fun xs => xs.reverse) (fun k _ xs => xs.map (· + k))
    ({ zs := [6, 1, 1], coords := [0, 1, 2], conn := Conn.ofBonds 3 [{ i := 0, j := 1 }, { i := 2, j := 0, order := .double }] } : WState Nat)).conn.bonds
    = [{ i := 0, j := 1 }, { i := 2, j := 0, order := .double }] := by decide

end OptRs.Props.C19
