/-
C08 (continued) — the canonical term order is the SAME list for every enumeration of the set.

The repaired Rust code collects a `HashSet` of bonds/angles/dihedrals into a `Vec` and sorts it by the item's ordered atom
indices (`sort_by_key(|item| item.ordered())`) before creating the force-field terms. A `HashSet` is modelled as a `List`
in an arbitrary enumeration order, "for every hash seed" is "for every `List.Perm`". The key is unique per item within the
set (the set de-duplicates by exactly that key), so the sorted list — and anything mapped over it (the term list), and any
left fold over it (the floating-point sum of term energies in list order) — is one and the same list for all enumerations,
not merely a permutation.

`canonical` uses core `List.mergeSort` (Rust's `sort_by_key` is a stable merge sort; stability is irrelevant with unique keys).
-/
import Mathlib.Order.Defs.LinearOrder
import Mathlib.Data.Nat.Basic
namespace OptRs.Props.C08

variable {α β γ κ : Type} [LinearOrder κ]

/-- Sort `l` by `key` (core merge sort, the model of `sort_by_key`). -/
def canonical (key : α → κ) (l : List α) : List α :=
  l.mergeSort (fun a b => decide (key a ≤ key b))

/-- Nothing is lost or duplicated by the canonical ordering. -/
theorem canonical_perm (key : α → κ) (l : List α) : (canonical key l).Perm l :=
  List.mergeSort_perm l _

/-- The canonical list is sorted by key. -/
theorem canonical_sorted (key : α → κ) (l : List α) :
    (canonical key l).Pairwise (fun a b => key a ≤ key b) := by
  have h := List.pairwise_mergeSort (le := fun a b : α => decide (key a ≤ key b))
    (fun a b c hab hbc => by
      simp only [decide_eq_true_eq] at hab hbc ⊢
      exact le_trans hab hbc)
    (fun a b => by
      simp only [Bool.or_eq_true, decide_eq_true_eq]
      exact le_total (key a) (key b))
    l
  simpa only [canonical, decide_eq_true_eq] using h

/-- **The canonical order does not depend on the enumeration**: for any two enumerations of a collection with no two items
sharing a key, the canonically ordered lists are EQUAL. -/
theorem canonical_perm_invariant (key : α → κ) {l l' : List α} (h : l.Perm l')
    (hinj : ∀ a ∈ l, ∀ b ∈ l, key a = key b → a = b) :
    canonical key l = canonical key l' := by
  have hp : (canonical key l).Perm (canonical key l') :=
    ((canonical_perm key l).trans h).trans (canonical_perm key l').symm
  refine List.Perm.eq_of_pairwise (le := fun a b => key a ≤ key b) ?_
    (canonical_sorted key l) (canonical_sorted key l') hp
  intro a b ha hb hab hba
  have ha' : a ∈ l := (canonical_perm key l).mem_iff.mp ha
  have hb' : b ∈ l := h.mem_iff.mpr ((canonical_perm key l').mem_iff.mp hb)
  exact hinj a ha' b hb' (le_antisymm hab hba)

/-- Anything mapped over the canonical list (e.g. the term list) is the same list for every enumeration. -/
theorem canonical_map_perm_invariant (key : α → κ) (f : α → β) {l l' : List α} (h : l.Perm l')
    (hinj : ∀ a ∈ l, ∀ b ∈ l, key a = key b → a = b) :
    (canonical key l).map f = (canonical key l').map f := by
  rw [canonical_perm_invariant key h hinj]

/-- A left-to-right accumulation over the canonical list (e.g. a floating-point sum of term energies) does not depend on
the enumeration — with no algebraic assumption on `g`. -/
theorem canonical_foldl_perm_invariant (key : α → κ) (g : γ → α → γ) (init : γ) {l l' : List α}
    (h : l.Perm l') (hinj : ∀ a ∈ l, ∀ b ∈ l, key a = key b → a = b) :
    (canonical key l).foldl g init = (canonical key l').foldl g init := by
  rw [canonical_perm_invariant key h hinj]

/-- The canonical list is THE key-sorted arrangement: any key-sorted enumeration of the collection is it. -/
theorem canonical_eq_of_sorted_perm (key : α → κ) {l s : List α} (hs : s.Pairwise (fun a b => key a ≤ key b))
    (hp : s.Perm l) (hinj : ∀ a ∈ l, ∀ b ∈ l, key a = key b → a = b) :
    canonical key l = s := by
  refine List.Perm.eq_of_pairwise (le := fun a b => key a ≤ key b) ?_
    (canonical_sorted key l) hs ((canonical_perm key l).trans hp.symm)
  intro a b ha hb hab hba
  exact hinj a ((canonical_perm key l).mem_iff.mp ha) b (hp.mem_iff.mp hb) (le_antisymm hab hba)

/-- Non-vacuity: two different enumerations of three bonds have the same canonical list. (`List.mergeSort` is defined by
well-founded recursion, so `decide` cannot evaluate it; `simp` unfolds it with its equation lemmas. The inequality of the
inputs is by `decide`.) -/
example :
    let key : Nat × Nat → Nat := fun p => 1000 * p.1 + p.2
    let bs : List (Nat × Nat) := [(2, 3), (0, 1), (1, 2)]
    let bs' : List (Nat × Nat) := [(1, 2), (2, 3), (0, 1)]
    bs ≠ bs' ∧ canonical key bs = [(0, 1), (1, 2), (2, 3)] ∧
      canonical key bs' = [(0, 1), (1, 2), (2, 3)] := by
  refine ⟨by decide, ?_, ?_⟩ <;> simp [canonical, List.mergeSort]

/-- The same instance through the theorem, every side condition by `decide`: the two enumerations are permutations of each
other, differ as lists, and no two bonds share a key — so their canonical lists are equal. -/
example :
    canonical (fun p : Nat × Nat => 1000 * p.1 + p.2) [(2, 3), (0, 1), (1, 2)] =
      canonical (fun p : Nat × Nat => 1000 * p.1 + p.2) [(1, 2), (2, 3), (0, 1)] :=
  canonical_perm_invariant _ (by decide) (by decide)

end OptRs.Props.C08
