/-
C17 — Scripted construction equals file construction; bad arguments are refused.

Model: `OptRs.Model` wrapper state machine (hand model of `PyMoleculeWrapper`), generic in the coordinate type and in
how coordinates give candidate lists. Tied to the code by the op-sequence correspondence through the wrapper hook
(`wrapper` stream). The file path's reader/writer half is C13/C14.
-/
import OptRs.Model.Wrapper
import OptRs.Props.C16
namespace OptRs.Props.C17
open OptRs.Model

variable {X : Type} (cands : List X → Nat → List Nat)

/-- `derive` on a cleared record depends only on the bonds put into it. -/
theorem derive_cleared (n : Nat) (c : Conn) (bs : List Bond) :
    Conn.derive n { c.clear with bonds := bs } = Conn.ofBonds n bs := by
  simp [Conn.derive, Conn.clear, Conn.ofBonds]

/-- **Regenerating connectivity forgets everything that was there**: whatever the record held (stale angles, dihedrals,
bonds from a matrix), the result is the perception of the current coordinates. -/
theorem generate_is_perception (s : WState X) :
    (generateConnectivity cands s).conn = perceiveAll s.zs (cands s.coords) := by
  simp [generateConnectivity, fills, perceiveAll, Conn.derive, Conn.clear, Conn.ofBonds]

/-- **Scripted = file**: symbols, then coordinates, then regenerated connectivity gives exactly the molecule the file
constructor builds from the same atoms and coordinates — atoms, coordinates, bonds with orders, angles, dihedrals and
non-bonded pairs (hence, by C11/C12, the same force field and energy). -/
theorem scripted_equals_file (origin : X) (zs : List Nat) (pts : List X) (s : WState X)
    (h : setCoordinates (fromSymbols cands origin zs) (3 * zs.length) pts = .ok s) :
    generateConnectivity cands s = fromNumsAndCoords cands zs pts := by
  simp only [setCoordinates, fromSymbols, fromNumsAndCoords] at h
  simp only [ne_eq, not_true_eq_false, if_false, Except.ok.injEq] at h
  subst h
  simp [generateConnectivity, fromNumsAndCoords, fills, Conn.derive, Conn.clear]

/-- A coordinate list of the wrong length is rejected and the molecule is left exactly as it was. -/
theorem bad_coordinates_rejected (s : WState X) (flatLen : Nat) (pts : List X) (h : flatLen ≠ 3 * s.zs.length) :
    setCoordinates s flatLen pts = .error .wrongLength := by
  simp [setCoordinates, h]

/-- A coordinate list of the right length replaces the coordinates and nothing else. -/
theorem good_coordinates (s : WState X) (pts : List X) :
    setCoordinates s (3 * s.zs.length) pts = .ok { s with coords := pts } := by
  simp [setCoordinates]

/-- Building a 3-D structure for a multi-atom molecule without bonds is refused. -/
theorem build3d_needs_bonds (s : WState X) (h1 : s.zs.length > 1) (h2 : s.conn.bonds = []) :
    build3dGuard s = .error .noBonds := by
  simp [build3dGuard, h1, h2]

/-- After a successful `set_bond_orders` the record is the one derived from the new bonds alone. -/
theorem setBondOrders_forgets (s s' : WState X) (m : List Entry) (h : (wSetBondOrders s m).1 = .ok s') :
    ∃ bs, matrixBonds s.zs.length m = .ok bs ∧ s'.conn = Conn.ofBonds s.zs.length bs ∧ s'.zs = s.zs ∧ s'.coords = s.coords := by
  unfold wSetBondOrders at h
  simp only at h
  split at h
  · simp at h
  · split at h
    · simp at h
    · rename_i bs hbs
      simp only [Except.ok.injEq] at h
      subst h
      exact ⟨bs, hbs, derive_cleared _ _ _, rfl, rfl⟩

/-- A wrong-size matrix is refused with the molecule untouched. -/
theorem setBondOrders_wrong_size (s : WState X) (m : List Entry) (h : m.length ≠ s.zs.length ^ 2) :
    wSetBondOrders s m = (.error .wrongSize, s) := by
  simp [wSetBondOrders, h]

/-! ### Histories -/

inductive Op (X : Type) where
  | setCoords (flatLen : Nat) (pts : List X)
  | generate
  | setOrders (m : List Entry)

/-- Apply one call; a refused call leaves the state as the model says (unchanged, or cleared for a bad order value). -/
def step (s : WState X) : Op X → WState X
  | .setCoords k pts => match setCoordinates s k pts with | .ok s' => s' | .error _ => s
  | .generate => generateConnectivity cands s
  | .setOrders m => (wSetBondOrders s m).2

def run (s : WState X) (ops : List (Op X)) : WState X := ops.foldl (step cands) s

/-- The atoms never change. -/
theorem run_zs (ops : List (Op X)) : ∀ s : WState X, (run cands s ops).zs = s.zs := by
  induction ops with
  | nil => intro s; rfl
  | cons op ops ih =>
    intro s
    simp only [run, List.foldl_cons] at ih ⊢
    rw [ih]
    cases op with
    | setCoords k pts =>
      simp only [step, setCoordinates]
      by_cases hk : k ≠ 3 * s.zs.length
      · simp [hk]
      · simp [hk]
    | generate => rfl
    | setOrders m =>
      simp only [step, wSetBondOrders]
      by_cases hm : m.length ≠ s.zs.length ^ 2
      · simp [hm]
      · simp only [hm, if_false]
        cases matrixBonds s.zs.length m <;> rfl

/-- **For every call history**: if the last call was `generate_connectivty`, the connectivity is the perception of the
current coordinates — no stale angle, dihedral or bond of any earlier call survives. -/
theorem history_then_generate (s : WState X) (ops : List (Op X)) :
    (run cands s (ops ++ [.generate])).conn =
      perceiveAll s.zs (cands (run cands s ops).coords) := by
  simp only [run, List.foldl_append, List.foldl_cons, List.foldl_nil, step]
  rw [generate_is_perception]
  have := run_zs cands ops s
  simp only [run] at this
  rw [this]

/-- **For every call history**: if the last call was a successful `set_bond_orders m`, the connectivity is exactly what
`m` specifies (C16), whatever came before. -/
theorem history_then_setOrders (s : WState X) (ops : List (Op X)) (m : List Entry) (bs : List Bond)
    (hlen : m.length = s.zs.length ^ 2) (hm : matrixBonds s.zs.length m = .ok bs) :
    (run cands s (ops ++ [.setOrders m])).conn = Conn.ofBonds s.zs.length bs := by
  simp only [run, List.foldl_append, List.foldl_cons, List.foldl_nil, step]
  have hz := run_zs cands ops s
  simp only [run] at hz
  simp only [wSetBondOrders, hz, hlen, ne_eq, not_true_eq_false, if_false, hm]
  exact derive_cleared _ _ _

/-! ### Negative control: without the clear, stale angles survive -/

/-- Three atoms; first a bent molecule (atom 1 in the middle is within reach of both), then coordinates under which no
pair is within reach. Without the clear the angle of the first call is still there after the second. -/
def ctlCands : List Nat → Nat → List Nat := fun coords i =>
  if coords = [0, 1, 2] then (if i = 1 then [0, 2] else [1]) else []

example : let s0 : WState Nat := { zs := [1, 8, 1], coords := [0, 1, 2], conn := {} }
    let s1 := generateConnectivityNoClear ctlCands s0
    let s2 := generateConnectivityNoClear ctlCands { s1 with coords := [0, 50, 99] }
    s1.conn.angles.length = 1 ∧ s2.conn.bonds = [] ∧ s2.conn.angles.length = 1 := by decide

example : let s0 : WState Nat := { zs := [1, 8, 1], coords := [0, 1, 2], conn := {} }
    let s1 := generateConnectivity ctlCands s0
    let s2 := generateConnectivity ctlCands { s1 with coords := [0, 50, 99] }
    s1.conn.angles.length = 1 ∧ s2.conn.bonds = [] ∧ s2.conn.angles = [] := by decide

end OptRs.Props.C17
