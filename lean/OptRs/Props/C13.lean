/-
C13 — Writing then reading an xyz file preserves the molecule.
C14's alignment/exactness theorems are in `Props/C14.lean`; this file has the line-structure and round-trip theorems.

Model: `OptRs.Model.Xyz` (hand model of `XYZFile::write` / `XYZFile::read`). The formatted coordinate strings are
abstract here: all that is used is that they are non-empty and contain no white space — true of everything
`format!("{:.6}")` prints; the driver's exact implementation of that formatting and of `f64::from_str` is
corresponded bit for bit against the real ones on every run. The numeric bound is proved on the rounding rule itself.
-/
import OptRs.Model.Xyz
namespace OptRs.Props.C13
open OptRs.Model.Xyz

/-- A printable token: non-empty, no white space. -/
def Tok (w : List Char) : Prop := w ≠ [] ∧ ∀ c ∈ w, isWs c = false

theorem tokensAux_word (w : List Char) (hw : ∀ c ∈ w, isWs c = false) (rest cur : List Char) :
    tokensAux (w ++ rest) cur = tokensAux rest (w.reverse ++ cur) := by
  induction w generalizing cur with
  | nil => simp
  | cons c cs ih =>
    have hc := hw c (by simp)
    simp only [List.cons_append, tokensAux, hc, Bool.false_eq_true, if_false]
    rw [ih (fun d hd => hw d (by simp [hd]))]
    simp

theorem tokensAux_spaces (n : Nat) (rest : List Char) :
    tokensAux (List.replicate n ' ' ++ rest) [] = tokensAux rest [] := by
  induction n with
  | zero => simp
  | succ n ih =>
    have : isWs ' ' = true := by decide
    simp only [List.replicate_succ, List.cons_append, tokensAux, this, if_true, List.isEmpty_nil]
    exact ih

theorem tokensAux_close (cur rest : List Char) (hne : cur ≠ []) :
    tokensAux (' ' :: rest) cur = cur.reverse :: tokensAux rest [] := by
  have : isWs ' ' = true := by decide
  have hne' : cur.isEmpty = false := by cases cur <;> simp_all
  simp [tokensAux, this, hne']

/-- A padded field followed by a separator contributes exactly its token. -/
theorem tokens_field (n : Nat) (w rest : List Char) (hw : Tok w) :
    tokensAux (List.replicate n ' ' ++ w ++ ' ' :: rest) [] = w :: tokensAux rest [] := by
  rw [List.append_assoc, tokensAux_spaces, tokensAux_word w hw.2]
  rw [tokensAux_close _ _ (by simpa using hw.1)]
  simp

theorem tokens_last_field (n : Nat) (w : List Char) (hw : Tok w) :
    tokensAux (List.replicate n ' ' ++ w) [] = [w] := by
  rw [tokensAux_spaces]
  have := tokensAux_word w hw.2 [] []
  simp only [List.append_nil] at this
  rw [this]
  have hne : w.reverse ≠ [] := by simpa using hw.1
  have hne' : w.reverse.isEmpty = false := by cases h : w.reverse <;> simp_all
  simp [tokensAux, hne']

/-- **Every atom line has four white-space-separated fields** — the symbol and the three numbers, whatever the
widths of the printed numbers (|x| ≥ 100, ≥ 1000, negative, …) and of the symbol. -/
theorem atom_line_has_four_fields (sym fx fy fz : List Char) (hs : Tok sym) (hx : Tok fx) (hy : Tok fy) (hz : Tok fz) :
    tokens (writeLine sym fx fy fz) = [sym, fx, fy, fz] := by
  unfold tokens writeLine padRight padLeft
  -- symbol, padded on the right
  have e1 : ∀ rest, tokensAux (sym ++ List.replicate (3 - sym.length) ' ' ++ ' ' :: rest) [] = sym :: tokensAux rest [] := by
    intro rest
    rw [List.append_assoc, tokensAux_word sym hs.2]
    cases h : 3 - sym.length with
    | zero =>
      simp only [List.replicate_zero, List.nil_append, List.append_nil]
      rw [tokensAux_close _ _ (by simpa using hs.1)]; simp
    | succ k =>
      simp only [List.replicate_succ, List.cons_append, List.append_nil]
      rw [tokensAux_close _ _ (by simpa using hs.1)]
      have e : List.replicate k ' ' ++ ' ' :: rest = List.replicate (k + 1) ' ' ++ rest := by
        rw [List.replicate_succ', List.append_assoc]; rfl
      simp only [List.reverse_reverse]
      rw [e, tokensAux_spaces]
  have step : sym ++ List.replicate (3 - sym.length) ' ' ++ [' '] ++ (List.replicate (11 - fx.length) ' ' ++ fx) ++ [' '] ++
      (List.replicate (11 - fy.length) ' ' ++ fy) ++ [' '] ++ (List.replicate (11 - fz.length) ' ' ++ fz) =
      sym ++ List.replicate (3 - sym.length) ' ' ++ ' ' :: (List.replicate (11 - fx.length) ' ' ++ fx ++ ' ' ::
        (List.replicate (11 - fy.length) ' ' ++ fy ++ ' ' :: (List.replicate (11 - fz.length) ' ' ++ fz))) := by
    simp [List.append_assoc]
  rw [step, e1, tokens_field _ fx _ hx, tokens_field _ fy _ hy, tokens_last_field _ fz hz]

/-- The first line of the written file states the atom count; the second is the (empty) comment line. -/
theorem first_line_is_count (count : List Char) (atoms : List (List Char × List Char × List Char × List Char)) :
    (writeFile count atoms).head? = some count ∧ (writeFile count atoms).length = atoms.length + 2 := by
  simp [writeFile]

variable {F : Type}

/-- **Round trip**: reading the written lines back yields the same number of atoms, the same elements in the same order,
and for each coordinate the number the reader's parser makes of the printed string. -/
theorem roundtrip (parseSym : List Char → Option Nat) (parseNum : List Char → Option F)
    (count : List Char) (atoms : List (Nat × (List Char) × (F × List Char) × (F × List Char) × (F × List Char)))
    (hne : atoms ≠ [])
    (hsym : ∀ a ∈ atoms, Tok a.2.1 ∧ parseSym a.2.1 = some a.1)
    (hnum : ∀ a ∈ atoms, Tok a.2.2.1.2 ∧ Tok a.2.2.2.1.2 ∧ Tok a.2.2.2.2.2 ∧
      parseNum a.2.2.1.2 = some a.2.2.1.1 ∧ parseNum a.2.2.2.1.2 = some a.2.2.2.1.1 ∧ parseNum a.2.2.2.2.2 = some a.2.2.2.2.1) :
    readLines parseSym parseNum ((writeFile count (atoms.map fun a => (a.2.1, a.2.2.1.2, a.2.2.2.1.2, a.2.2.2.2.2))).map some) =
      some (atoms.map fun a => (a.1, a.2.2.1.1, a.2.2.2.1.1, a.2.2.2.2.1)) := by
  unfold readLines writeFile
  simp only [List.map_cons, List.drop_succ_cons, List.drop_zero, List.map_map]
  have key : ∀ l : List (Nat × (List Char) × (F × List Char) × (F × List Char) × (F × List Char)),
      (∀ a ∈ l, Tok a.2.1 ∧ parseSym a.2.1 = some a.1) →
      (∀ a ∈ l, Tok a.2.2.1.2 ∧ Tok a.2.2.2.1.2 ∧ Tok a.2.2.2.2.2 ∧
        parseNum a.2.2.1.2 = some a.2.2.1.1 ∧ parseNum a.2.2.2.1.2 = some a.2.2.2.1.1 ∧ parseNum a.2.2.2.2.2 = some a.2.2.2.2.1) →
      List.filterMap (atomOfLine parseSym parseNum)
        (List.map (some ∘ (fun a => writeLine a.1 a.2.1 a.2.2.1 a.2.2.2) ∘ fun a => (a.2.1, a.2.2.1.2, a.2.2.2.1.2, a.2.2.2.2.2)) l)
      = l.map fun a => (a.1, a.2.2.1.1, a.2.2.2.1.1, a.2.2.2.2.1) := by
    intro l
    induction l with
    | nil => intro _ _; rfl
    | cons a as ih =>
      intro h1 h2
      have ha1 := h1 a (by simp)
      have ha2 := h2 a (by simp)
      have hline : parseLine parseSym parseNum (writeLine a.2.1 a.2.2.1.2 a.2.2.2.1.2 a.2.2.2.2.2) =
          some (a.1, a.2.2.1.1, a.2.2.2.1.1, a.2.2.2.2.1) := by
        unfold parseLine
        rw [atom_line_has_four_fields _ _ _ _ ha1.1 ha2.1 ha2.2.1 ha2.2.2.1]
        simp [ha1.2, ha2.2.2.2.1, ha2.2.2.2.2.1, ha2.2.2.2.2.2]
      have hnonempty : (writeLine a.2.1 a.2.2.1.2 a.2.2.2.1.2 a.2.2.2.2.2).isEmpty = false := by
        have : a.2.1 ≠ [] := ha1.1.1
        unfold writeLine padRight
        cases h : a.2.1 with
        | nil => exact absurd h this
        | cons c cs => simp
      simp only [List.map_cons, Function.comp, List.filterMap_cons, atomOfLine, hnonempty, Bool.false_eq_true, if_false, hline]
      congr 1
      exact ih (fun b hb => h1 b (by simp [hb])) (fun b hb => h2 b (by simp [hb]))
  rw [key atoms hsym hnum]
  have : (atoms.map fun a => (a.1, a.2.2.1.1, a.2.2.2.1.1, a.2.2.2.2.1)).isEmpty = false := by
    cases atoms with
    | nil => exact absurd rfl hne
    | cons a as => simp
  simp [this]

/-! ### The six-decimal rounding is within 5·10⁻⁷ -/

/-- The integer `{:.6}` prints (as digits), for the exact value `n / d` scaled by 10⁶: nearest, ties to even. -/
def round6 (n d : Nat) : Nat :=
  let q := n / d
  let r := n % d
  if 2 * r > d ∨ (2 * r = d ∧ q % 2 = 1) then q + 1 else q

/-- `|round6 − n/d| ≤ 1/2`, i.e. the printed decimal differs from the value by at most 5·10⁻⁷ (ties included). -/
theorem round6_bound (n d : Nat) (hd : 0 < d) :
    2 * (round6 n d * d) ≤ 2 * n + d ∧ 2 * n ≤ 2 * (round6 n d * d) + d := by
  unfold round6
  have h := Nat.div_add_mod n d
  have hr := Nat.mod_lt n hd
  simp only
  have hm : d * (n / d) = (n / d) * d := Nat.mul_comm _ _
  split
  · rename_i hc
    have : (n / d + 1) * d = (n / d) * d + d := by rw [Nat.add_mul, Nat.one_mul]
    rw [this]
    rcases hc with hc | hc <;> omega
  · rename_i hc
    have hle : 2 * (n % d) ≤ d := by
      by_cases h2 : 2 * (n % d) > d
      · exact absurd (Or.inl h2) hc
      · omega
    omega

/-! Non-vacuity -/
example : tokens (writeLine "H".toList "-100.000000".toList "12345.678901".toList "-0.000000".toList)
    = ["H".toList, "-100.000000".toList, "12345.678901".toList, "-0.000000".toList] := by decide
example : round6 78125 10 = 7812 ∧ round6 78135 10 = 7814 := by decide

end OptRs.Props.C13
