/-
C15 — The command-line tool optimises the given file and refuses bad requests.

Model-level theorems (decision logic and composition): refusals write nothing; a success writes exactly
`optimise ff (read file)`; the default force field is UFF, RB on request. The process-level facts (exit status, the
working directory, clap itself) cannot be exhibited by a model: they are OBSERVED by the `cli` stream, which runs the real
binary built from /repo in fresh directories over option spellings × inputs and compares with the in-process library
optimiser. Level: partial.
-/
import OptRs.Model.Cli
namespace OptRs.Props.C15
open OptRs.Model.Cli

variable {M : Type} (readMol : Str → Option M) (optimise : FFChoice → M → M)

/-- An unknown force-field name is refused and nothing is written. -/
theorem unknown_forcefield_refused (fs : Str → Option M) (args : List Str) (file ff : Str)
    (hp : parseArgs args = some (file, ff)) (hff : chooseFF ff = none) :
    run readMol optimise args = .refuse ∧ fsAfter fs (run readMol optimise args) = fs := by
  have : run readMol optimise args = .refuse := by
    unfold run
    rw [hp]
    simp only
    split
    · rfl
    · cases readMol file with
      | none => rfl
      | some m => simp [hff]
  exact ⟨this, by rw [this]; rfl⟩

/-- An input whose name does not end in `.xyz` is refused and nothing is written. -/
theorem non_xyz_refused (fs : Str → Option M) (args : List Str) (file ff : Str)
    (hp : parseArgs args = some (file, ff)) (hx : isXyz file = false) :
    run readMol optimise args = .refuse ∧ fsAfter fs (run readMol optimise args) = fs := by
  have : run readMol optimise args = .refuse := by
    unfold run; rw [hp]; simp [hx]
  exact ⟨this, by rw [this]; rfl⟩

/-- Every refusal leaves the file system exactly as it was (in particular a pre-existing `opt.xyz`). -/
theorem refusals_write_nothing (fs : Str → Option M) (args : List Str) (h : run readMol optimise args = .refuse) :
    fsAfter fs (run readMol optimise args) = fs := by rw [h]; rfl

/-- On success `opt.xyz` holds the optimised molecule read from the given file, with the selected force field; nothing else changes. -/
theorem success_content (fs : Str → Option M) (args : List Str) (file ffName : Str) (ff : FFChoice) (m : M)
    (hp : parseArgs args = some (file, ffName)) (hx : isXyz file = true) (hr : readMol file = some m) (hf : chooseFF ffName = some ff) :
    run readMol optimise args = .wrote (optimise ff m) ∧
    fsAfter fs (run readMol optimise args) "opt.xyz".toList = some (optimise ff m) ∧
    ∀ name, name ≠ "opt.xyz".toList → fsAfter fs (run readMol optimise args) name = fs name := by
  have : run readMol optimise args = .wrote (optimise ff m) := by
    unfold run; rw [hp]; simp [hx, hr, hf]
  refine ⟨this, ?_, ?_⟩
  · rw [this]; simp [fsAfter]
  · intro name hn; rw [this]; simp only [fsAfter]; rw [if_neg hn]

/-- UFF by default, RB on request, in every spelling of the option; other names (including other cases) are unknown. -/
theorem option_spellings :
    parseArgs ["a.xyz".toList] = some ("a.xyz".toList, "UFF".toList) ∧
    parseArgs ["a.xyz".toList, "-f".toList, "RB".toList] = some ("a.xyz".toList, "RB".toList) ∧
    parseArgs ["--forcefield".toList, "RB".toList, "a.xyz".toList] = some ("a.xyz".toList, "RB".toList) ∧
    parseArgs ["a.xyz".toList, "--forcefield=RB".toList] = some ("a.xyz".toList, "RB".toList) ∧
    parseArgs ["-fRB".toList, "a.xyz".toList] = some ("a.xyz".toList, "RB".toList) ∧
    parseArgs ["-f".toList] = none ∧ parseArgs [] = none ∧ parseArgs ["a.xyz".toList, "b.xyz".toList] = none ∧
    chooseFF "UFF".toList = some .uff ∧ chooseFF "RB".toList = some .rb ∧ chooseFF "uff".toList = none ∧
    chooseFF "MMFF".toList = none ∧ chooseFF [] = none ∧
    isXyz "mol.xyz".toList = true ∧ isXyz "mol.txt".toList = false ∧ isXyz "xyz".toList = false := by
  decide

end OptRs.Props.C15
