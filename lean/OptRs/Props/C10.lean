/-
C10 — Angles, dihedrals, impropers and non-bonded pairs are exactly the bond graph's.

Model: `OptRs.Model.Conn.ofBonds` (hand model of `add_angles`, `add_dihedrals`, `add_non_bonded_pairs`; tied to
the code by the exhaustive small-graph correspondence). The theorems hold for EVERY atom count, EVERY
well-formed bond list and EVERY enumeration order of it. Sets are compared through their canonical keys
(`ordered()` in the Rust source).
-/
import OptRs.Lemmas.TopologyLemmas
namespace OptRs.Props.C10
open OptRs.Model

/-! ### Angles -/

/-- `k` is the key of a bonded path i–j–k' with i ≠ k'. -/
def IsAnglePath (bs : List Bond) (key : Nat × Nat × Nat) : Prop :=
  ∃ i j k, bonded bs i j = true ∧ bonded bs j k = true ∧ i ≠ k ∧ key = angleKey (i, j, k)

theorem angle_insertions_mem (n : Nat) (bs : List Bond) (hw : WellFormed n bs) (a : Angle) :
    a ∈ angleInsertions n bs ↔ bonded bs a.1 a.2.1 = true ∧ bonded bs a.2.1 a.2.2 = true ∧ a.1 ≠ a.2.2 := by
  obtain ⟨i, j, k⟩ := a
  unfold angleInsertions
  simp only [List.mem_flatMap, List.mem_range]
  constructor
  · rintro ⟨j', hj', i', hi', h⟩
    split at h
    · rename_i hb
      simp only [List.mem_filterMap, List.mem_range] at h
      obtain ⟨k', hk', h⟩ := h
      split at h
      · rename_i hc
        simp only [Option.some.injEq, Prod.mk.injEq] at h
        obtain ⟨rfl, rfl, rfl⟩ := h
        exact ⟨hb, hc.2, hc.1⟩
      · simp at h
    · simp at h
  · rintro ⟨h1, h2, h3⟩
    have l1 := bonded_lt n bs hw i j h1
    have l2 := bonded_lt n bs hw j k h2
    refine ⟨j, l1.2, i, l1.1, ?_⟩
    simp only [h1, if_true, List.mem_filterMap, List.mem_range]
    exact ⟨k, l2.2, by simp [h2, h3]⟩

/-- **Angles are exactly the bonded paths i–j–k with i ≠ k**, whatever the atom count, the bonds and their order. -/
theorem angles_exact (n : Nat) (bs : List Bond) (hw : WellFormed n bs) (key : Nat × Nat × Nat) :
    key ∈ (Conn.ofBonds n bs).angles.map angleKey ↔ IsAnglePath bs key := by
  unfold Conn.ofBonds Conn.derive addAngles
  simp only
  split
  · -- early return: fewer than three atoms or no bonds ⇒ there is no such path either
    rename_i h
    simp only [List.map_nil, List.not_mem_nil, false_iff]
    rintro ⟨i, j, k, h1, h2, h3, _⟩
    rcases h with h | h
    · have l1 := bonded_lt n bs hw i j h1
      have l2 := bonded_lt n bs hw j k h2
      have := bonded_ne bs i j h1
      have := bonded_ne bs j k h2
      omega
    · have : bs = [] := by simpa using h
      subst this
      simp [bonded] at h1
  · rw [mem_keys_insertAllByKey]
    simp only [List.map_nil, List.not_mem_nil, false_or, List.mem_map]
    constructor
    · rintro ⟨a, ha, rfl⟩
      obtain ⟨h1, h2, h3⟩ := (angle_insertions_mem n bs hw a).mp ha
      exact ⟨a.1, a.2.1, a.2.2, h1, h2, h3, rfl⟩
    · rintro ⟨i, j, k, h1, h2, h3, rfl⟩
      exact ⟨(i, j, k), (angle_insertions_mem n bs hw (i, j, k)).mpr ⟨h1, h2, h3⟩, rfl⟩

/-- Each angle is held once, whatever its direction. -/
theorem angles_once (n : Nat) (bs : List Bond) : ((Conn.ofBonds n bs).angles.map angleKey).Nodup := by
  unfold Conn.ofBonds Conn.derive addAngles
  simp only
  split
  · simp
  · exact nodup_keys_insertAllByKey _ _ _ (by simp)

/-- The key does not depend on the direction the path is read in. -/
theorem angleKey_rev (i j k : Nat) (h : i ≠ k) : angleKey (k, j, i) = angleKey (i, j, k) := by
  unfold angleKey
  simp only
  split <;> split <;> first | rfl | omega | (simp only [Prod.mk.injEq]; omega)

/-! ### Non-bonded pairs -/

/-- **Every unordered pair of distinct atoms is a bond or a non-bonded pair, never both and never neither.** -/
theorem pairs_partition (n : Nat) (bs : List Bond) (i j : Nat) (hi : i < n) (hj : j < n) (hij : j < i) :
    (bonded bs i j = true ∧ (i, j) ∉ (Conn.ofBonds n bs).nbPairs) ∨
    (bonded bs i j = false ∧ (i, j) ∈ (Conn.ofBonds n bs).nbPairs) := by
  unfold Conn.ofBonds Conn.derive nonBondedPairs
  simp only [List.mem_flatMap, List.mem_filterMap, List.mem_range]
  cases hb : bonded bs i j
  · right
    refine ⟨rfl, i, hi, j, hj, ?_⟩
    simp [hb]; omega
  · left
    refine ⟨rfl, ?_⟩
    rintro ⟨i', _, j', _, h⟩
    split at h
    · simp at h
    · split at h
      · simp at h
      · simp only [Option.some.injEq, Prod.mk.injEq] at h
        obtain ⟨rfl, rfl⟩ := h
        simp_all

/-- Pairs are listed with the larger index first, inside the molecule, and never bonded. -/
theorem pairs_sound (n : Nat) (bs : List Bond) (p : Nat × Nat) (h : p ∈ (Conn.ofBonds n bs).nbPairs) :
    p.2 < p.1 ∧ p.1 < n ∧ bonded bs p.1 p.2 = false := by
  unfold Conn.ofBonds Conn.derive nonBondedPairs at h
  simp only [List.mem_flatMap, List.mem_filterMap, List.mem_range] at h
  obtain ⟨i, hi, j, hj, h⟩ := h
  split at h
  · simp at h
  · split at h
    · simp at h
    · simp only [Option.some.injEq] at h
      subst h
      simp only
      refine ⟨by omega, hi, ?_⟩
      rename_i hb _
      simpa using hb

/-! ### Improper dihedrals -/

/-- **One improper per atom with exactly three neighbours, centred on it, and no other** (molecules of ≥ 4 atoms;
with fewer no atom can have three neighbours). -/
theorem impropers_exact (n : Nat) (bs : List Bond) (hn : 4 ≤ n) (key : Nat × Nat × Nat × Nat) :
    key ∈ (Conn.ofBonds n bs).impropers.map improperKey ↔
      ∃ c, c < n ∧ ∃ i j k, neighbours bs c = [i, j, k] ∧ key = (c, sort3 i j k) := by
  unfold Conn.ofBonds Conn.derive addDihedrals
  have : ¬ n < 4 := by omega
  simp only [this, if_false]
  rw [mem_keys_insertAllByKey]
  simp only [List.map_nil, List.not_mem_nil, false_or, List.mem_map]
  unfold improperInsertions
  simp only [List.mem_filterMap, List.mem_range]
  constructor
  · rintro ⟨d, ⟨c, hc, h⟩, rfl⟩
    split at h
    · rename_i i j k hnb
      simp only [Option.some.injEq] at h
      subst h
      exact ⟨c, hc, i, j, k, hnb, rfl⟩
    · simp at h
  · rintro ⟨c, hc, i, j, k, hnb, rfl⟩
    exact ⟨(c, i, j, k), ⟨c, hc, by simp [hnb]⟩, rfl⟩

theorem impropers_once (n : Nat) (bs : List Bond) : ((Conn.ofBonds n bs).impropers.map improperKey).Nodup := by
  unfold Conn.ofBonds Conn.derive addDihedrals
  simp only
  split
  · simp
  · exact nodup_keys_insertAllByKey _ _ _ (by simp)

/-- With fewer than four atoms no atom has three neighbours, so the early return loses nothing. -/
theorem no_improper_centre_below_four (n : Nat) (bs : List Bond) (hw : WellFormed n bs) (hn : n < 4)
    (c : Nat) (hc : c < n) : (neighbours bs c).length ≠ 3 ∨ ¬ (neighbours bs c).Nodup := by
  by_cases hnd : (neighbours bs c).Nodup
  · left
    intro hlen
    -- three distinct neighbours, all different from c and below n < 4
    have hall : ∀ x ∈ neighbours bs c, x < n ∧ x ≠ c := by
      intro x hx
      have hb := (mem_neighbours n bs hw c x).mp hx
      have := bonded_lt n bs hw c x hb
      have := bonded_ne bs c x hb
      omega
    match hnb : neighbours bs c, hlen, hnd, hall with
    | [x, y, z], _, hnd, hall =>
      have hx := hall x (by simp)
      have hy := hall y (by simp)
      have hz := hall z (by simp)
      simp only [List.nodup_cons, List.mem_cons, List.not_mem_nil, or_false, not_or, List.nodup_nil, and_true] at hnd
      omega
  · right; exact hnd

/-! ### Proper dihedrals -/

/-- `key` is the key of a bonded path i–j–k–l over four distinct atoms. -/
def IsProperPath (bs : List Bond) (key : Nat × Nat × Nat × Nat) : Prop :=
  ∃ i j k l, bonded bs i j = true ∧ bonded bs j k = true ∧ bonded bs k l = true ∧
    i ≠ k ∧ j ≠ l ∧ i ≠ l ∧ key = properKey (i, j, k, l)

theorem properKey_rev (i j k l : Nat) (h : i ≠ l) : properKey (l, k, j, i) = properKey (i, j, k, l) := by
  unfold properKey
  simp only
  split <;> split <;> first | rfl | omega | (simp only [Prod.mk.injEq]; omega)

theorem proper_insertions_mem (n : Nat) (bs : List Bond) (hw : WellFormed n bs) (d : Proper) :
    d ∈ properInsertions bs ↔
      (∃ b ∈ bs, b.i = d.2.1 ∧ b.j = d.2.2.1) ∧ bonded bs d.2.1 d.1 = true ∧ bonded bs d.2.2.1 d.2.2.2 = true ∧
        d.1 ≠ d.2.2.1 ∧ d.2.2.2 ≠ d.2.1 ∧ d.1 ≠ d.2.2.2 := by
  obtain ⟨i, j, k, l⟩ := d
  unfold properInsertions
  simp only [List.mem_flatMap]
  constructor
  · rintro ⟨b, hb, ni, hni, h⟩
    split at h
    · simp at h
    · rename_i hne
      simp only [List.mem_filterMap] at h
      obtain ⟨nj, hnj, h⟩ := h
      split at h
      · simp at h
      · rename_i hc
        simp only [Option.some.injEq, Prod.mk.injEq] at h
        obtain ⟨rfl, rfl, rfl, rfl⟩ := h
        refine ⟨⟨b, hb, rfl, rfl⟩, (mem_neighbours n bs hw _ _).mp hni, (mem_neighbours n bs hw _ _).mp hnj, hne, ?_, ?_⟩
        · intro e; exact hc (Or.inl e)
        · intro e; exact hc (Or.inr e)
  · rintro ⟨⟨b, hb, rfl, rfl⟩, h1, h2, h3, h4, h5⟩
    refine ⟨b, hb, i, (mem_neighbours n bs hw _ _).mpr h1, ?_⟩
    simp only [h3, if_false, List.mem_filterMap]
    refine ⟨l, (mem_neighbours n bs hw _ _).mpr h2, ?_⟩
    have : ¬ (l = b.i ∨ i = l) := by
      rintro (e | e)
      · exact h4 e
      · exact h5 e
    simp [this]

/-- **Proper dihedrals are exactly the bonded paths i–j–k–l over four distinct atoms** (molecules of ≥ 4 atoms),
whatever the bonds, the direction each bond is stored in, and their order. -/
theorem propers_exact (n : Nat) (bs : List Bond) (hw : WellFormed n bs) (hn : 4 ≤ n) (key : Nat × Nat × Nat × Nat) :
    key ∈ (Conn.ofBonds n bs).propers.map properKey ↔ IsProperPath bs key := by
  unfold Conn.ofBonds Conn.derive addDihedrals
  have : ¬ n < 4 := by omega
  simp only [this, if_false]
  rw [mem_keys_insertAllByKey]
  simp only [List.map_nil, List.not_mem_nil, false_or, List.mem_map]
  constructor
  · rintro ⟨d, hd, rfl⟩
    obtain ⟨_, h1, h2, h3, h4, h5⟩ := (proper_insertions_mem n bs hw d).mp hd
    obtain ⟨⟨b, hb, hbi, hbj⟩, _⟩ := (proper_insertions_mem n bs hw d).mp hd
    refine ⟨d.1, d.2.1, d.2.2.1, d.2.2.2, ?_, ?_, h2, h3, fun e => h4 e.symm, h5, rfl⟩
    · rw [bonded_symm]; exact h1
    · have hwf := hw b hb
      exact (bonded_iff bs _ _).mpr ⟨by omega, b, hb, Or.inl ⟨hbi, hbj⟩⟩
  · rintro ⟨i, j, k, l, h1, h2, h3, h4, h5, h6, rfl⟩
    -- the central bond is stored as (j,k) or as (k,j)
    obtain ⟨_, b, hb, hk⟩ := (bonded_iff bs j k).mp h2
    rcases hk with ⟨hbi, hbj⟩ | ⟨hbi, hbj⟩
    · refine ⟨(i, j, k, l), (proper_insertions_mem n bs hw _).mpr ⟨⟨b, hb, hbi, hbj⟩, ?_, h3, h4, fun e => h5 e.symm, h6⟩, rfl⟩
      rw [bonded_symm]; exact h1
    · refine ⟨(l, k, j, i), (proper_insertions_mem n bs hw _).mpr ⟨⟨b, hb, hbi, hbj⟩, h3, ?_, fun e => h5 e.symm, h4, fun e => h6 e.symm⟩, ?_⟩
      · rw [bonded_symm]; exact h1
      · exact properKey_rev i j k l h6

theorem propers_once (n : Nat) (bs : List Bond) : ((Conn.ofBonds n bs).propers.map properKey).Nodup := by
  unfold Conn.ofBonds Conn.derive addDihedrals
  simp only
  split
  · simp
  · exact nodup_keys_insertAllByKey _ _ _ (by simp)

/-- With fewer than four atoms there is no path over four distinct atoms, so the early return loses nothing. -/
theorem no_proper_path_below_four (n : Nat) (bs : List Bond) (hw : WellFormed n bs) (hn : n < 4)
    (key : Nat × Nat × Nat × Nat) : ¬ IsProperPath bs key := by
  rintro ⟨i, j, k, l, h1, h2, h3, h4, h5, h6, _⟩
  have := bonded_lt n bs hw i j h1
  have := bonded_lt n bs hw k l h3
  have := bonded_ne bs i j h1
  have := bonded_ne bs j k h2
  have := bonded_ne bs k l h3
  omega

/-! ### Non-vacuity: a triangle with a tail (atoms 0,1,2 in a ring, 3 attached to 2) -/

def demo : List Bond := [{ i := 0, j := 1 }, { i := 2, j := 1 }, { i := 0, j := 2 }, { i := 2, j := 3 }]

example : WellFormed 4 demo := by decide
example : (Conn.ofBonds 4 demo).angles.length = 5 ∧ (Conn.ofBonds 4 demo).propers.length = 2 ∧
    (Conn.ofBonds 4 demo).impropers.length = 1 ∧ (Conn.ofBonds 4 demo).nbPairs = [(3, 0), (3, 1)] := by decide

end OptRs.Props.C10
