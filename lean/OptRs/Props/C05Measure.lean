/-
C05, the convergence measure over the reals: the source stops when `sqrt(mean_i ‖g_i‖) < 0.1`. For a molecule with n > 0
atoms this (a) implies the mean atomic gradient norm is below 0.01, hence below the 0.1 of the property's statement, and
(b) is implied whenever every atomic gradient norm is below 0.01 — so the walk never continues past such a geometry.
(For n = 0 the source computes 0/0 = NaN, the comparison is false and the run spends its budget; no loader yields an empty molecule.)
-/
import Mathlib.Analysis.SpecialFunctions.Sqrt
import Mathlib.Tactic.Linarith
import Mathlib.Tactic.NormNum
import Mathlib.Tactic.Positivity
namespace OptRs.Props.C05
open Real

/-- `grad_rms` over the reals: the square root of the mean of the atomic gradient norms. -/
noncomputable def gradMeasure (norms : List ℝ) : ℝ := √(norms.sum / norms.length)

/-- (a) stopping implies a mean atomic gradient norm below 0.01 (< 0.1). -/
theorem converged_implies_small_mean (norms : List ℝ) (hn : norms ≠ []) (hpos : ∀ x ∈ norms, 0 ≤ x)
    (h : gradMeasure norms < 0.1) : norms.sum / norms.length < 0.01 ∧ norms.sum / norms.length < 0.1 := by
  unfold gradMeasure at h
  have hlen : (0 : ℝ) < norms.length := by
    have : 0 < norms.length := List.length_pos_iff.mpr hn
    exact_mod_cast this
  have hsum : 0 ≤ norms.sum := List.sum_nonneg hpos
  have hm : 0 ≤ norms.sum / norms.length := div_nonneg hsum hlen.le
  have := Real.sqrt_lt' (by norm_num : (0 : ℝ) < 0.1) |>.mp h
  constructor
  · norm_num at this ⊢; linarith
  · norm_num at this ⊢; linarith

theorem sum_lt_of_all_lt (norms : List ℝ) (hn : norms ≠ []) (c : ℝ) (h : ∀ x ∈ norms, x < c) : norms.sum < c * norms.length := by
  induction norms with
  | nil => exact absurd rfl hn
  | cons a as ih =>
    cases as with
    | nil => simp; exact h a (by simp)
    | cons b bs =>
      have h1 := ih (by simp) (fun x hx => h x (by simp [hx]))
      have ha := h a (by simp)
      simp only [List.sum_cons, List.length_cons, Nat.cast_add, Nat.cast_one] at h1 ⊢
      linarith

/-- (b) if every atomic gradient norm is below 0.01 the criterion is met: the walk does not continue past such a geometry. -/
theorem all_small_implies_converged (norms : List ℝ) (hn : norms ≠ []) (hpos : ∀ x ∈ norms, 0 ≤ x)
    (h : ∀ x ∈ norms, x < 0.01) : gradMeasure norms < 0.1 := by
  unfold gradMeasure
  have hlen : (0 : ℝ) < norms.length := by
    have : 0 < norms.length := List.length_pos_iff.mpr hn
    exact_mod_cast this
  have hs := sum_lt_of_all_lt norms hn 0.01 h
  have hmean : norms.sum / norms.length < 0.01 := by
    rw [div_lt_iff₀ hlen]; exact hs
  rw [Real.sqrt_lt' (by norm_num)]
  norm_num at hmean ⊢
  linarith

/-- Non-vacuity: three atoms with norms 0.005, 0.002, 0.009. -/
example : gradMeasure [0.005, 0.002, 0.009] < 0.1 :=
  all_small_implies_converged _ (by simp) (by intro x hx; simp at hx; rcases hx with rfl | rfl | rfl <;> norm_num)
    (by intro x hx; simp at hx; rcases hx with rfl | rfl | rfl <;> norm_num)

end OptRs.Props.C05
