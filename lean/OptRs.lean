import OptRs.Calc.Num
import OptRs.Gen.Tables
import OptRs.Gen.AtomTypes
import OptRs.Model.Atoms
