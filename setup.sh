#!/bin/sh
# Build the framework from files on disk only (offline): translators -> Lean library + model driver; Rust harness.
set -e
cd "$(dirname "$0")"
export CARGO_NET_OFFLINE=true
mkdir -p /var/tmp/optrs-verif-scratch
python3 translate/tables.py lean || true
python3 translate/terms.py lean || true
python3 translate/uff.py lean || true
(cd lean && lake build OptRs optrs-model) || true
(cd harness && cargo build --quiet) || true
cargo build --quiet --offline --bin optrs --manifest-path /repo/Cargo.toml --target-dir /var/tmp/optrs-verif-target/cli || true
echo "setup done"
