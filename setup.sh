#!/bin/sh
# Build the framework from files on disk only (offline): translators -> Lean library + model driver; Rust harness.
set -e
cd "$(dirname "$0")"
export CARGO_NET_OFFLINE=true
mkdir -p /var/tmp/optrs-verif-scratch
python3 translate/tables.py lean || true
[ -f translate/terms.py ] && (python3 translate/terms.py lean || true)
(cd lean && lake build OptRs optrs-model) || true
(cd harness && cargo build --quiet) || true
echo "setup done"
