//! C16: `set_bond_orders` through the wrapper driver.
use crate::canon::*;
use crate::util::*;
use optrs::verif::*;

const ALPHABET: [f64; 6] = [0.0, 1.0, 1.5, 2.0, 3.0, 4.0];

pub fn panic_kind(f: impl FnOnce()) -> Option<String> {
    match std::panic::catch_unwind(std::panic::AssertUnwindSafe(f)) {
        Ok(()) => None,
        Err(e) => {
            let msg = if let Some(s) = e.downcast_ref::<&str>() { s.to_string() }
                else if let Some(s) = e.downcast_ref::<String>() { s.clone() } else { "?".into() };
            Some(if msg.contains("Cannot set the bond orders") { "size".into() }
                 else if msg.contains("Failed to create a bond order") { "order".into() }
                 else if msg.contains("Cannot set the coordinates") { "length".into() }
                 else if msg.contains("Cannot build a 3d structure") { "nobonds".into() }
                 else { format!("other:{}", msg.replace(' ', "_")) })
        }
    }
}

fn classify(v: f64) -> Option<Option<f64>> {
    // None = unsupported; Some(None) = zero; Some(Some(o)) = order — the property's reading, written independently
    if v.abs() < 1e-8 { return Some(None); }
    for o in [1.0, 1.5, 2.0, 3.0, 4.0] { if (o - v).abs() < 1e-8 { return Some(Some(o)); } }
    None
}

fn one(out: &mut Out, n: usize, m: &[f64], count: &mut usize, with_bonds: &mut usize, errors: &mut usize) {
    let syms = crate::s_topology::palette_symbols(n, *count / 2);
    let mut w = Wrapper::from_atomic_symbols(&syms);
    // half of the cases start from a molecule that already has bonds (a chain set through the same interface):
    // the result must not depend on what was there before
    if *count % 2 == 1 && n >= 2 {
        let mut prev = vec![0.0; n * n];
        for i in 0..(n - 1) { prev[i * n + i + 1] = 1.0; prev[(i + 1) * n + i] = 1.0; }
        w.set_bond_orders(prev);
    }
    // a third of the molecules already hold coordinates (on a line, on a zig-zag, scattered): the outcome is the matrix's alone
    match *count % 9 {
        2 => { let _ = panic_kind(|| w.set_coordinates((0..n).flat_map(|i| [1.2 * i as f64, 0.0, 0.0]).collect())); }
        5 => { let _ = panic_kind(|| w.set_coordinates((0..n).flat_map(|i| [0.0, 1.1 * i as f64, if i % 2 == 0 { 0.0 } else { 0.6 }]).collect())); }
        8 => { let _ = panic_kind(|| w.set_coordinates((0..n).flat_map(|i| [((i * 37 + 11) % 17) as f64 * 0.61, ((i * 23 + 5) % 13) as f64 * 0.83, ((i * 7 + 3) % 11) as f64 * 0.97]).collect())); }
        _ => {}
    }
    let input = format!("matrix {} {}", n, if m.is_empty() { "-".to_string() } else { m.iter().map(|v| hx(*v)).collect::<Vec<_>>().join(" ") });
    let r = panic_kind(|| w.set_bond_orders(m.to_vec()));
    *count += 1;
    match r {
        Some(kind) => {
            out.case(&input, &format!("err {}", kind));
            *errors += 1;
            // oracle: an error is right only for a wrong size or an unsupported upper-triangle value
            let size_bad = m.len() != n * n;
            let value_bad = !size_bad && (0..n).any(|i| ((i + 1)..n).any(|j| classify(m[i * n + j]).is_none()));
            if !(size_bad || value_bad) {
                out.oracle_fail(&format!("valid matrix rejected ({})", kind), &input);
            }
        }
        None => {
            let got = connectivity(w.molecule());
            out.case(&input, &canon_conn(&got));
            if m.len() != n * n {
                out.oracle_fail("matrix of the wrong size accepted", &input);
                return;
            }
            let mut want: Vec<(usize, usize, f64)> = vec![];
            let mut bad = false;
            for i in 0..n { for j in (i + 1)..n {
                match classify(m[i * n + j]) { None => bad = true, Some(None) => {}, Some(Some(o)) => want.push((i, j, o)) }
            } }
            if bad { out.oracle_fail("unsupported order value accepted", &input); return; }
            if !want.is_empty() { *with_bonds += 1; }
            let want_text = canon_conn(&reference_conn(n, &want));
            if canon_conn(&got) != want_text {
                out.oracle_fail(&format!("bonds/angles/dihedrals/pairs are not the specified ones: got {} want {}", canon_conn(&got), want_text), &input);
            }
        }
    }
}

pub fn run(out: &mut Out, seed: u64, tier: &str) {
    let mut rng = Rng::new(seed ^ 0x3a71);
    let (mut count, mut with_bonds, mut errors) = (0, 0, 0);
    // exhaustive symmetric matrices over the order alphabet
    let max_exh = if tier == "thorough" { 4 } else { 3 };
    for n in 0..=max_exh {
        let pairs: Vec<(usize, usize)> = (0..n).flat_map(|i| ((i + 1)..n).map(move |j| (i, j))).collect();
        let total = 6usize.pow(pairs.len() as u32);
        for code in 0..total {
            let mut m = vec![0.0; n * n];
            let mut c = code;
            for (i, j) in &pairs { let v = ALPHABET[c % 6]; c /= 6; m[i * n + j] = v; m[j * n + i] = v; }
            one(out, n, &m, &mut count, &mut with_bonds, &mut errors);
        }
    }
    out.stat("exhaustive_symmetric_up_to_n", max_exh);
    let n_random = if tier == "thorough" { 4000 } else { 1200 };
    let hint_mags: Vec<f64> = hints().magnitudes().into_iter().filter(|m| *m < 10.0).collect();
    for r in 0..n_random {
        let n = 2 + rng.below(if r % 4 == 0 { 19 } else { 5 });
        let mut m = vec![0.0; n * n];
        let density = if n > 7 { rng.range(0.5, 3.0) / n as f64 } else { rng.range(0.05, 0.6) };
        for i in 0..n { for j in (i + 1)..n {
            if rng.chance(density) { let v = ALPHABET[1 + rng.below(5)]; m[i * n + j] = v; m[j * n + i] = v; }
        } }
        match r % 10 {
            0 => { for v in m.iter_mut() { if rng.chance(0.3) { *v = ALPHABET[rng.below(6)]; } } }  // asymmetric, diagonal entries too
            1 => { let k = rng.below(n * n); m[k] = *rng.pick(&[0.5, 5.0, -1.0, 2.5, f64::NAN, 1e-3, 1.0001]); }  // unsupported somewhere
            2 => { let k = rng.below(n * n); m[k] = *rng.pick(&[1.0 + 5e-9, 5e-9, -5e-9, 2.0 - 9e-9, 1.5 + 2e-8]); } // on the tolerance edge
            // exactly on the edge of what the code reads as zero or as an order, and the doubles next to it, in the upper triangle
            5 => { let (i, j) = { let i = rng.below(n - 1); (i, i + 1 + rng.below(n - 1 - i)) };
                   let e = 1e-8f64; let up = f64::from_bits(e.to_bits() + 1); let dn = f64::from_bits(e.to_bits() - 1);
                   m[i * n + j] = *rng.pick(&[e, -e, up, -up, dn, -dn, 1.0 + e, 1.0 - e, 2.0 + e, 3.0 - e, 1.5 - e, 4.0 + e, f64::MIN_POSITIVE, 1e-300, -1e-300, 1e-7, 9.999999e-9]); }
            3 => { if rng.chance(0.5) { m.pop(); } else { m.push(1.0); } }                      // wrong size
            4 => { m.truncate(n); }                                                               // wrong size
            // an entry of a size the changed source lines mention (alone, and next to an order)
            6 => { if !hint_mags.is_empty() { let (i, j) = { let i = rng.below(n - 1); (i, i + 1 + rng.below(n - 1 - i)) }; let e = hint_mags[rng.below(hint_mags.len())];
                   m[i * n + j] = *rng.pick(&[e, -e, 1.0 + e, 1.0 - e, 2.0 - e, 1.5 + e, 3.0 + e, 4.0 - e, f64::from_bits(e.to_bits() + 1), f64::from_bits(e.to_bits() - 1)]); } }
            _ => {}
        }
        one(out, n, &m, &mut count, &mut with_bonds, &mut errors);
    }
    // matrices of a size the changed source lines mention
    for &n in hints().ints.iter().filter(|k| **k >= 2 && **k <= 70).take(4) {
        for nn in [n - 1, n, n + 1] {
            let mut m = vec![0.0; nn * nn];
            for i in 0..nn { for j in (i + 1)..nn { if rng.chance(3.0 / nn as f64) { let v = ALPHABET[1 + rng.below(5)]; m[i * nn + j] = v; m[j * nn + i] = v; } } }
            for j in 1..nn { m[j] = 1.0; m[j * nn] = 1.0; }            // and one atom bonded to all others
            one(out, nn, &m, &mut count, &mut with_bonds, &mut errors);
        }
    }
    out.stat("matrices", count);
    out.stat("matrices_specifying_bonds", with_bonds);
    out.stat("rejections", errors);
    out.sample("matrix 3 [0 0 0; 0 0 2; 0 2 0] -> one double bond 1-2");
}
