mod util;
mod s_atoms;
mod s_terms;
mod canon;
mod s_topology;
mod s_matrix;
mod gen;
mod s_perceive;
mod s_ff;
mod s_sd;
mod s_xyz;
mod s_history;
mod s_opt;
mod s_build;
mod s_params;
mod s_repro;
mod s_wrapper;
mod s_build3d;
mod s_cli;
mod s_robust;
mod s_fragments;
mod s_rigid;
mod s_trace;

fn main() {
    let args: Vec<String> = std::env::args().collect();
    if args.len() < 2 {
        eprintln!("usage: hx <stream> [--seed S] [--tier quick|thorough] [args...]");
        std::process::exit(2);
    }
    let mut seed: u64 = 1;
    let mut tier = "quick".to_string();
    let mut rest: Vec<String> = vec![];
    let mut i = 2;
    while i < args.len() {
        match args[i].as_str() {
            "--seed" => { seed = args[i + 1].parse().unwrap(); i += 2; }
            "--tier" => { tier = args[i + 1].clone(); i += 2; }
            _ => { rest.push(args[i].clone()); i += 1; }
        }
    }
    // panics inside the code under test are outcomes, not noise
    std::panic::set_hook(Box::new(|info| {
        let loc = info.location().map(|l| format!("{}:{}", l.file(), l.line())).unwrap_or_default();
        let msg = info.payload().downcast_ref::<&str>().map(|s| s.to_string())
            .or_else(|| info.payload().downcast_ref::<String>().cloned()).unwrap_or_default();
        if let Ok(mut g) = util::LAST_PANIC.lock() { *g = format!("'{}' at {}", msg, loc); }
    }));
    let mut out = util::Out::new();
    let stream = args[1].clone();
    let r = std::panic::catch_unwind(std::panic::AssertUnwindSafe(|| run_stream(&mut out, &args, seed, &tier, &rest)));
    if r.is_err() { out.uncaught_panic(&stream); }
    out.flush();
}

fn run_stream(out: &mut util::Out, args: &[String], seed: u64, tier: &str, rest: &[String]) {
    let tier = tier.to_string();
    match args[1].as_str() {
        "atoms" => s_atoms::run(out, seed, &tier),
        "terms" => s_terms::run(out, seed, &tier),
        "topology" => s_topology::run(out, seed, &tier),
        "matrix" => s_matrix::run(out, seed, &tier),
        "perceive" => s_perceive::run(out, seed, &tier),
        "ff" => s_ff::run(out, seed, &tier),
        "sd" => s_sd::run(out, seed, &tier),
        "trace" => s_trace::run(out, &rest[0]),
        "why" => s_trace::why_abort(out),
        "explain" => s_trace::explain(out, &rest[0]),
        "rigid" => s_rigid::run(out, seed, &tier),
        "fragments" => s_fragments::run(out, seed, &tier),
        "robust" => s_robust::run(out, seed, &tier),
        "cli" => s_cli::run(out, seed, &tier),
        "build3d" => s_build3d::run(out, seed, &tier),
        "wrapper" => s_wrapper::run(out, seed, &tier),
        "repro" => s_repro::run(out, seed, &tier),
        "params" => s_params::run(out, seed, &tier),
        "build" => s_build::run(out, seed, &tier),
        "opt" => s_opt::run(out, seed, &tier),
        "history" => s_history::run(out, seed, &tier),
        "xyz-write" => s_xyz::run_write(out, seed, &tier),
        "xyz-read" => s_xyz::run_read(out, seed, &tier),
        other => { eprintln!("unknown stream {}", other); std::process::exit(2); }
    }
}
