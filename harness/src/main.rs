mod util;
mod s_atoms;
mod s_terms;
mod canon;
mod s_topology;
mod s_matrix;
mod gen;
mod s_perceive;
mod s_ff;
mod s_sd;
mod s_xyz;
mod s_history;
mod s_opt;
mod s_build;
mod s_params;
mod s_repro;
mod s_wrapper;
mod s_build3d;
mod s_cli;
mod s_robust;
mod s_fragments;
mod s_rigid;
mod s_trace;

fn main() {
    let args: Vec<String> = std::env::args().collect();
    if args.len() < 2 {
        eprintln!("usage: hx <stream> [--seed S] [--tier quick|thorough] [args...]");
        std::process::exit(2);
    }
    let mut seed: u64 = 1;
    let mut tier = "quick".to_string();
    let mut rest: Vec<String> = vec![];
    let mut i = 2;
    while i < args.len() {
        match args[i].as_str() {
            "--seed" => { seed = args[i + 1].parse().unwrap(); i += 2; }
            "--tier" => { tier = args[i + 1].clone(); i += 2; }
            _ => { rest.push(args[i].clone()); i += 1; }
        }
    }
    // panics inside the code under test are outcomes, not noise
    std::panic::set_hook(Box::new(|_| {}));
    let mut out = util::Out::new();
    match args[1].as_str() {
        "atoms" => s_atoms::run(&mut out, seed, &tier),
        "terms" => s_terms::run(&mut out, seed, &tier),
        "topology" => s_topology::run(&mut out, seed, &tier),
        "matrix" => s_matrix::run(&mut out, seed, &tier),
        "perceive" => s_perceive::run(&mut out, seed, &tier),
        "ff" => s_ff::run(&mut out, seed, &tier),
        "sd" => s_sd::run(&mut out, seed, &tier),
        "trace" => s_trace::run(&mut out, &rest[0]),
        "why" => s_trace::why_abort(&mut out),
        "rigid" => s_rigid::run(&mut out, seed, &tier),
        "fragments" => s_fragments::run(&mut out, seed, &tier),
        "robust" => s_robust::run(&mut out, seed, &tier),
        "cli" => s_cli::run(&mut out, seed, &tier),
        "build3d" => s_build3d::run(&mut out, seed, &tier),
        "wrapper" => s_wrapper::run(&mut out, seed, &tier),
        "repro" => s_repro::run(&mut out, seed, &tier),
        "params" => s_params::run(&mut out, seed, &tier),
        "build" => s_build::run(&mut out, seed, &tier),
        "opt" => s_opt::run(&mut out, seed, &tier),
        "history" => s_history::run(&mut out, seed, &tier),
        "xyz-write" => s_xyz::run_write(&mut out, seed, &tier),
        "xyz-read" => s_xyz::run_read(&mut out, seed, &tier),
        other => { eprintln!("unknown stream {}", other); std::process::exit(2); }
    }
    out.flush();
}
