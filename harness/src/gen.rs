//! Molecule generators shared by all streams: idealised building blocks from the repo's own notions (covalent
//! radii, coordination geometries), then distortions, rigid motions and unions. Every random choice comes from
//! the one `Rng`.
use crate::util::*;
use optrs::verif::*;

#[derive(Clone, Debug)]
pub struct Mol {
    pub name: String,
    pub zs: Vec<usize>,
    pub xs: Vec<[f64; 3]>,
}

impl Mol {
    pub fn n(&self) -> usize { self.zs.len() }
    pub fn symbols(&self) -> Vec<String> {
        let s = symbols();
        self.zs.iter().map(|z| s[*z - 1].clone()).collect()
    }
    pub fn points(&self) -> Vec<Point> { self.xs.iter().map(|p| Point { x: p[0], y: p[1], z: p[2] }).collect() }
    pub fn xyz_text(&self) -> String {
        let mut t = format!("{}\n{}\n", self.n(), self.name);
        for (s, p) in self.symbols().iter().zip(self.xs.iter()) {
            t += &format!("{} {:?} {:?} {:?}\n", s, p[0], p[1], p[2]);
        }
        t
    }
    /// The real molecule, built as `from_atomic_nums_and_coords` does (symbols, then coordinates, then the four fills)
    pub fn build(&self) -> Molecule {
        let syms = self.symbols();
        let refs: Vec<&str> = syms.iter().map(|s| s.as_str()).collect();
        let mut m = Molecule::from_atomic_symbols(&refs);
        m.coordinates = self.points();
        regenerate_connectivity(&mut m);
        m
    }
    pub fn min_distance(&self) -> f64 {
        let mut d = f64::MAX;
        for i in 0..self.n() { for j in 0..i {
            let r = ((self.xs[i][0] - self.xs[j][0]).powi(2) + (self.xs[i][1] - self.xs[j][1]).powi(2) + (self.xs[i][2] - self.xs[j][2]).powi(2)).sqrt();
            if r < d { d = r; }
        } }
        d
    }
    pub fn line(&self) -> String {
        format!("{} ; {}", self.zs.iter().map(|z| z.to_string()).collect::<Vec<_>>().join(","),
            self.xs.iter().flat_map(|p| p.iter().map(|v| hx(*v))).collect::<Vec<_>>().join(" "))
    }
}

pub fn z_of(sym: &str) -> usize { symbols().iter().position(|s| s == sym).expect("symbol") + 1 }
pub fn radius(z: usize) -> f64 { AtomicNumber::from_integer(z).unwrap().covalent_radius() }

fn norm(v: [f64; 3]) -> [f64; 3] { let l = (v[0] * v[0] + v[1] * v[1] + v[2] * v[2]).sqrt(); [v[0] / l, v[1] / l, v[2] / l] }

/// Unit directions of the idealised coordination geometries
pub fn directions(geometry: &str) -> Vec<[f64; 3]> {
    let s3 = 3f64.sqrt();
    match geometry {
        "single" => vec![[1., 0., 0.]],
        "linear" => vec![[1., 0., 0.], [-1., 0., 0.]],
        "bent" => { let a = 104.5f64.to_radians() / 2.0; vec![[a.sin(), a.cos(), 0.], [-a.sin(), a.cos(), 0.]] }
        "trigonal" => vec![[1., 0., 0.], [-0.5, s3 / 2., 0.], [-0.5, -s3 / 2., 0.]],
        "pyramidal" => { let t = 0.35f64; vec![norm([1., 0., -t]), norm([-0.5, s3 / 2., -t]), norm([-0.5, -s3 / 2., -t])] }
        // three mutually perpendicular bonds along the axes (what a builder emits for a "90 degree" pyramid, and PH3 is close to it)
        "orthopyramid" => vec![[1., 0., 0.], [0., 1., 0.], [0., 0., 1.]],
        // three neighbours, two of them exactly opposite each other (ClF3 as drawn on a grid)
        "tshape" => vec![[1., 0., 0.], [-1., 0., 0.], [0., 1., 0.]],
        "tetrahedral" => vec![norm([1., 1., 1.]), norm([1., -1., -1.]), norm([-1., 1., -1.]), norm([-1., -1., 1.])],
        "square" => vec![[1., 0., 0.], [0., 1., 0.], [-1., 0., 0.], [0., -1., 0.]],
        "tbp" => vec![[0., 0., 1.], [0., 0., -1.], [1., 0., 0.], [-0.5, s3 / 2., 0.], [-0.5, -s3 / 2., 0.]],
        "octahedral" => vec![[1., 0., 0.], [-1., 0., 0.], [0., 1., 0.], [0., -1., 0.], [0., 0., 1.], [0., 0., -1.]],
        // seven and eight neighbours (the few elements whose maximal valence lets perception keep seven bonds reach "Unknown")
        "pbp" => { let mut v = vec![[0., 0., 1.], [0., 0., -1.]]; for k in 0..5 { let a = 2.0 * std::f64::consts::PI * k as f64 / 5.0; v.push([a.cos(), a.sin(), 0.]); } v }
        "cube" => { let q = 1.0 / 3f64.sqrt(); let mut v = vec![]; for sx in [-1., 1.] { for sy in [-1., 1.] { for sz in [-1., 1.] { v.push([sx * q, sy * q, sz * q]); } } } v }
        _ => panic!("geometry"),
    }
}
pub const GEOMETRIES: [&str; 12] = ["single", "linear", "bent", "trigonal", "pyramidal", "tetrahedral", "square", "tbp", "octahedral", "orthopyramid", "pbp", "cube"];

/// A centre with ligands at bond length scale × (r_c + r_l)
pub fn centre(zc: usize, zl: usize, geometry: &str, scale: f64) -> Mol {
    let mut zs = vec![zc];
    let mut xs = vec![[0.0; 3]];
    let r = scale * (radius(zc) + radius(zl));
    for d in directions(geometry) { zs.push(zl); xs.push([d[0] * r, d[1] * r, d[2] * r]); }
    Mol { name: format!("{}-{}x{}", zc, geometry, zl), zs, xs }
}

/// Zig-zag chain of `n` heavy atoms with hydrogens to fill tetrahedral positions approximately
pub fn alkane(n: usize) -> Mol {
    let (c, h) = (6, 1);
    let cc = 1.53; let ch = 1.09;
    let mut zs = vec![]; let mut xs = vec![];
    let ang = (109.47f64 / 2.0).to_radians();
    for i in 0..n {
        let x = i as f64 * cc * ang.sin();
        let y = if i % 2 == 0 { 0.0 } else { cc * ang.cos() };
        zs.push(c); xs.push([x, y, 0.0]);
        let up = if i % 2 == 0 { -1.0 } else { 1.0 };
        zs.push(h); xs.push([x, y + up * ch * 0.58, ch * 0.815]);
        zs.push(h); xs.push([x, y + up * ch * 0.58, -ch * 0.815]);
        if i == 0 { zs.push(h); xs.push([x - ch * 0.9, y + 0.4 * -up * ch, 0.0]); }
        if i == n - 1 { zs.push(h); xs.push([x + ch * 0.9, y + 0.4 * -up * ch, 0.0]); }
    }
    Mol { name: format!("alkane{}", n), zs, xs }
}

/// Planar ring of `n` atoms of element z with bond length b, each with one outward substituent zs (0 = none)
pub fn ring(n: usize, z: usize, b: f64, sub: usize, sb: f64) -> Mol {
    let r = b / (2.0 * (std::f64::consts::PI / n as f64).sin());
    let mut zs = vec![]; let mut xs = vec![];
    for i in 0..n {
        let a = 2.0 * std::f64::consts::PI * i as f64 / n as f64;
        zs.push(z); xs.push([r * a.cos(), r * a.sin(), 0.0]);
        if sub > 0 { zs.push(sub); xs.push([(r + sb) * a.cos(), (r + sb) * a.sin(), 0.0]); }
    }
    Mol { name: format!("ring{}-{}", n, z), zs, xs }
}

pub fn linear_chain(zs: &[usize], scale: f64) -> Mol {
    let mut xs = vec![]; let mut x = 0.0;
    for (i, z) in zs.iter().enumerate() {
        if i > 0 { x += scale * (radius(zs[i - 1]) + radius(*z)); }
        xs.push([x, 0.0, 0.0]);
    }
    Mol { name: "chain".into(), zs: zs.to_vec(), xs }
}

pub fn named(name: &str, atoms: &[(&str, f64, f64, f64)]) -> Mol {
    Mol { name: name.into(), zs: atoms.iter().map(|a| z_of(a.0)).collect(), xs: atoms.iter().map(|a| [a.1, a.2, a.3]).collect() }
}

/// A fixed library of small real molecules (coordinates from standard geometries)
pub fn library() -> Vec<Mol> {
    let mut v = vec![
        named("water", &[("O", 0.0, 0.0, 0.117), ("H", 0.0, 0.757, -0.469), ("H", 0.0, -0.757, -0.469)]),
        named("h2", &[("H", 0.0, 0.0, 0.0), ("H", 0.74, 0.0, 0.0)]),
        named("ammonia", &[("N", 0.0, 0.0, 0.116), ("H", 0.0, 0.939, -0.271), ("H", 0.813, -0.470, -0.271), ("H", -0.813, -0.470, -0.271)]),
        named("methane", &[("C", 0.0, 0.0, 0.0), ("H", 0.629, 0.629, 0.629), ("H", -0.629, -0.629, 0.629), ("H", -0.629, 0.629, -0.629), ("H", 0.629, -0.629, -0.629)]),
        named("ethene", &[("C", 0.0, 0.0, 0.667), ("C", 0.0, 0.0, -0.667), ("H", 0.0, 0.923, 1.238), ("H", 0.0, -0.923, 1.238), ("H", 0.0, 0.923, -1.238), ("H", 0.0, -0.923, -1.238)]),
        named("ethyne", &[("C", 0.0, 0.0, 0.601), ("C", 0.0, 0.0, -0.601), ("H", 0.0, 0.0, 1.665), ("H", 0.0, 0.0, -1.665)]),
        named("h2o2", &[("H", -3.80272, 0.11331, -0.29090), ("O", -3.75673, 1.06948, -0.03303), ("O", -2.46930, 1.33955, 0.03004), ("H", -2.25240, 1.31540, 0.99712)]),
        named("formaldehyde", &[("C", 0.0, 0.0, -0.529), ("O", 0.0, 0.0, 0.677), ("H", 0.0, 0.935, -1.109), ("H", 0.0, -0.935, -1.109)]),
        named("methanol", &[("C", -0.047, 0.664, 0.0), ("O", -0.047, -0.758, 0.0), ("H", -1.093, 0.970, 0.0), ("H", 0.437, 1.080, 0.892), ("H", 0.437, 1.080, -0.892), ("H", 0.862, -1.050, 0.0)]),
        named("hcn", &[("H", 0.0, 0.0, -1.064), ("C", 0.0, 0.0, 0.0), ("N", 0.0, 0.0, 1.156)]),
        named("co2", &[("O", 0.0, 0.0, -1.16), ("C", 0.0, 0.0, 0.0), ("O", 0.0, 0.0, 1.16)]),
        named("phosphine", &[("P", 0.0, 0.0, 0.128), ("H", 0.0, 1.189, -0.640), ("H", 1.030, -0.595, -0.640), ("H", -1.030, -0.595, -0.640)]),
        named("arsine", &[("As", 0.0, 0.0, 0.130), ("H", 0.0, 1.265, -0.780), ("H", 1.096, -0.633, -0.780), ("H", -1.096, -0.633, -0.780)]),
        named("methylamine", &[("C", 0.051, 0.704, 0.0), ("N", 0.051, -0.759, 0.0), ("H", -0.942, 1.177, 0.0), ("H", 0.592, 1.057, 0.881), ("H", 0.592, 1.057, -0.881), ("H", -0.458, -1.099, 0.812), ("H", -0.458, -1.099, -0.812)]),
        named("formamide", &[("C", 0.0, 0.419, 0.0), ("O", 1.199, 0.236, 0.0), ("N", -0.937, -0.560, 0.0), ("H", -0.435, 1.432, 0.0), ("H", -0.636, -1.520, 0.0), ("H", -1.917, -0.346, 0.0)]),
        named("dmso-like", &[("S", 0.0, 0.0, 0.4), ("O", 0.0, 0.0, 1.9), ("C", 1.45, 0.6, -0.3), ("C", -1.45, 0.6, -0.3), ("H", 1.5, 1.6, 0.1), ("H", 2.3, 0.1, 0.0), ("H", 1.4, 0.6, -1.4), ("H", -1.5, 1.6, 0.1), ("H", -2.3, 0.1, 0.0), ("H", -1.4, 0.6, -1.4)]),
        named("hn3", &[("H", -0.6, 0.85, 0.0), ("N", 0.0, 0.0, 0.0), ("N", 1.24, 0.0, 0.0), ("N", 2.37, 0.05, 0.0)]),
        named("cyclopropane", &[("C", 0.0, 0.866, 0.0), ("C", 0.75, -0.433, 0.0), ("C", -0.75, -0.433, 0.0), ("H", 0.0, 1.45, 0.9), ("H", 0.0, 1.45, -0.9), ("H", 1.26, -0.73, 0.9), ("H", 1.26, -0.73, -0.9), ("H", -1.26, -0.73, 0.9), ("H", -1.26, -0.73, -0.9)]),
        named("ptcl4", &[("Pt", 0.0, 0.0, 0.0), ("Cl", 2.3, 0.0, 0.0), ("Cl", -2.3, 0.0, 0.0), ("Cl", 0.0, 2.3, 0.0), ("Cl", 0.0, -2.3, 0.0)]),
        named("sf6", &[("S", 0.0, 0.0, 0.0), ("F", 1.56, 0.0, 0.0), ("F", -1.56, 0.0, 0.0), ("F", 0.0, 1.56, 0.0), ("F", 0.0, -1.56, 0.0), ("F", 0.0, 0.0, 1.56), ("F", 0.0, 0.0, -1.56)]),
        named("argon-atom", &[("Ar", 0.3, -0.2, 0.1)]),
        named("nacl", &[("Na", 0.0, 0.0, 0.0), ("Cl", 2.36, 0.0, 0.0)]),
    ];
    // centres with three heavy neighbours that can all form multiple bonds (three candidate double bonds on one atom)
    v.push(named("acetone", &[("C", 0.0, 0.0, 0.0), ("O", 0.0, 1.22, 0.0), ("C", 1.29, -0.77, 0.0), ("C", -1.29, -0.77, 0.0),
        ("H", 1.2, -1.86, 0.0), ("H", 1.85, -0.45, 0.89), ("H", 1.85, -0.45, -0.89), ("H", -1.2, -1.86, 0.0), ("H", -1.85, -0.45, 0.89), ("H", -1.85, -0.45, -0.89)]));
    v.push(named("urea", &[("C", 0.0, 0.0, 0.0), ("O", 0.0, 1.23, 0.0), ("N", 1.16, -0.72, 0.0), ("N", -1.16, -0.72, 0.0),
        ("H", 1.2, -1.73, 0.0), ("H", 2.0, -0.18, 0.0), ("H", -1.2, -1.73, 0.0), ("H", -2.0, -0.18, 0.0)]));
    v.push(named("nitrate", &[("N", 0.0, 0.0, 0.0), ("O", 0.0, 1.25, 0.0), ("O", 1.083, -0.625, 0.0), ("O", -1.083, -0.625, 0.0)]));
    v.push(named("carbonate", &[("C", 0.0, 0.0, 0.0), ("O", 0.0, 1.29, 0.0), ("O", 1.117, -0.645, 0.0), ("O", -1.117, -0.645, 0.0)]));
    v.push(named("isobutene", &[("C", 0.0, 0.0, 0.0), ("C", 0.0, 1.34, 0.0), ("C", 1.3, -0.76, 0.0), ("C", -1.3, -0.76, 0.0),
        ("H", 0.93, 1.9, 0.0), ("H", -0.93, 1.9, 0.0), ("H", 1.2, -1.85, 0.0), ("H", 1.88, -0.45, 0.88), ("H", 1.88, -0.45, -0.88),
        ("H", -1.2, -1.85, 0.0), ("H", -1.88, -0.45, 0.88), ("H", -1.88, -0.45, -0.88)]));
    v.push({ let mut m = ring(6, 6, 1.40, 1, 1.09); m.name = "benzene".into(); m });
    v.push(alkane(2)); v.push(alkane(4));
    // a builder's benzene (slightly irregular, as in the repository's own fixture) next to the ideal ring above
    v.push(named("benzene-built", &[("C", -0.50959, 1.40925, 0.0), ("C", -0.50172, -0.01013, 0.0), ("C", 0.71485, 2.13236, 0.0), ("C", 1.91595, 1.39203, 0.0),
        ("C", 1.91230, -0.00722, 0.0), ("C", 0.71648, -0.73162, 0.0), ("H", 0.75399, -1.83203, 0.0), ("H", -1.42864, -0.58129, 0.0), ("H", -1.47287, 1.94140, 0.0),
        ("H", 0.78724, 3.23589, 0.0), ("H", 2.86816, 1.90649, 0.0), ("H", 2.85791, -0.54513, 0.0)]));
    v
}

/// A random molecule from the structured families
pub fn random_mol(rng: &mut Rng) -> Mol {
    let lib = library();
    match rng.below(8) {
        0 | 1 => rng.pick(&lib).clone(),
        2 => {
            // any element as centre, common ligands, any geometry
            let zc = 1 + rng.below(118);
            let zl = *rng.pick(&[1usize, 6, 8, 9, 17, 7, 35]);
            centre(zc, zl, *rng.pick(&GEOMETRIES), rng.range(0.85, 1.15))
        }
        3 => {
            let zc = *rng.pick(&[5usize, 6, 7, 8, 13, 14, 15, 16, 33, 34, 51, 83, 26, 28, 29, 46, 78, 79, 22, 40, 57, 92]);
            centre(zc, *rng.pick(&[1usize, 9, 17]), *rng.pick(&GEOMETRIES), rng.range(0.9, 1.1))
        }
        4 => if rng.chance(0.5) { alkane(1 + rng.below(5)) } else {
            // a period-2 centre with three heavy neighbours from groups 14-16 (bond-order refinement is exercised)
            centre(*rng.pick(&[6usize, 7, 5]), *rng.pick(&[6usize, 7, 8, 16]), "trigonal", rng.range(0.85, 1.0))
        },
        5 => { let n = 3 + rng.below(5); let z = *rng.pick(&[6usize, 7, 14, 5]); ring(n, z, 1.1 * 2.0 * radius(z) * 0.93, if rng.chance(0.7) { 1 } else { 0 }, 1.05) }
        6 => { let n = 2 + rng.below(5); let zs: Vec<usize> = (0..n).map(|_| *rng.pick(&[1usize, 6, 7, 8, 16, 9, 15])).collect(); linear_chain(&zs, rng.range(0.85, 1.1)) }
        _ => {
            // random cluster of random elements in a box
            let n = 2 + rng.below(10);
            let side = (n as f64 / 0.08).powf(1.0 / 3.0);
            let zs: Vec<usize> = (0..n).map(|_| if rng.chance(0.7) { *rng.pick(&[1usize, 6, 7, 8, 9, 15, 16, 17]) } else { 1 + rng.below(118) }).collect();
            let xs = (0..n).map(|_| [rng.range(0.0, side), rng.range(0.0, side), rng.range(0.0, side)]).collect();
            Mol { name: "cluster".into(), zs, xs }
        }
    }
}

pub fn distort(m: &Mol, sigma: f64, rng: &mut Rng) -> Mol {
    let mut r = m.clone();
    for p in r.xs.iter_mut() { for c in 0..3 { p[c] += sigma * rng.gauss(); } }
    r
}

/// Random proper rotation (from a unit quaternion) and translation
pub fn random_rotation(rng: &mut Rng) -> [[f64; 3]; 3] {
    let q = { let v = [rng.gauss(), rng.gauss(), rng.gauss(), rng.gauss()]; let l = (v.iter().map(|x| x * x).sum::<f64>()).sqrt(); [v[0] / l, v[1] / l, v[2] / l, v[3] / l] };
    let (w, x, y, z) = (q[0], q[1], q[2], q[3]);
    [[1. - 2. * (y * y + z * z), 2. * (x * y - z * w), 2. * (x * z + y * w)],
     [2. * (x * y + z * w), 1. - 2. * (x * x + z * z), 2. * (y * z - x * w)],
     [2. * (x * z - y * w), 2. * (y * z + x * w), 1. - 2. * (x * x + y * y)]]
}
pub fn apply(r: &[[f64; 3]; 3], t: [f64; 3], p: [f64; 3]) -> [f64; 3] {
    [r[0][0] * p[0] + r[0][1] * p[1] + r[0][2] * p[2] + t[0], r[1][0] * p[0] + r[1][1] * p[1] + r[1][2] * p[2] + t[1], r[2][0] * p[0] + r[2][1] * p[1] + r[2][2] * p[2] + t[2]]
}
pub fn moved(m: &Mol, r: &[[f64; 3]; 3], t: [f64; 3]) -> Mol {
    let mut o = m.clone();
    for p in o.xs.iter_mut() { *p = apply(r, t, *p); }
    o
}
/// The molecule as a z-matrix or a builder's "standard orientation" puts it: the first atom at the origin, the second exactly on the
/// x axis, the third exactly in the xy plane (so three atoms share z = 0 exactly, two share y = 0), the rest wherever that leaves them
pub fn standard_orientation(m: &Mol) -> Mol {
    if m.n() < 3 { return m.clone(); }
    let sub = |a: [f64; 3], b: [f64; 3]| [a[0] - b[0], a[1] - b[1], a[2] - b[2]];
    let dot = |a: [f64; 3], b: [f64; 3]| a[0] * b[0] + a[1] * b[1] + a[2] * b[2];
    let cross = |a: [f64; 3], b: [f64; 3]| [a[1] * b[2] - a[2] * b[1], a[2] * b[0] - a[0] * b[2], a[0] * b[1] - a[1] * b[0]];
    let o = m.xs[0];
    let v1 = sub(m.xs[1], o); let r1 = dot(v1, v1).sqrt();
    if r1 < 1e-6 { return m.clone(); }
    let ex = [v1[0] / r1, v1[1] / r1, v1[2] / r1];
    let v2 = sub(m.xs[2], o);
    let a2 = dot(v2, ex);
    let p2 = [v2[0] - a2 * ex[0], v2[1] - a2 * ex[1], v2[2] - a2 * ex[2]];
    let b2 = dot(p2, p2).sqrt();
    if b2 < 1e-6 { return m.clone(); }
    let ey = [p2[0] / b2, p2[1] / b2, p2[2] / b2];
    let ez = cross(ex, ey);
    let mut xs: Vec<[f64; 3]> = m.xs.iter().map(|p| { let v = sub(*p, o); [dot(v, ex), dot(v, ey), dot(v, ez)] }).collect();
    xs[0] = [0.0, 0.0, 0.0]; xs[1] = [r1, 0.0, 0.0]; xs[2] = [a2, b2, 0.0];
    Mol { name: format!("{}-std", m.name), zs: m.zs.clone(), xs }
}

pub fn union(a: &Mol, b: &Mol) -> Mol {
    let mut m = a.clone();
    m.zs.extend(b.zs.iter());
    m.xs.extend(b.xs.iter());
    m.name = format!("{}+{}", a.name, b.name);
    m
}

/// `m` with atom `i` moved (at its distance from `j`) so that the angle i-j-k is `theta_deg`; None if i-j-k is collinear already
pub fn with_angle(m: &Mol, i: usize, j: usize, k: usize, theta_deg: f64) -> Option<Mol> {
    let sub = |a: [f64; 3], b: [f64; 3]| [a[0] - b[0], a[1] - b[1], a[2] - b[2]];
    let dot = |a: [f64; 3], b: [f64; 3]| a[0] * b[0] + a[1] * b[1] + a[2] * b[2];
    let u0 = sub(m.xs[k], m.xs[j]); let lu = dot(u0, u0).sqrt();
    if lu < 1e-6 { return None; }
    let u = [u0[0] / lu, u0[1] / lu, u0[2] / lu];
    let v = sub(m.xs[i], m.xs[j]); let r = dot(v, v).sqrt();
    let vp = [v[0] - dot(v, u) * u[0], v[1] - dot(v, u) * u[1], v[2] - dot(v, u) * u[2]];
    let lw = dot(vp, vp).sqrt();
    if lw < 1e-3 || r < 0.3 { return None; }
    let d = (180.0 - theta_deg).to_radians();
    let mut g = m.clone();
    for c in 0..3 { g.xs[i][c] = m.xs[j][c] + r * (-d.cos() * u[c] + d.sin() * vp[c] / lw); }
    Some(g)
}
