//! C20: exhaustive correspondence of the periodic-table layer.
use crate::util::*;
use optrs::verif::*;

fn describe(a: &AtomicNumber, z: usize) -> String {
    let sym = a.to_atomic_symbol().to_string();
    let atom = Atom::from_atomic_symbol(&sym);
    let period = catch(|| a.period()).map(|p| p.to_string()).unwrap_or("panic".into());
    format!(
        "ok z={} sym={} group={} period={} radius={} valence={} en={} main={} metal={} tm={}",
        z,
        sym.chars().map(|c| (c as u32).to_string()).collect::<Vec<_>>().join(","),
        a.group(),
        period,
        hx(a.covalent_radius()),
        a.maximal_valence(),
        hx(a.gmp_electronegativity()),
        a.is_main_group() as u8,
        atom.is_metal() as u8,
        atom.is_a_transition_metal() as u8
    )
}

pub fn run(out: &mut Out, _seed: u64, _tier: &str) {
    let syms = symbols();
    let mut n = 0usize;
    // 0..130, then integers far outside the table: around powers of two (where a narrowing conversion would wrap), the largest values
    let mut zs: Vec<usize> = (0..=130usize).collect();
    for sh in [8u32, 16, 31, 32, 33, 48, 63] { for d in [0usize, 1, 6, 8, 92, 118, 119] { if let Some(v) = (1usize << sh).checked_add(d) { zs.push(v); } } }
    for v in [usize::MAX, usize::MAX - 117, u32::MAX as usize, u32::MAX as usize + 1, 1000, 255, 256, 257] { zs.push(v); }
    for z in zs {
        let line = match AtomicNumber::from_integer(z) {
            Ok(a) => describe(&a, z),
            Err(_) => "refused".to_string(),
        };
        out.case(&format!("z {}", z), &line);
        n += 1;
    }
    // every symbol, and a stream of non-symbols derived from them and from the type table
    let mut strings: Vec<String> = syms.clone();
    for s in &syms {
        strings.push(s.to_lowercase());
        strings.push(s.to_uppercase());
        strings.push(format!(" {}", s));
        strings.push(format!("{} ", s));
        strings.push(format!("{}x", s));
        if s.len() == 2 {
            strings.push(s[..1].to_string());
            strings.push(s.chars().rev().collect());
        }
    }
    for t in atom_type_table() {
        strings.push(t.atomic_symbol.clone());
        strings.push(t.name.clone());
    }
    for s in ["", "X", "D", "T", "Uue", "Xx", "h", "1", "0", "H1", "Og ", "\u{cd}"] {
        strings.push(s.to_string());
    }
    // a symbol with a control character, a NUL, a combining mark or a look-alike letter before or after it is not a symbol
    for s in &syms {
        for c in ['\0', '\u{1}', '\t', '\n', '\r', '\u{7f}', '\u{a0}', '\u{301}', '\u{200b}', '0', '.', '-', '+'] {
            if s.len() == 1 || (c == '\0' || c == '\n') { strings.push(format!("{}{}", s, c)); strings.push(format!("{}{}", c, s)); }
        }
        if s.len() == 1 { strings.push(format!("{}\0\0", s)); strings.push(format!("{}{}", s, s)); }
    }
    for s in ["\0", "\0\0", "\u{41d}", "\u{421}", "\u{39d}", "Ｈ", "ℍ", "Не"] { strings.push(s.to_string()); }
    strings.sort();
    strings.dedup();
    // every string is asked for again right after it was answered, and once more after a valid symbol: the answer is the string's,
    // whatever was asked before
    let first_pass: Vec<String> = strings.clone();
    let mut strings: Vec<String> = vec![];
    for (k, s) in first_pass.iter().enumerate() { strings.push(s.clone()); if k % 3 != 2 { strings.push(s.clone()); } if k % 5 == 0 { strings.push("C".to_string()); strings.push(s.clone()); strings.push(s.clone()); } }
    for s in &strings {
        let line = match AtomicNumber::from_string(s) {
            Ok(a) => {
                let z = syms.iter().position(|x| x == a.to_atomic_symbol()).unwrap() + 1;
                // "unknown symbols are refused": a string is an element symbol only if it IS one of the 118, letter for letter
                if a.to_atomic_symbol() != s.as_str() {
                    out.oracle_fail(&format!("the string {:?} is not an element symbol but was accepted (read as {})", s, a.to_atomic_symbol()), &format!("AtomicNumber::from_string({:?})", s));
                }
                describe(&a, z)
            }
            Err(_) => {
                if syms.iter().any(|x| x == s) { out.oracle_fail(&format!("the element symbol {:?} was refused", s), &format!("AtomicNumber::from_string({:?})", s)); }
                "refused".to_string()
            }
        };
        let cps = s.chars().map(|c| (c as u32).to_string()).collect::<Vec<_>>().join(",");
        out.case(&format!("sym {}", if cps.is_empty() { "-".to_string() } else { cps }), &line);
        n += 1;
    }
    out.stat("cases", n);
    out.stat("exhaustive", "z=0..130 and all 118 symbols; non-symbol stream is a sample");
    out.sample("z 19 -> K: group 1 period 4");
}
