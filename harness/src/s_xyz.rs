//! C13 (write → read round trip) and C14 (reader on well-formed and corrupted files).
use crate::gen::*;
use crate::util::*;
use optrs::verif::*;
use std::io::Write;

fn tmp_path(tag: &str) -> String {
    let dir = "/var/tmp/optrs-verif-scratch";
    let _ = std::fs::create_dir_all(dir);
    format!("{}/xyz-{}-{}.xyz", dir, std::process::id(), tag)
}

pub fn hexbytes(b: &[u8]) -> String { b.iter().map(|x| format!("{:02x}", x)).collect() }

fn show(r: &Option<(Vec<usize>, Vec<[f64; 3]>)>) -> String {
    match r {
        None => "err".into(),
        Some((zs, xs)) => {
            // element i is paired with coordinate i where both exist; a length mismatch is shown as it is
            let n = zs.len().max(xs.len());
            let items: Vec<String> = (0..n).map(|i| {
                let z = zs.get(i).map(|z| z.to_string()).unwrap_or("?".into());
                match xs.get(i) { Some(p) => format!("{}:{}:{}:{}", z, hx(p[0]), hx(p[1]), hx(p[2])), None => format!("{}:?", z) }
            }).collect();
            format!("ok {}", items.join(";"))
        }
    }
}

pub fn read_file(bytes: &[u8], tag: &str) -> Option<Option<(Vec<usize>, Vec<[f64; 3]>)>> {
    let path = tmp_path(tag);
    std::fs::File::create(&path).unwrap().write_all(bytes).unwrap();
    let syms = symbols();
    let r = catch(|| XYZFile::read(&path));
    let _ = std::fs::remove_file(&path);
    r.map(|res| res.ok().map(|f| {
        (f.atomic_numbers.iter().map(|a| syms.iter().position(|s| s == a.to_atomic_symbol()).unwrap() + 1).collect(),
         f.coordinates.iter().map(|p| [p.x, p.y, p.z]).collect())
    }))
}

fn special_values(rng: &mut Rng) -> f64 {
    match rng.below(12) {
        0 => { let d = rng.below(25) as i32 - 9; let m = rng.range(1.0, 10.0); (if rng.chance(0.5) { -1.0 } else { 1.0 }) * m * 10f64.powi(d) }   // every decade 1e-9..1e15
        1 => -(100.0 + rng.range(0.0, 900.0)),
        2 => 1000.0 + rng.range(0.0, 1e5),
        3 => { let k = rng.below(2000) as f64; (k + 0.5) / 1048576.0 * 1.0 }                      // dyadic
        4 => *rng.pick(&[9.9999995, 99.9999999, 0.9999995, -9.9999995, 999.9999996, 0.0000005, 0.00000049999, 0.0078125, -0.0078125, 0.001953125]),
        5 => *rng.pick(&[0.0, -0.0, 1.0, -1.0, 0.5, 123456.789, -99.999999, 1e-7, -1e-7, 4.9e-7, 5.1e-7]),
        6 => (rng.below(2_000_001) as f64 - 1e6) * 0.5e-6 * 1.0,                                   // near sixth-decimal ties
        // enormous but finite (a diverged optimisation writes such numbers): every integer digit is printed, lines get hundreds of bytes long
        7 => { let d = 16 + rng.below(292) as i32; let m = rng.range(1.0, 10.0); let v = m * 10f64.powi(d); if rng.chance(0.1) { f64::MAX } else if rng.chance(0.5) { -v } else { v } }
        _ => rng.range(-20.0, 20.0),
    }
}

pub fn run_write(out: &mut Out, seed: u64, tier: &str) {
    let mut rng = Rng::new(seed ^ 0x1313);
    let n_cases = if tier == "thorough" { 4000 } else { 500 };
    let (mut worst, mut n_atoms_total, mut wide) = (0.0f64, 0usize, 0usize);
    // what the changed source lines mention: that many atoms (and multiples), coordinates of that size, lines about that long
    let h = hints();
    let hinted_counts: Vec<usize> = { let mut v = vec![]; for &k in &h.ints { for m in [k.saturating_sub(1), k, k + 1, 2 * k, 3 * k] { if m >= 1 && m <= 4000 { v.push(m); } } } v };
    let hinted_mags: Vec<f64> = h.magnitudes();
    let hinted_lens: Vec<usize> = h.ints.iter().cloned().filter(|k| *k >= 40 && *k <= 1000).collect();
    for c in 0..n_cases {
        // mostly small files; one in twenty-five has a round or power-of-two atom count (and its neighbours): 64 ... 1025
        let n = if c % 25 == 12 { *rng.pick(&[64usize, 100, 127, 128, 129, 200, 255, 256, 257, 300, 400, 401, 500, 512, 513, 600, 800, 1000, 1024, 1025]) }
                else if c % 25 == 7 && !hinted_counts.is_empty() { hinted_counts[(c / 25) % hinted_counts.len()] }
                else { 1 + rng.below(8) };
        let zs: Vec<usize> = (0..n).map(|_| if c % 3 == 0 { 1 + rng.below(118) } else { *rng.pick(&[1usize, 6, 7, 8, 17, 26, 78, 118]) }).collect();
        let mut xs: Vec<[f64; 3]> = (0..n).map(|_| [special_values(&mut rng), special_values(&mut rng), special_values(&mut rng)]).collect();
        let mut zs = zs;
        // one case in eight holds atoms that coincide exactly (everything at the origin, as `from_atomic_symbols` leaves a molecule;
        // a repeated atom) or differ by less than the printed resolution: every atom is still an atom of the file
        if c % 16 == 5 && !hinted_mags.is_empty() { let k = rng.below(n); let q = rng.below(3); xs[k][q] = hinted_mags[(c / 16) % hinted_mags.len()] * *rng.pick(&[1.0, -1.0, 1.0000001, 0.9999999]); }
        // a line of about L bytes: three components of about (L - 40) / 3 integer digits each (L - 40 >= 3 * 17 keeps them distinct)
        if c % 16 == 13 && !hinted_lens.is_empty() {
            let l = hinted_lens[(c / 16) % hinted_lens.len()];
            let k = rng.below(n);
            let digits = ((l.saturating_sub(26)) / 3).min(300).max(3) as i32;
            for q in 0..3 { xs[k][q] = rng.range(1.0, 9.9) * 10f64.powi((digits - 3 + rng.below(5) as i32).min(306)) * if rng.chance(0.5) { -1.0 } else { 1.0 }; }
        }
        // one case in sixteen has an atom with all three components enormous (a line of up to ~950 bytes), one with two of them
        if c % 16 == 9 { let k = rng.below(n); for q in 0..3 { xs[k][q] = rng.range(1.0, 10.0) * 10f64.powi(150 + rng.below(158) as i32) * if rng.chance(0.5) { -1.0 } else { 1.0 }; } }
        if c % 16 == 1 { let k = rng.below(n); for q in 1..3 { xs[k][q] = rng.range(1.0, 10.0) * 10f64.powi(200 + rng.below(108) as i32) * if rng.chance(0.5) { -1.0 } else { 1.0 }; } }
        match c % 8 {
            3 => { for p in xs.iter_mut() { *p = [0.0, 0.0, 0.0]; } if c % 16 == 3 { for z in zs.iter_mut() { *z = 1; } } }
            5 => { if n >= 2 { xs[1] = xs[0]; zs[1] = zs[0]; } }
            7 => { if n >= 2 { xs[1] = [xs[0][0] + 2e-7, xs[0][1], xs[0][2] - 1e-7]; zs[1] = zs[0]; } }
            _ => {}
        }
        let m = Mol { name: "w".into(), zs: zs.clone(), xs: xs.clone() };
        let syms = m.symbols();
        let refs: Vec<&str> = syms.iter().map(|s| s.as_str()).collect();
        let mut mol = Molecule::from_atomic_symbols(&refs);
        mol.coordinates = m.points();
        let path = tmp_path("w");
        // every other file is written over an existing, longer xyz file (as the command-line tool does with opt.xyz on a second
        // run in the same directory): nothing of the old content may survive
        if c % 2 == 1 {
            let mut old = String::from("40\nprevious file\n");
            for k in 0..40 { old += &format!("Xe {:11.6} {:11.6} {:11.6}\n", k as f64, -(k as f64), 0.5); }
            std::fs::write(&path, old).unwrap();
        }
        let ok = catch(|| mol.write_xyz_file(&path));
        let bytes = std::fs::read(&path).unwrap_or_default();
        let _ = std::fs::remove_file(&path);
        let input = format!("write {}", m.line());
        if ok.is_none() { out.case(&input, "panic"); continue; }
        let back = read_file(&bytes, "wb").unwrap_or(None);
        out.case(&input, &format!("{} {}", hexbytes(&bytes), show(&back)));
        n_atoms_total += n;
        if xs.iter().any(|p| p.iter().any(|v| v.abs() >= 100.0)) { wide += 1; }
        // oracle: the property, on the raw text and on the round trip
        let text = String::from_utf8_lossy(&bytes).to_string();
        let lines: Vec<&str> = text.split('\n').collect();
        let replay = format!("write then read: elements {:?} coordinates {:?}\nfile:\n{}", syms, xs, text);
        if lines.first().map(|l| l.trim().parse::<usize>().ok()) != Some(Some(n)) { out.oracle_fail("first line of the written file is not the atom count", &replay); }
        for (i, l) in lines.iter().enumerate().skip(2) {
            if l.is_empty() { continue; }
            let k = l.split_whitespace().count();
            if k != 4 { out.oracle_fail(&format!("atom line {} has {} whitespace-separated fields, not 4: {:?}", i - 1, k, l), &replay); break; }
        }
        match &back {
            None => out.oracle_fail("the written file cannot be read back", &replay),
            Some((bz, bx)) => {
                if bz.len() != n || bx.len() != n { out.oracle_fail(&format!("read back {} elements and {} coordinates for {} atoms", bz.len(), bx.len(), n), &replay); }
                else if *bz != zs { out.oracle_fail("elements changed in the round trip", &replay); }
                else {
                    for i in 0..n { for c in 0..3 {
                        let err = (bx[i][c] - xs[i][c]).abs();
                        let ulp = xs[i][c].abs() * f64::EPSILON;
                        if err > worst { worst = err; }
                        if !(err <= 5e-7 + ulp) { out.oracle_fail(&format!("coordinate {} of atom {} came back as {} (written {}, error {:e})", c, i, bx[i][c], xs[i][c], err), &replay); }
                    } }
                }
            }
        }
    }
    out.stat("files", n_cases);
    out.stat("atoms", n_atoms_total);
    out.stat("files_with_abs_coordinate_ge_100", wide);
    out.stat("worst_roundtrip_error", format!("{:e}", worst));
    out.sample("write H at (-100.0, 0.0078125, 9.9999995)");
}

/// Titles as they occur in the wild (the second line of an xyz file is free text; nothing in it says anything about the atoms)
pub const TITLES: [&str; 40] = [
    "Au dimethyl", "Me-Au-Me fragment, PBE0 geometry", "au", "AU", "geometry / au", "units=bohr", "coordinates in bohr", "run 12 on node bohr",
    "angstrom", "Angstroms", "units: nm", "pm", "charge=1 mult=2", "charge = -1", "energy = -76.4026 Eh", "E -40.5183", "SCF done",
    "frame 2", "step 17 time 8.5 fs", "i = 3, E = -12.5", "Lattice=\"10 0 0 0 10 0 0 0 10\" Properties=species:S:1:pos:R:3", "pbc=\"T T T\"",
    "opt.xyz", "generated by optrs", "input.xyz -> output", "C6H6", "H2O", "He", "Fe Co Ni", "Dy Db Ds", "NaN", "inf", "nan nan nan", "1e308",
    "0", "-1", "3 atoms", "scale 0.529177", "D3h symmetry", "# comment ! other ; chars , here",
];

fn num_spelling(v: f64, rng: &mut Rng) -> String {
    match rng.below(9) {
        0 => format!("{:e}", v),
        1 => format!("{:E}", v),
        2 => format!("{:.3}", v),
        3 => format!("{:+.5}", v),
        4 => format!("{}", v),
        5 => { let s = format!("{:.0}", v); if rng.chance(0.5) { format!("{}.", s) } else { s } }
        6 => { let s = format!("{:.4}", v.fract().abs()); s.trim_start_matches('0').to_string() }   // ".1234"
        7 => format!("{:.8e}", v).replace("e", "E+").replace("E+-", "E-"),
        _ => format!("{:.6}", v),
    }
}

pub fn run_read(out: &mut Out, seed: u64, tier: &str) {
    let mut rng = Rng::new(seed ^ 0x1414);
    let syms = symbols();
    let n_cases = if tier == "thorough" { 6000 } else { 900 };
    let (mut wellformed, mut corrupted, mut errs, mut oks) = (0usize, 0usize, 0usize, 0usize);
    let mut corpus: Vec<Vec<u8>> = vec![
        b"3\n\nH 0 0 0\nC 1 x 0\nO 2 0 0\n".to_vec(),
        b"1\n\nH     0.00000   0.00000\n".to_vec(),
        b"5\n\n".to_vec(), b"".to_vec(), b"\n".to_vec(), b"H 0 0 0\n".to_vec(),
        b"2\r\ncomment\r\nH 0 0 0\r\nH 0 0 0.74\r\n".to_vec(),
        b"1\n\nH 1 2 3 4 5 extra\n".to_vec(),
        b"2\n\nH 0 0 0\n\n\nHe 1e0 -2.5E-1 +.5\n".to_vec(),
        b"1\n\n  \t H \t 1 \t 2 \t 3 \t \n".to_vec(),
        b"1\n\nH inf nan -infinity\n".to_vec(),
        b"1\n\nh 0 0 0\nH 0 0 0".to_vec(),
        b"1\n\nH 0 0 0\r".to_vec(),
        b"2\n\n\xff\xfe 0 0 0\nH 0 0 0\n".to_vec(),
        b"\xff\n\nH 0 0 0\n".to_vec(),
        "1\n\nH\u{a0}1\u{2003}2\u{3000}3\n".as_bytes().to_vec(),
        b"1\n\nH 1_0 0 0\nC 0x1 0 0\nN 1e 0 0\nO . 0 0\nF 1.e1 .0e0 -0.\n".to_vec(),
        // a count line that disagrees with the body (stale header, appended atoms, concatenated frames)
        b"2\n\nH 0 0 0\nH 0 0 1\nH 0 0 2\n".to_vec(),
        b"2\nC 9 9 9\nH 0 0 0\nH 0 0 1\n".to_vec(), b"1\nHe 1 2 3 looks like an atom\nH 0 0 0\n".to_vec(),
        b"0\n\nH 0 0 0\n".to_vec(),
        b"1\nframe 1\nH 0 0 0\n1\nframe 2\nH 0 0 1\n".to_vec(),
        b"7\n\nH 0 0 0\nH 0 0 1\n".to_vec(),
        b"-1\n\nH 0 0 0\n".to_vec(), b"2.0\n\nH 0 0 0\nH 0 0 1\n".to_vec(), b" 2 \n\nH 0 0 0\nH 0 0 1\nH 0 0 2\n".to_vec(),
    ];
    // what the changed source lines mention: coordinates of that size and atom lines of about that many bytes
    let h = hints();
    let read_mags: Vec<f64> = h.magnitudes().into_iter().filter(|m| *m < 1e300).collect();
    let read_lens: Vec<usize> = h.ints.iter().cloned().filter(|k| *k >= 7 && *k <= 2000).collect();
    for c in 0..n_cases {
        // a well-formed file with varied spellings
        let n = 1 + rng.below(6);
        // the title line is free text: sometimes empty, sometimes words and numbers, sometimes a perfectly formed atom line
        // the title is free text: empty, words and numbers, a perfectly formed atom line — or what programs and people actually put
        // there: element symbols as words, units, key=value pairs, an extended-xyz header, a file name, a frame counter
        let title: String = match rng.below(9) { 0 | 1 => "".into(), 2 => "a comment 1 2 3".into(), 3 => "O 0.0 0.0 0.0".into(), 4 => "H 1.5 -2.25 3 trailing".into(), 5 => "12".into(),
            _ => (*rng.pick(&TITLES)).to_string() };
        let mut lines: Vec<String> = vec![format!("{}", n), title];
        let mut expect: Vec<(usize, [String; 3])> = vec![];
        // one file in five is "table-like": coordinates that coincide with other quantities a line or file carries (the element's
        // atomic number, the atom's index, the atom count, small integers), and more often a further column after z
        let selfref = c % 5 == 2;
        for ai in 0..n {
            let zmax = if selfref && rng.chance(0.5) { 10 } else { 118 }; let z = 1 + rng.below(zmax);
            let mut v = [rng.range(-50.0, 50.0), if rng.chance(0.1) { 0.0 } else { rng.gauss() * 3.0 }, rng.range(-1e4, 1e4) * if rng.chance(0.5) { 1e-6 } else { 1.0 }];
            if c % 5 == 3 && !read_mags.is_empty() && rng.chance(0.5) { let q = rng.below(3); v[q] = read_mags[rng.below(read_mags.len())] * *rng.pick(&[1.0, -1.0]); }
            if selfref { for k in 0..3 { if rng.chance(0.6) { v[k] = *rng.pick(&[z as f64, z as f64, ai as f64, (ai + 1) as f64, n as f64, 0.0, 1.0, -1.0, -(z as f64)]); } } }
            let t = [num_spelling(v[0], &mut rng), num_spelling(v[1], &mut rng), num_spelling(v[2], &mut rng)];
            let sep = |rng: &mut Rng| -> String { match rng.below(4) { 0 => " ".into(), 1 => "\t".into(), 2 => "   ".into(), _ => " \t ".into() } };
            // the most compact spelling there is: one-letter symbol, single spaces, single digits ("H 1 0 0": seven bytes)
            if selfref && rng.chance(0.3) {
                let z1 = *rng.pick(&[1usize, 5, 6, 7, 8, 9, 15, 16, 19, 23, 39, 53, 74, 92]);
                let d = [rng.below(10) as f64, rng.below(10) as f64, rng.below(10) as f64];
                let t = [format!("{}", d[0] as i64), format!("{}", d[1] as i64), format!("{}", d[2] as i64)];
                lines.push(format!("{} {} {} {}", syms[z1 - 1], t[0], t[1], t[2]));
                expect.push((z1, t));
                continue;
            }
            let mut l = String::new();
            if rng.chance(0.3) { l += &sep(&mut rng); }
            l += &syms[z - 1]; l += &sep(&mut rng); l += &t[0]; l += &sep(&mut rng); l += &t[1]; l += &sep(&mut rng); l += &t[2];
            if rng.chance(if selfref { 0.6 } else { 0.2 }) { l += &sep(&mut rng); l += *rng.pick(&["0.5", "junk", "1 2 3", "H", "0", "1.0", "frozen", "-0.25 0.1"]); }
            if rng.chance(0.2) { l += &sep(&mut rng); }
            // a well-formed line of exactly / about a hinted length: padded with spaces between the fields
            if c % 5 == 3 && !read_lens.is_empty() && rng.chance(0.4) {
                let want = read_lens[rng.below(read_lens.len())] + rng.below(3) - 1;
                if l.len() < want { let pad = " ".repeat(want - l.len()); if let Some(pos) = l.trim_start().find(char::is_whitespace) { let off = l.len() - l.trim_start().len(); l.insert_str(off + pos, &pad); } }
            }
            lines.push(l);
            expect.push((z, t));
            if rng.chance(0.15) { lines.push("".into()); }
        }
        let eol = if rng.chance(0.3) { "\r\n" } else { "\n" };
        let mut text = lines.join(eol);
        if rng.chance(0.8) { text += eol; }
        let mut bytes = text.clone().into_bytes();
        // the title is free text in whatever encoding the writing program used: one well-formed file in ten carries a Latin-1 byte
        // there (0xC5 = A-ring, as in "coordinates in Angstrom"), which is not valid UTF-8 — the atoms are still the atoms
        if c % 10 == 4 && c % 2 == 0 {
            if let Some(p1) = bytes.iter().position(|b| *b == b'\n') { bytes.insert(p1 + 1, 0xC5); }
        }
        let is_corrupt = c % 2 == 1;
        if is_corrupt {
            // corrupt: drop / duplicate a field, non-numeric field, unknown symbol, extra or missing header lines, garbage
            let mut ls: Vec<String> = text.split(eol).map(|s| s.to_string()).collect();
            let k = 2 + rng.below(n.max(1));
            let k = k.min(ls.len() - 1);
            match rng.below(11) {
                9 => { ls[0] = format!("{}", rng.below(n)); }                                   // fewer than the body holds
                10 => { ls[0] = (*rng.pick(&["100", "-1", "2.0", "two", "", " 1 ", "18446744073709551616"])).to_string(); }
                0 => { let mut t: Vec<&str> = ls[k].split_whitespace().collect(); if t.len() > 1 { t.remove(1 + rng.below(t.len() - 1)); } ls[k] = t.join(" "); }
                1 => { let t: Vec<&str> = ls[k].split_whitespace().collect(); if t.len() > 2 { ls[k] = format!("{} {} {}", t[0], t[1], *rng.pick(&["x", "1..2", "--1", "1e", "0x10", "1,5", "NaNa", "1_0"])) + " " + &t[2..].join(" "); } }
                2 => { let t: Vec<&str> = ls[k].split_whitespace().collect(); if !t.is_empty() { ls[k] = format!("{} {}", *rng.pick(&["Xx", "h", "HE", "D", "1", "", "Uue"]), t[1..].join(" ")); } }
                3 => { ls.remove(0); }
                4 => { ls.insert(0, "extra header".into()); }
                5 => { ls.remove(1.min(ls.len() - 1)); }
                6 => { let t: Vec<&str> = ls[k].split_whitespace().collect(); if t.len() >= 4 { ls[k] = format!("{} {} {} {}", t[1], t[0], t[2], t[3]); } }
                7 => { ls.truncate(2); }
                _ => { ls[k] = ls[k].replace(' ', ""); }
            }
            bytes = ls.join(eol).into_bytes();
            if rng.chance(0.05) { let p = rng.below(bytes.len().max(1)); if !bytes.is_empty() { bytes[p] = 0xff; } }
            corrupted += 1;
        } else { wellformed += 1; }
        if c < corpus.len() { bytes = corpus[c].clone(); }
        let input = format!("read {}", hexbytes(&bytes));
        let r = read_file(&bytes, "r");
        let replay = format!("file bytes (lossy): {:?}", String::from_utf8_lossy(&bytes));
        match r {
            None => { out.case(&input, "panic"); out.oracle_fail("the reader aborted instead of reporting failure", &replay); }
            Some(res) => {
                out.case(&input, &show(&res));
                match &res {
                    None => errs += 1,
                    Some((zs, xs)) => {
                        oks += 1;
                        if zs.len() != xs.len() { out.oracle_fail(&format!("element list has {} entries, coordinate list {}", zs.len(), xs.len()), &replay); }
                    }
                }
                if !is_corrupt && c >= corpus.len() {
                    // exactly those atoms, in file order, with exactly the written coordinates
                    let want: Vec<(usize, [f64; 3])> = expect.iter().map(|(z, t)| (*z, [t[0].parse().unwrap(), t[1].parse().unwrap(), t[2].parse().unwrap()])).collect();
                    let got: Option<Vec<(usize, [f64; 3])>> = res.as_ref().and_then(|(zs, xs)| if zs.len() == xs.len() { Some(zs.iter().cloned().zip(xs.iter().cloned()).collect()) } else { None });
                    let same = got.as_ref().map(|g| g.len() == want.len() && g.iter().zip(want.iter()).all(|(a, b)| a.0 == b.0 && (0..3).all(|k| a.1[k].to_bits() == b.1[k].to_bits()))).unwrap_or(false);
                    if !same { out.oracle_fail(&format!("well-formed file not read as written: got {} want {:?}", show(&res), want), &replay); }
                }
            }
        }
    }
    // the file's NAME: leading, trailing and inner spaces, in the file name and in a directory name — with another well-formed file
    // (other atoms) sitting at the name a trimmed path would give. The atoms read are those of the file that was named.
    let mut n_names = 0usize;
    {
        let root = format!("/var/tmp/optrs-verif-scratch/c14-names-{}", std::process::id());
        let _ = std::fs::remove_dir_all(&root);
        for (dir, name) in [("", " lead.xyz"), ("", "inner space.xyz"), (" dir", "mol.xyz"), ("dir ", "mol.xyz"), ("a b", " c d.xyz"), ("", "\tlead-tab.xyz"), ("", "trail.xyz")] {
            let d = if dir.is_empty() { root.clone() } else { format!("{}/{}", root, dir) };
            let dt = if dir.is_empty() { root.clone() } else { format!("{}/{}", root, dir.trim()) };
            std::fs::create_dir_all(&d).unwrap(); std::fs::create_dir_all(&dt).unwrap();
            let path = format!("{}/{}", d, name);
            let decoy = format!("{}/{}", dt, name.trim());
            let want = format!("1\n\nHe 1.5 -2.5 3.25\n");
            if decoy != path { std::fs::write(&decoy, "2\n\nH 0 0 0\nH 0 0 0.74\n").unwrap(); }
            std::fs::write(&path, &want).unwrap();
            let syms = symbols();
            // named by its full path, and (the working directory moved next to it for the moment) by a relative path that begins with
            // the odd name itself
            let rel = if dir.is_empty() { name.to_string() } else { format!("{}/{}", dir, name) };
            let here = std::env::current_dir().ok();
            let by_rel: Option<Option<(Vec<usize>, Vec<[f64; 3]>)>> = if std::env::set_current_dir(&root).is_ok() {
                let r = catch(|| XYZFile::read(&rel)).map(|res| res.ok().map(|f| {
                    (f.atomic_numbers.iter().map(|a| syms.iter().position(|s| s == a.to_atomic_symbol()).unwrap() + 1).collect(),
                     f.coordinates.iter().map(|p| [p.x, p.y, p.z]).collect()) }));
                if let Some(h) = &here { let _ = std::env::set_current_dir(h); }
                r
            } else { Some(Some((vec![2], vec![[1.5, -2.5, 3.25]]))) };
            let ok_rel = match &by_rel { Some(Some((zs, xs))) => zs.len() == 1 && zs[0] == 2 && xs[0] == [1.5, -2.5, 3.25], _ => false };
            if !ok_rel { out.oracle_fail(&format!("a well-formed file named by the relative path {:?} was not read as written (got {})", rel, match &by_rel { None => "an abort".to_string(), Some(r) => show(r) }), &format!("file {:?} (relative to its directory) holding\n{}(another file sits at the trimmed name)", rel, want)); }
            let got: Option<Option<(Vec<usize>, Vec<[f64; 3]>)>> = catch(|| XYZFile::read(&path)).map(|res| res.ok().map(|f| {
                (f.atomic_numbers.iter().map(|a| syms.iter().position(|s| s == a.to_atomic_symbol()).unwrap() + 1).collect(),
                 f.coordinates.iter().map(|p| [p.x, p.y, p.z]).collect()) }));
            n_names += 1;
            let ok = match &got { Some(Some((zs, xs))) => zs.len() == 1 && zs[0] == 2 && xs[0] == [1.5, -2.5, 3.25], _ => false };
            if !ok { out.oracle_fail(&format!("a well-formed file named {:?} was not read as written (got {})", path, match &got { None => "an abort".to_string(), Some(r) => show(r) }), &format!("file {:?} holding\n{}(another file sits at {:?})", path, want, decoy)); }
        }
        let _ = std::fs::remove_dir_all(&root);
    }
    out.stat("odd_file_names", n_names);
    let _ = &mut corpus;
    out.stat("well_formed_files", wellformed);
    out.stat("corrupted_files", corrupted);
    out.stat("reader_failures", errs);
    out.stat("reader_successes", oks);
    out.sample("read \"3\\n\\nH 0 0 0\\nC 1 x 0\\nO 2 0 0\\n\"");
}
