//! C08: the same input processed repeatedly — in one process (every HashSet instance draws fresh keys) and in separate
//! runs of the command-line tool — must give the same connectivity, force field and optimised structure.
use crate::canon::*;
use crate::gen::*;
use crate::s_build::*;
use crate::s_ff::*;
use crate::util::*;
use optrs::verif::*;

pub fn cli_path() -> String { std::env::var("OPTRS_CLI").unwrap_or("/var/tmp/optrs-verif-target/cli/debug/optrs".into()) }

/// Run the CLI on a molecule in a fresh directory; returns (exit ok, opt.xyz bytes if present)
pub fn run_cli(m: &Mol, args: &[&str], tag: &str, input_name: &str) -> (bool, Option<Vec<u8>>) {
    let dir = format!("/var/tmp/optrs-verif-scratch/cli-{}-{}", std::process::id(), tag);
    let _ = std::fs::remove_dir_all(&dir);
    std::fs::create_dir_all(&dir).unwrap();
    let mut text = format!("{}\n\n", m.n());
    for (s, p) in m.symbols().iter().zip(m.xs.iter()) { text += &format!("{} {:.8} {:.8} {:.8}\n", s, p[0], p[1], p[2]); }
    std::fs::write(format!("{}/{}", dir, input_name), text).unwrap();
    let mut cmd = std::process::Command::new(cli_path());
    cmd.current_dir(&dir).arg(input_name).args(args).stdout(std::process::Stdio::null()).stderr(std::process::Stdio::null());
    let ok = cmd.status().map(|s| s.success()).unwrap_or(false);
    let out = std::fs::read(format!("{}/opt.xyz", dir)).ok();
    let _ = std::fs::remove_dir_all(&dir);
    (ok, out)
}

pub fn run(out: &mut Out, seed: u64, tier: &str) {
    let mut rng = Rng::new(seed ^ 0x0808);
    let reps = if tier == "thorough" { 64 } else { 24 };
    let n_random = if tier == "thorough" { 200 } else { 40 };
    let mut mols: Vec<Mol> = library();
    // low-symmetry centres: >= 3 neighbours subtending pairwise different angles, near type-switching angles
    for _ in 0..n_random {
        let base = match rng.below(3) {
            0 => centre(*rng.pick(&[7usize, 15, 6, 8, 16, 5, 14, 33]), *rng.pick(&[1usize, 9, 17]), *rng.pick(&["pyramidal", "trigonal", "tetrahedral"]), 1.0),
            1 => random_mol(&mut rng),
            _ => rng.pick(&library()).clone(),
        };
        mols.push(distort(&base, rng.range(0.05, 0.25), &mut rng));
    }
    // exact ties with a saturating centre listed first: idealised axis-aligned coordination shells around a centre that may keep
    // fewer bonds than it has equidistant candidates (bifluoride with H first, H3O drawn square, CH6 ...): which candidates are
    // kept must not depend on anything that changes from run to run
    for zc in [1usize, 3, 9, 8, 7, 6, 5, 16] { for zl in [1usize, 9, 17] { for geometry in ["linear", "square", "octahedral"] {
        if tier != "thorough" && (zc + zl + geometry.len()) % 2 == 1 { continue; }
        let mut m = centre(zc, zl, geometry, *rng.pick(&[0.95, 1.0, 1.1]));
        m.name = format!("tie-{}", m.name);
        mols.push(m);
    } } }
    // idealised shells around elements whose type is chosen by an angle (P, S, As, Sb, five-coordinate metals): trigonal bipyramid with
    // the axial pair listed first, square, T-shape, octahedron, pentagonal bipyramid — exact and slightly distorted
    for zc in [15usize, 16, 33, 51, 22, 26, 42, 75] { for zl in [9usize, 17, 1] { for geometry in ["tbp", "square", "tshape", "octahedral", "pbp"] {
        if tier != "thorough" && (zc + zl + geometry.len()) % 3 != 0 && geometry != "tbp" { continue; }
        let c = centre(zc, zl, geometry, 1.0);
        mols.push(distort(&c, 0.02, &mut rng));
        mols.push(c);
    } } }
    // fused three-membered rings and dense clusters (tetrahedrane, bicyclobutane, P4, a compressed C4 / C6): many torsions share
    // a central bond there, and optimisations from such starts do not converge within the budget — where the order in which terms
    // are summed shows in the result
    {
        let t = 1.0 / 3f64.sqrt();
        let tetra = |z: usize, d: f64, name: &str| Mol { name: name.into(), zs: vec![z; 4], xs: vec![[d * t, d * t, d * t], [d * t, -d * t, -d * t], [-d * t, d * t, -d * t], [-d * t, -d * t, d * t]] };
        // (slightly distorted: in an exactly symmetric start the tied terms are equal and their order cannot show)
        for (z, d, name) in [(6usize, 0.92, "tetrahedrane-core"), (6, 0.75, "compressed-c4"), (6, 0.70, "compressed-c4-b"), (15, 1.35, "p4"), (7, 0.8, "compressed-n4")] {
            let mut m = distort(&tetra(z, d, name), 0.04, &mut rng); m.name = name.into(); mols.insert(0, m);
        }
        mols.insert(0, named("bicyclobutane", &[("C", 0.0, 0.75, 0.0), ("C", 0.0, -0.75, 0.0), ("C", 1.1, 0.0, 0.55), ("C", -1.1, 0.0, 0.55),
            ("H", 0.0, 1.45, -0.85), ("H", 0.0, -1.45, -0.85), ("H", 1.3, 0.0, 1.62), ("H", 2.0, 0.0, -0.05), ("H", -1.3, 0.0, 1.62), ("H", -2.0, 0.0, -0.05)]));
        for k in 0..(if tier == "thorough" { 12 } else { 3 }) {
            let n = 5 + k % 2;
            let mut xs: Vec<[f64; 3]> = vec![];
            while xs.len() < n { let p = [rng.range(-1.1, 1.1), rng.range(-1.1, 1.1), rng.range(-1.1, 1.1)]; if xs.iter().all(|q| ((p[0] - q[0]).powi(2) + (p[1] - q[1]).powi(2) + (p[2] - q[2]).powi(2)).sqrt() > 0.85) { xs.push(p); } }
            mols.insert(0, Mol { name: format!("dense-carbon-cluster-{}", k), zs: vec![6; n], xs });
        }
    }
    // elements without a UFF type of their own (Z >= 104: typed by the best match over the whole table): alone, as a terminal atom,
    // as an axis-aligned centre — exact ties between candidate types are the rule there, and how they are broken must not vary
    for z in [104usize, 106, 110, 112, 118] {
        mols.push(Mol { name: format!("atom{}", z), zs: vec![z], xs: vec![[0.1, 0.2, 0.3]] });
        mols.push(Mol { name: format!("methane+{}", z), zs: vec![6, 1, 1, 1, 1, z], xs: vec![[0.0, 0.0, 0.0], [0.63, 0.63, 0.63], [-0.63, -0.63, 0.63], [-0.63, 0.63, -0.63], [0.63, -0.63, -0.63], [4.5, 0.3, 0.2]] });
        mols.push(centre(z, 9, "single", 1.0));
        mols.push(centre(z, 8, "octahedral", 1.0));
        mols.push(centre(z, 17, "square", 1.0));
    }
    let (mut n, mut multi) = (0usize, 0usize);
    for m in mols.iter() {
        if m.n() > 20 || m.min_distance() < 0.5 { continue; }
        let first = match build_all(m) { Some(b) => b, None => continue };
        let conn0 = canon_conn(&first.conn);
        let (types0, terms0) = match &first.uff { Some((t, ts)) => (t.clone(), sorted_terms(ts)), None => continue };
        let rb0 = sorted_terms(&first.rb);
        let x = distort(m, 0.1, &mut rng).points();
        let (mut e0, mut g0): (Option<f64>, Option<Vec<f64>>) = (None, None);
        n += 1;
        if first.conn.bonds.iter().any(|_| true) && (0..m.n()).any(|a| first.conn.bonds.iter().filter(|(i, j, _)| *i == a || *j == a).count() >= 3) { multi += 1; }
        let replay = m.xyz_text();
        for r in 0..reps {
            let b = match build_all(m) { Some(b) => b, None => { out.oracle_fail("construction aborted on a repeat", &replay); break; } };
            if canon_conn(&b.conn) != conn0 { out.oracle_fail(&format!("connectivity differs between constructions (repeat {})", r), &replay); break; }
            match &b.uff {
                None => { out.oracle_fail("UFF construction aborted on a repeat", &replay); break; }
                Some((t, ts)) => {
                    if *t != types0 { out.oracle_fail(&format!("assigned atom types differ between constructions: {} vs {}", types0, t), &replay); break; }
                    if sorted_terms(ts) != terms0 { out.oracle_fail("UFF term lists differ between constructions", &replay); break; }
                }
            }
            if sorted_terms(&b.rb) != rb0 { out.oracle_fail("RB term lists differ between constructions", &replay); break; }
            // energies and gradients equal to rounding (1e-9 relative) at a probe geometry
            let mol = m.build();
            if let Some(mut ff) = FF::build("uff", &mol) {
                let e = ff.energy(&x);
                let g = ff.gradient(&x);
                if let (Some(e0v), Some(g0v)) = (e0, &g0) {
                    if e.is_finite() && e0v.is_finite() && (e - e0v).abs() > 1e-9 * e0v.abs().max(1.0) { out.oracle_fail(&format!("UFF energy differs between constructions: {} vs {}", e0v, e), &replay); break; }
                    let gmax = g0v.iter().fold(0.0f64, |a, v| a.max(v.abs())).max(1.0);
                    if g.iter().zip(g0v.iter()).any(|(a, b)| a.is_finite() && b.is_finite() && (a - b).abs() > 1e-9 * gmax) { out.oracle_fail("UFF gradient differs between constructions", &replay); break; }
                } else { e0 = Some(e); g0 = Some(g); }
            }
        }
    }
    // molecules defined by an explicit bond table (the scripting interface), constructed repeatedly: decisions that look at a
    // neighbour's neighbours or types (which constant a centre gets, which oxygen is found first) must not follow the hash order
    let mut n_explicit = 0usize;
    for _ in 0..(if tier == "thorough" { 150 } else { 30 }) {
        let (m, bonds) = explicit_family(&mut rng);
        if m.min_distance() < 0.5 { continue; }
        let first = match build_all_explicit(&m, &bonds) { Some(b) => b, None => continue };
        let (types0, terms0) = match &first.uff { Some((t, ts)) => (t.clone(), sorted_terms(ts)), None => continue };
        n_explicit += 1;
        let replay = format!("{}bonds (set through set_bond_orders): {}", m.xyz_text(), crate::canon::bonds_text(&bonds));
        for r in 0..reps {
            let b = match build_all_explicit(&m, &bonds) { Some(b) => b, None => { out.oracle_fail("construction aborted on a repeat", &replay); break; } };
            match &b.uff {
                None => { out.oracle_fail("UFF construction aborted on a repeat", &replay); break; }
                Some((t, ts)) => {
                    if *t != types0 { out.oracle_fail(&format!("assigned atom types differ between constructions (repeat {}): {} vs {}", r, types0, t), &replay); break; }
                    if sorted_terms(ts) != terms0 { out.oracle_fail(&format!("UFF term lists differ between constructions of the same explicitly bonded molecule (repeat {})", r), &replay); break; }
                }
            }
        }
    }
    out.stat("explicitly_bonded_molecules_repeated", n_explicit);
    // "the same optimised structure": each molecule — and a compressed copy of it, which rarely converges within the budget, so
    // that differences in the last bits of the gradient are amplified — is built and optimised several times in this process
    // (every construction draws fresh hash keys); the results must agree to the written precision, 1e-6 A
    let mut n_opt_pairs = 0usize;
    let mut n_dense = 0usize;
    for (k, m) in mols.iter().enumerate() {
        if m.n() > 12 || m.n() < 2 || m.min_distance() < 0.6 { continue; }
        let dense = m.name.starts_with("dense-") || m.name.starts_with("compressed-") || m.name == "tetrahedrane-core" || m.name == "p4" || m.name == "bicyclobutane";
        if dense { n_dense += 1; }
        if tier != "thorough" && k % 3 != 0 && !dense { continue; }
        let squeezed = { let mut c = m.clone(); for p in c.xs.iter_mut() { for q in 0..3 { p[q] *= 0.8; } } c };
        for start in [m.clone(), squeezed] {
            if start.min_distance() < 0.5 { continue; }
            let mut firstx: Option<Vec<[f64; 3]>> = None;
            for r in 0..(if dense { 8 } else if tier == "thorough" { 6 } else { 3 }) {
                let res = match crate::s_opt::optimise_checked(&start, "uff") { Some(x) => x, None => break };
                if !res.xf.iter().all(|p| p.iter().all(|v| v.is_finite())) { break; }
                match &firstx {
                    None => firstx = Some(res.xf.clone()),
                    Some(f) => {
                        n_opt_pairs += 1;
                        let worst = f.iter().zip(res.xf.iter()).map(|(a, b)| (0..3).map(|c| (a[c] - b[c]).abs()).fold(0.0f64, f64::max)).fold(0.0f64, f64::max);
                        if worst > 1.0000001e-6 {
                            out.oracle_fail(&format!("the optimised structure differs between two constructions of the same input in one process (repeat {}: up to {:.3e} A)", r, worst), &start.xyz_text());
                            break;
                        }
                    }
                }
            }
        }
    }
    out.stat("in_process_optimisation_pairs_compared", n_opt_pairs);
    out.stat("dense_and_fused_ring_starts_optimised_repeatedly", n_dense);
    // separate runs of the command-line tool: the same atoms, coordinates equal to the written precision (1e-6 A; the
    // property does not promise identical bytes: `-0.000000` and `0.000000`, or a last digit on a rounding boundary, may differ)
    let n_cli = if tier == "thorough" { 12 } else { 4 };
    let cli_reps = if tier == "thorough" { 8 } else { 4 };
    let mut cli_runs = 0usize;
    if std::path::Path::new(&cli_path()).exists() {
        for k in 0..n_cli {
            // every other input is a random molecule (clusters of arbitrary elements among them): such runs rarely converge within
            // the budget, which is where a run-to-run difference in rounding gets amplified into visibly different structures
            let m = if k % 2 == 1 { let r = random_mol(&mut rng); distort(&r, 0.05, &mut rng) } else { distort(&mols[(k * 7 + 13) % mols.len()], 0.1, &mut rng) };
            if m.n() > 12 || m.min_distance() < 0.6 { continue; }
            let mut first: Option<Vec<u8>> = None;
            for r in 0..cli_reps {
                let (ok, bytes) = run_cli(&m, &[], &format!("r{}-{}", k, r), "in.xyz");
                cli_runs += 1;
                if !ok { break; }
                match (&first, bytes) {
                    (None, Some(b)) => first = Some(b),
                    (Some(f), Some(b)) => if *f != b {
                        let same = match (crate::s_cli::parse_xyz(f), crate::s_cli::parse_xyz(&b)) {
                            (Some((s1, x1)), Some((s2, x2))) => s1 == s2 && x1.len() == x2.len()
                                && x1.iter().zip(x2.iter()).all(|(p, q)| (0..3).all(|c| (p[c] - q[c]).abs() <= 1.0000001e-6)),
                            _ => false,
                        };
                        if !same { out.oracle_fail("opt.xyz differs (beyond the written precision) between runs of the command-line tool on the same input", &m.xyz_text()); break; }
                    },
                    _ => {}
                }
            }
        }
    }
    out.case("repro summary", "-");
    out.stat("molecules", n);
    out.stat("with_centre_of_three_or_more_neighbours", multi);
    out.stat("constructions_per_molecule", reps);
    out.stat("cli_runs", cli_runs);
    out.sample("methylamine distorted: 24 constructions, types/terms/energy compared");
}
