//! C19: `build_3d` on bond graphs of real molecules. Structural half (bond set and atoms preserved) is corresponded with
//! the model; geometric half (bond lengths within 25 % of the radii sum, no pair closer than 0.3 A, finite) is explored.
use crate::canon::*;
use crate::gen::*;
use crate::s_matrix::panic_kind;
use crate::util::*;
use optrs::verif::*;

/// Bond tables of real molecules, perceived from the library geometries and from larger generated ones
fn graphs(rng: &mut Rng, tier: &str) -> Vec<(Mol, Vec<(usize, usize, f64)>)> {
    let mut v = vec![];
    let mut mols = library();
    mols.push(alkane(6)); mols.push(alkane(8));
    mols.push({ let mut m = ring(6, 6, 1.40, 1, 1.09); m.name = "benzene".into(); m });
    mols.push({ let mut m = ring(5, 6, 1.42, 1, 1.09); m.name = "cyclopentadienyl-like".into(); m });
    mols.push(ring(4, 6, 1.55, 1, 1.09));
    // toluene-like: benzene + methyl
    let extra = if tier == "thorough" { 30 } else { 6 };
    for _ in 0..extra { mols.push(random_mol(rng)); }
    // bond tables that perception would never produce (it caps every atom at its tabulated maximal valence) but the bond-order
    // interface accepts: four-coordinate boron, three-coordinate oxygen, bridging hydrogens, seven-coordinate iodine
    let explicit: Vec<(&str, Vec<usize>, Vec<(usize, usize, f64)>)> = vec![
        ("ammonia-borane", vec![5, 7, 1, 1, 1, 1, 1, 1], vec![(0, 1, 1.0), (0, 2, 1.0), (0, 3, 1.0), (0, 4, 1.0), (1, 5, 1.0), (1, 6, 1.0), (1, 7, 1.0)]),
        ("tetrafluoroborate", vec![5, 9, 9, 9, 9], vec![(0, 1, 1.0), (0, 2, 1.0), (0, 3, 1.0), (0, 4, 1.0)]),
        ("hydronium", vec![8, 1, 1, 1], vec![(0, 1, 1.0), (0, 2, 1.0), (0, 3, 1.0)]),
        ("trimethyloxonium", vec![8, 6, 6, 6, 1, 1, 1, 1, 1, 1, 1, 1, 1], vec![(0, 1, 1.0), (0, 2, 1.0), (0, 3, 1.0), (1, 4, 1.0), (1, 5, 1.0), (1, 6, 1.0), (2, 7, 1.0), (2, 8, 1.0), (2, 9, 1.0), (3, 10, 1.0), (3, 11, 1.0), (3, 12, 1.0)]),
        ("diborane", vec![5, 5, 1, 1, 1, 1, 1, 1], vec![(0, 2, 1.0), (0, 3, 1.0), (1, 4, 1.0), (1, 5, 1.0), (0, 6, 1.0), (1, 6, 1.0), (0, 7, 1.0), (1, 7, 1.0)]),
        ("iodine-heptafluoride", vec![53, 9, 9, 9, 9, 9, 9, 9], vec![(0, 1, 1.0), (0, 2, 1.0), (0, 3, 1.0), (0, 4, 1.0), (0, 5, 1.0), (0, 6, 1.0), (0, 7, 1.0)]),
        // several fragments in one table (a dimer, a salt with the lone ion listed first or last, a solvate)
        ("water-dimer", vec![8, 1, 1, 8, 1, 1], vec![(0, 1, 1.0), (0, 2, 1.0), (3, 4, 1.0), (3, 5, 1.0)]),
        ("ammonium-chloride-ion-first", vec![17, 7, 1, 1, 1, 1], vec![(1, 2, 1.0), (1, 3, 1.0), (1, 4, 1.0), (1, 5, 1.0)]),
        ("ammonium-chloride-ion-last", vec![7, 1, 1, 1, 1, 17], vec![(0, 1, 1.0), (0, 2, 1.0), (0, 3, 1.0), (0, 4, 1.0)]),
        ("sodium-acetate-ion-first", vec![11, 6, 6, 8, 8, 1, 1, 1], vec![(1, 2, 1.0), (2, 3, 2.0), (2, 4, 1.0), (1, 5, 1.0), (1, 6, 1.0), (1, 7, 1.0)]),
        ("methanol-water-h2", vec![6, 8, 1, 1, 1, 1, 8, 1, 1, 1, 1], vec![(0, 1, 1.0), (0, 2, 1.0), (0, 3, 1.0), (0, 4, 1.0), (1, 5, 1.0), (6, 7, 1.0), (6, 8, 1.0), (9, 10, 1.0)]),
        // elements beyond the radius table (Z > 86: the documented guess is 2 A)
        ("uranium-hexafluoride", vec![92, 9, 9, 9, 9, 9, 9], vec![(0, 1, 1.0), (0, 2, 1.0), (0, 3, 1.0), (0, 4, 1.0), (0, 5, 1.0), (0, 6, 1.0)]),
        ("thorium-tetrachloride", vec![90, 17, 17, 17, 17], vec![(0, 1, 1.0), (0, 2, 1.0), (0, 3, 1.0), (0, 4, 1.0)]),
        ("francium-hydride", vec![87, 1], vec![(0, 1, 1.0)]),
        ("fluoronium-bridge", vec![9, 6, 6, 1, 1, 1, 1, 1, 1], vec![(0, 1, 1.0), (0, 2, 1.0), (1, 3, 1.0), (1, 4, 1.0), (1, 5, 1.0), (2, 6, 1.0), (2, 7, 1.0), (2, 8, 1.0)]),
    ];
    for (name, zs, bonds) in explicit {
        let xs = (0..zs.len()).map(|i| [1.3 * i as f64, 0.0, 0.0]).collect();
        v.push((Mol { name: name.into(), zs, xs }, bonds));
    }
    for m in mols {
        if m.n() < 2 || m.n() > 36 { continue; }
        if let Some(mol) = catch(|| m.build()) {
            let b = connectivity(&mol).bonds;
            if !b.is_empty() { v.push((m, b)); }
        }
    }
    v
}

pub fn run(out: &mut Out, seed: u64, tier: &str) {
    let mut rng = Rng::new(seed ^ 0x1919);
    let reps = if tier == "thorough" { 6 } else { 2 };
    let (mut n, mut geom_bad, mut worst_ratio, mut min_d) = (0usize, 0usize, 0.0f64, f64::MAX);
    for (m, bonds) in graphs(&mut rng, tier) {
        let nat = m.n();
        let syms = m.symbols();
        let refs: Vec<&str> = syms.iter().map(|x| x.as_str()).collect();
        let mut mat = vec![0.0; nat * nat];
        for (i, j, o) in &bonds { mat[i * nat + j] = *o; mat[j * nat + i] = *o; }
        for r in 0..reps {
            let mut w = Wrapper::from_atomic_symbols(&refs);
            // what the molecule holds when the build is asked for: nothing (all atoms at the origin), placeholder coordinates on a
            // line or on a planar grid (well separated, but no use as a start), or a real geometry — the result must be sane from any
            let start: Option<Vec<f64>> = match r % 4 {
                1 => Some((0..nat).flat_map(|i| [i as f64 * *rng.pick(&[1.0, 1.5]), 0.0, 0.0]).collect()),
                2 => Some((0..nat).flat_map(|i| [(i % 4) as f64 * 1.5, (i / 4) as f64 * 1.5, 0.0]).collect()),
                3 => Some(m.xs.iter().flat_map(|p| p.to_vec()).collect()),
                _ => None,
            };
            let start_name = ["all atoms at the origin", "placeholder coordinates on a line", "placeholder coordinates on a planar grid", "a real geometry"][r % 4];
            if let Some(c) = &start { w.set_coordinates(c.clone()); }
            w.set_bond_orders(mat.clone());
            let before = connectivity(w.molecule());
            let atoms_before: Vec<String> = atoms(w.molecule()).iter().map(|a| a.symbol.clone()).collect();
            let res = panic_kind(|| w.build_3d());
            n += 1;
            let after = connectivity(w.molecule());
            let atoms_after: Vec<String> = atoms(w.molecule()).iter().map(|a| a.symbol.clone()).collect();
            let bonds_only = |c: &Conn| canon_conn(&Conn { bonds: c.bonds.clone(), ..Default::default() });
            let replay = format!("build_3d of {} with bonds {} (called with {})", m.name, bonds_text(&bonds), start_name);
            if r == 0 {
                out.case(&format!("b3d {} {}", nat, bonds_text(&before.bonds)), &canon_conn(&after));
            }
            if let Some(k) = res { out.oracle_fail(&format!("build_3d aborted ({})", k), &replay); continue; }
            if bonds_only(&before) != bonds_only(&after) { out.oracle_fail(&format!("build_3d changed the bonds: {} -> {}", bonds_only(&before), bonds_only(&after)), &replay); }
            if canon_conn(&before) != canon_conn(&after) { out.oracle_fail("build_3d changed angles, dihedrals or non-bonded pairs", &replay); }
            if atoms_before != atoms_after { out.oracle_fail("build_3d changed the atoms", &replay); }
            // geometric half (explored)
            let x = &w.molecule().coordinates;
            let finite = x.iter().all(|p| p.x.is_finite() && p.y.is_finite() && p.z.is_finite());
            let mut bad = !finite;
            let mut why = if finite { String::new() } else { "non-finite coordinates".to_string() };
            if finite {
                for (i, j, _) in &bonds {
                    let d = distance(*i, *j, x);
                    // (the radii of the statement: tabulated up to Rn; beyond the table the documented guess of 2 A, taken from here, not from the code)
                    let rad = |z: usize| if z > 86 { 2.0 } else { radius(z) };
                    let s = rad(m.zs[*i]) + rad(m.zs[*j]);
                    let ratio = (d / s - 1.0).abs();
                    if ratio > worst_ratio { worst_ratio = ratio; }
                    if ratio > 0.25 { bad = true; why = format!("bonded pair {}-{} at {:.3} A, sum of covalent radii {:.3} A", i, j, d, s); }
                }
                for i in 0..nat { for j in 0..i {
                    let d = distance(i, j, x);
                    if d < min_d { min_d = d; }
                    if d < 0.3 { bad = true; why = format!("atoms {} and {} only {:.3} A apart", i, j, d); }
                } }
            }
            if bad {
                geom_bad += 1;
                let xyz: String = syms.iter().zip(x.iter()).map(|(s, p)| format!("{} {} {} {}\n", s, p.x, p.y, p.z)).collect();
                out.oracle_fail(&format!("embedded structure of {} is not sane: {}", m.name, why), &format!("{}\nresult:\n{}", replay, xyz));
            }
        }
    }
    // a second build on the same object after the bond table was replaced (ethanol rebuilt as dimethyl ether): one bond of the first
    // table dropped, another pair joined instead — the second result must carry the second table and nothing of the first
    let mut n_rebuilt = 0usize;
    for (m, bonds) in graphs(&mut rng, tier) {
        let nat = m.n();
        if nat < 4 || nat > 14 || bonds.len() < 3 { continue; }
        if tier != "thorough" && n_rebuilt >= 6 { break; }
        let syms = m.symbols();
        let refs: Vec<&str> = syms.iter().map(|x| x.as_str()).collect();
        let table = |bs: &[(usize, usize, f64)]| { let mut mat = vec![0.0; nat * nat]; for (i, j, o) in bs { mat[i * nat + j] = *o; mat[j * nat + i] = *o; } mat };
        // second table: drop one bond, join one unbonded pair
        let mut second: Vec<(usize, usize, f64)> = bonds.clone();
        let dropped = second.remove(rng.below(second.len()));
        let mut added = None;
        for _ in 0..50 { let (a, b) = (rng.below(nat), rng.below(nat)); if a != b && !bonds.iter().any(|(i, j, _)| (*i == a && *j == b) || (*i == b && *j == a)) { added = Some((a.min(b), a.max(b), 1.0)); break; } }
        if let Some(x) = added { second.push(x); }
        let mut w = Wrapper::from_atomic_symbols(&refs);
        if panic_kind(|| { w.set_bond_orders(table(&bonds)); w.build_3d(); w.set_bond_orders(table(&second)); }).is_some() { continue; }
        let before = connectivity(w.molecule());
        if panic_kind(|| w.build_3d()).is_some() { continue; }
        let after = connectivity(w.molecule());
        n_rebuilt += 1;
        let bonds_only = |c: &Conn| canon_conn(&Conn { bonds: c.bonds.clone(), ..Default::default() });
        if bonds_only(&before) != bonds_only(&after) || canon_conn(&before) != canon_conn(&after) {
            out.oracle_fail(&format!("a second build_3d after the bond table was replaced changed the bonds: {} -> {}", bonds_only(&before), bonds_only(&after)),
                            &format!("build_3d of {} with bonds {}, then set_bond_orders to {} (dropped {:?}, joined {:?}), then build_3d again", m.name, bonds_text(&bonds), bonds_text(&second), dropped, added));
        }
    }
    out.stat("second_builds_after_a_table_change", n_rebuilt);
    out.stat("builds", n);
    out.stat("geometrically_bad", geom_bad);
    out.stat("worst_bond_length_deviation", format!("{:.3}", worst_ratio));
    out.stat("smallest_distance", format!("{:.3}", min_d));
    out.sample("build_3d of methane: 4 bonds re-inserted one by one with 20-step RB optimisations, then 500 steps");
}
