//! Canonical text of connectivity: each tuple through its `ordered()` key, sets sorted, the pair list as is.
use optrs::verif::*;

pub fn pair_key(i: usize, j: usize) -> (usize, usize) { if i < j { (i, j) } else { (j, i) } }

fn join<T: std::fmt::Display>(v: &[T], sep: &str) -> String {
    if v.is_empty() { "-".into() } else { v.iter().map(|x| x.to_string()).collect::<Vec<_>>().join(sep) }
}

pub fn canon_conn(c: &Conn) -> String {
    let mut b: Vec<(usize, usize, usize)> = c.bonds.iter().map(|(i, j, o)| { let k = pair_key(*i, *j); (k.0, k.1, (o * 2.0) as usize) }).collect();
    b.sort();
    let mut a: Vec<[usize; 3]> = c.angles.iter().map(|t| if t[0] < t[2] { *t } else { [t[2], t[1], t[0]] }).collect();
    a.sort();
    let mut p: Vec<[usize; 4]> = c.propers.iter().map(|t| if t[0] < t[3] { *t } else { [t[3], t[2], t[1], t[0]] }).collect();
    p.sort();
    let mut im: Vec<[usize; 4]> = c.impropers.iter().map(|t| { let mut r = [t[1], t[2], t[3]]; r.sort(); [t[0], r[0], r[1], r[2]] }).collect();
    im.sort();
    format!(
        "B:{} A:{} P:{} I:{} N:{}",
        join(&b.iter().map(|(i, j, o)| format!("{}-{}:{}", i, j, o)).collect::<Vec<_>>(), ","),
        join(&a.iter().map(|t| format!("{}-{}-{}", t[0], t[1], t[2])).collect::<Vec<_>>(), ","),
        join(&p.iter().map(|t| format!("{}-{}-{}-{}", t[0], t[1], t[2], t[3])).collect::<Vec<_>>(), ","),
        join(&im.iter().map(|t| format!("{}-{}-{}-{}", t[0], t[1], t[2], t[3])).collect::<Vec<_>>(), ","),
        join(&c.nb_pairs.iter().map(|(i, j)| format!("{}-{}", i, j)).collect::<Vec<_>>(), ","),
    )
}

/// Brute-force reference: what the bond graph's angles / proper dihedrals / impropers / pairs are, by definition
pub fn reference_conn(n: usize, bonds: &[(usize, usize, f64)]) -> Conn {
    let mut adj = vec![vec![false; n]; n];
    let mut uniq: Vec<(usize, usize, f64)> = vec![];
    for (i, j, o) in bonds {
        if !adj[*i][*j] { uniq.push((*i, *j, *o)); }
        adj[*i][*j] = true;
        adj[*j][*i] = true;
    }
    let mut c = Conn { bonds: uniq, ..Default::default() };
    for j in 0..n { for i in 0..n { for k in (i + 1)..n {
        if i != j && k != j && adj[i][j] && adj[j][k] { c.angles.push([i, j, k]); }
    } } }
    // every bonded path i-j-k-l over four distinct atoms, each once (i < l), in lexicographic order — enumerated over the
    // neighbours of the central bond so that graphs of a few hundred atoms stay cheap
    let nbrs: Vec<Vec<usize>> = (0..n).map(|a| (0..n).filter(|b| adj[a][*b]).collect()).collect();
    for j in 0..n { for &k in nbrs[j].iter() { for &i in nbrs[j].iter() { for &l in nbrs[k].iter() {
        let distinct = i != j && i != k && j != k && j != l && k != l && i != l;
        if distinct && i < l { c.propers.push([i, j, k, l]); }
    } } } }
    c.propers.sort();
    for cidx in 0..n {
        let nb: Vec<usize> = (0..n).filter(|x| adj[cidx][*x]).collect();
        if nb.len() == 3 { c.impropers.push([cidx, nb[0], nb[1], nb[2]]); }
    }
    for i in 0..n { for j in 0..n {
        if i > j && !adj[i][j] { c.nb_pairs.push((i, j)); }
    } }
    c
}

pub fn parse_bonds(s: &str) -> Vec<(usize, usize, f64)> {
    if s == "-" || s.is_empty() { return vec![]; }
    s.split(',').map(|t| {
        let (ij, o) = t.split_once(':').unwrap();
        let (i, j) = ij.split_once('-').unwrap();
        (i.parse().unwrap(), j.parse().unwrap(), o.parse::<f64>().unwrap() / 2.0)
    }).collect()
}

pub fn bonds_text(b: &[(usize, usize, f64)]) -> String {
    join(&b.iter().map(|(i, j, o)| format!("{}-{}:{}", i, j, (o * 2.0) as usize)).collect::<Vec<_>>(), ",")
}
