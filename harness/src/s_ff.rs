//! C01 / C07 / C11: whole force fields. Correspondence: `Forcefield::energy/gradient` against the model's sum/fold over
//! the exported term list (bit for bit). Oracles: finite differences of the real energy against the real gradient.
use crate::gen::*;
use crate::util::*;
use optrs::verif::*;

pub fn term_text(t: &TermDesc) -> String {
    format!("{} {} {}", t.kind,
        t.idxs.iter().map(|i| i.to_string()).collect::<Vec<_>>().join(","),
        if t.params.is_empty() { "-".to_string() } else { t.params.iter().map(|p| hx(*p)).collect::<Vec<_>>().join(",") })
}

pub fn coords_text(x: &[Point]) -> String {
    x.iter().flat_map(|p| [hx(p.x), hx(p.y), hx(p.z)]).collect::<Vec<_>>().join(" ")
}

pub fn flat(g: &[Vector3D]) -> Vec<f64> { g.iter().flat_map(|v| [v.x, v.y, v.z]).collect() }

pub enum FF { U(UFF), R(RB) }
impl FF {
    pub fn build(kind: &str, mol: &Molecule) -> Option<FF> {
        match kind {
            "uff" => catch(|| UFF::new(mol)).map(FF::U),
            _ => catch(|| RB::new(mol)).map(FF::R),
        }
    }
    pub fn terms(&self) -> Vec<TermDesc> { match self { FF::U(f) => f.verif_terms(), FF::R(f) => f.verif_terms() } }
    pub fn energy(&mut self, x: &[Point]) -> f64 { match self { FF::U(f) => f.energy(x), FF::R(f) => f.energy(x) } }
    pub fn gradient(&mut self, x: &[Point]) -> Vec<f64> { match self { FF::U(f) => flat(f.gradient(x)), FF::R(f) => flat(f.gradient(x)) } }
    pub fn as_dyn(&mut self) -> &mut dyn Forcefield { match self { FF::U(f) => f, FF::R(f) => f } }
}

/// Is the geometry comfortably away from every term's singular set?
pub fn well_conditioned(terms: &[TermDesc], x: &[Point]) -> bool { well_conditioned_with(terms, x, 0.12) }

/// `smin`: the smallest |sin| of a bend / flanking angle at which the finite difference is still trusted
pub fn well_conditioned_with(terms: &[TermDesc], x: &[Point], smin: f64) -> bool { conditioned(terms, x, smin, smin) }

/// Bends are smooth functions of the coordinates THROUGH collinearity when the multiplicity is an integer (the energy is even
/// in the deviation from 180 degrees), so their finite difference can be trusted arbitrarily close to it — only exact
/// collinearity (|sin| <= 1e-9, where the code returns a zero gradient by its guard) is left out; torsions and inversions keep `smin`.
pub fn well_conditioned_grazing(terms: &[TermDesc], x: &[Point]) -> bool {
    terms.iter().all(|t| t.kind != "angle_a" || (t.params[1] - t.params[1].round()).abs() < 1e-12) && conditioned(terms, x, 1e-9, 0.03)
}

fn conditioned(terms: &[TermDesc], x: &[Point], smin_bend: f64, smin: f64) -> bool {
    let sin_ok_b = |i: usize, j: usize, k: usize| angle_value(i, j, k, x).sin().abs() > smin_bend;
    let sin_ok = |i: usize, j: usize, k: usize| angle_value(i, j, k, x).sin().abs() > smin;
    for t in terms {
        let ix = &t.idxs;
        let ok = match t.kind {
            "bond" | "lj" | "repulsion" => distance(ix[0], ix[1], x) > 0.4,
            "angle_a" | "angle_b" => sin_ok_b(ix[0], ix[1], ix[2]) && distance(ix[0], ix[1], x) > 0.3 && distance(ix[2], ix[1], x) > 0.3,
            "torsion" => {
                let mut ok = sin_ok(ix[0], ix[1], ix[2]) && sin_ok(ix[1], ix[2], ix[3]);
                if ok {
                    // away from the atan2 cut phi = +-pi unless the multiplicity is an integer (then cos(n phi) is smooth there)
                    let e = make_term(&TermDesc { kind: "torsion", idxs: ix.clone(), params: vec![0.0, 1.0, 2.0] }).energy(x); // 1 - cos(phi)
                    let n = t.params[1];
                    if (n - n.round()).abs() > 1e-9 && e > 1.98 { ok = false; }
                    if e > 1.9999 { ok = false; } // numerically on the cut
                }
                ok
            }
            "inversion" => {
                let (c, i, j, k) = (ix[0], ix[1], ix[2], ix[3]);
                sin_ok(i, c, j) && sin_ok(j, c, k) && sin_ok(k, c, i) && {
                    // each gamma away from 0 and pi: mean of sin(gamma) terms individually — use three single-axis probes
                    let probe = |a: usize, b: usize, d: usize| {
                        let v0 = [x[a].x - x[c].x, x[a].y - x[c].y, x[a].z - x[c].z];
                        let v1 = [x[b].x - x[c].x, x[b].y - x[c].y, x[b].z - x[c].z];
                        let v3 = [x[d].x - x[c].x, x[d].y - x[c].y, x[d].z - x[c].z];
                        let n = [v0[1] * v1[2] - v0[2] * v1[1], v0[2] * v1[0] - v0[0] * v1[2], v0[0] * v1[1] - v0[1] * v1[0]];
                        let dot = n[0] * v3[0] + n[1] * v3[1] + n[2] * v3[2];
                        let l = |v: [f64; 3]| (v[0] * v[0] + v[1] * v[1] + v[2] * v[2]).sqrt();
                        (dot / (l(n) * l(v3))).abs() < 0.98
                    };
                    probe(i, j, k) && probe(k, i, j) && probe(j, k, i)
                }
            }
            _ => true,
        };
        if !ok { return false; }
    }
    true
}

/// `fd_check` for geometries where the whole gradient may be tiny: same stencil, tolerance 1e-6 of the largest component but
/// never below the round-off floor of the difference quotient
pub fn fd_check_abs(out: &mut Out, ff: &mut FF, terms: &[TermDesc], x: &[Point], label: &str, replay: &str, worst: &mut f64) -> bool {
    fd_check(out, ff, terms, x, label, replay, worst)
}

pub fn fd_check(out: &mut Out, ff: &mut FF, terms: &[TermDesc], x: &[Point], label: &str, replay: &str, worst: &mut f64) -> bool {
    let all: Vec<usize> = (0..x.len()).collect();
    fd_check_atoms(out, ff, terms, x, &all, label, replay, worst)
}

/// the finite-difference comparison restricted to the coordinates of the listed atoms (large systems)
pub fn fd_check_atoms(out: &mut Out, ff: &mut FF, terms: &[TermDesc], x: &[Point], atoms: &[usize], label: &str, replay: &str, worst: &mut f64) -> bool {
    let g = ff.gradient(x);
    if !g.iter().all(|v| v.is_finite()) { return false; }
    let gmax = g.iter().fold(0.0f64, |m, v| m.max(v.abs())).max(1e-2);
    let escale: f64 = terms.iter().map(|t| make_term(t).energy(x).abs()).sum::<f64>().max(1.0);
    let h = 2e-4;
    let tol = 1e-6 * gmax + 1e-14 * escale / h;
    for &a in atoms.iter() {
        for c in 0..3 {
            let mut d = |hh: f64| {
                let mut p = x.to_vec();
                p[a][c] += hh;
                let ep = ff.energy(&p);
                p[a][c] -= 2.0 * hh;
                let em = ff.energy(&p);
                (ep - em) / (2.0 * hh)
            };
            let fd = (4.0 * d(h / 2.0) - d(h)) / 3.0;
            let err = (g[3 * a + c] - fd).abs();
            if err / gmax > *worst { *worst = err / gmax; }
            if !(err <= tol) {
                out.oracle_fail(&format!("{}: gradient of atom {} axis {} is {} but the energy's finite difference is {} (largest component {})", label, a, c, g[3 * a + c], fd, gmax), replay);
                return true;
            }
        }
    }
    true
}

pub fn run(out: &mut Out, seed: u64, tier: &str) {
    let mut rng = Rng::new(seed ^ 0xff01);
    let n_random = if tier == "thorough" { 1500 } else { 160 };
    let mut mols: Vec<Mol> = library();
    for _ in 0..n_random { let m = random_mol(&mut rng); if m.min_distance() > 0.5 { mols.push(m); } }
    let (mut n_cases, mut n_fd, mut worst) = (0usize, 0usize, 0.0f64);
    let mut kinds_seen: std::collections::BTreeMap<String, usize> = Default::default();
    for m in mols.iter() {
        let mol = match catch(|| m.build()) { Some(x) => x, None => continue };
        for kind in ["uff", "rb"] {
            let mut ff = match FF::build(kind, &mol) { Some(f) => f, None => continue };
            let terms = ff.terms();
            for t in &terms { *kinds_seen.entry(format!("{}:{}", kind, t.kind)).or_insert(0) += 1; }
            let tt = if terms.is_empty() { "-".to_string() } else { terms.iter().map(term_text).collect::<Vec<_>>().join(";") };
            for geom in 0..3 {
                let g = match geom {
                    0 => m.clone(),
                    1 => distort(m, 0.05, &mut rng),
                    _ => { let d = distort(m, 0.15, &mut rng); let r = random_rotation(&mut rng); moved(&d, &r, [rng.range(-5., 5.), rng.range(-5., 5.), rng.range(-5., 5.)]) }
                };
                let x = g.points();
                let e = ff.energy(&x);
                let gr = ff.gradient(&x);
                let mut o = vec![hx(e)];
                o.extend(gr.iter().map(|v| hx(*v)));
                let input = format!("ff {} {} | {} | {}", kind, m.n(), tt, coords_text(&x));
                out.case(&input, &o.join(" "));
                n_cases += 1;
                if m.n() <= 14 && g.min_distance() > 0.6 && well_conditioned(&terms, &x) && e.is_finite() && e.abs() < 1e7 {
                    let replay = format!("{} forcefield on\n{}", kind, g.xyz_text());
                    if fd_check(out, &mut ff, &terms, &x, kind, &replay, &mut worst) { n_fd += 1; }
                }
            }
        }
    }
    // wide-angle geometries: a force field built at an ordinary geometry, evaluated where one flanking angle of one of
    // its torsions has been opened to 174.5-178 degrees (inside the 0.1 rad window in which construction would not have
    // added the torsion, so only a later distortion gets there). Conditioning: |sin| > 0.03 is enough for the
    // Richardson difference at h = 2e-4.
    let mut n_wide = 0usize;
    for m in mols.iter().take(if tier == "thorough" { 600 } else { 200 }) {
        if m.n() > 14 { continue; }
        let mol = match catch(|| m.build()) { Some(x) => x, None => continue };
        let mut ff = match FF::build("uff", &mol) { Some(f) => f, None => continue };
        let terms = ff.terms();
        let mut deg = vec![0usize; m.n()];
        for t in terms.iter().filter(|t| t.kind == "bond") { deg[t.idxs[0]] += 1; deg[t.idxs[1]] += 1; }
        let tors: Vec<&TermDesc> = terms.iter().filter(|t| t.kind == "torsion" && t.params[2] != 0.0 && (deg[t.idxs[0]] == 1 || deg[t.idxs[3]] == 1)).collect();
        if tors.is_empty() { continue; }
        let t = tors[rng.below(tors.len())];
        let (i, j, k) = if deg[t.idxs[0]] == 1 { (t.idxs[0], t.idxs[1], t.idxs[2]) } else { (t.idxs[3], t.idxs[2], t.idxs[1]) };
        let mut g = distort(m, 0.03, &mut rng);
        let sub = |a: [f64; 3], b: [f64; 3]| [a[0] - b[0], a[1] - b[1], a[2] - b[2]];
        let dot = |a: [f64; 3], b: [f64; 3]| a[0] * b[0] + a[1] * b[1] + a[2] * b[2];
        let u0 = sub(g.xs[k], g.xs[j]); let lu = dot(u0, u0).sqrt(); let u = [u0[0] / lu, u0[1] / lu, u0[2] / lu];
        let v = sub(g.xs[i], g.xs[j]); let r = dot(v, v).sqrt();
        let vp = [v[0] - dot(v, u) * u[0], v[1] - dot(v, u) * u[1], v[2] - dot(v, u) * u[2]];
        let lw = dot(vp, vp).sqrt();
        if lw < 1e-3 || r < 0.3 { continue; }
        let w = [vp[0] / lw, vp[1] / lw, vp[2] / lw];
        let delta = (180.0 - rng.range(174.5, 178.0)).to_radians();
        for c in 0..3 { g.xs[i][c] = g.xs[j][c] + r * (-delta.cos() * u[c] + delta.sin() * w[c]); }
        if g.min_distance() < 0.6 { continue; }
        let x = g.points();
        let e = ff.energy(&x);
        if !(e.is_finite() && e.abs() < 1e7) || !well_conditioned_with(&terms, &x, 0.03) { continue; }
        let gr = ff.gradient(&x);
        let tt = terms.iter().map(term_text).collect::<Vec<_>>().join(";");
        let mut o = vec![hx(e)];
        o.extend(gr.iter().map(|v| hx(*v)));
        out.case(&format!("ff uff {} | {} | {}", m.n(), tt, coords_text(&x)), &o.join(" "));
        n_cases += 1;
        let replay = format!("uff forcefield built on\n{}evaluated (angle {}-{}-{} opened to {:.2} deg) on\n{}", m.xyz_text(), i, j, k, 180.0 - delta.to_degrees(), g.xyz_text());
        if fd_check(out, &mut ff, &terms, &x, "uff wide-angle", &replay, &mut worst) { n_fd += 1; n_wide += 1; }
    }
    // grazing geometries: linear molecules with their end atoms a few 1e-5 A off the axis (what another program's five
    // decimals leave of an exactly linear structure): the bends are within 1e-4 rad of 180 degrees, not exactly on it
    let mut n_graze = 0usize;
    for zs in [vec![1usize, 6, 6, 1], vec![1, 6, 7], vec![8, 6, 8], vec![16, 6, 16], vec![9, 4, 9], vec![17, 80, 17], vec![1, 6, 6, 6, 6, 1],
               // centres that are bent by nature (cosine-harmonic bends) drawn straight: water, a siloxane bridge, H2S, an ether, a peroxide
               vec![1, 8, 1], vec![14, 8, 14], vec![1, 16, 1], vec![6, 8, 6], vec![1, 8, 8, 1]] {
        for rep in 0..(if tier == "thorough" { 12 } else { 3 }) {
            let mut g = linear_chain(&zs, 1.0);
            for p in g.xs.iter_mut() { p[1] += rng.range(-1.0, 1.0) * 10f64.powf(rng.range(-5.5, -3.8)); p[2] += rng.range(-1.0, 1.0) * 10f64.powf(rng.range(-5.5, -3.8)); }
            if rep % 2 == 1 { let r = random_rotation(&mut rng); g = moved(&g, &r, [rng.range(-2., 2.), rng.range(-2., 2.), rng.range(-2., 2.)]); }
            let mol = match catch(|| g.build()) { Some(x) => x, None => continue };
            let mut ff = match FF::build("uff", &mol) { Some(f) => f, None => continue };
            let terms = ff.terms();
            let x = g.points();
            let e = ff.energy(&x);
            if !(e.is_finite() && e.abs() < 1e7) || !well_conditioned_grazing(&terms, &x) { continue; }
            let replay = format!("uff forcefield on (almost linear: atoms up to 1e-4 A off the axis)\n{}", g.xyz_text());
            if fd_check_abs(out, &mut ff, &terms, &x, "uff grazing", &replay, &mut worst) { n_fd += 1; n_graze += 1; }
        }
    }
    // large systems (180-600 atoms; a code path chosen by size is chosen here): a long alkane, a noble-gas lattice around a
    // molecule, a chain of waters. Too large for the term-by-term model line, so two oracles only: the force field's gradient is the
    // sum of its terms' gradients, and it is the finite difference of the force field's energy (all atoms up to 200, else a sample
    // that always includes the last atoms)
    let mut n_large = 0usize;
    let mut larges: Vec<Mol> = vec![];
    for (k, n_c) in [60usize, 61, 75].iter().enumerate() { if tier == "thorough" || k == 0 { larges.push(distort(&alkane(*n_c), 0.02, &mut rng)); } }
    for (k, side) in [6usize, 7, 8].iter().enumerate() {
        if tier != "thorough" && k == 0 { continue; }
        let mut m = library()[0].clone();
        for p in m.xs.iter_mut() { p[0] -= 3.1; p[1] -= 2.9; p[2] -= 3.3; }
        for a in 0..*side { for b in 0..*side { for c in 0..*side { m.zs.push(*rng.pick(&[2usize, 10, 18])); m.xs.push([a as f64 * 3.7 + rng.range(-0.2, 0.2), b as f64 * 3.7 + rng.range(-0.2, 0.2), c as f64 * 3.7 + rng.range(-0.2, 0.2)]); } } }
        m.name = format!("water-in-lattice-{}", side);
        larges.push(m);
    }
    // sizes the changed source lines mention (as atom counts or as pair counts): water in a lattice of that many atoms
    for n in hints().atom_counts(24, 1300) {
        let mut m = library()[0].clone();
        for p in m.xs.iter_mut() { p[0] -= 3.1; p[1] -= 2.9; p[2] -= 3.3; }
        for q in lattice_points(n - 3, 3.7) { m.zs.push(*rng.pick(&[2usize, 10, 18])); m.xs.push([q[0] + rng.range(-0.2, 0.2), q[1] + rng.range(-0.2, 0.2), q[2] + rng.range(-0.2, 0.2)]); }
        m.name = format!("hinted-size-{}", n);
        larges.push(m);
    }
    for m in larges.iter() {
        if m.min_distance() < 0.6 { continue; }
        let mol = match catch(|| m.build()) { Some(x) => x, None => continue };
        for kind in ["uff", "rb"] {
            let mut ff = match FF::build(kind, &mol) { Some(f) => f, None => continue };
            let terms = ff.terms();
            let x = m.points();
            let e = ff.energy(&x);
            if !(e.is_finite() && e.abs() < 1e7) { continue; }
            let g = ff.gradient(&x);
            let mut acc: Vec<Vector3D> = (0..x.len()).map(|_| Vector3D { x: 0.0, y: 0.0, z: 0.0 }).collect();
            let mut esum = 0.0f64;
            for t in terms.iter() { let term = make_term(t); term.add_gradient(&x, &mut acc); esum += term.energy(&x); }
            let gs = flat(&acc);
            let gmax = g.iter().fold(0.0f64, |mx, v| mx.max(v.abs())).max(1e-2);
            let replay = format!("{} forcefield on a {}-atom system ({} terms)
{}", kind, m.n(), terms.len(), m.xyz_text());
            if let Some(s) = (0..g.len()).find(|s| !((g[*s] - gs[*s]).abs() <= 1e-9 * gmax)) {
                out.oracle_fail(&format!("{} large system: gradient of atom {} axis {} is {} but its terms' gradients sum to {}", kind, s / 3, s % 3, g[s], gs[s]), &replay);
            }
            if !((e - esum).abs() <= 1e-9 * e.abs().max(1.0)) { out.oracle_fail(&format!("{} large system: energy {} but its terms' energies sum to {}", kind, e, esum), &replay); }
            let atoms: Vec<usize> = if m.n() <= 200 { (0..m.n()).collect() } else { let mut v: Vec<usize> = (0..m.n()).step_by(9).collect(); for a in m.n() - 6..m.n() { if !v.contains(&a) { v.push(a); } } v };
            if kind == "rb" || well_conditioned(&terms, &x) {
                if fd_check_atoms(out, &mut ff, &terms, &x, &atoms, &format!("{} large system", kind), &replay, &mut worst) { n_fd += 1; n_large += 1; }
            }
        }
    }
    out.stat("large_systems_fd_checked", n_large);
    // van der Waals pairs on their own: two unbonded atoms of every element (quick: same-element pairs and a sample of mixed ones;
    // thorough: also every pair with one of ten partners) just beyond the bonding threshold and further out — the only force in the
    // system is the pair's, so a pair term whose force is lost or scaled shows at full size whatever its well depth
    let mut n_pairs_fd = 0usize;
    let partners = [1usize, 6, 8, 17, 25, 26, 46, 79, 92, 118];
    let mut pair_list: Vec<(usize, usize)> = (1..=118usize).map(|z| (z, z)).collect();
    for _ in 0..(if tier == "thorough" { 0 } else { 60 }) { pair_list.push((1 + rng.below(118), 1 + rng.below(118))); }
    if tier == "thorough" { for z in 1..=118usize { for p in partners.iter() { pair_list.push((z, *p)); } } }
    for (zi, zj) in pair_list {
        let d0 = 1.3 * (radius(zi) + radius(zj));
        // (also far out, where the whole gradient is 1e-9 .. 1e-5 kcal/mol/A: "one part in 1e6 of the largest component" has no floor)
        for f in [1.06, 1.6, 4.0, 9.0] {
            if f > 2.0 && zi != zj && tier != "thorough" { continue; }
            let d = d0 * f;
            let g = Mol { name: format!("pair-{}-{}", zi, zj), zs: vec![zi, zj], xs: vec![[0.1, -0.2, 0.3], [0.1 + d * 0.48, -0.2 + d * 0.6, 0.3 - d * 0.64]] };
            let mol = match catch(|| g.build()) { Some(x) => x, None => continue };
            let mut ff = match FF::build("uff", &mol) { Some(f) => f, None => continue };
            let terms = ff.terms();
            if terms.len() != 1 || terms[0].kind != "lj" { continue; }
            let x = g.points();
            let e = ff.energy(&x);
            if !e.is_finite() { continue; }
            let replay = format!("uff forcefield on two unbonded atoms\n{}", g.xyz_text());
            // tolerance relative to this pair's own force: no floor from an "ordinary" gradient scale
            let gr = ff.gradient(&x);
            let gmax = gr.iter().fold(0.0f64, |m, v| m.max(v.abs()));
            let h = 2e-4;
            let mut worst_here = 0.0f64;
            for a in 0..2 { for c in 0..3 {
                let mut dq = |hh: f64| { let mut p = x.clone(); p[a][c] += hh; let ep = ff.energy(&p); p[a][c] -= 2.0 * hh; let em = ff.energy(&p); (ep - em) / (2.0 * hh) };
                let fd = (4.0 * dq(h / 2.0) - dq(h)) / 3.0;
                worst_here = worst_here.max((gr[3 * a + c] - fd).abs());
            } }
            let scale = gmax.max(worst_here).max(1e-300);
            if worst_here > 1e-5 * scale + 1e-13 * e.abs() / h {
                out.oracle_fail(&format!("uff pair: the analytic force of the lone pair term (largest component {:e}) differs from the energy's finite difference by {:e}", gmax, worst_here), &replay);
            }
            n_pairs_fd += 1; n_fd += 1;
        }
    }
    out.stat("lone_pairs_fd_checked", n_pairs_fd);
    out.stat("grazing_linear_geometries_fd_checked", n_graze);
    out.stat("wide_angle_geometries_fd_checked", n_wide);
    out.stat("cases", n_cases);
    out.stat("fd_checked_geometries", n_fd);
    out.stat("fd_worst_relative_error", format!("{:e}", worst));
    out.stat("term_kinds_seen", format!("{:?}", kinds_seen));
    out.sample(&format!("uff on water: {}", library()[0].line()));
}
