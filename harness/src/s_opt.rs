//! C04: optimise real molecules inside the property's domain; energy with a fresh force field before and after;
//! atoms / connectivity / force-field terms snapshots before and after.
use crate::canon::*;
use crate::gen::*;
use crate::s_ff::*;
use crate::util::*;
use optrs::verif::*;

pub struct OptResult { pub e0: f64, pub e1: f64, pub changed: Option<String>, pub xf: Vec<[f64; 3]> }

pub fn optimise_checked(m: &Mol, kind: &str) -> Option<OptResult> {
    let mut mol = catch(|| m.build())?;
    let mut ff = FF::build(kind, &mol)?;
    let e0 = ff.energy(&mol.coordinates);
    let conn0 = canon_conn(&connectivity(&mol));
    let atoms0: Vec<String> = atoms(&mol).iter().map(|a| a.symbol.clone()).collect();
    let terms0: Vec<String> = { let mut t: Vec<String> = ff.terms().iter().map(term_text).collect(); t.sort(); t };
    catch(|| mol.optimise(ff.as_dyn()))?;
    let conn1 = canon_conn(&connectivity(&mol));
    let atoms1: Vec<String> = atoms(&mol).iter().map(|a| a.symbol.clone()).collect();
    let terms1: Vec<String> = { let mut t: Vec<String> = ff.terms().iter().map(term_text).collect(); t.sort(); t };
    // "its energy under that force field": the very object the optimiser used (C07: its answers do not depend on history)
    let e1 = ff.energy(&mol.coordinates);
    let changed = if conn0 != conn1 { Some("connectivity".to_string()) } else if atoms0 != atoms1 { Some("atoms".to_string()) }
        else if terms0 != terms1 { Some("force-field terms".to_string()) } else { None };
    Some(OptResult { e0, e1, changed, xf: mol.coordinates.iter().map(|p| [p.x, p.y, p.z]).collect() })
}

/// Did the run go wrong only after the optimiser stopped looking? Re-run it behind a recording force field: if the energies it
/// asked for (it asks during the first five iterations after each restart only) never rose within its last attempt, the
/// rise happened in the part of the walk where the energy is no longer monitored.
fn blind_after_window(m: &Mol, kind: &str) -> String {
    use crate::s_sd::{Event, Inner, Recorder};
    let mut mol = match catch(|| m.build()) { Some(x) => x, None => return String::new() };
    let ff = match FF::build(kind, &mol) { Some(f) => f, None => return String::new() };
    let mut rec = Recorder::new(Inner::Real(ff));
    rec.cap = 600;
    if catch(|| mol.optimise(&mut rec)).is_none() { return String::new(); }
    let es: Vec<f64> = rec.log.iter().filter_map(|e| if let Event::E(_, v) = e { Some(*v) } else { None }).collect();
    let n_grad = rec.log.iter().filter(|e| matches!(e, Event::G(_, _))).count();
    let tail: Vec<f64> = es.iter().rev().take(5).rev().cloned().collect();
    let monotone = tail.windows(2).all(|w| w[1] <= w[0]) && tail.iter().all(|v| v.is_finite());
    if monotone && !tail.is_empty() && n_grad >= 500 {
        format!(" — the {} energies the optimiser looked at in its last attempt fell ({:.6e} .. {:.6e}) and the rise came later in the 500-step walk, where it no longer evaluates the energy", tail.len(), tail[0], tail[tail.len() - 1])
    } else { String::new() }
}

pub fn in_domain(m: &Mol, e0: f64) -> bool { m.min_distance() >= 0.5 && e0.is_finite() && e0 < 1e4 * m.n() as f64 }

pub fn run(out: &mut Out, seed: u64, tier: &str) {
    let mut rng = Rng::new(seed ^ 0x0404);
    let n_random = if tier == "thorough" { 1500 } else { 150 };
    let mut mols: Vec<Mol> = library();
    for r in 0..n_random {
        let m = random_mol(&mut rng);
        let m = match r % 4 {
            0 => m,
            1 => distort(&m, rng.range(0.02, 0.25), &mut rng),
            2 => { // compressed / stretched
                let s = *rng.pick(&[0.8, 0.9, 1.15, 1.25]); let mut c = m.clone(); for p in c.xs.iter_mut() { for k in 0..3 { p[k] *= s; } } c }
            _ => { let a = random_mol(&mut rng); let r = random_rotation(&mut rng); union(&m, &moved(&a, &r, [rng.range(2.5, 6.0), rng.range(-1., 1.), rng.range(-1., 1.)])) }
        };
        if m.n() <= 24 { mols.push(m); }
    }
    // stiff close contacts: one atom of a library / random molecule pushed towards a non-neighbouring atom until they are
    // 0.5-0.7 A apart (still inside the property's domain): runs that need the step length halved more than once
    let n_contact = if tier == "thorough" { 400 } else { 40 };
    let lib = library();
    for r in 0..n_contact {
        let base = if r % 2 == 0 { lib[rng.below(lib.len())].clone() } else { random_mol(&mut rng) };
        if base.n() < 4 || base.n() > 20 { continue; }
        let (a, b) = (rng.below(base.n()), rng.below(base.n()));
        if a == b { continue; }
        let d0 = { let (p, q) = (base.xs[a], base.xs[b]); ((p[0] - q[0]).powi(2) + (p[1] - q[1]).powi(2) + (p[2] - q[2]).powi(2)).sqrt() };
        if d0 < 1.7 { continue; }                       // bonded or geminal: leave alone
        let target = rng.range(0.5, 0.7);
        let mut c = base.clone();
        for k in 0..3 { c.xs[a][k] = base.xs[b][k] + (base.xs[a][k] - base.xs[b][k]) * target / d0; }
        c.name = format!("{}+contact{}-{}", base.name, a, b);
        if c.min_distance() >= 0.5 { mols.push(c); }
    }
    // the same, systematically: in every library molecule each hydrogen pushed across the molecule onto a hydrogen more than
    // 4 A away (0.55 A from it) — e.g. benzene's para pairs, the stiffest contacts a small molecule offers
    for base in lib.iter() {
        if base.n() > 16 { continue; }
        let hs: Vec<usize> = (0..base.n()).filter(|i| base.zs[*i] == 1).collect();
        let mut made = 0;
        for &a in hs.iter() { for &b in hs.iter() {
            if a == b || made >= (if tier == "thorough" { 12 } else { 4 }) { continue; }
            let d0 = { let (p, q) = (base.xs[a], base.xs[b]); ((p[0] - q[0]).powi(2) + (p[1] - q[1]).powi(2) + (p[2] - q[2]).powi(2)).sqrt() };
            if d0 < 4.0 { continue; }
            let mut c = base.clone();
            for k in 0..3 { c.xs[a][k] = base.xs[b][k] + (base.xs[a][k] - base.xs[b][k]) * 0.55 / d0; }
            c.name = format!("{}+H{}onto{}", base.name, a, b);
            if c.min_distance() >= 0.5 { mols.push(c); made += 1; }
        } }
    }
    // the corpus runs first: starts that exposed a fault once (kept minimal, each file says where it came from)
    let corpus_dir = concat!(env!("CARGO_MANIFEST_DIR"), "/../corpus/opt");
    let mut corpus: Vec<Mol> = vec![];
    if let Ok(rd) = std::fs::read_dir(corpus_dir) {
        let mut files: Vec<_> = rd.filter_map(|e| e.ok()).map(|e| e.path()).filter(|p| p.extension().map(|x| x == "xyz").unwrap_or(false)).collect();
        files.sort();
        for f in files {
            if let Some((syms, xs)) = std::fs::read(&f).ok().and_then(|b| crate::s_cli::parse_xyz(&b)) {
                let zs: Vec<usize> = syms.iter().map(|s| z_of(s)).collect();
                corpus.push(Mol { name: format!("corpus:{}", f.file_name().unwrap().to_string_lossy()), zs, xs });
            }
        }
    }
    out.stat("corpus_starts", corpus.len());
    corpus.extend(mols.into_iter());
    let mols = corpus;
    let (mut n, mut n_dom, mut moved_n, mut worst_rise) = (0usize, 0usize, 0usize, 0.0f64);
    let mut n_conv = 0usize;
    for m in mols.iter() {
        for kind in ["uff", "rb"] {
            let r = match optimise_checked(m, kind) { Some(r) => r, None => continue };
            n += 1;
            let replay = format!("{} optimise of\n{}", kind, m.xyz_text());
            if let Some(what) = &r.changed { out.oracle_fail(&format!("optimisation changed the {}", what), &replay); }
            if !in_domain(m, r.e0) { continue; }
            n_dom += 1;
            if r.xf.iter().zip(m.xs.iter()).any(|(a, b)| a != b) { moved_n += 1; }
            // "a starting structure that already satisfies the convergence criterion is returned unchanged": hand the result back
            // whenever it satisfies sqrt(mean |g_i|) < 0.1 under a fresh force field, and expect the very same coordinates
            if r.xf.iter().all(|p| p.iter().all(|v| v.is_finite())) {
                let start2 = Mol { name: m.name.clone(), zs: m.zs.clone(), xs: r.xf.clone() };
                if let Some(mut mol2) = catch(|| { let mut b = m.build(); b.coordinates = start2.points(); b }) {
                    if let Some(mut ff2) = catch(|| m.build()).and_then(|orig| FF::build(kind, &orig)) {
                        let g = ff2.gradient(&mol2.coordinates);
                        let mean = g.chunks(3).map(|c| (c[0] * c[0] + c[1] * c[1] + c[2] * c[2]).sqrt()).sum::<f64>() / m.n() as f64;
                        if mean.sqrt() < 0.1 {
                            n_conv += 1;
                            if catch(|| mol2.optimise(ff2.as_dyn())).is_some() {
                                let same = mol2.coordinates.iter().zip(r.xf.iter()).all(|(p, q)| p.x.to_bits() == q[0].to_bits() && p.y.to_bits() == q[1].to_bits() && p.z.to_bits() == q[2].to_bits());
                                if !same { out.oracle_fail(&format!("{}: a start that already satisfies the convergence criterion (sqrt of the mean atomic gradient norm {:.4} < 0.1) was not returned unchanged", kind, mean.sqrt()), &format!("{} optimise of\n{}", kind, start2.xyz_text())); }
                            }
                        }
                    }
                }
            }
            let rise = r.e1 - r.e0;
            if rise > worst_rise { worst_rise = rise; }
            if !(r.e1 <= r.e0 + 1e-9 * r.e0.abs().max(1.0)) {
                // say why, when a known cause is visible at the start geometry (the attribution the robustness stream uses)
                let why = catch(|| m.build()).map(|mol| crate::s_robust::attribute(m, &mol, kind)).unwrap_or_default();
                let why = if why.starts_with("unattributed") || why.is_empty() { blind_after_window(m, kind) } else { format!(" — {}", why) };
                out.oracle_fail(&format!("{} energy rose from {} to {} kcal/mol{}", kind, r.e0, r.e1, why), &replay);
            }
        }
    }
    // large converged starts: the criterion is a mean over atoms, so in a large system it is met while one or two atoms still carry
    // a sizeable force. One slightly stretched diatomic inside a wide lattice of 150-650 noble-gas atoms, the stretch found by
    // bisection so that sqrt(mean |g_i|) lands at 0.08-0.095: such a start must come back bit for bit
    let mut n_large_conv = 0usize;
    let mut sizes: Vec<(usize, usize, usize)> = if tier == "thorough" { vec![(5, 5, 6), (7, 7, 6), (9, 9, 8), (4, 4, 3)] } else { vec![(7, 7, 6), (4, 4, 3)] };
    // sizes the changed source lines mention (n x 1 x 1 lattices of that many atoms)
    for n in hints().atom_counts(30, 1200).into_iter().take(3) { sizes.insert(0, (n - 2, 1, 1)); }
    for (si, (na, nb, nc)) in sizes.iter().enumerate() {
        for (zi, zj) in [(1usize, 1usize), (6, 8), (17, 17)] {
            if tier != "thorough" && (si + zi) % 2 == 1 { continue; }
            for kind in ["uff", "rb"] {
                let r0 = radius(zi) + radius(zj);
                let lattice = |r: f64| -> Mol {
                    let mut m = Mol { name: format!("stretched-{}-{}-in-lattice-{}", zi, zj, na * nb * nc), zs: vec![zi, zj], xs: vec![[-30.0, -30.1, -29.9], [-30.0 + r, -30.1, -29.9]] };
                    for a in 0..*na { for b in 0..*nb { for c in 0..*nc { m.zs.push(2); m.xs.push([a as f64 * 60.0, b as f64 * 60.0, c as f64 * 60.0]); } } }
                    m
                };
                // (measure, force along the bond on the second atom) under a fresh force field
                let probe = |m: &Mol| -> Option<(f64, f64)> {
                    let mol = catch(|| m.build())?; let mut ff = FF::build(kind, &mol)?;
                    let g = ff.gradient(&mol.coordinates);
                    Some(((g.chunks(3).map(|c| (c[0] * c[0] + c[1] * c[1] + c[2] * c[2]).sqrt()).sum::<f64>() / m.n() as f64).sqrt(), g[3]))
                };
                let measure = |m: &Mol| -> Option<f64> { probe(m).map(|v| v.0) };
                // the bond length at which the pair is at rest (the gradient along the bond changes sign), then the stretch beyond it
                // at which the measure reaches about 0.09 (monotone on the stretched side of the minimum)
                let (mut a0, mut a1) = (0.8 * r0, 1.25 * r0);
                match (probe(&lattice(a0)), probe(&lattice(a1))) { (Some(p), Some(q)) if p.1 < 0.0 && q.1 > 0.0 => {}, _ => continue }
                for _ in 0..60 { let mid = 0.5 * (a0 + a1); match probe(&lattice(mid)) { Some(v) if v.1 > 0.0 => a1 = mid, Some(_) => a0 = mid, None => break } }
                let req = a1;
                let target = rng.range(0.08, 0.095);
                let (mut lo, mut hi) = (req, req + 0.1);
                match measure(&lattice(hi)) { Some(v) if v > target => {}, _ => continue }
                if !(measure(&lattice(lo)).map(|v| v < target).unwrap_or(false)) { continue; }
                for _ in 0..40 { let mid = 0.5 * (lo + hi); match measure(&lattice(mid)) { Some(v) if v > target => hi = mid, Some(_) => lo = mid, None => break } }
                let start = lattice(lo);
                let ms = match measure(&start) { Some(v) => v, None => continue };
                if !(ms < 0.1) || !(ms > 0.05) { continue; }
                let mut mol = match catch(|| start.build()) { Some(x) => x, None => continue };
                let mut ff = match FF::build(kind, &mol) { Some(f) => f, None => continue };
                let e0 = ff.energy(&mol.coordinates);
                if !in_domain(&start, e0) { continue; }
                let gmax = { let g = ff.gradient(&mol.coordinates); g.chunks(3).map(|c| (c[0] * c[0] + c[1] * c[1] + c[2] * c[2]).sqrt()).fold(0.0f64, f64::max) };
                if catch(|| mol.optimise(ff.as_dyn())).is_none() { continue; }
                n_large_conv += 1;
                let same = mol.coordinates.iter().zip(start.xs.iter()).all(|(p, q)| p.x.to_bits() == q[0].to_bits() && p.y.to_bits() == q[1].to_bits() && p.z.to_bits() == q[2].to_bits());
                if !same { out.oracle_fail(&format!("{}: a {}-atom start that already satisfies the convergence criterion (sqrt of the mean atomic gradient norm {:.4} < 0.1; largest atomic gradient norm {:.3}) was not returned unchanged", kind, start.n(), ms, gmax), &format!("{} optimise of\n{}", kind, start.xyz_text())); }
            }
        }
    }
    out.stat("large_converged_starts", n_large_conv);
    out.stat("optimisations", n);
    out.stat("inside_domain", n_dom);
    out.stat("moved", moved_n);
    out.stat("converged_results_handed_back", n_conv);
    out.stat("largest_energy_rise", format!("{:e}", worst_rise));
    out.sample("uff optimise of distorted methanol: E0 -> E1 <= E0");
}
