//! C04: optimise real molecules inside the property's domain; energy with a fresh force field before and after;
//! atoms / connectivity / force-field terms snapshots before and after.
use crate::canon::*;
use crate::gen::*;
use crate::s_ff::*;
use crate::util::*;
use optrs::verif::*;

pub struct OptResult { pub e0: f64, pub e1: f64, pub changed: Option<String>, pub xf: Vec<[f64; 3]> }

pub fn optimise_checked(m: &Mol, kind: &str) -> Option<OptResult> {
    let mut mol = catch(|| m.build())?;
    let mut ff = FF::build(kind, &mol)?;
    let e0 = ff.energy(&mol.coordinates);
    let conn0 = canon_conn(&connectivity(&mol));
    let atoms0: Vec<String> = atoms(&mol).iter().map(|a| a.symbol.clone()).collect();
    let terms0: Vec<String> = { let mut t: Vec<String> = ff.terms().iter().map(term_text).collect(); t.sort(); t };
    catch(|| mol.optimise(ff.as_dyn()))?;
    let conn1 = canon_conn(&connectivity(&mol));
    let atoms1: Vec<String> = atoms(&mol).iter().map(|a| a.symbol.clone()).collect();
    let terms1: Vec<String> = { let mut t: Vec<String> = ff.terms().iter().map(term_text).collect(); t.sort(); t };
    // "its energy under that force field": the very object the optimiser used (C07: its answers do not depend on history)
    let e1 = ff.energy(&mol.coordinates);
    let changed = if conn0 != conn1 { Some("connectivity".to_string()) } else if atoms0 != atoms1 { Some("atoms".to_string()) }
        else if terms0 != terms1 { Some("force-field terms".to_string()) } else { None };
    Some(OptResult { e0, e1, changed, xf: mol.coordinates.iter().map(|p| [p.x, p.y, p.z]).collect() })
}

pub fn in_domain(m: &Mol, e0: f64) -> bool { m.min_distance() >= 0.5 && e0.is_finite() && e0 < 1e4 * m.n() as f64 }

pub fn run(out: &mut Out, seed: u64, tier: &str) {
    let mut rng = Rng::new(seed ^ 0x0404);
    let n_random = if tier == "thorough" { 1500 } else { 150 };
    let mut mols: Vec<Mol> = library();
    for r in 0..n_random {
        let m = random_mol(&mut rng);
        let m = match r % 4 {
            0 => m,
            1 => distort(&m, rng.range(0.02, 0.25), &mut rng),
            2 => { // compressed / stretched
                let s = *rng.pick(&[0.8, 0.9, 1.15, 1.25]); let mut c = m.clone(); for p in c.xs.iter_mut() { for k in 0..3 { p[k] *= s; } } c }
            _ => { let a = random_mol(&mut rng); let r = random_rotation(&mut rng); union(&m, &moved(&a, &r, [rng.range(2.5, 6.0), rng.range(-1., 1.), rng.range(-1., 1.)])) }
        };
        if m.n() <= 24 { mols.push(m); }
    }
    let (mut n, mut n_dom, mut moved_n, mut worst_rise) = (0usize, 0usize, 0usize, 0.0f64);
    for m in mols.iter() {
        for kind in ["uff", "rb"] {
            let r = match optimise_checked(m, kind) { Some(r) => r, None => continue };
            n += 1;
            let replay = format!("{} optimise of\n{}", kind, m.xyz_text());
            if let Some(what) = &r.changed { out.oracle_fail(&format!("optimisation changed the {}", what), &replay); }
            if !in_domain(m, r.e0) { continue; }
            n_dom += 1;
            if r.xf.iter().zip(m.xs.iter()).any(|(a, b)| a != b) { moved_n += 1; }
            let rise = r.e1 - r.e0;
            if rise > worst_rise { worst_rise = rise; }
            if !(r.e1 <= r.e0 + 1e-9 * r.e0.abs().max(1.0)) {
                // say why, when a known cause is visible at the start geometry (the attribution the robustness stream uses)
                let why = catch(|| m.build()).map(|mol| crate::s_robust::attribute(m, &mol, kind)).unwrap_or_default();
                let why = if why.starts_with("unattributed") || why.is_empty() { String::new() } else { format!(" — {}", why) };
                out.oracle_fail(&format!("{} energy rose from {} to {} kcal/mol{}", kind, r.e0, r.e1, why), &replay);
            }
        }
    }
    out.stat("optimisations", n);
    out.stat("inside_domain", n_dom);
    out.stat("moved", moved_n);
    out.stat("largest_energy_rise", format!("{:e}", worst_rise));
    out.sample("uff optimise of distorted methanol: E0 -> E1 <= E0");
}
