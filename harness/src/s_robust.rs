//! C06: sensible input (pairwise distances >= 0.5 A) must never abort or produce non-finite / overflow-scale numbers.
//! Every failure is attributed to a signature (site, centre type, environment) through the type accessor.
use crate::gen::*;
use crate::s_ff::*;
use crate::util::*;
use optrs::verif::*;

fn finite_all(v: &[f64]) -> bool { v.iter().all(|x| x.is_finite()) }

/// Why did it fail? A description precise enough to tell known defects from new ones.
pub fn attribute(m: &Mol, mol: &Molecule, kind: &str) -> String {
    let x = &mol.coordinates;
    let mut notes: Vec<String> = vec![];
    if kind == "uff" {
        if let Some(ff) = catch(|| UFF::new(mol)) {
            let types = ff.verif_atom_types();
            for t in ff.verif_terms() {
                if t.kind == "angle_a" || t.kind == "angle_b" {
                    // (collinear bends used to be a cause — the gradient divided by sin(theta) = 0; repaired in /repo, so
                    // collinearity is no longer an attribution and a failure there is reported like any other)
                    let ty = &types[t.idxs[1]];
                    if t.kind == "angle_b" && (ty.theta.sin().abs() < 1e-3) {
                        notes.push(format!("cosine-harmonic bend at centre type {} in {} environment whose natural angle is 180 deg: c2 = 1/(4 sin^2 theta0) overflows", ty.name, ty.environment));
                    }
                    if t.params.iter().any(|p| !p.is_finite() || p.abs() > 1e12) && !(t.kind == "angle_b" && ty.theta.sin().abs() < 1e-3) {
                        notes.push(format!("bend {:?} has parameters {:?}", t.idxs, t.params));
                    }
                } else if t.params.iter().any(|p| !p.is_finite()) {
                    notes.push(format!("{} term {:?} has non-finite parameters {:?}", t.kind, t.idxs, t.params));
                }
                if t.kind == "inversion" {
                    // centre c with neighbours a, b collinear with it (exactly or to rounding): the plane a-c-b has no normal
                    let c = t.idxs[0];
                    let nb = [t.idxs[1], t.idxs[2], t.idxs[3]];
                    let mut degenerate = false;
                    for (a, b) in [(nb[0], nb[1]), (nb[1], nb[2]), (nb[0], nb[2])] {
                        let ang = angle_value(a, c, b, x);
                        if ang.sin().abs() < 1e-6 || ang.is_nan() {
                            degenerate = true;
                            notes.push(format!("inversion at centre type {} whose neighbours are collinear with it (a T-shaped or straight a-c-b arrangement): the plane a-c-b has no normal, the inversion angle is 0/0", types[c].name));
                        }
                    }
                    // one bond perpendicular to the plane of the other two (three mutually perpendicular bonds): the energy depends on
                    // sin(gamma) = sqrt(1 - cos^2 gamma) with cos gamma = +-1 there — a cusp, the gradient divides by zero
                    let mut degenerate = degenerate;
                    if !degenerate {
                        let v = |a: usize| [x[a].x - x[c].x, x[a].y - x[c].y, x[a].z - x[c].z];
                        for (a, b, k) in [(nb[0], nb[1], nb[2]), (nb[1], nb[2], nb[0]), (nb[2], nb[0], nb[1])] {
                            let (p, q, r) = (v(a), v(b), v(k));
                            let nrm = [p[1] * q[2] - p[2] * q[1], p[2] * q[0] - p[0] * q[2], p[0] * q[1] - p[1] * q[0]];
                            let l = |u: [f64; 3]| (u[0] * u[0] + u[1] * u[1] + u[2] * u[2]).sqrt();
                            let cosg = (nrm[0] * r[0] + nrm[1] * r[1] + nrm[2] * r[2]) / (l(nrm) * l(r));
                            if 1.0 - cosg * cosg < 1e-12 {
                                degenerate = true;
                                notes.push(format!("inversion at centre type {} with one bond perpendicular to the plane of the other two (mutually perpendicular bonds): the energy has a cusp there and the gradient divides by sqrt(1 - cos^2 gamma) = 0", types[c].name));
                                break;
                            }
                        }
                    }
                    let e = make_term(&t).energy(x);
                    if !e.is_finite() && !degenerate { notes.push(format!("inversion term on {:?} evaluates to {} at this geometry", t.idxs, e)); }
                }
                if t.kind == "torsion" {
                    let (a1, a2) = (angle_value(t.idxs[0], t.idxs[1], t.idxs[2], x), angle_value(t.idxs[1], t.idxs[2], t.idxs[3], x));
                    let degenerate = a1.sin().abs() < 1e-6 || a2.sin().abs() < 1e-6 || a1.is_nan() || a2.is_nan();
                    // angle 0 (the end atom folded back onto the central bond) is the recorded finding; a torsion that exists although
                    // a flanking angle is 180 degrees is something else: construction is supposed to drop those
                    let folded = a1.abs() < 1e-3 || a2.abs() < 1e-3;
                    if degenerate && folded { notes.push("torsion with an end atom on the axis of its central bond (flanking angle exactly 0): the dihedral angle is 0/0".to_string()); }
                    else if degenerate { notes.push(format!("torsion on {:?} present although a flanking angle is 180 deg (such torsions are dropped at construction): the dihedral angle is 0/0", t.idxs)); }
                    let e = make_term(&t).energy(x);
                    if !e.is_finite() && !degenerate { notes.push(format!("torsion term on {:?} evaluates to {} at this geometry", t.idxs, e)); }
                }
            }
        }
    }
    notes.sort(); notes.dedup();
    if notes.is_empty() { format!("unattributed ({} atoms)", m.n()) } else { notes.join(" | ") }
}

pub fn check(out: &mut Out, m: &Mol, stats: &mut (usize, usize)) {
    if m.min_distance() < 0.5 || m.n() == 0 { return; }
    stats.0 += 1;
    let replay = m.xyz_text();
    let mol = match catch(|| m.build()) { Some(x) => x, None => { out.oracle_fail("building the molecule (perception) aborted", &replay); return; } };
    for kind in ["uff", "rb"] {
        let mut ff = match FF::build(kind, &mol) { Some(f) => f, None => { out.oracle_fail(&format!("{}: force-field construction aborted", kind), &replay); continue; } };
        let e = ff.energy(&mol.coordinates);
        let g = ff.gradient(&mol.coordinates);
        let scale = 1e6 * m.n() as f64;
        if !e.is_finite() || e.abs() > scale || !finite_all(&g) {
            out.oracle_fail(&format!("{}: energy {} / gradient finite: {} — {}", kind, e, finite_all(&g), attribute(m, &mol, kind)), &replay);
            continue;
        }
        // optimise
        let mut work = m.build();
        if catch(|| work.optimise(ff.as_dyn())).is_none() { out.oracle_fail(&format!("{}: optimisation aborted", kind), &replay); continue; }
        let xf: Vec<f64> = work.coordinates.iter().flat_map(|p| [p.x, p.y, p.z]).collect();
        let ef = ff.energy(&work.coordinates);
        if !finite_all(&xf) || !ef.is_finite() || ef.abs() > scale {
            let why = { let a = attribute(m, &mol, kind); if a.starts_with("unattributed") { attribute(m, &work, kind) } else { format!("at the start geometry: {}", a) } };
            out.oracle_fail(&format!("{}: optimised coordinates finite: {}, final energy {} — {}", kind, finite_all(&xf), ef, why), &replay);
            continue;
        }
        stats.1 += 1;
    }
}

pub fn run(out: &mut Out, seed: u64, tier: &str) {
    let mut rng = Rng::new(seed ^ 0x0606);
    let mut stats = (0usize, 0usize);
    for m in library() { check(out, &m, &mut stats); }
    // the corpus of optimisation starts that once exposed a fault (several step halvings in one run, stiff contacts): they are
    // ordinary inputs of this property too
    let corpus_dir = concat!(env!("CARGO_MANIFEST_DIR"), "/../corpus/opt");
    if let Ok(rd) = std::fs::read_dir(corpus_dir) {
        let mut files: Vec<_> = rd.filter_map(|e| e.ok()).map(|e| e.path()).filter(|p| p.extension().map(|x| x == "xyz").unwrap_or(false)).collect();
        files.sort();
        for f in files {
            if let Some((syms, xs)) = std::fs::read(&f).ok().and_then(|b| crate::s_cli::parse_xyz(&b)) {
                check(out, &Mol { name: format!("corpus:{}", f.file_name().unwrap().to_string_lossy()), zs: syms.iter().map(|s| z_of(s)).collect(), xs }, &mut stats);
            }
        }
    }
    let ligands = [1usize, 6, 8, 17];
    for z in 1..=118usize {
        check(out, &Mol { name: format!("atom{}", z), zs: vec![z], xs: vec![[0.0, 0.0, 0.0]] }, &mut stats);
        for (li, l) in ligands.iter().enumerate() {
            if tier != "thorough" && (z + li) % 4 != (seed % 4) as usize { continue; }
            check(out, &centre(z, *l, "single", 1.0), &mut stats);                                   // diatomic, axis-aligned
        }
        for (gi, g) in GEOMETRIES.iter().enumerate().skip(1) {
            if tier != "thorough" && (z + gi) % 5 != (seed % 5) as usize { continue; }
            let exact = centre(z, 1, g, 1.0);                                                          // exactly symmetric, axis-aligned
            check(out, &exact, &mut stats);
            let r = random_rotation(&mut rng);
            check(out, &moved(&exact, &r, [rng.range(-3., 3.), rng.range(-3., 3.), rng.range(-3., 3.)]), &mut stats);
            check(out, &distort(&exact, 0.05, &mut rng), &mut stats);
            if *g == "tetrahedral" || *g == "octahedral" { check(out, &centre(z, 17, g, 1.0), &mut stats); }
        }
    }
    // linear triatomics and polyynes on an axis, planar rings, broken fragments
    for zs in [vec![8usize, 6, 8], vec![1, 6, 7], vec![16, 6, 16], vec![7, 7, 8], vec![1, 6, 6, 1], vec![1, 6, 6, 6, 6, 1], vec![9, 4, 9], vec![17, 80, 17], vec![1, 4, 1]] {
        check(out, &linear_chain(&zs, 0.9), &mut stats);
        let r = random_rotation(&mut rng);
        check(out, &moved(&linear_chain(&zs, 0.9), &r, [1.0, 2.0, 3.0]), &mut stats);
    }
    // a bent head on an exactly linear tail (propyne, acetonitrile, methyl isocyanide, chloropropyne ...): a tetrahedral or
    // trigonal group whose fourth/third direction is the x axis, followed by atoms exactly on that axis — in both atom orders
    // (head first, tail first) and both on the axis and rotated
    for (head, subs, sub_z, tail) in [(6usize, 3usize, 1usize, vec![6usize, 6, 1]), (6, 3, 1, vec![6, 7]), (6, 3, 1, vec![7, 6]), (14, 3, 1, vec![6, 6, 17]), (6, 2, 1, vec![6, 6, 1]), (7, 2, 1, vec![6, 7])] {
        let ang = if subs == 3 { 109.47f64 } else { 120.0f64 }.to_radians();
        let mut zs = vec![head]; let mut xs = vec![[0.0f64, 0.0, 0.0]];
        for k in 0..subs {
            let phi = 2.0 * std::f64::consts::PI * k as f64 / subs as f64;
            let r = radius(head) + radius(sub_z);
            // substituents on a cone about -x making `ang` with +x
            zs.push(sub_z); xs.push([r * ang.cos(), r * ang.sin() * phi.cos(), r * ang.sin() * phi.sin()]);
        }
        let mut x = 0.0; let mut prev = head;
        for z in tail.iter() { x += 0.92 * (radius(prev) + radius(*z)); zs.push(*z); xs.push([x, 0.0, 0.0]); prev = *z; }
        let m = Mol { name: format!("head{}+tail{:?}", head, tail), zs: zs.clone(), xs: xs.clone() };
        let rev = Mol { name: format!("tail{:?}+head{}", tail, head), zs: zs.iter().rev().cloned().collect(), xs: xs.iter().rev().cloned().collect() };
        for v in [m, rev] {
            check(out, &v, &mut stats);
            let r = random_rotation(&mut rng);
            check(out, &moved(&v, &r, [0.5, -1.0, 2.0]), &mut stats);
        }
    }
    for n in 3..=8usize { check(out, &ring(n, 6, 1.45, 1, 1.08), &mut stats); check(out, &ring(n, 7, 1.35, 0, 1.0), &mut stats); }
    let n_random = if tier == "thorough" { 3000 } else { 300 };
    for _ in 0..n_random {
        let a = random_mol(&mut rng);
        let m = match rng.below(3) { 0 => a, 1 => distort(&a, 0.1, &mut rng), _ => { let b = random_mol(&mut rng); union(&a, &moved(&b, &random_rotation(&mut rng), [rng.range(3.0, 9.0), 0.5, -0.5])) } };
        if m.n() <= 30 { check(out, &m, &mut stats); }
    }
    // the scripting route to isolated atoms and broken fragments: a molecule is perceived at its real geometry, then its atoms are
    // moved apart (all of them: isolated atoms; one half: broken fragments) and the connectivity regenerated — what a scan or a
    // dissociation script does. Force-field construction, evaluation and optimisation must work on what is left
    let mut n_scripted = 0usize;
    let pool: Vec<Mol> = { let mut v = library(); for _ in 0..(if tier == "thorough" { 60 } else { 10 }) { v.push(random_mol(&mut rng)); } v };
    for m in pool.iter() {
        if m.n() < 2 || m.n() > 14 || m.min_distance() < 0.5 { continue; }
        for variant in 0..2 {
            let syms = m.symbols();
            let refs: Vec<&str> = syms.iter().map(|x| x.as_str()).collect();
            let mut w = Wrapper::from_atomic_symbols(&refs);
            let apart: Vec<[f64; 3]> = if variant == 0 { m.xs.iter().map(|p| [p[0] * 5.0, p[1] * 5.0, p[2] * 5.0]).collect() }
                                        else { m.xs.iter().enumerate().map(|(i, p)| if i >= m.n() / 2 { [p[0] + 9.0, p[1] - 4.0, p[2] + 2.0] } else { *p }).collect() };
            let apart_m = Mol { name: format!("{}-apart{}", m.name, variant), zs: m.zs.clone(), xs: apart.clone() };
            if apart_m.min_distance() < 0.5 { continue; }
            let replay = format!("{}then set_coordinates to\n{}then generate_connectivty, build UFF / RB, evaluate, optimise", m.xyz_text(), apart_m.xyz_text());
            let ok = catch(|| { w.set_coordinates(m.xs.iter().flat_map(|p| p.to_vec()).collect()); w.generate_connectivity();
                                w.set_coordinates(apart.iter().flat_map(|p| p.to_vec()).collect()); w.generate_connectivity(); });
            if ok.is_none() { out.oracle_fail("scripted route: set_coordinates / generate_connectivty aborted", &replay); continue; }
            n_scripted += 1;
            for kind in ["uff", "rb"] {
                let mut ff = match FF::build(kind, w.molecule()) { Some(f) => f, None => { out.oracle_fail(&format!("scripted route, {}: force-field construction aborted on a molecule whose atoms were moved apart and whose connectivity was regenerated", kind), &replay); continue; } };
                let x = w.molecule().coordinates.clone();
                let (e, g) = (ff.energy(&x), ff.gradient(&x));
                if !e.is_finite() || e.abs() > 1e6 * m.n() as f64 || !finite_all(&g) {
                    // the same atoms constructed afresh: if they fail the same way it is the geometry's (attributed) problem, not the route's
                    let fresh_bad = catch(|| apart_m.build()).and_then(|fm| FF::build(kind, &fm).map(|mut f2| { let e2 = f2.energy(&fm.coordinates); !e2.is_finite() || e2.abs() > 1e6 * m.n() as f64 })).unwrap_or(true);
                    if !fresh_bad { out.oracle_fail(&format!("scripted route, {}: energy {} / gradient finite: {} although the same atoms constructed afresh are fine", kind, e, finite_all(&g)), &replay); }
                }
            }
            if m.n() <= 8 && catch(|| w.optimise()).is_none() { out.oracle_fail("scripted route: optimise aborted", &replay); }
        }
    }
    out.stat("scripted_dissociations", n_scripted);
    out.case("robust summary", "-");
    out.stat("inputs", stats.0);
    out.stat("force_fields_fully_exercised", stats.1);
    out.sample("every element as a centre with 1-6 H ligands in exact geometries, axis-aligned and rotated");
}
