//! C03: rigid motions. Energy invariant, gradient rotates with the molecule, zero net force and torque; connectivity and
//! the force field built from moved coordinates unchanged.
use crate::canon::*;
use crate::gen::*;
use crate::s_build::sorted_terms;
use crate::s_ff::*;
use crate::util::*;
use optrs::verif::*;

/// Is any pair within a relative 1e-6 of the bonding threshold (or any near-tie between candidate distances of one atom,
/// or any typing angle near a switching point)? Then rounding under a rigid motion may legitimately flip perception.
fn on_a_threshold(m: &Mol) -> bool {
    let n = m.n();
    let d = |i: usize, j: usize| ((m.xs[i][0] - m.xs[j][0]).powi(2) + (m.xs[i][1] - m.xs[j][1]).powi(2) + (m.xs[i][2] - m.xs[j][2]).powi(2)).sqrt();
    for i in 0..n {
        let mut ds: Vec<f64> = vec![];
        for j in 0..n { if i != j {
            let r = d(i, j);
            let lim = 1.3 * (radius(m.zs[i]) + radius(m.zs[j]));
            if (r / lim - 1.0).abs() < 1e-6 { return true; }
            if r < lim { ds.push(r); }
        } }
        ds.sort_by(|a, b| a.partial_cmp(b).unwrap());
        if ds.windows(2).any(|w| (w[1] - w[0]).abs() < 1e-6 * w[1].max(1e-3)) { return true; }
    }
    false
}

pub fn run(out: &mut Out, seed: u64, tier: &str) {
    let mut rng = Rng::new(seed ^ 0x0303);
    let n_random = if tier == "thorough" { 1200 } else { 160 };
    let mut mols: Vec<Mol> = library();
    for _ in 0..n_random { let m = random_mol(&mut rng); mols.push(distort(&m, rng.range(0.02, 0.2), &mut rng)); }
    // the same in the orientation a z-matrix or a builder gives (first atom at the origin, second on the x axis, third in the xy
    // plane: exact coordinate ties between atoms), for the library, for idealised centres and for distorted copies
    { let lib = library(); for m in lib.iter() { mols.push(standard_orientation(m)); mols.push(standard_orientation(&distort(m, 0.1, &mut rng))); } }
    for z in [15usize, 33, 6, 7, 5, 16, 51] { for g in ["pyramidal", "trigonal", "tetrahedral", "tshape"] {
        mols.push(standard_orientation(&distort(&centre(z, *rng.pick(&[1usize, 9, 17]), g, 1.0), 0.08, &mut rng)));
    } }
    // structures with a bond angle of 168-176 degrees next to a torsion: whether the torsion is kept (the construction drops
    // it within 0.1 rad of linear) must not depend on how the molecule lies in the frame
    let base: Vec<Mol> = mols.iter().take(if tier == "thorough" { 300 } else { 70 }).cloned().collect();
    for m in base.iter() {
        if m.n() > 14 || m.n() < 4 { continue; }
        let mol = match catch(|| m.build()) { Some(x) => x, None => continue };
        let ff = match FF::build("uff", &mol) { Some(f) => f, None => continue };
        let terms = ff.terms();
        let mut deg = vec![0usize; m.n()];
        for t in terms.iter().filter(|t| t.kind == "bond") { deg[t.idxs[0]] += 1; deg[t.idxs[1]] += 1; }
        let tors: Vec<&TermDesc> = terms.iter().filter(|t| t.kind == "torsion" && (deg[t.idxs[0]] == 1 || deg[t.idxs[3]] == 1)).collect();
        if tors.is_empty() { continue; }
        let t = tors[rng.below(tors.len())];
        let (i, j, k) = if deg[t.idxs[0]] == 1 { (t.idxs[0], t.idxs[1], t.idxs[2]) } else { (t.idxs[3], t.idxs[2], t.idxs[1]) };
        if let Some(mut g) = with_angle(m, i, j, k, rng.range(168.0, 176.0)) {
            g.name = format!("{}+angle{}-{}-{}", m.name, i, j, k);
            if g.min_distance() >= 0.6 { mols.push(g); }
        }
    }
    // exactly linear molecules, many orientations each (one random rotation per molecule is drawn in the loop below)
    for zs in [vec![8usize, 6, 8], vec![1, 6, 7], vec![1, 6, 6, 1], vec![16, 6, 16], vec![9, 4, 9], vec![17, 80, 17]] {
        for _ in 0..(if tier == "thorough" { 120 } else { 25 }) { mols.push(linear_chain(&zs, rng.range(0.9, 1.1))); }
    }
    let (mut n_files, mut n_files_tried) = (0usize, 0usize);
    // translation sizes the changed source lines mention (the value and its reciprocal), within what doubles still resolve
    let hint_big: Vec<f64> = hints().magnitudes().into_iter().filter(|m| *m >= 10.0 && *m <= 1e6).collect();
    let mut n_far = 0usize;
    let (mut n, mut skipped, mut worst_e, mut worst_f, mut worst_t, mut worst_cov) = (0usize, 0usize, 0.0f64, 0.0f64, 0.0f64, 0.0f64);
    for m in mols.iter() {
        if m.n() > 24 || m.n() == 0 || m.min_distance() < 0.5 { continue; }
        let r = random_rotation(&mut rng);
        let big = if !hint_big.is_empty() && n_files_tried % 7 == 3 { hint_big[rng.below(hint_big.len())] * *rng.pick(&[0.5, 1.5]) } else { 10f64.powf(rng.range(0.0, 4.0)) };
        let t = [rng.range(-1.0, 1.0) * big, rng.range(-1.0, 1.0) * big, rng.range(-1.0, 1.0) * big];
        let mm = moved(m, &r, t);
        let (mol, mol2) = match (catch(|| m.build()), catch(|| mm.build())) { (Some(a), Some(b)) => (a, b), _ => continue };
        let replay = format!("rotation {:?} translation {:?} of\n{}", r, t, m.xyz_text());
        // "rigidly moving an input structure": every fourth pair is also constructed from files — the original as this harness writes
        // numbers, the moved copy as another program would (scientific notation with either exponent letter, a sign, fixed point
        // with 17 digits; all spellings that give back the same double) — and must be the molecule constructed in memory
        if n_files_tried % 4 == 0 && m.n() <= 16 {
            let spell = |v: f64, k: usize| -> String { match k % 4 { 0 => format!("{:E}", v), 1 => format!("{:e}", v), 2 => format!("{:+.17E}", v), _ => format!("{:?}", v) } };
            let mut text = format!("{}\nmoved copy\n", mm.n());
            for (a, (sy, p)) in mm.symbols().iter().zip(mm.xs.iter()).enumerate() { text += &format!("{} {} {} {}\n", sy, spell(p[0], a), spell(p[1], a + 1), spell(p[2], a + 2)); }
            let path = format!("/var/tmp/optrs-verif-scratch/c03-{}.xyz", std::process::id());
            let _ = std::fs::create_dir_all("/var/tmp/optrs-verif-scratch");
            std::fs::write(&path, &text).unwrap();
            let fm = catch(|| Molecule::from_xyz_file(&path));
            let _ = std::fs::remove_file(&path);
            match fm {
                None => out.oracle_fail("the moved copy of an input structure could not be read from its xyz file", &format!("{}\nfile:\n{}", replay, text)),
                Some(fm) => {
                    let same_xyz = fm.coordinates.len() == mol2.coordinates.len() && fm.coordinates.iter().zip(mol2.coordinates.iter()).all(|(p, q)| p.x.to_bits() == q.x.to_bits() && p.y.to_bits() == q.y.to_bits() && p.z.to_bits() == q.z.to_bits());
                    if !same_xyz { out.oracle_fail(&format!("the moved copy read from its xyz file has {} atoms / other coordinates than the {} written", fm.coordinates.len(), mm.n()), &format!("{}\nfile:\n{}", replay, text)); }
                    else if canon_conn(&connectivity(&fm)) != canon_conn(&connectivity(&mol2)) { out.oracle_fail("the moved copy read from its xyz file has another connectivity than the same atoms constructed in memory", &format!("{}\nfile:\n{}", replay, text)); }
                    n_files += 1;
                }
            }
        }
        n_files_tried += 1;
        // far translations by exactly representable offsets (2^20 .. 2^29 A: doubles still resolve 2e-10 .. 1e-7 A there): the
        // perceived connectivity is that of the structure at the origin
        if n_files_tried % 5 == 0 && !on_a_threshold(m) {
            let e = 20 + rng.below(10) as i32;
            let off = 2f64.powi(e);
            let tt = [off * *rng.pick(&[1.0, -1.0, 0.0]), off * *rng.pick(&[1.0, -1.0]), off * *rng.pick(&[0.5, 0.0, -1.0])];
            let far = Mol { name: m.name.clone(), zs: m.zs.clone(), xs: m.xs.iter().map(|p| [p[0] + tt[0], p[1] + tt[1], p[2] + tt[2]]).collect() };
            if let Some(fm) = catch(|| far.build()) {
                if canon_conn(&connectivity(&mol)) != canon_conn(&connectivity(&fm)) {
                    out.oracle_fail(&format!("perceived connectivity changed under a translation by {:?} A", tt), &format!("translation {:?} of\n{}", tt, m.xyz_text()));
                }
                n_far += 1;
            }
        }
        // perception and construction from moved coordinates
        if on_a_threshold(m) { skipped += 1; }
        else {
            if canon_conn(&connectivity(&mol)) != canon_conn(&connectivity(&mol2)) { out.oracle_fail("perceived connectivity changed under a rigid motion", &replay); continue; }
        }
        for kind in ["uff", "rb"] {
            let (mut f1, mut f2) = match (FF::build(kind, &mol), FF::build(kind, &mol2)) { (Some(a), Some(b)) => (a, b), _ => continue };
            let (e1, g1) = (f1.energy(&mol.coordinates), f1.gradient(&mol.coordinates));
            if !e1.is_finite() || !g1.iter().all(|v| v.is_finite()) || e1.abs() > 1e8 { continue; }
            // the force field built from the moved structure must have the same terms on the same atoms (whatever the conditioning)
            if !on_a_threshold(m) {
                let shape = |f: &FF| { let mut v: Vec<String> = f.terms().iter().map(|t| format!("{}{:?}", t.kind, t.idxs)).collect(); v.sort(); v };
                let (s1, s2) = (shape(&f1), shape(&f2));
                if s1 != s2 {
                    let only1: Vec<&String> = s1.iter().filter(|x| !s2.contains(x)).take(6).collect();
                    let only2: Vec<&String> = s2.iter().filter(|x| !s1.contains(x)).take(6).collect();
                    out.oracle_fail(&format!("{}: the force field built from the moved structure has different terms: only before {:?}, only after {:?}", kind, only1, only2), &replay);
                    continue;
                }
            }
            // finite before, finite after: a rigid motion must not turn a finite energy or gradient into NaN/inf (exactly linear
            // centres are where rounding decides the sign of a radicand)
            {
                let (em, gm) = (f1.energy(&mol2.coordinates), f1.gradient(&mol2.coordinates));
                if !em.is_finite() || !gm.iter().all(|v| v.is_finite()) {
                    out.oracle_fail(&format!("{}: energy and gradient are finite for the structure as given but not after a rigid motion (energy {}, gradient finite: {})", kind, em, gm.iter().all(|v| v.is_finite())), &replay);
                    continue;
                }
            }
            if !well_conditioned(&f1.terms(), &mol.coordinates) { continue; }
            n += 1;
            // (a) the SAME force field evaluated on moved coordinates
            let (e1m, g1m) = (f1.energy(&mol2.coordinates), f1.gradient(&mol2.coordinates));
            let escale: f64 = f1.terms().iter().map(|t| make_term(t).energy(&mol.coordinates).abs()).sum::<f64>().max(1.0);
            // moving to |t| ~ big loses log10(big) digits of the differences
            let eps = 1e-9 * (1.0 + big / 10.0);
            let de = (e1m - e1).abs() / escale;
            if de > worst_e { worst_e = de; }
            if !(de <= eps) { out.oracle_fail(&format!("{}: energy changed under a rigid motion: {} -> {}", kind, e1, e1m), &replay); continue; }
            let gmax = g1.iter().fold(0.0f64, |a, v| a.max(v.abs())).max(1e-3);
            let gscale: f64 = gmax.max(escale);
            // gradient rotates with the molecule
            let mut cov = 0.0f64;
            for a in 0..m.n() {
                let rg = apply(&r, [0.0; 3], [g1[3 * a], g1[3 * a + 1], g1[3 * a + 2]]);
                for c in 0..3 { cov = cov.max((rg[c] - g1m[3 * a + c]).abs()); }
            }
            if cov / gscale > worst_cov { worst_cov = cov / gscale; }
            if !(cov <= 1e-7 * gscale * (1.0 + big)) { out.oracle_fail(&format!("{}: gradient does not rotate with the molecule (max deviation {} of {})", kind, cov, gmax), &replay); }
            // zero net force and torque (about the centroid)
            let mut f = [0.0f64; 3]; let mut tq = [0.0f64; 3];
            let c0: Vec<f64> = (0..3).map(|c| m.xs.iter().map(|p| p[c]).sum::<f64>() / m.n() as f64).collect();
            let mut gsum = 0.0f64;
            for a in 0..m.n() {
                let g = [g1[3 * a], g1[3 * a + 1], g1[3 * a + 2]];
                let p = [m.xs[a][0] - c0[0], m.xs[a][1] - c0[1], m.xs[a][2] - c0[2]];
                for c in 0..3 { f[c] += g[c]; gsum += g[c].abs(); }
                tq[0] += p[1] * g[2] - p[2] * g[1]; tq[1] += p[2] * g[0] - p[0] * g[2]; tq[2] += p[0] * g[1] - p[1] * g[0];
            }
            let fm = f.iter().fold(0.0f64, |a, v| a.max(v.abs())) / gsum.max(1e-3);
            let tm = tq.iter().fold(0.0f64, |a, v| a.max(v.abs())) / (gsum.max(1e-3) * 5.0);
            if fm > worst_f { worst_f = fm; }
            if tm > worst_t { worst_t = tm; }
            if !(fm <= 1e-9) { out.oracle_fail(&format!("{}: forces do not sum to zero: net {:?} (sum of magnitudes {})", kind, f, gsum), &replay); }
            if !(tm <= 1e-9) { out.oracle_fail(&format!("{}: forces exert a net torque {:?}", kind, tq), &replay); }
            // (b) the force field BUILT from the moved structure
            if !on_a_threshold(m) {
                let e2 = f2.energy(&mol2.coordinates);
                if !((e2 - e1).abs() <= 1e-6 * escale * (1.0 + big / 10.0)) {
                    // parameters may legitimately differ by rounding of the typing angle only if a type switched: report the term lists
                    let same = sorted_terms(&f1.terms()) == sorted_terms(&f2.terms());
                    out.oracle_fail(&format!("{}: the force field built from the moved structure gives {} instead of {} (term lists equal: {})", kind, e2, e1, same), &replay);
                }
            }
        }
    }
    // exact ties under exact motions: a centre with more candidates at bit-identical distances than its valence allows (coordinates
    // on a 2^-10 grid), moved by half-turns about the coordinate axes and by grid translations — motions under which every distance
    // is reproduced bit for bit, so the perceived bonds and the force field built from them must be the same, tie or no tie
    let mut n_ties = 0usize;
    let half_turns: [[[f64; 3]; 3]; 3] = [[[1., 0., 0.], [0., -1., 0.], [0., 0., -1.]], [[-1., 0., 0.], [0., 1., 0.], [0., 0., -1.]], [[-1., 0., 0.], [0., -1., 0.], [0., 0., 1.]]];
    for case in 0..(if tier == "thorough" { 120 } else { 24 }) {
        let (zc, d) = *rng.pick(&[(1usize, 1.125f64), (9, 1.25), (1, 1.0), (17, 1.5), (8, 1.375), (3, 1.75)]);
        let ligs = [9usize, 17, 35, 8, 7, 16, 1];
        let dirs: [[f64; 3]; 6] = [[-1., 0., 0.], [1., 0., 0.], [0., -1., 0.], [0., 1., 0.], [0., 0., -1.], [0., 0., 1.]];
        let nl = 2 + rng.below(4);
        let mut zs = vec![zc]; let mut xs = vec![[0.0f64; 3]];
        let mut order: Vec<usize> = (0..6).collect(); rng.shuffle(&mut order);
        for k in 0..nl { zs.push(ligs[rng.below(ligs.len())]); let u = dirs[order[k]]; xs.push([u[0] * d, u[1] * d, u[2] * d]); }
        zs.push(18); xs.push([6.5, 4.25, -5.0]);
        let m = Mol { name: format!("exact-ties-{}", case), zs, xs };
        let t = [0.5 * (rng.below(9) as f64 - 4.0), 0.25 * (rng.below(9) as f64 - 4.0), 0.125 * (rng.below(17) as f64 - 8.0)];
        let r = half_turns[case % 3];
        let mm = moved(&m, &r, t);
        let (mol, mol2) = match (catch(|| m.build()), catch(|| mm.build())) { (Some(a), Some(b)) => (a, b), _ => continue };
        n_ties += 1;
        let replay = format!("half-turn {:?} and translation {:?} (all distances reproduced bit for bit) of\n{}", r, t, m.xyz_text());
        let (c1, c2) = (canon_conn(&connectivity(&mol)), canon_conn(&connectivity(&mol2)));
        if c1 != c2 { out.oracle_fail(&format!("perceived connectivity changed under a rigid motion that reproduces every distance exactly: {} -> {}", c1, c2), &replay); continue; }
        for kind in ["uff", "rb"] {
            if let (Some(mut f1), Some(mut f2)) = (FF::build(kind, &mol), FF::build(kind, &mol2)) {
                let (e1, e2) = (f1.energy(&mol.coordinates), f2.energy(&mol2.coordinates));
                if e1.is_finite() && e2.is_finite() && (e1 - e2).abs() > 1e-9 * e1.abs().max(1.0) {
                    out.oracle_fail(&format!("{}: energy of the force field built from the moved structure differs: {} vs {}", kind, e1, e2), &replay);
                }
            }
        }
    }
    out.stat("exact_tie_structures_under_exact_motions", n_ties);
    out.case("rigid summary", "-");
    // force fields evaluated far from where they were built: the atoms scattered in a box of 6-60 A (what a 3-D build starts from:
    // the connectivity is fixed, the bonds are tens of Angstrom long, the forces are enormous). Invariance does not care: the
    // energy is unchanged by a rigid motion, the gradient turns with it, sums to zero and exerts no torque
    let mut n_scattered = 0usize;
    for (k, m) in library().iter().enumerate() {
        if m.n() < 2 || m.n() > 14 || (tier != "thorough" && k % 2 == 1) { continue; }
        let mol = match catch(|| m.build()) { Some(x) => x, None => continue };
        for kind in ["rb", "uff"] {
            let mut ff = match FF::build(kind, &mol) { Some(f) => f, None => continue };
            for box_l in [6.0f64, 25.0, 60.0] {
                let xs: Vec<[f64; 3]> = (0..m.n()).map(|_| [rng.range(0.0, box_l), rng.range(0.0, box_l), rng.range(0.0, box_l)]).collect();
                let sc = Mol { name: m.name.clone(), zs: m.zs.clone(), xs };
                if sc.min_distance() < 0.8 { continue; }
                let r = random_rotation(&mut rng);
                let t = [rng.range(-5.0, 5.0), rng.range(-5.0, 5.0), rng.range(-5.0, 5.0)];
                let (x1, x2) = (sc.points(), moved(&sc, &r, t).points());
                let (e1, g1) = (ff.energy(&x1), ff.gradient(&x1));
                let (e2, g2) = (ff.energy(&x2), ff.gradient(&x2));
                if !e1.is_finite() || !g1.iter().all(|v| v.is_finite()) || !e2.is_finite() || !g2.iter().all(|v| v.is_finite()) { continue; }
                // the periodic and inverse-sine pieces of UFF are badly conditioned at arbitrary geometries: only RB and well-conditioned UFF cases
                if kind == "uff" && !well_conditioned(&ff.terms(), &x1) { continue; }
                n_scattered += 1;
                let gmax = g1.iter().fold(0.0f64, |a, v| a.max(v.abs())).max(1e-6);
                let replay = format!("{} force field built on\n{}evaluated with the atoms scattered in a {} A box:\n{}and after rotation {:?} translation {:?}", kind, m.xyz_text(), box_l, sc.xyz_text(), r, t);
                if !((e1 - e2).abs() <= 1e-9 * e1.abs().max(1.0)) { out.oracle_fail(&format!("{}: energy at scattered coordinates changes under a rigid motion: {} vs {}", kind, e1, e2), &replay); continue; }
                let mut net = [0.0f64; 3]; let mut tq = [0.0f64; 3]; let mut worst = 0.0f64;
                for a in 0..m.n() {
                    let g = [g1[3 * a], g1[3 * a + 1], g1[3 * a + 2]];
                    for c in 0..3 { net[c] += g[c]; }
                    let p = sc.xs[a];
                    tq[0] += p[1] * g[2] - p[2] * g[1]; tq[1] += p[2] * g[0] - p[0] * g[2]; tq[2] += p[0] * g[1] - p[1] * g[0];
                    for c in 0..3 { let rot = r[c][0] * g[0] + r[c][1] * g[1] + r[c][2] * g[2]; worst = worst.max((rot - g2[3 * a + c]).abs()); }
                }
                let lever = box_l.max(1.0);
                if net.iter().any(|v| v.abs() > 1e-9 * gmax * m.n() as f64) { out.oracle_fail(&format!("{}: the gradient at scattered coordinates does not sum to zero: {:?} (largest component {:e})", kind, net, gmax), &replay); continue; }
                if tq.iter().any(|v| v.abs() > 1e-8 * gmax * lever * m.n() as f64) { out.oracle_fail(&format!("{}: the gradient at scattered coordinates exerts a net torque: {:?} (largest component {:e})", kind, tq, gmax), &replay); continue; }
                if worst > 1e-8 * gmax { out.oracle_fail(&format!("{}: the gradient at scattered coordinates does not turn with the molecule (off by {:e}, largest component {:e})", kind, worst, gmax), &replay); }
            }
        }
    }
    out.stat("force_fields_at_scattered_coordinates", n_scattered);
    out.stat("moved_copies_constructed_from_files", n_files);
    out.stat("far_translations_2^20_to_2^29", n_far);
    out.stat("force_fields_checked", n);
    out.stat("perception_checks_skipped_on_threshold", skipped);
    out.stat("worst_energy_change_rel", format!("{:e}", worst_e));
    out.stat("worst_net_force_rel", format!("{:e}", worst_f));
    out.stat("worst_net_torque_rel", format!("{:e}", worst_t));
    out.stat("worst_covariance_defect_rel", format!("{:e}", worst_cov));
    out.sample("methanol rotated by a random quaternion and translated by ~1e3 A");
}
