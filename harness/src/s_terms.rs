//! C02/C01: the seven term kinds at random parameters and positions.
//! Correspondence: energy and gradient bit patterns for the Lean model (`evalF` of the hand energy model and of
//! the translated gradient programs). Oracles on the implementation: finite differences, locality.
use crate::util::*;
use optrs::verif::*;

pub const KINDS: [(&str, usize); 7] = [
    ("bond", 2), ("angle_a", 3), ("angle_b", 3), ("torsion", 4), ("inversion", 4), ("lj", 2), ("repulsion", 2),
];

fn rand_params(kind: &str, rng: &mut Rng) -> Vec<f64> {
    let pi = std::f64::consts::PI;
    match kind {
        "bond" => vec![rng.range(0.5, 3.0), rng.range(1.0, 1500.0)],
        "angle_a" => {
            let n = if rng.chance(0.8) { *rng.pick(&[1.0, 2.0, 3.0, 4.0]) } else { rng.range(0.5, 5.0) };
            vec![rng.range(1.0, 300.0), n]
        }
        "angle_b" => vec![rng.range(1.0, 300.0), rng.range(-3.0, 3.0), rng.range(-3.0, 3.0), rng.range(-3.0, 3.0)],
        "torsion" => {
            let phi0 = if rng.chance(0.7) { *rng.pick(&[0.0, pi / 3.0, pi, pi / 2.0]) } else { rng.range(-pi, pi) };
            let n = if rng.chance(0.8) { *rng.pick(&[1.0, 2.0, 3.0, 6.0]) } else { rng.range(0.5, 6.0) };
            vec![phi0, n, rng.range(0.0, 50.0)]
        }
        "inversion" => vec![rng.range(-12.0, 12.0), rng.range(-12.0, 12.0), rng.range(-12.0, 12.0), rng.range(0.0, 50.0)],
        "lj" => vec![rng.range(2.0, 5.0), rng.range(0.01, 1.0)],
        "repulsion" => vec![rng.range(1.0, 20.0), *rng.pick(&[1.0, 2.0, 3.0, 4.0, 6.0, 12.0])],
        _ => unreachable!(),
    }
}

pub fn rand_positions(n: usize, rng: &mut Rng) -> Vec<Point> {
    loop {
        let off = if rng.chance(0.2) { rng.range(-1000.0, 1000.0) } else { 0.0 };
        let pts: Vec<Point> = (0..n)
            .map(|_| Point { x: off + rng.range(-2.0, 2.0), y: off + rng.range(-2.0, 2.0), z: off + rng.range(-2.0, 2.0) })
            .collect();
        let mut ok = true;
        for i in 0..n {
            for j in 0..i {
                if distance(i, j, &pts) < 0.7 { ok = false; }
            }
        }
        if ok { return pts; }
    }
}

/// Is the configuration comfortably away from the term's singular set? (the same filter as for whole force fields)
fn well_conditioned(kind: &'static str, params: &[f64], x: &[Point]) -> bool {
    let desc = TermDesc { kind, idxs: (0..x.len()).collect(), params: params.to_vec() };
    crate::s_ff::well_conditioned(&[desc], x)
}

fn grad_of(term: &dyn EnergyFunction, x: &[Point]) -> Vec<f64> {
    let mut g: Vec<Vector3D> = (0..x.len()).map(|_| Vector3D::default()).collect();
    term.add_gradient(x, &mut g);
    g.iter().flat_map(|v| [v.x, v.y, v.z]).collect()
}

fn fd_grad(term: &dyn EnergyFunction, x: &[Point], h: f64) -> Vec<f64> {
    let mut out = vec![];
    for a in 0..x.len() {
        for c in 0..3 {
            let d = |hh: f64| {
                let mut p = x.to_vec();
                p[a][c] += hh;
                let ep = term.energy(&p);
                p[a][c] -= 2.0 * hh;
                let em = term.energy(&p);
                (ep - em) / (2.0 * hh)
            };
            out.push((4.0 * d(h / 2.0) - d(h)) / 3.0);
        }
    }
    out
}

pub fn desc_line(kind: &str, params: &[f64], x: &[Point]) -> String {
    let ps: Vec<String> = params.iter().map(|p| hx(*p)).collect();
    let cs: Vec<String> = x.iter().flat_map(|p| [hx(p.x), hx(p.y), hx(p.z)]).collect();
    format!("{} {} ; {}", kind, ps.join(" "), cs.join(" "))
}

pub fn run(out: &mut Out, seed: u64, tier: &str) {
    let mut rng = Rng::new(seed ^ 0x7e7a5);
    let per_kind = if tier == "thorough" { 4000 } else { 400 };
    let mut n_fd = 0usize;
    let mut n_wide = 0usize;
    let mut n_graze = 0usize;
    let mut worst: f64 = 0.0;
    // what the changed source lines mention: deviations from straight of that size (and its square root), pair distances of that size
    let hint_small: Vec<f64> = hints().magnitudes().into_iter().filter(|m| *m >= 1e-7 && *m <= 0.2).collect();
    let hint_dist: Vec<f64> = hints().magnitudes().into_iter().filter(|m| *m >= 0.6 && *m <= 1e4).collect();
    for (kind, na) in KINDS.iter() {
        for case in 0..per_kind {
            let params = rand_params(kind, &mut rng);
            let mut x = rand_positions(*na, &mut rng);
            // pair terms are also probed at long range (cut-offs and tails live there)
            if *na == 2 && case % 6 == 4 && !hint_dist.is_empty() { let d = hint_dist[rng.below(hint_dist.len())] * *rng.pick(&[0.999, 1.0, 1.001]); x[1].x = x[0].x + d * 0.6; x[1].y = x[0].y - d * 0.64; x[1].z = x[0].z + d * 0.48; }
            if *na == 2 && case % 6 == 5 { let d = rng.range(8.0, 40.0); x[1].x = x[0].x + d * 0.6; x[1].y = x[0].y - d * 0.64; x[1].z = x[0].z + d * 0.48; }
            // bends, torsions and inversions are also probed with the angle 0-1-2 opened to 172-179 degrees (near-linear
            // guards and the 1/sin factors live there)
            let wide = *na >= 3 && case % 8 == 7;
            // bends are also probed a hair away from straight (1e-6.5 .. 1e-3 rad: what five written decimals leave of a straight line);
            // their energies are smooth through 180 degrees, so the gradient there is an ordinary number, not a limit
            let grazing = (*na == 3 && case % 8 == 5) || (*na == 4 && case % 16 == 5);
            let mut graze_delta = 0.0f64;
            if wide || grazing {
                let sub = |a: &Point, b: &Point| [a.x - b.x, a.y - b.y, a.z - b.z];
                let dot = |a: [f64; 3], b: [f64; 3]| a[0] * b[0] + a[1] * b[1] + a[2] * b[2];
                let u0 = sub(&x[2], &x[1]); let lu = dot(u0, u0).sqrt(); let u = [u0[0] / lu, u0[1] / lu, u0[2] / lu];
                let v = sub(&x[0], &x[1]); let r = dot(v, v).sqrt();
                let vp = [v[0] - dot(v, u) * u[0], v[1] - dot(v, u) * u[1], v[2] - dot(v, u) * u[2]];
                let lw = dot(vp, vp).sqrt();
                if lw > 1e-3 {
                    let d = if grazing && !hint_small.is_empty() && case % 16 == 5 { graze_delta = hint_small[rng.below(hint_small.len())] * *rng.pick(&[0.5, 0.99, 1.01, 2.0]); graze_delta }
                            else if grazing { graze_delta = 10f64.powf(rng.range(-6.5, -3.0)); graze_delta } else { (180.0 - rng.range(172.0, 179.0)).to_radians() };
                    x[0].x = x[1].x + r * (-d.cos() * u[0] + d.sin() * vp[0] / lw);
                    x[0].y = x[1].y + r * (-d.cos() * u[1] + d.sin() * vp[1] / lw);
                    x[0].z = x[1].z + r * (-d.cos() * u[2] + d.sin() * vp[2] / lw);
                }
            }
            // torsions and inversions that are EXACTLY planar (cis or trans), in coordinate planes and in tilted ones: every atom is
            // a dyadic combination a*u + b*v of two lattice vectors, so the two plane normals come out exactly parallel
            if *na == 4 && case % 8 == 3 {
                let (u, v): ([f64; 3], [f64; 3]) = *rng.pick(&[([1., 0., 0.], [0., 1., 0.]), ([1., 1., 0.], [0., 0., 1.]), ([1., 0., 1.], [0., 1., 0.]), ([1., 2., 0.], [0., 0., 1.]), ([2., 1., 1.], [0., 1., -1.]), ([1., -1., 0.], [1., 1., 2.]), ([1., 0., 0.], [0., 0., 1.]), ([0., 1., 0.], [0., 0., 1.])]);
                let q = |k: i64| k as f64 / 8.0;
                let sgn = if rng.chance(0.5) { 1.0 } else { -1.0 };    // trans or cis
                let ab: [(f64, f64); 4] = [(q(-4 + rng.below(3) as i64 - 1), q(7 + rng.below(3) as i64 - 1)), (0.0, 0.0), (q(11 + rng.below(3) as i64 - 1), 0.0),
                                           (q(15 + rng.below(3) as i64 - 1), sgn * -q(7 + rng.below(3) as i64 - 1))];
                for (p, (a, b)) in x.iter_mut().zip(ab.iter()) { p.x = a * u[0] + b * v[0]; p.y = a * u[1] + b * v[1]; p.z = a * u[2] + b * v[2]; }
            }
            // atoms on distinct points of a small cubic lattice (spacing 0.75 A, exact in binary): bonds exactly along x, y or z, three
            // atoms exactly in a coordinate plane, plane normals exactly along an axis — what hand-typed and grid-built inputs are made of
            if case % 8 == 1 {
                let mut pts: Vec<[i64; 3]> = vec![];
                while pts.len() < *na { let q = [rng.below(4) as i64 - 1, rng.below(4) as i64 - 1, rng.below(4) as i64 - 1]; if !pts.contains(&q) { pts.push(q); } }
                // half of them flattened into one coordinate plane (y = const, x = const or z = const)
                if *na >= 3 && rng.chance(0.5) { let ax = rng.below(3); for q in pts.iter_mut() { q[ax] = 0; } let mut uniq: Vec<[i64; 3]> = vec![]; for q in pts.iter() { if !uniq.contains(q) { uniq.push(*q); } } if uniq.len() == *na { /* keep */ } else { pts = vec![]; } }
                if pts.len() == *na { for (p, q) in x.iter_mut().zip(pts.iter()) { p.x = 0.75 * q[0] as f64; p.y = 0.75 * q[1] as f64; p.z = 0.75 * q[2] as f64; } }
            }
            let desc = TermDesc { kind, idxs: (0..*na).collect(), params: params.clone() };
            let term = make_term(&desc);
            let e = term.energy(&x);
            let g = grad_of(term.as_ref(), &x);
            let mut o = vec![hx(e)];
            o.extend(g.iter().map(|v| hx(*v)));
            out.case(&desc_line(kind, &params, &x), &o.join(" "));
            if case == 0 {
                out.sample(&format!("{} params={:?} x={:?} E={} g={:?}", kind, params, x.iter().map(|p| (p.x, p.y, p.z)).collect::<Vec<_>>(), e, g));
            }

            // oracle 1: finite differences (only where the geometry is well conditioned and near the origin)
            let near_origin = x.iter().all(|p| p.x.abs() < 10.0);
            let far_apart = x.iter().enumerate().all(|(i, p)| (0..i).all(|j| { let q = &x[j]; ((p.x - q.x).powi(2) + (p.y - q.y).powi(2) + (p.z - q.z).powi(2)).sqrt() > 0.5 }));
            let conditioned = if grazing && *na == 4 { false } else if grazing { far_apart && crate::s_ff::well_conditioned_grazing(&[TermDesc { kind, idxs: (0..*na).collect(), params: params.clone() }], &x) } else if wide { crate::s_ff::well_conditioned_with(&[TermDesc { kind, idxs: (0..*na).collect(), params: params.clone() }], &x, 0.03) && x.iter().enumerate().all(|(i, p)| (0..i).all(|j| { let q = &x[j]; ((p.x - q.x).powi(2) + (p.y - q.y).powi(2) + (p.z - q.z).powi(2)).sqrt() > 0.5 })) }
                              else { well_conditioned(kind, &params, &x) };
            if wide && conditioned { n_wide += 1; }
            if grazing && conditioned { n_graze += 1; }
            if near_origin && conditioned && g.iter().all(|v| v.is_finite()) {
                let fd = fd_grad(term.as_ref(), &x, 2e-4);
                let gmax = g.iter().fold(0.0f64, |m, v| m.max(v.abs())).max(1e-3);
                let emag = e.abs().max(1.0);
                for (s, (a, b)) in g.iter().zip(fd.iter()).enumerate() {
                    let err = (a - b).abs();
                    // 1e-6 of the largest component, plus the round-off floor of the difference quotient
                    // (a hair from straight, 1 - cos^2 = delta^2 carries a relative rounding error of eps/delta^2, and so does the gradient)
                    let tol = 1e-6 * gmax + 1e-13 * emag / 2e-4 + if grazing && graze_delta > 0.0 { gmax * 1e-15 / (graze_delta * graze_delta) } else { 0.0 };
                    worst = worst.max(err / gmax);
                    if !(err <= tol) {
                        out.oracle_fail(
                            &format!("finite-difference: {} slot {} analytic {} vs numeric {} (|g|max {})", kind, s, a, b, gmax),
                            &desc_line(kind, &params, &x),
                        );
                        break;
                    }
                }
                n_fd += 1;
            }

            // oracle 2: locality — embedded at random indices of a 12-atom array with sentinel contents
            let mut idxs: Vec<usize> = (0..12).collect();
            rng.shuffle(&mut idxs);
            idxs.truncate(*na);
            let mut big: Vec<Point> = rand_positions(12, &mut rng);
            for (p, ix) in idxs.iter().enumerate() { big[*ix] = x[p].clone(); }
            let t2 = make_term(&TermDesc { kind, idxs: idxs.clone(), params: params.clone() });
            let sentinel = |a: usize, c: usize| 1000.0 + (3 * a + c) as f64;
            let mut gb: Vec<Vector3D> = (0..12).map(|a| Vector3D { x: sentinel(a, 0), y: sentinel(a, 1), z: sentinel(a, 2) }).collect();
            t2.add_gradient(&big, &mut gb);
            let e2 = t2.energy(&big);
            if e2.to_bits() != e.to_bits() && !(e2.is_nan() && e.is_nan()) {
                out.oracle_fail(&format!("locality: {} energy depends on other atoms or on the index assignment ({} vs {})", kind, e, e2),
                    &desc_line(kind, &params, &x));
            }
            for a in 0..12 {
                let v = [gb[a].x, gb[a].y, gb[a].z];
                for c in 0..3 {
                    match idxs.iter().position(|ix| *ix == a) {
                        None => if v[c].to_bits() != sentinel(a, c).to_bits() {
                            out.oracle_fail(&format!("locality: {} wrote gradient of uninvolved atom {} axis {}", kind, a, c),
                                &format!("{} idxs={:?}", desc_line(kind, &params, &x), idxs));
                        },
                        Some(p) => {
                            let expect = sentinel(a, c) + g[3 * p + c];
                            if v[c].to_bits() != expect.to_bits() && !(v[c].is_nan() && expect.is_nan()) {
                                out.oracle_fail(&format!("locality: {} slot {} differs when embedded ({} vs {})", kind, 3 * p + c, v[c], expect),
                                    &format!("{} idxs={:?}", desc_line(kind, &params, &x), idxs));
                            }
                        }
                    }
                }
            }
        }
    }
    out.stat("fd_checked", n_fd);
    out.stat("wide_angle_cases_conditioned", n_wide);
    out.stat("bends_a_hair_from_straight_fd_checked", n_graze);
    out.stat("fd_worst_relative_error", format!("{:e}", worst));
}
