//! Shared helpers: PRNG (one state behind every random choice), float bit printing, output sink.
use std::io::Write;

pub struct Rng(pub u64);
impl Rng {
    pub fn new(seed: u64) -> Self {
        Rng(seed.wrapping_mul(0x9E3779B97F4A7C15).wrapping_add(0x1234_5678_9ABC_DEF1))
    }
    pub fn next(&mut self) -> u64 {
        self.0 = self.0.wrapping_add(0x9E3779B97F4A7C15);
        let mut z = self.0;
        z = (z ^ (z >> 30)).wrapping_mul(0xBF58476D1CE4E5B9);
        z = (z ^ (z >> 27)).wrapping_mul(0x94D049BB133111EB);
        z ^ (z >> 31)
    }
    pub fn below(&mut self, n: usize) -> usize {
        if n == 0 { 0 } else { (self.next() % n as u64) as usize }
    }
    pub fn unit(&mut self) -> f64 {
        (self.next() >> 11) as f64 / (1u64 << 53) as f64
    }
    pub fn range(&mut self, lo: f64, hi: f64) -> f64 {
        lo + (hi - lo) * self.unit()
    }
    pub fn gauss(&mut self) -> f64 {
        let u1 = self.unit().max(1e-300);
        let u2 = self.unit();
        (-2.0 * u1.ln()).sqrt() * (2.0 * std::f64::consts::PI * u2).cos()
    }
    pub fn chance(&mut self, p: f64) -> bool {
        self.unit() < p
    }
    pub fn pick<'a, T>(&mut self, xs: &'a [T]) -> &'a T {
        &xs[self.below(xs.len())]
    }
    pub fn shuffle<T>(&mut self, xs: &mut [T]) {
        for i in (1..xs.len()).rev() {
            let j = self.below(i + 1);
            xs.swap(i, j);
        }
    }
}

pub fn hx(f: f64) -> String {
    // NaNs are canonicalised (sign and payload are not part of any property; Lean's Float.toBits does the same)
    if f.is_nan() { return "7ff8000000000000".to_string(); }
    format!("{:016x}", f.to_bits())
}
pub fn unhx(s: &str) -> f64 {
    f64::from_bits(u64::from_str_radix(s, 16).expect("hex float"))
}

pub struct Out {
    w: std::io::BufWriter<std::io::Stdout>,
    pub last_input: String,
}

/// The message and source location of the most recent panic (the hook in main stores it; nothing is printed)
pub static LAST_PANIC: std::sync::Mutex<String> = std::sync::Mutex::new(String::new());

impl Out {
    pub fn new() -> Self {
        Out { w: std::io::BufWriter::new(std::io::stdout()), last_input: String::new() }
    }
    /// One correspondence case: the model input and the implementation's canonical output
    pub fn case(&mut self, input: &str, output: &str) {
        debug_assert!(!input.contains('\t') && !input.contains('\n'));
        writeln!(self.w, "{}\t{}", input, output).unwrap();
        self.last_input.clear();
        self.last_input.push_str(&input[..input.len().min(2000)]);
    }
    /// The code under test panicked where no stream expects it to (outside every guarded call): the stream ends here.
    /// Reported whatever the property, with the panic's message and location and the last case that completed.
    pub fn uncaught_panic(&mut self, stream: &str) {
        let msg = LAST_PANIC.lock().map(|m| m.clone()).unwrap_or_default();
        let last = self.last_input.clone();
        writeln!(self.w, "#PANIC\t{} stream: the implementation panicked on an input no check expects a panic on: {}\t{}", stream,
                 msg.replace('\n', " ").replace('\t', " "), format!("panic: {}\\nlast completed case of the stream (the failing one is the next the generator makes at this seed): {}", msg.replace('\n', " "), last.replace('\t', " "))).unwrap();
    }
    /// The implementation's output failed the property's direct oracle
    pub fn oracle_fail(&mut self, what: &str, replay: &str) {
        writeln!(self.w, "#ORACLE-FAIL\t{}\t{}", what.replace('\n', " ").replace('\t', " "), replay.replace('\n', "\\n").replace('\t', " ")).unwrap();
    }
    pub fn stat(&mut self, key: &str, value: impl std::fmt::Display) {
        writeln!(self.w, "#STAT\t{}\t{}", key, value).unwrap();
    }
    pub fn sample(&mut self, text: &str) {
        writeln!(self.w, "#SAMPLE\t{}", text.replace('\n', "\\n")).unwrap();
    }
    pub fn flush(&mut self) {
        self.w.flush().unwrap();
    }
}

/// Run a closure, mapping a panic to None (the default panic message is silenced by the hook set in main)
pub fn catch<T>(f: impl FnOnce() -> T) -> Option<T> {
    std::panic::catch_unwind(std::panic::AssertUnwindSafe(f)).ok()
}

pub fn symbols() -> Vec<String> {
    (1..=118)
        .map(|z| optrs::verif::AtomicNumber::from_integer(z).unwrap().to_atomic_symbol().to_string())
        .collect()
}

/// Values on which the current source differs from the verified baseline (literals on the changed lines; see
/// `source_hints` in tools/checklib.py), handed over in OPTRS_HINTS as `i:16384;f:1e-08;s:opt.xyz`. Generators add inputs
/// built around them. Empty on the unchanged tree.
pub struct Hints { pub ints: Vec<usize>, pub floats: Vec<f64>, pub strs: Vec<String> }

pub fn hints() -> Hints {
    let mut h = Hints { ints: vec![], floats: vec![], strs: vec![] };
    if let Ok(v) = std::env::var("OPTRS_HINTS") {
        for part in v.split(';') {
            if let Some(x) = part.strip_prefix("i:") { if let Ok(n) = x.parse::<usize>() { h.ints.push(n); } }
            else if let Some(x) = part.strip_prefix("f:") { if let Ok(f) = x.parse::<f64>() { if f.is_finite() && f != 0.0 { h.floats.push(f); } } }
            else if let Some(x) = part.strip_prefix("s:") { if !x.is_empty() { h.strs.push(x.to_string()); } }
        }
    }
    h
}

impl Hints {
    /// atom counts suggested by the integer hints: the value itself, its neighbours and small multiples (a size the code branches
    /// on), and the atom counts at which the number of atom pairs n(n-1)/2 crosses the value or a small multiple of it (a term count
    /// it branches on) — each with the next three counts, so that every residue modulo 4 occurs. Bounded by `max`.
    pub fn atom_counts(&self, min: usize, max: usize) -> Vec<usize> {
        let mut v: Vec<usize> = vec![];
        for &n in &self.ints {
            for c in [n.saturating_sub(1), n, n + 1, 2 * n, 2 * n + 1, 3 * n] { v.push(c); }
            for mult in [1usize, 2, 4] {
                let t = n.saturating_mul(mult) as f64;
                let n0 = ((1.0 + (1.0 + 8.0 * t).sqrt()) / 2.0).ceil() as usize;
                for d in 0..4 { v.push(n0 + d); }
            }
        }
        v.retain(|c| *c >= min && *c <= max);
        v.sort(); v.dedup();
        // keep the run time bounded: at most eight, spread over the list
        if v.len() > 8 { let step = v.len() as f64 / 8.0; v = (0..8).map(|k| v[(k as f64 * step) as usize]).collect(); }
        v
    }
    /// lengths / magnitudes suggested by the float hints: the value, its square root and its reciprocal
    pub fn magnitudes(&self) -> Vec<f64> {
        let mut v = vec![];
        for &f in &self.floats { let a = f.abs(); for c in [a, a.sqrt(), 1.0 / a] { if c.is_finite() && c > 0.0 { v.push(c); } } }
        v
    }
}

/// a lattice of `n` noble-gas atoms (spacing `a`) — the filler of size-directed cases
pub fn lattice_points(n: usize, a: f64) -> Vec<[f64; 3]> {
    let side = (n as f64).cbrt().ceil() as usize;
    let mut v = vec![];
    'outer: for i in 0..side { for j in 0..side { for k in 0..side { if v.len() == n { break 'outer; } v.push([a * i as f64, a * j as f64, a * k as f64]); } } }
    v
}
