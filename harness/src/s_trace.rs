//! Diagnostic: energy along an optimisation (not a registered stream)
use crate::gen::*;
use crate::s_ff::*;
use crate::s_sd::{Event, Inner, Recorder};
use crate::util::*;
use optrs::verif::*;
pub fn run(_out: &mut Out, name: &str) {
    let m = library().into_iter().find(|m| m.name == name).expect("molecule");
    let mut mol = m.build();
    let ff = FF::build("uff", &mol).unwrap();
    let mut rec = Recorder::new(Inner::Real(ff));
    mol.optimise(&mut rec);
    let mut fresh = FF::build("uff", &m.build()).unwrap();
    let mut k = 0;
    for ev in rec.log.iter() {
        if let Event::G(x, g) = ev {
            let pts: Vec<Point> = x.chunks(3).map(|c| Point { x: c[0], y: c[1], z: c[2] }).collect();
            let e = fresh.energy(&pts);
            let gn = g.iter().map(|v| v * v).sum::<f64>().sqrt();
            if k < 12 || k % 50 == 0 { println!("grad#{} E={} |g|={}", k, e, gn); }
            k += 1;
        } else if let Event::E(_, e) = ev { if k < 12 { println!("  energy request -> {}", e); } }
    }
    println!("final E={}", fresh.energy(&mol.coordinates));
    for t in fresh.terms() { let e = optrs::verif::make_term(&t).energy(&mol.coordinates); if e.abs() > 0.2 { println!("{} {:?} {:?} E={}", t.kind, t.idxs, t.params, e); } }
}

pub fn why_abort(_out: &mut Out) {
    use crate::s_matrix::panic_kind;
    let mut rng = Rng::new(77);
    for (z, g) in [(98usize, "octahedral"), (79, "tbp"), (63, "octahedral")] {
        for _ in 0..40 {
            let exact = centre(z, 1, g, 1.0);
            let r = random_rotation(&mut rng);
            let m = moved(&exact, &r, [rng.range(-3., 3.), rng.range(-3., 3.), rng.range(-3., 3.)]);
            let mol = m.build();
            if let Some(k) = panic_kind(|| { let _ = UFF::new(&mol); }) { println!("{} {}: {}", z, g, k); break; }
        }
    }
}

/// Diagnostic / replay aid (not a registered stream): `hx explain uff|rb < file.xyz` — types, terms with their
/// energies at the given geometry, the energy along the optimisation and the terms that dominate afterwards.
pub fn explain(_out: &mut Out, kind: &str) {
    use std::io::Read;
    let mut text = String::new();
    std::io::stdin().read_to_string(&mut text).unwrap();
    let mut zs = vec![]; let mut xs = vec![];
    for l in text.lines().skip(2) {
        let t: Vec<&str> = l.split_whitespace().collect();
        if t.len() < 4 { continue; }
        zs.push(z_of(t[0])); xs.push([t[1].parse().unwrap(), t[2].parse().unwrap(), t[3].parse().unwrap()]);
    }
    let m = Mol { name: "stdin".into(), zs, xs };
    let mut mol = m.build();
    println!("connectivity: {}", crate::canon::canon_conn(&connectivity(&mol)));
    if kind == "uff" { if let Some(f) = catch(|| UFF::new(&mol)) { println!("types: {}", crate::s_build::types_text(&f)); } else { println!("UFF construction aborted: {}", LAST_PANIC.lock().unwrap()); return; } }
    let ff = match FF::build(kind, &mol) { Some(f) => f, None => { println!("construction aborted"); return; } };
    let terms = ff.terms();
    println!("{} terms; attribution: {}", terms.len(), crate::s_robust::attribute(&m, &mol, kind));
    let show = |x: &[Point], label: &str| {
        let mut rows: Vec<(f64, String)> = terms.iter().map(|t| { let e = make_term(t).energy(x); (e, format!("{} {:?} {:?} E={}", t.kind, t.idxs, t.params, e)) }).collect();
        rows.sort_by(|a, b| b.0.abs().partial_cmp(&a.0.abs()).unwrap_or(std::cmp::Ordering::Less));
        println!("-- {}: largest / non-finite term energies", label);
        for (e, r) in rows.iter().filter(|(e, _)| !e.is_finite()).chain(rows.iter().filter(|(e, _)| e.is_finite()).take(6)) { let _ = e; println!("   {}", r); }
        let mut grows: Vec<(f64, String)> = terms.iter().map(|t| {
            let mut g: Vec<Vector3D> = (0..x.len()).map(|_| Vector3D::default()).collect();
            make_term(t).add_gradient(x, &mut g);
            let n = g.iter().map(|v| v.x * v.x + v.y * v.y + v.z * v.z).sum::<f64>().sqrt();
            (n, format!("{} {:?} {:?} |g|={}", t.kind, t.idxs, t.params, n)) }).collect();
        grows.sort_by(|a, b| b.0.partial_cmp(&a.0).unwrap_or(std::cmp::Ordering::Less));
        println!("-- {}: largest / non-finite term gradients", label);
        for (_, r) in grows.iter().filter(|(n, _)| !n.is_finite()).chain(grows.iter().filter(|(n, _)| n.is_finite()).take(4)) { println!("   {}", r); }
    };
    show(&mol.coordinates, "start");
    let mut rec = Recorder::new(Inner::Real(ff));
    let ok = catch(|| mol.optimise(&mut rec)).is_some();
    println!("optimise returned: {}", ok);
    let mut fresh = FF::build(kind, &m.build()).unwrap();
    let mut k = 0;
    for ev in rec.log.iter() {
        if let Event::G(x, g) = ev {
            let pts: Vec<Point> = x.chunks(3).map(|c| Point { x: c[0], y: c[1], z: c[2] }).collect();
            let gn = g.iter().map(|v| v * v).sum::<f64>().sqrt();
            if k < 8 || k % 100 == 0 { println!("grad#{} E={} |g|={}", k, fresh.energy(&pts), gn); }
            k += 1;
        }
    }
    println!("gradient requests: {}; final E={}", k, fresh.energy(&mol.coordinates));
    show(&mol.coordinates, "end");
}
