//! Diagnostic: energy along an optimisation (not a registered stream)
use crate::gen::*;
use crate::s_ff::*;
use crate::s_sd::{Event, Inner, Recorder};
use crate::util::*;
use optrs::verif::*;
pub fn run(_out: &mut Out, name: &str) {
    let m = library().into_iter().find(|m| m.name == name).expect("molecule");
    let mut mol = m.build();
    let ff = FF::build("uff", &mol).unwrap();
    let mut rec = Recorder::new(Inner::Real(ff));
    mol.optimise(&mut rec);
    let mut fresh = FF::build("uff", &m.build()).unwrap();
    let mut k = 0;
    for ev in rec.log.iter() {
        if let Event::G(x, g) = ev {
            let pts: Vec<Point> = x.chunks(3).map(|c| Point { x: c[0], y: c[1], z: c[2] }).collect();
            let e = fresh.energy(&pts);
            let gn = g.iter().map(|v| v * v).sum::<f64>().sqrt();
            if k < 12 || k % 50 == 0 { println!("grad#{} E={} |g|={}", k, e, gn); }
            k += 1;
        } else if let Event::E(_, e) = ev { if k < 12 { println!("  energy request -> {}", e); } }
    }
    println!("final E={}", fresh.energy(&mol.coordinates));
    for t in fresh.terms() { let e = optrs::verif::make_term(&t).energy(&mol.coordinates); if e.abs() > 0.2 { println!("{} {:?} {:?} E={}", t.kind, t.idxs, t.params, e); } }
}

pub fn why_abort(_out: &mut Out) {
    use crate::s_matrix::panic_kind;
    let mut rng = Rng::new(77);
    for (z, g) in [(98usize, "octahedral"), (79, "tbp"), (63, "octahedral")] {
        for _ in 0..40 {
            let exact = centre(z, 1, g, 1.0);
            let r = random_rotation(&mut rng);
            let m = moved(&exact, &r, [rng.range(-3., 3.), rng.range(-3., 3.), rng.range(-3., 3.)]);
            let mol = m.build();
            if let Some(k) = panic_kind(|| { let _ = UFF::new(&mol); }) { println!("{} {}: {}", z, g, k); break; }
        }
    }
}
