//! C11 / C12 / C08 / C18 / C06: force-field construction. Correspondence: assigned atom types and the sorted term
//! list (kinds, atoms as stored, parameter bit patterns) against the model's typing + construction.
use crate::canon::*;
use crate::gen::*;
use crate::s_ff::*;
use crate::util::*;
use optrs::verif::*;

pub fn sorted_terms(ts: &[TermDesc]) -> String {
    let mut v: Vec<String> = ts.iter().map(term_text).collect();
    v.sort();
    if v.is_empty() { "-".into() } else { v.join(";") }
}

pub fn types_text(ff: &UFF) -> String {
    let t = ff.verif_atom_types();
    if t.is_empty() { "-".into() } else { t.iter().map(|a| format!("{}:{}", a.name, a.environment)).collect::<Vec<_>>().join(",") }
}

pub struct Built { pub conn: Conn, pub uff: Option<(String, Vec<TermDesc>)>, pub rb: Vec<TermDesc> }

/// The same as `build_all`, but the molecule reaches its final geometry the way a script does: perceived once at another
/// geometry (`first`), then given the final coordinates and re-perceived through the scripting wrapper. Nothing of the
/// first perception may survive into the force field.
pub fn build_all_regenerated(first: &Mol, m: &Mol) -> Option<Built> {
    let syms = m.symbols();
    let refs: Vec<&str> = syms.iter().map(|x| x.as_str()).collect();
    let mol = catch(|| {
        let mut w = Wrapper::from_atomic_symbols(&refs);
        w.set_coordinates(first.xs.iter().flat_map(|p| p.to_vec()).collect());
        w.generate_connectivity();
        w.set_coordinates(m.xs.iter().flat_map(|p| p.to_vec()).collect());
        w.generate_connectivity();
        w
    })?;
    let mol = mol.molecule();
    let conn = connectivity(mol);
    let uff = catch(|| UFF::new(mol)).map(|f| (types_text(&f), f.verif_terms()));
    let rb = catch(|| RB::new(mol)).map(|f| f.verif_terms()).unwrap_or_default();
    Some(Built { conn, uff, rb })
}

/// The molecule defined the scripting way: atoms, coordinates, and a bond table installed through `set_bond_orders`
/// (no perception: valences, orders and neighbours are whatever the table says).
pub fn build_all_explicit(m: &Mol, bonds: &[(usize, usize, f64)]) -> Option<Built> {
    let syms = m.symbols();
    let refs: Vec<&str> = syms.iter().map(|x| x.as_str()).collect();
    let n = m.n();
    let mut mat = vec![0.0; n * n];
    for (i, j, o) in bonds { let (a, b) = if i < j { (*i, *j) } else { (*j, *i) }; mat[a * n + b] = *o; mat[b * n + a] = *o; }
    let w = catch(|| {
        let mut w = Wrapper::from_atomic_symbols(&refs);
        w.set_coordinates(m.xs.iter().flat_map(|p| p.to_vec()).collect());
        w.set_bond_orders(mat.clone());
        w
    })?;
    let mol = w.molecule();
    let conn = connectivity(mol);
    let uff = catch(|| UFF::new(mol)).map(|f| (types_text(&f), f.verif_terms()));
    let rb = catch(|| RB::new(mol)).map(|f| f.verif_terms()).unwrap_or_default();
    Some(Built { conn, uff, rb })
}

/// Bond tables no perception would produce, in two families: (a) a trigonal centre (C, N, B) whose three neighbours (O, N, S, C)
/// carry zero to two hydrogens each — acids, amides, guanidinium-, oxonium- and iminium-like centres, with every mix of bond
/// orders; (b) two aromatic rings of C and N joined by a bond of any order
pub fn explicit_family(rng: &mut Rng) -> (Mol, Vec<(usize, usize, f64)>) {
    let mut zs: Vec<usize> = vec![]; let mut xs: Vec<[f64; 3]> = vec![]; let mut bonds: Vec<(usize, usize, f64)> = vec![];
    if rng.chance(0.25) {
        // two four-coordinate centres of one metal in one molecule, 9 A apart, whose bond-order sums differ (an oxo or imido unit
        // M(=O)X3 and a plain MX4): what is decided per atom (formal charge, d-count, environment, bend form) is decided per atom
        let zm = *rng.pick(&[78usize, 46, 28, 45, 77, 27, 79, 29, 26, 44, 22, 25]);
        let oxo_first = rng.chance(0.5);
        for unit in 0..2 {
            let oxo = (unit == 0) == oxo_first;
            let c = zs.len();
            let off = [9.0 * unit as f64, 0.3 * unit as f64, 0.0];
            zs.push(zm); xs.push(off);
            let geometry = *rng.pick(&["square", "tetrahedral"]);
            for (k, d) in directions(geometry).iter().enumerate() {
                let z = if oxo && k == 0 { *rng.pick(&[8usize, 7]) } else { *rng.pick(&[17usize, 9, 35]) };
                let r = radius(zm) + radius(z);
                zs.push(z); xs.push([off[0] + d[0] * r + rng.range(-0.03, 0.03), off[1] + d[1] * r + rng.range(-0.03, 0.03), off[2] + d[2] * r + rng.range(-0.03, 0.03)]);
                bonds.push((c, zs.len() - 1, if oxo && k == 0 { *rng.pick(&[2.0, 3.0]) } else { 1.0 }));
            }
        }
        return (Mol { name: "two-centres-of-one-metal".into(), zs, xs }, bonds);
    }
    if rng.chance(0.2) {
        // bridged species (a bond table gives a nominally monovalent atom two neighbours): X2(mu-Y)2 H4 four-rings (diborane, Al2Cl6-like),
        // a symmetric X-Y-X (bifluoride), in idealised geometry slightly distorted
        let x = *rng.pick(&[5usize, 13, 4, 12, 6, 14]); let y = *rng.pick(&[1usize, 9, 17, 3, 11, 1]);
        if rng.chance(0.3) {
            let r = radius(x) + radius(y);
            return (Mol { name: "bridge-xyx".into(), zs: vec![x, y, x], xs: vec![[-r, 0.02, 0.0], [0.0, 0.0, 0.01], [r, -0.02, 0.0]] }, vec![(0, 1, 1.0), (1, 2, 1.0)]);
        }
        let (rx, ry) = (1.0 * (radius(x) + radius(y)) * 0.75, (radius(x) + radius(y)) * 0.66);
        let rh = radius(x) + radius(1);
        let zs = vec![x, x, y, y, 1, 1, 1, 1];
        let mut xs = vec![[-rx, 0.0, 0.0], [rx, 0.0, 0.0], [0.0, 0.0, ry], [0.0, 0.0, -ry],
                          [-rx - 0.55 * rh, 0.83 * rh, 0.0], [-rx - 0.55 * rh, -0.83 * rh, 0.0], [rx + 0.55 * rh, 0.83 * rh, 0.0], [rx + 0.55 * rh, -0.83 * rh, 0.0]];
        for p in xs.iter_mut() { for c in 0..3 { p[c] += rng.range(-0.03, 0.03); } }
        return (Mol { name: "bridged-four-ring".into(), zs, xs }, vec![(0, 2, 1.0), (2, 1, 1.0), (1, 3, 1.0), (3, 0, 1.0), (0, 4, 1.0), (0, 5, 1.0), (1, 6, 1.0), (1, 7, 1.0)]);
    }
    if rng.chance(0.6) {
        zs.push(*rng.pick(&[6usize, 6, 7, 5])); xs.push([0.0, 0.0, 0.0]);
        let pyr = rng.range(0.02, 0.3);
        // a third of the centres are "two unlike neighbours of one element": e.g. carbon between a bare oxygen and a doubly
        // substituted one — what a rule that asks "is ANY neighbour of type X" sees differently from "is the FIRST neighbour"
        let unlike = rng.chance(0.34);
        let twin = *rng.pick(&[8usize, 8, 7, 16]);
        for k in 0..3 {
            let a = 2.0 * std::f64::consts::PI * k as f64 / 3.0 + rng.range(-0.08, 0.08);
            let z = if unlike && k < 2 { twin } else { *rng.pick(&[8usize, 8, 7, 16, 6]) };
            let r = radius(zs[0]) + radius(z);
            let p = [r * a.cos(), r * a.sin(), -pyr * r];
            let me = zs.len();
            zs.push(z); xs.push(p);
            bonds.push((0, me, *rng.pick(&[1.0, 1.0, 1.5, 2.0])));
            let nh = if unlike && k == 0 { 2 } else if unlike && k == 1 { 0 } else { rng.below(3) };
            for h in 0..nh {
                let b = a + if nh == 1 { rng.range(-0.3, 0.3) } else { (h as f64 - 0.5) * 2.0 * rng.range(0.8, 1.1) };
                let rh = radius(z) + radius(1);
                zs.push(1); xs.push([p[0] + rh * b.cos(), p[1] + rh * b.sin(), p[2] + rng.range(-0.25, 0.25)]);
                bonds.push((me, zs.len() - 1, 1.0));
            }
        }
        (Mol { name: "decorated-trigonal-centre".into(), zs, xs }, bonds)
    } else {
        let mut start = vec![];
        for ring_no in 0..2 {
            let n = *rng.pick(&[5usize, 6]);
            let r = 1.39 / (2.0 * (std::f64::consts::PI / n as f64).sin());
            let cx = ring_no as f64 * (2.0 * r + 1.45);
            let first = zs.len(); start.push((first, n));
            for k in 0..n {
                // atom 0 of each ring points at the other ring
                let a = 2.0 * std::f64::consts::PI * k as f64 / n as f64 + if ring_no == 0 { 0.0 } else { std::f64::consts::PI };
                zs.push(if rng.chance(0.25) { 7 } else { 6 });
                xs.push([cx + r * a.cos(), r * a.sin(), if ring_no == 1 { rng.range(-0.4, 0.4) * a.sin() } else { 0.0 }]);
            }
            for k in 0..n { bonds.push((first + k, first + (k + 1) % n, 1.5)); }
        }
        bonds.push((start[0].0, start[1].0, *rng.pick(&[1.0, 1.0, 1.5, 2.0])));
        (Mol { name: "joined-aromatic-rings".into(), zs, xs }, bonds)
    }
}

pub fn build_all(m: &Mol) -> Option<Built> {
    let mol = catch(|| m.build())?;
    let conn = connectivity(&mol);
    let uff = catch(|| UFF::new(&mol)).map(|f| (types_text(&f), f.verif_terms()));
    let rb = catch(|| RB::new(&mol)).map(|f| f.verif_terms()).unwrap_or_default();
    Some(Built { conn, uff, rb })
}

/// C11's multiset predicates on the implementation's term lists
pub fn oracle_c11(out: &mut Out, m: &Mol, b: &Built) {
    let n = m.n();
    let replay = m.xyz_text();
    let key2 = |t: &TermDesc| pair_key(t.idxs[0], t.idxs[1]);
    // "every angle", "every proper dihedral", "three-coordinate centre", "non-bonded pair" are the bond graph's, by
    // definition (brute force from the bond list), not whatever lists the molecule happens to carry
    let refc = crate::canon::reference_conn(n, &b.conn.bonds);
    let bonded: std::collections::BTreeSet<(usize, usize)> = b.conn.bonds.iter().map(|(i, j, _)| pair_key(*i, *j)).collect();
    if let Some((types, terms)) = &b.uff {
        // exactly one pair term per unordered pair: stretch iff bonded, else van der Waals
        let mut count = std::collections::BTreeMap::new();
        for t in terms.iter().filter(|t| t.kind == "bond" || t.kind == "lj") { *count.entry((key2(t), t.kind)).or_insert(0usize) += 1; }
        for i in 0..n { for j in 0..i {
            let k = pair_key(i, j);
            let (nb, nl) = (*count.get(&(k, "bond")).unwrap_or(&0), *count.get(&(k, "lj")).unwrap_or(&0));
            let want = if bonded.contains(&k) { (1, 0) } else { (0, 1) };
            if (nb, nl) != want { out.oracle_fail(&format!("UFF: pair {}-{} has {} stretch and {} van der Waals terms (bonded: {})", k.0, k.1, nb, nl, bonded.contains(&k)), &replay); return; }
        } }
        // exactly one bend per angle
        let mut bends: Vec<[usize; 3]> = terms.iter().filter(|t| t.kind == "angle_a" || t.kind == "angle_b").map(|t| { let x = &t.idxs; if x[0] < x[2] { [x[0], x[1], x[2]] } else { [x[2], x[1], x[0]] } }).collect();
        bends.sort();
        let mut angles: Vec<[usize; 3]> = refc.angles.iter().map(|t| if t[0] < t[2] { *t } else { [t[2], t[1], t[0]] }).collect();
        angles.sort();
        if bends != angles { out.oracle_fail(&format!("UFF: bends {:?} are not one per angle {:?}", bends, angles), &replay); }
        // at most one torsion per proper dihedral, none elsewhere; barrier non-zero only for main-group central atoms
        let mut props: Vec<[usize; 4]> = refc.propers.iter().map(|t| if t[0] < t[3] { *t } else { [t[3], t[2], t[1], t[0]] }).collect();
        props.sort();
        let mut seen = std::collections::BTreeSet::new();
        let tv: Vec<&str> = types.split(',').collect();
        for t in terms.iter().filter(|t| t.kind == "torsion") {
            let x = &t.idxs;
            let k = if x[0] < x[3] { [x[0], x[1], x[2], x[3]] } else { [x[3], x[2], x[1], x[0]] };
            if props.binary_search(&k).is_err() { out.oracle_fail(&format!("UFF: torsion on {:?} which is not a proper dihedral", x), &replay); }
            if !seen.insert(k) { out.oracle_fail(&format!("UFF: two torsions on dihedral {:?}", k), &replay); }
            let mg = |a: usize| AtomicNumber::from_integer(m.zs[a]).unwrap().is_main_group();
            if t.params[2] != 0.0 && !(mg(x[1]) && mg(x[2])) {
                // attribute: an element without a row of its own in the UFF table is typed with another element's row
                let foreign: Vec<String> = [x[1], x[2]].iter().filter(|a| !mg(**a)).map(|a| {
                    let sym = &m.symbols()[*a];
                    let ty = tv.get(*a).map(|s| s.split(':').next().unwrap_or("")).unwrap_or("");
                    let own = atom_type_table().iter().any(|r| &r.atomic_symbol == sym);
                    if own { format!("atom {} ({}) typed {}", a, sym, ty) } else { format!("atom {} ({}: element has no UFF atom type of its own, typed {})", a, sym, ty) }
                }).collect();
                out.oracle_fail(&format!("UFF: non-zero torsional barrier on {:?} whose central atoms are not both main-group: {}", x, foreign.join("; ")), &replay);
            }
        }
        // exactly one inversion per three-coordinate centre whose type has tabulated constants
        let mut inv_centres: Vec<usize> = terms.iter().filter(|t| t.kind == "inversion").map(|t| t.idxs[0]).collect();
        inv_centres.sort();
        let mut want: Vec<usize> = vec![];
        for imp in &refc.impropers {
            let c = imp[0];
            let name = tv.get(c).map(|s| s.split(':').next().unwrap_or("")).unwrap_or("");
            // "whose type has tabulated inversion constants (sp2 carbon; pyramidal P, As, Sb, Bi)": decided on the assigned type
            let tab = name == "C_2" || name == "C_R" || ["P_3", "As3", "Sb3", "Bi3"].iter().any(|p| name.starts_with(p));
            if tab { want.push(c); }
        }
        want.sort();
        if inv_centres != want { out.oracle_fail(&format!("UFF: inversion terms centred on {:?}, expected exactly on {:?} (types {})", inv_centres, want, types), &replay); }
        let known = ["bond", "lj", "angle_a", "angle_b", "torsion", "inversion"];
        if let Some(t) = terms.iter().find(|t| !known.contains(&t.kind)) { out.oracle_fail(&format!("UFF: unexpected term kind {}", t.kind), &replay); }
    }
    // RB: one stretch per bond at the sum of covalent radii with one common k; one repulsion per non-bonded pair, common c and exponent
    let rb_bonds: Vec<&TermDesc> = b.rb.iter().filter(|t| t.kind == "bond").collect();
    let rb_rep: Vec<&TermDesc> = b.rb.iter().filter(|t| t.kind == "repulsion").collect();
    let mut kb: Vec<(usize, usize)> = rb_bonds.iter().map(|t| key2(t)).collect(); kb.sort();
    let want_b: Vec<(usize, usize)> = bonded.iter().cloned().collect();
    if kb != want_b { out.oracle_fail("RB: stretches are not one per bond", &replay); }
    let mut kr: Vec<(usize, usize)> = rb_rep.iter().map(|t| key2(t)).collect(); kr.sort();
    let mut want_r: Vec<(usize, usize)> = refc.nb_pairs.iter().map(|(i, j)| pair_key(*i, *j)).collect(); want_r.sort();
    if kr != want_r { out.oracle_fail("RB: repulsions are not one per non-bonded pair", &replay); }
    if rb_bonds.len() + rb_rep.len() != b.rb.len() { out.oracle_fail("RB: unexpected term kind", &replay); }
    for t in &rb_bonds {
        let want = radius(m.zs[t.idxs[0]]) + radius(m.zs[t.idxs[1]]);
        if (t.params[0] - want).abs() > 1e-12 { out.oracle_fail(&format!("RB: stretch {:?} rests at {} not at the sum of covalent radii {}", t.idxs, t.params[0], want), &replay); }
        if t.params[1].to_bits() != rb_bonds[0].params[1].to_bits() { out.oracle_fail("RB: force constant not common to all bonds", &replay); }
    }
    for t in &rb_rep {
        if t.params != rb_rep[0].params { out.oracle_fail("RB: repulsion strength/exponent not common to all pairs", &replay); }
    }
}

pub fn run(out: &mut Out, seed: u64, tier: &str) {
    let mut rng = Rng::new(seed ^ 0x1111);
    let n_random = if tier == "thorough" { 4000 } else { 500 };
    let mut mols: Vec<Mol> = library();
    // every element as an isolated atom, as a hydride, and as a centre in every geometry with H / Cl
    for z in 1..=118usize {
        mols.push(Mol { name: format!("atom{}", z), zs: vec![z], xs: vec![[0.1, 0.2, 0.3]] });
        if tier == "thorough" || z % 3 == (seed % 3) as usize {
            for g in GEOMETRIES.iter() { mols.push(distort(&centre(z, 1, g, 1.0), 0.03, &mut rng)); }
        }
    }
    // three-coordinate centres at exactly idealised geometries (as typed in or drawn on a grid, not distorted): T-shaped with two
    // neighbours exactly opposite, planar, pyramidal, three perpendicular bonds — as they are and in a random orientation. Which
    // terms a centre gets is decided by the bond graph and the types, not by where the atoms happen to sit
    for z in [6usize, 15, 33, 51, 83, 7, 5, 13, 14, 16, 17, 35, 53, 26, 46, 57] {
        for zl in [1usize, 9, 17] {
            for g in ["tshape", "trigonal", "pyramidal", "orthopyramid"] {
                if tier != "thorough" && (z + zl + g.len() + seed as usize) % 2 == 1 && g != "tshape" { continue; }
                let c = centre(z, zl, g, 1.0);
                mols.push(moved(&c, &random_rotation(&mut rng), [rng.range(-3., 3.), rng.range(-3., 3.), rng.range(-3., 3.)]));
                mols.push(c);
            }
        }
    }
    for _ in 0..n_random { let m = random_mol(&mut rng); let m = if rng.chance(0.5) { distort(&m, rng.range(0.0, 0.2), &mut rng) } else { m }; mols.push(m); }
    // far-apart fragments and one long chain: "exactly one pair term for every unordered pair" has no distance limit
    let mut seps: Vec<f64> = vec![13.0, 27.0, 60.0, 500.0, 2.0e4];
    for mag in hints().magnitudes().into_iter().filter(|m| *m >= 3.0 && *m < 1e7).take(4) { seps.push(mag * 0.98); seps.push(mag * 1.05); }
    for sep in seps {
        let a = mols[rng.below(10)].clone(); let b = mols[rng.below(10)].clone();
        mols.push(union(&a, &moved(&b, &random_rotation(&mut rng), [sep, -0.4 * sep, 0.1 * sep])));
    }
    mols.push(alkane(12));
    if tier == "thorough" { mols.push(alkane(24)); }
    let (mut n, mut panics) = (0usize, 0usize);
    let mut type_hist: std::collections::BTreeMap<String, usize> = Default::default();
    let mut kind_hist: std::collections::BTreeMap<String, usize> = Default::default();
    for m in mols.iter() {
        if m.n() > 80 { continue; }
        let b = match build_all(m) { Some(b) => b, None => continue };
        n += 1;
        let uff_text = match &b.uff {
            Some((types, terms)) => {
                for t in types.split(',') { *type_hist.entry(t.split(':').next().unwrap_or("").to_string()).or_insert(0) += 1; }
                for t in terms { *kind_hist.entry(t.kind.to_string()).or_insert(0) += 1; }
                format!("types {} terms {}", types, sorted_terms(terms))
            }
            None => { panics += 1; "PANIC".to_string() }
        };
        // the model prints the types even when construction aborts; compare only the verdict then
        out.case(&format!("build uff {}", m.line()), &uff_text);
        out.case(&format!("build rb {}", m.line()), &format!("types - terms {}", sorted_terms(&b.rb)));
        oracle_c11(out, m, &b);
    }
    // molecules that were perceived at another geometry first and re-perceived at this one (a bond stretched until it breaks, a
    // chain folded, the compact start of a library molecule blown up and brought back): same model input, same expected output
    let mut n_regen = 0usize;
    for (k, m) in mols.iter().enumerate() {
        if m.n() < 3 || m.n() > 16 || (tier != "thorough" && k % 7 != 0) { continue; }
        let mut first = m.clone();
        match k % 3 {
            0 => { let a = rng.below(m.n()); for c in 0..3 { first.xs[a][c] += 10.0; } }                         // one atom far away at first
            1 => { for p in first.xs.iter_mut() { for c in 0..3 { p[c] *= 0.75; } } }                            // compressed at first: more bonds
            _ => { let h = m.n() / 2; for p in first.xs.iter_mut().skip(h) { p[0] += 8.0; } }                    // two halves apart at first
        }
        let b = match build_all_regenerated(&first, m) { Some(b) => b, None => continue };
        let uff_text = match &b.uff { Some((types, terms)) => format!("types {} terms {}", types, sorted_terms(terms)), None => "PANIC".to_string() };
        out.case(&format!("build uff {}", m.line()), &uff_text);
        oracle_c11(out, m, &b);
        n_regen += 1;
    }
    // molecules defined by an explicit bond table (the scripting interface): the model derives its lists from the same table
    let mut n_explicit = 0usize;
    for _ in 0..(if tier == "thorough" { 600 } else { 80 }) {
        let (m, bonds) = explicit_family(&mut rng);
        if m.min_distance() < 0.5 { continue; }
        let b = match build_all_explicit(&m, &bonds) { Some(b) => b, None => continue };
        let mut uniq: Vec<(usize, usize, f64)> = vec![];
        for (i, j, o) in &bonds { let (a, c) = if i < j { (*i, *j) } else { (*j, *i) }; uniq.push((a, c, *o)); }
        uniq.sort_by(|x, y| (x.0, x.1).cmp(&(y.0, y.1)));
        let uff_text = match &b.uff { Some((types, terms)) => format!("types {} terms {}", types, sorted_terms(terms)), None => "PANIC".to_string() };
        out.case(&format!("build uff {} ; {}", m.line(), bonds_text(&uniq)), &uff_text);
        oracle_c11(out, &m, &b);
        n_explicit += 1;
    }
    out.stat("molecules_with_explicit_bond_tables", n_explicit);
    out.stat("molecules_reperceived_through_the_wrapper", n_regen);
    out.stat("molecules", n);
    out.stat("uff_construction_aborts", panics);
    out.stat("distinct_atom_types_assigned", type_hist.len());
    out.stat("term_kinds", format!("{:?}", kind_hist));
    out.sample(&format!("build uff {}", library()[0].line()));
}
