//! C15: the real command-line binary, run in fresh working directories over option spellings x inputs.
use crate::gen::*;
use crate::s_opt::optimise_checked;
use crate::s_repro::cli_path;
use crate::util::*;
use optrs::verif::*;

struct Run { ok: bool, opt: Option<Vec<u8>> }

/// run the tool with `cwd` as its working directory (which may have a name that is not valid UTF-8); read the result through `dir`
fn run_in_path(cwd: &std::path::Path, dir: &str, args: &[String]) -> Run {
    let ok = std::process::Command::new(cli_path()).args(args).current_dir(cwd).stdout(std::process::Stdio::null()).stderr(std::process::Stdio::null())
        .status().map(|s| s.success()).unwrap_or(false);
    Run { ok, opt: std::fs::read(format!("{}/opt.xyz", dir)).ok() }
}

#[allow(dead_code)]
fn run_in(dir: &str, args: &[String]) -> Run {
    let mut cmd = std::process::Command::new(cli_path());
    cmd.current_dir(dir).args(args).stdout(std::process::Stdio::null()).stderr(std::process::Stdio::null());
    let ok = cmd.status().map(|s| s.success()).unwrap_or(false);
    Run { ok, opt: std::fs::read(format!("{}/opt.xyz", dir)).ok() }
}

pub fn parse_xyz(bytes: &[u8]) -> Option<(Vec<String>, Vec<[f64; 3]>)> {
    let text = String::from_utf8(bytes.to_vec()).ok()?;
    let mut syms = vec![]; let mut xs = vec![];
    for l in text.lines().skip(2) {
        let t: Vec<&str> = l.split_whitespace().collect();
        if t.len() < 4 { continue; }
        syms.push(t[0].to_string());
        xs.push([t[1].parse().ok()?, t[2].parse().ok()?, t[3].parse().ok()?]);
    }
    Some((syms, xs))
}

pub fn run(out: &mut Out, seed: u64, tier: &str) {
    let mut rng = Rng::new(seed ^ 0x1515);
    if !std::path::Path::new(&cli_path()).exists() { out.oracle_fail("the command-line binary was not built", &cli_path()); return; }
    let n_mols = if tier == "thorough" { 24 } else { 6 };
    // the previous opt.xyz is a well-formed, much longer file: a tail of it surviving the new write would still parse as atoms
    let sentinel: Vec<u8> = { let mut t = String::from("60\nSENTINEL previous opt.xyz\n"); for k in 0..60 { t += &format!("Xe  {:11.6} {:11.6} {:11.6}\n", k as f64, 1.0, -2.0); } t.into_bytes() };
    let (mut n_runs, mut n_ok, mut n_refused) = (0usize, 0usize, 0usize);
    let mut n_ambiguous = 0usize;
    for k in 0..n_mols {
        let m0 = if k < 4 { library()[[0usize, 3, 4, 8][k]].clone() } else { random_mol(&mut rng) };
        let mut m = distort(&m0, 0.08, &mut rng);
        if m.n() > 12 || m.min_distance() < 0.6 { continue; }
        // every other molecule sits far from the origin (coordinates below -1000 and above 10000: wider than the usual columns)
        if k % 2 == 1 { for p in m.xs.iter_mut() { p[0] += 3.0; p[1] -= 1500.0; p[2] += 12000.0; } }
        // round the coordinates to what the input file will carry, so the in-process reference starts from the same data
        // every third input carries a title in Latin-1 (0xC5 = A-ring, 0xE9 = e-acute: not valid UTF-8), as older programs write them
        let latin1 = k % 3 == 2;
        let mut text = format!("{}\n{}\n", m.n(), if latin1 { "r(OH) in @A, @energie".to_string() } else if k % 3 == 1 { (*rng.pick(&crate::s_xyz::TITLES)).to_string() } else { String::new() });
        // (every fourth input spells its numbers as numpy / C / Fortran do: 9.58400000e-01, -1.1E-03, +0.5)
        let spell = |v: f64, j: usize| -> String { if k % 4 != 3 { format!("{:.8}", v) } else { match j % 3 { 0 => format!("{:.8e}", v), 1 => format!("{:.8E}", v).replace("E", "E+").replace("E+-", "E-"), _ => format!("{:+.8}", v) } } };
        for (a, (s, p)) in m.symbols().iter().zip(m.xs.iter()).enumerate() { text += &format!("{} {} {} {}\n", s, spell(p[0], a), spell(p[1], a + 1), spell(p[2], a + 2)); }
        let mr = { let (syms, xs) = parse_xyz(text.as_bytes()).unwrap(); Mol { name: m.name.clone(), zs: syms.iter().map(|s| z_of(s)).collect(), xs } };
        let variants: Vec<(Vec<&str>, &str)> = vec![
            (vec!["in.xyz"], "in.xyz"), (vec!["in.xyz", "-f", "UFF"], "in.xyz"), (vec!["in.xyz", "--forcefield", "RB"], "in.xyz"),
            (vec!["--forcefield=RB", "in.xyz"], "in.xyz"), (vec!["-fRB", "in.xyz"], "in.xyz"), (vec!["-f", "RB", "in.xyz"], "in.xyz"),
            (vec!["in.xyz", "-f", "uff"], "in.xyz"), (vec!["in.xyz", "-f", "MMFF94"], "in.xyz"), (vec!["in.xyz", "--forcefield", ""], "in.xyz"),
            (vec!["in.txt"], "in.txt"), (vec!["in"], "in"), (vec!["in.xyz.bak", "-f", "RB"], "in.xyz.bak"),
            (vec!["sub/in.xyz"], "sub/in.xyz"), (vec!["sub/deeper/in.xyz", "-f", "RB"], "sub/deeper/in.xyz"), (vec!["--forcefield=UFF", "./in.xyz"], "./in.xyz"),
            (vec!["in.XYZ"], "in.XYZ"), (vec!["in.Xyz", "-f", "RB"], "in.Xyz"), (vec![".xyz"], ".xyz"), (vec!["sub/.xyz", "-f", "RB"], "sub/.xyz"), (vec!["inxyz"], "inxyz"),
            // the input is itself the working directory's opt.xyz (continuing from a previous result), or an opt.xyz elsewhere
            (vec!["opt.xyz"], "opt.xyz"), (vec!["./opt.xyz", "-f", "RB"], "./opt.xyz"), (vec!["opt.xyz", "--forcefield", "UFF"], "opt.xyz"), (vec!["sub/opt.xyz", "-f", "RB"], "sub/opt.xyz"),
            (vec!["opt.xyz", "-f", "MMFF94"], "opt.xyz"),
            (vec!["missing.xyz"], "in.xyz"), (vec![], "in.xyz"), (vec!["in.xyz", "extra.xyz"], "in.xyz"), (vec!["in.xyz", "-f"], "in.xyz"),
        ];
        // file names the changed source lines mention (used as they are if they end in .xyz, else with .xyz appended), in the working
        // directory and in a subdirectory
        let hinted_names: Vec<String> = hints().strs.iter().filter(|s| !s.contains(' ') && !s.contains("..") && !s.starts_with('/') && s.len() <= 30)
            .flat_map(|s| { let f = if s.ends_with(".xyz") { s.clone() } else { format!("{}.xyz", s.trim_matches('.')) }; vec![f.clone(), format!("./{}", f), format!("sub/{}", f)] }).collect();
        let mut variants = variants;
        for hn in hinted_names.iter() { variants.push((vec![hn.as_str()], hn.as_str())); variants.push((vec![hn.as_str(), "-f", "RB"], hn.as_str())); }
        for (vi, (args, fname)) in variants.iter().enumerate() {
            if tier != "thorough" && k > 1 && vi % 3 != (k % 3) { continue; }
            // the working directory's own name: plain, with a space, with UTF-8 letters, or (every fifth run) with a Latin-1 byte that is
            // not valid UTF-8 — legal on this file system, and where the run happens is no business of the result
            let base_dir = format!("/var/tmp/optrs-verif-scratch/c15-{}-{}-{}", std::process::id(), k, vi);
            let _ = std::fs::remove_dir_all(&base_dir);
            std::fs::create_dir_all(&base_dir).unwrap();
            let odd_name: Option<std::ffi::OsString> = match (k + vi) % 5 { 1 => Some("my run".into()), 2 => Some("mol\u{e9}cules-\u{3b1}".into()),
                3 => { use std::os::unix::ffi::OsStringExt; Some(std::ffi::OsString::from_vec(b"mol\xE9cules".to_vec())) } _ => None };
            let dir_path: std::path::PathBuf = match &odd_name { Some(nm) => std::path::Path::new(&base_dir).join(nm), None => std::path::PathBuf::from(&base_dir) };
            std::fs::create_dir_all(&dir_path).unwrap();
            // (the harness itself addresses the directory through a symbolic link with a plain name)
            let dir = if odd_name.is_some() { let link = format!("{}-link", base_dir); let _ = std::fs::remove_file(&link); std::os::unix::fs::symlink(&dir_path, &link).unwrap(); link } else { base_dir.clone() };
            let run_dir: std::path::PathBuf = dir_path.clone();
            if let Some(parent) = std::path::Path::new(&format!("{}/{}", dir, fname)).parent() { std::fs::create_dir_all(parent).unwrap(); }
            let file_bytes: Vec<u8> = if latin1 { let mut b = text.clone().into_bytes(); let mut seen = 0; for v in b.iter_mut() { if *v == b'@' { *v = if seen == 0 { 0xC5 } else { 0xE9 }; seen += 1; } } b } else { text.clone().into_bytes() };
            std::fs::write(format!("{}/{}", dir, fname), &file_bytes).unwrap();
            let input_is_output = *fname == "opt.xyz" || *fname == "./opt.xyz";
            if std::path::Path::new(&format!("{}/{}", dir, fname)).parent().map(|p| p.is_file()).unwrap_or(false) { continue; }
            let pre_existing = vi % 2 == 0 && !input_is_output;
            let sentinel: Vec<u8> = if input_is_output { let mut b = text.clone().into_bytes(); if latin1 { let mut seen = 0; for v in b.iter_mut() { if *v == b'@' { *v = if seen == 0 { 0xC5 } else { 0xE9 }; seen += 1; } } } b } else { sentinel.clone() };
            if pre_existing { std::fs::write(format!("{}/opt.xyz", dir), &sentinel).unwrap(); }
            let argv: Vec<String> = args.iter().map(|s| s.to_string()).collect();
            let r = run_in_path(&run_dir, &dir, &argv);
            // an output written anywhere but the working directory is a stray file
            let stray = std::path::Path::new(&format!("{}/{}", dir, fname)).parent().map(|p| p.join("opt.xyz"))
                .map(|p| p != std::path::Path::new(&format!("{}/opt.xyz", dir)) && p.canonicalize().ok() != std::path::Path::new(&format!("{}/opt.xyz", dir)).canonicalize().ok() && p.exists()
                    && !(fname.ends_with("/opt.xyz") && std::fs::read(&p).ok().as_deref() == Some(&file_bytes[..]))).unwrap_or(false);
            // an input that is not the output file must be left as it was
            if !input_is_output && std::fs::read(format!("{}/{}", dir, fname)).ok().as_deref() != Some(&file_bytes[..]) {
                out.oracle_fail("the input file was changed or removed by the run", &format!("optrs {:?} with the input at {}", args, fname)); }
            if odd_name.is_some() { let _ = std::fs::remove_file(&dir); }
            let _ = std::fs::remove_dir_all(&base_dir);
            if stray { out.oracle_fail("an opt.xyz was written next to the input file instead of (or besides) the working directory", &format!("optrs {:?} with the input at {}", args, fname)); }
            n_runs += 1;
            let wrote = match &r.opt { Some(b) => *b != sentinel, None => false };
            let status = if args.first().map(|a| *a == *fname).unwrap_or(false) || args.iter().any(|a| a == fname) { "ok" } else { "missing" };
            let shown: Vec<String> = args.iter().map(|a| if a.is_empty() { "<empty>".to_string() } else { a.to_string() }).collect();
            let input = format!("cli {} {}", status, shown.join(" "));
            let replay = format!("optrs {:?} in a directory holding {} ({} atoms){}\n{}", args, fname, m.n(), if pre_existing { " and a previous opt.xyz" } else { "" }, text);
            // the property's two refusal rules, read off the arguments alone: the input name must end in ".xyz" (as written, case and
            // all) and the force-field name, when given, must be UFF or RB
            let argv_s: Vec<String> = args.iter().map(|a| a.to_string()).collect();
            let single_input = argv_s.iter().filter(|a| !a.starts_with('-') && !["UFF", "RB", "uff", "MMFF94", ""].contains(&a.as_str())).count() == 1 && argv_s.iter().any(|a| a == fname);
            let ff_given: Option<String> = { let mut g = None; let mut it = argv_s.iter();
                while let Some(a) = it.next() { if a == "-f" || a == "--forcefield" { g = it.next().cloned(); } else if let Some(v) = a.strip_prefix("--forcefield=") { g = Some(v.to_string()); } else if a.starts_with("-f") && a.len() > 2 { g = Some(a[2..].to_string()); } } g };
            let ff_ok = match &ff_given { None => !argv_s.iter().any(|a| a == "-f" || a == "--forcefield"), Some(v) => v == "UFF" || v == "RB" };
            if single_input && status == "ok" {
                let must_refuse = !fname.ends_with(".xyz") || !ff_ok;
                if must_refuse && r.ok { out.oracle_fail(&format!("a request that must be refused (input name {:?}, force field {:?}) exited with status 0", fname, ff_given), &replay); }
                if !must_refuse && !r.ok { out.oracle_fail(&format!("a valid request (input name {:?} ends in .xyz, force field {:?}) was refused", fname, ff_given), &replay); }
            }
            if !r.ok {
                n_refused += 1;
                out.case(&input, "refuse");
                if wrote { out.oracle_fail("a refused request (non-zero exit) wrote or changed opt.xyz", &replay); }
                if (pre_existing || input_is_output) && r.opt.is_none() { out.oracle_fail("a refused request (non-zero exit) removed the opt.xyz that was there before", &replay); }
                continue;
            }
            n_ok += 1;
            if !wrote { out.case(&input, "exit0-without-output"); out.oracle_fail("exit status 0 but opt.xyz was not written", &replay); continue; }
            // which force field produced it? compare with the library optimiser
            let (syms, xs) = match parse_xyz(r.opt.as_ref().unwrap()) { Some(v) => v, None => { out.oracle_fail("opt.xyz is not a readable xyz file", &replay); continue; } };
            if syms != mr.symbols() { out.oracle_fail(&format!("opt.xyz holds atoms {:?}, the input {:?}", syms, mr.symbols()), &replay); }
            if !xs.iter().all(|p| p.iter().all(|v| v.is_finite())) { out.oracle_fail("opt.xyz holds non-finite coordinates", &replay); }
            // which library optimisation does opt.xyz equal? If both force fields give the same structure to the written
            // precision (an isolated atom, a start both leave alone) the observation cannot tell them apart: then the one the
            // arguments ask for is reported, so that an indistinguishable pair is not read as the wrong choice
            let asks_rb = args.iter().any(|a| a.contains("RB"));
            let mut both: Vec<(&str, crate::s_opt::OptResult)> = vec![];
            for kind in ["uff", "rb"] {
                if let Some(res) = optimise_checked(&mr, kind) {
                    let close = res.xf.len() == xs.len() && res.xf.iter().zip(xs.iter()).all(|(a, b)| (0..3).all(|c| (a[c] - b[c]).abs() <= 1.0e-6 + 1e-9 * a[c].abs()));
                    if close { both.push((kind, res)); }
                }
            }
            if both.len() == 2 { n_ambiguous += 1; if asks_rb { both.remove(0); } }
            let matched = both.into_iter().next();
            match matched {
                None => { out.case(&input, "wrote unknown"); out.oracle_fail("opt.xyz matches neither the UFF nor the RB library optimisation to the written precision", &replay); }
                Some((kind, res)) => {
                    out.case(&input, &format!("wrote {} {}", kind, fname));
                    if crate::s_opt::in_domain(&mr, res.e0) && !(res.e1 <= res.e0 + 1e-9 * res.e0.abs().max(1.0)) && res.e1.is_finite() { out.oracle_fail(&format!("optimised structure is higher in energy ({} -> {})", res.e0, res.e1), &replay); }
                }
            }
        }
    }
    out.stat("runs", n_runs);
    out.stat("successes", n_ok);
    out.stat("refusals", n_refused);
    out.stat("outputs_equal_under_both_force_fields", n_ambiguous);
    out.sample("optrs in.xyz --forcefield=RB  (fresh directory, pre-existing opt.xyz)");
}
