//! C18: two well-separated groups of atoms are treated independently.
use crate::canon::*;
use crate::gen::*;
use crate::s_build::types_text;
use crate::s_ff::*;
use crate::util::*;
use optrs::verif::*;

fn shift_conn(c: &Conn, k: usize) -> Conn {
    Conn {
        bonds: c.bonds.iter().map(|(i, j, o)| (i + k, j + k, *o)).collect(),
        angles: c.angles.iter().map(|a| [a[0] + k, a[1] + k, a[2] + k]).collect(),
        propers: c.propers.iter().map(|a| [a[0] + k, a[1] + k, a[2] + k, a[3] + k]).collect(),
        impropers: c.impropers.iter().map(|a| [a[0] + k, a[1] + k, a[2] + k, a[3] + k]).collect(),
        nb_pairs: c.nb_pairs.iter().map(|(i, j)| (i + k, j + k)).collect(),
    }
}

pub fn run(out: &mut Out, seed: u64, tier: &str) {
    let mut rng = Rng::new(seed ^ 0x1818);
    let n_pairs = if tier == "thorough" { 600 } else { 80 };
    let (mut n, mut worst_e, mut worst_g) = (0usize, 0.0f64, 0.0f64);
    let lib = library();
    // contrast pairs run first: two molecules in which the same element with the same number of neighbours has different
    // correct types (alkene vs aromatic carbon, amine vs amide nitrogen, ...), and a lone-pair molecule next to a d8 centre
    let contrast: [(&str, &str); 8] = [("ethene", "benzene"), ("formaldehyde", "benzene-built"), ("acetone", "benzene"), ("methylamine", "urea"),
        ("ammonia", "formamide"), ("water", "ptcl4"), ("phosphine", "arsine"), ("methanol", "h2o2")];
    let find = |n: &str| lib.iter().find(|m| m.name == n).cloned();
    let mut queue: Vec<(Mol, Mol)> = vec![];
    for (x, y) in contrast.iter() { if let (Some(a), Some(b)) = (find(x), find(y)) { queue.push((distort(&a, 0.03, &mut rng), distort(&b, 0.03, &mut rng))); } }
    // a fragment whose FIRST atom has fewer than two neighbours (a terminal S, P, O, N listed before its partner) after a fragment
    // with a sharply bent centre: whatever is computed per atom must not carry over from the atom before
    let bent: Vec<Mol> = ["phosphine", "water", "arsine", "cyclopropane"].iter().filter_map(|n| find(n)).chain(std::iter::once(centre(16, 1, "bent", 1.0))).collect();
    for (k, tail) in [vec![16usize, 6, 16], vec![15, 7], vec![16, 8], vec![15, 8], vec![8, 6, 8], vec![7, 7, 8], vec![16, 16], vec![15, 15]].iter().enumerate() {
        let b = bent[k % bent.len()].clone();
        queue.push((distort(&b, 0.02, &mut rng), distort(&linear_chain(tail, 0.95), 0.02, &mut rng)));
    }
    // a three-coordinate sulfur or oxygen centre (a sulfoxide with the carbons listed first, sulfite, planar H3O+, trimethyloxonium:
    // centres with an improper but without tabulated inversion constants) next to a fragment with an inversion centre that has them
    let so_centres: Vec<Mol> = vec![
        named("dmso-carbons-first", &[("S", 0.0, 0.0, 0.0), ("C", 1.35, 1.2, 0.35), ("C", -1.35, 1.2, 0.35), ("O", 0.0, -0.75, 1.3),
            ("H", 1.4, 2.1, -0.3), ("H", 2.3, 0.7, 0.3), ("H", 1.2, 1.5, 1.4), ("H", -1.4, 2.1, -0.3), ("H", -2.3, 0.7, 0.3), ("H", -1.2, 1.5, 1.4)]),
        named("dmso-oxygen-first", &[("S", 0.0, 0.0, 0.0), ("O", 0.0, -0.75, 1.3), ("C", 1.35, 1.2, 0.35), ("C", -1.35, 1.2, 0.35),
            ("H", 1.4, 2.1, -0.3), ("H", 2.3, 0.7, 0.3), ("H", 1.2, 1.5, 1.4), ("H", -1.4, 2.1, -0.3), ("H", -2.3, 0.7, 0.3), ("H", -1.2, 1.5, 1.4)]),
        centre(16, 8, "pyramidal", 1.0), centre(16, 9, "trigonal", 1.0), centre(8, 1, "trigonal", 1.0), centre(8, 6, "pyramidal", 1.0), centre(34, 8, "pyramidal", 1.0),
    ];
    let inv_centres: Vec<Mol> = ["phosphine", "arsine", "ethene", "formaldehyde", "benzene"].iter().filter_map(|n| find(n)).collect();
    for (k, a) in so_centres.iter().enumerate() {
        for (j, b) in inv_centres.iter().enumerate() {
            if tier != "thorough" && (k + j) % 2 == 1 { continue; }
            queue.push((distort(a, 0.03, &mut rng), distort(b, 0.05, &mut rng)));
        }
    }
    // one element in two coordination numbers (SO3 next to sulfate, SiR3 next to SiR4, ClF3 next to ClO4, a metal with four and with
    // six ligands): what is decided per atom from its own neighbours (environment, bend form) must not be shared per element or type
    for (k, z) in [16usize, 14, 15, 17, 13, 26, 22, 29, 30, 46, 78, 42].iter().enumerate() {
        let shells = ["trigonal", "tetrahedral", "square", "octahedral", "tbp", "pyramidal", "tshape"];
        let (g1, g2) = (shells[k % shells.len()], shells[(k * 3 + 1) % shells.len()]);
        if g1 == g2 { continue; }
        let lig = *rng.pick(&[8usize, 9, 17, 1]);
        queue.push((distort(&centre(*z, lig, g1, 1.0), 0.03, &mut rng), distort(&centre(*z, lig, g2, 1.0), 0.03, &mut rng)));
        if tier == "thorough" || k % 2 == 0 { queue.push((distort(&centre(*z, lig, "trigonal", 1.0), 0.03, &mut rng), distort(&centre(*z, lig, "tetrahedral", 1.0), 0.03, &mut rng))); }
    }
    // a fragment in which a valence-limited atom has a choice between candidates (linear H3 with unequal arms, bifluoride, H between
    // two carbons) next to a LARGE one (C12H26, C16H34: 38 and 50 atoms): what one fragment's atoms get must not depend on how many
    // atoms the whole input has
    {
        let h3 = named("h3-unequal-arms", &[("H", 0.0, 0.0, 0.0), ("H", 0.74, 0.0, 0.0), ("H", -0.80, 0.0, 0.0)]);
        let fhf = named("fhf-unequal-arms", &[("H", 0.0, 0.0, 0.0), ("F", 1.08, 0.0, 0.0), ("F", -1.12, 0.0, 0.0)]);
        let chc = named("h-between-carbons", &[("H", 0.0, 0.0, 0.0), ("C", 1.05, 0.0, 0.0), ("C", -1.10, 0.0, 0.0), ("H", 1.6, 0.9, 0.0), ("H", -1.6, -0.9, 0.0)]);
        for (k, small) in [h3, fhf, chc].iter().enumerate() {
            for big_n in [12usize, 16] {
                if tier != "thorough" && (k + big_n) % 2 == 1 { continue; }
                queue.push((small.clone(), distort(&alkane(big_n), 0.02, &mut rng)));
            }
        }
    }
    for pair in 0..(n_pairs + queue.len()) {
        // every fifth pair is systematic: a library molecule (lone pairs, pi systems) next to a four-coordinate metal centre —
        // the typing of such a centre (formal charge, d8-ness, square-planar vs tetrahedral) must not depend on its neighbour
        let systematic = pair % 5 == 4;
        let preset = if pair < queue.len() { Some(queue[pair].clone()) } else { None };
        let a = if let Some((x, _)) = &preset { x.clone() } else if systematic { distort(&lib[rng.below(lib.len())], rng.range(0.0, 0.1), &mut rng) } else { let m = random_mol(&mut rng); distort(&m, rng.range(0.0, 0.15), &mut rng) };
        let b0 = if let Some((_, y)) = &preset { y.clone() } else if systematic {
            let m = centre(*rng.pick(&[28usize, 46, 78, 45, 77, 79, 29, 30, 26]), *rng.pick(&[1usize, 17, 9, 35]), *rng.pick(&["square", "tetrahedral"]), 1.0);
            distort(&m, rng.range(0.01, 0.1), &mut rng)
        } else { let m = random_mol(&mut rng); distort(&m, rng.range(0.0, 0.15), &mut rng) };
        if a.n() + b0.n() > (if preset.is_some() { 60 } else { 28 }) || a.min_distance() < 0.5 || b0.min_distance() < 0.5 { continue; }
        let sep = 10f64.powf(rng.range(1.7, 4.0));
        let dir = { let r = random_rotation(&mut rng); [r[0][0] * sep, r[1][0] * sep, r[2][0] * sep] };
        let b = moved(&b0, &random_rotation(&mut rng), dir);
        for order in 0..2 {
            let (first, second) = if order == 0 { (&a, &b) } else { (&b, &a) };
            let ab = union(first, second);
            let (m1, m2, m12) = match (catch(|| first.build()), catch(|| second.build()), catch(|| ab.build())) { (Some(x), Some(y), Some(z)) => (x, y, z), _ => continue };
            let replay = ab.xyz_text();
            let (c1, c2, c12) = (connectivity(&m1), connectivity(&m2), connectivity(&m12));
            // connectivity: union of the parts (+ all cross pairs as non-bonded)
            let k = first.n();
            let s2 = shift_conn(&c2, k);
            let mut want = Conn { bonds: c1.bonds.clone(), angles: c1.angles.clone(), propers: c1.propers.clone(), impropers: c1.impropers.clone(), nb_pairs: vec![] };
            want.bonds.extend(s2.bonds.iter().cloned()); want.angles.extend(s2.angles.iter().cloned());
            want.propers.extend(s2.propers.iter().cloned()); want.impropers.extend(s2.impropers.iter().cloned());
            let strip = |c: &Conn| canon_conn(&Conn { nb_pairs: vec![], ..c.clone() });
            if strip(&c12) != strip(&want) { out.oracle_fail("connectivity of the union is not the union of the parts' connectivity", &replay); continue; }
            let mut pairs: Vec<(usize, usize)> = c12.nb_pairs.iter().map(|(i, j)| pair_key(*i, *j)).collect(); pairs.sort();
            let mut wp: Vec<(usize, usize)> = c1.nb_pairs.iter().map(|(i, j)| pair_key(*i, *j)).chain(s2.nb_pairs.iter().map(|(i, j)| pair_key(*i, *j))).collect();
            for i in 0..k { for j in k..ab.n() { wp.push((i, j)); } }
            wp.sort();
            if pairs != wp { out.oracle_fail("non-bonded pairs of the union are not the parts' pairs plus all cross pairs", &replay); continue; }
            // types
            let (u1, u2, u12) = match (catch(|| UFF::new(&m1)), catch(|| UFF::new(&m2)), catch(|| UFF::new(&m12))) { (Some(x), Some(y), Some(z)) => (x, y, z), _ => continue };
            let t12 = types_text(&u12);
            let want_t = [types_text(&u1), types_text(&u2)].iter().filter(|s| *s != "-").cloned().collect::<Vec<_>>().join(",");
            if t12 != want_t { out.oracle_fail(&format!("atom types of the union differ from the parts': {} vs {}", t12, want_t), &replay); continue; }
            // energy and forces: sum of the parts up to the van der Waals tail between the groups
            let (mut f1, mut f2, mut f12) = (FF::U(u1), FF::U(u2), FF::U(u12));
            let (e1, e2, e12) = (f1.energy(&m1.coordinates), f2.energy(&m2.coordinates), f12.energy(&m12.coordinates));
            if !(e1.is_finite() && e2.is_finite() && e12.is_finite()) { continue; }
            let cross: f64 = f12.terms().iter().filter(|t| t.kind == "lj" && (t.idxs[0] < k) != (t.idxs[1] < k))
                .map(|t| { let r = distance(t.idxs[0], t.idxs[1], &m12.coordinates); 2.0 * t.params[1] * (t.params[0] / r).powi(6) }).sum();
            let err = (e12 - e1 - e2).abs();
            let tol = cross + 1e-9 * (e1.abs() + e2.abs()).max(1.0);
            if err > worst_e { worst_e = err; }
            if !(err <= tol) { out.oracle_fail(&format!("E(A+B) = {} but E(A) + E(B) = {} (allowed tail {})", e12, e1 + e2, tol), &replay); }
            let (g1, g2, g12) = (f1.gradient(&m1.coordinates), f2.gradient(&m2.coordinates), f12.gradient(&m12.coordinates));
            let gparts: Vec<f64> = g1.iter().chain(g2.iter()).cloned().collect();
            let gmax = gparts.iter().fold(0.0f64, |a, v| a.max(v.abs())).max(1.0);
            let gerr = gparts.iter().zip(g12.iter()).fold(0.0f64, |a, (x, y)| a.max((x - y).abs()));
            if gerr.is_finite() && gerr > worst_g { worst_g = gerr; }
            if gerr.is_finite() && gerr > 12.0 * cross / (sep * 0.5) + 1e-9 * gmax { out.oracle_fail(&format!("forces of the union differ from the parts' by {}", gerr), &replay); }
            n += 1;
        }
    }
    out.case("fragments summary", "-");
    out.stat("unions_checked", n);
    out.stat("worst_energy_defect", format!("{:e}", worst_e));
    out.stat("worst_force_defect", format!("{:e}", worst_g));
    out.sample("water + ammonia 300 A apart, both concatenation orders");
}
