//! C07: random request histories (energy / gradient / numerical gradient / optimise) on ONE force-field object.
//! Oracle: after each request the answer is compared bit for bit with a FRESH object's answer.
//! Correspondence: the model object, fed the primitive energy/gradient requests the history amounts to, must give the same answers.
use crate::gen::*;
use crate::s_ff::*;
use crate::s_sd::{fnv, Event, Inner, Recorder};
use crate::util::*;
use optrs::verif::*;

fn pts(v: &[f64]) -> Vec<Point> { v.chunks(3).map(|c| Point { x: c[0], y: c[1], z: c[2] }).collect() }

pub fn run(out: &mut Out, seed: u64, tier: &str) {
    let mut rng = Rng::new(seed ^ 0x0707);
    let n_mols = if tier == "thorough" { 120 } else { 24 };
    let lib = library();
    let (mut n_hist, mut n_req, mut n_ng, mut n_opt, mut n_sing, mut n_near) = (0usize, 0usize, 0usize, 0usize, 0usize, 0usize);
    for r in 0..n_mols {
        // (every sixth molecule is a cluster without a single bond: noble-gas atoms, separated ions, atoms pulled apart)
        let m = if r < 8 { lib[r].clone() } else if r % 6 == 2 {
            let zs: Vec<usize> = match rng.below(4) { 0 => vec![18, 18, 18], 1 => vec![2, 2], 2 => vec![11, 17, 11, 17], _ => vec![8, 1, 1] };
            let xs = (0..zs.len()).map(|i| [3.9 * i as f64 + rng.range(-0.2, 0.2), 1.7 * (i % 2) as f64 + rng.range(-0.2, 0.2), rng.range(-0.3, 0.3) + 2.9 * (i / 2) as f64]).collect();
            Mol { name: "unbonded-cluster".into(), zs, xs }
        } else { random_mol(&mut rng) };
        if m.min_distance() < 0.5 || m.n() > 10 || m.n() < 1 { continue; }
        let mut mol = match catch(|| m.build()) { Some(x) => x, None => continue };
        for kind in ["uff", "rb"] {
            let ff = match FF::build(kind, &mol) { Some(f) => f, None => continue };
            let terms = ff.terms();
            let tt = if terms.is_empty() { "-".to_string() } else { terms.iter().map(term_text).collect::<Vec<_>>().join(";") };
            // the object under test is wrapped in a recorder so that the primitive requests made by
            // numerical_gradient / optimise are seen too
            let mut rec = Recorder::new(Inner::Real(ff));
            let len = 4 + rng.below(if tier == "thorough" { 36 } else { 12 });
            let before: Vec<u64> = mol.coordinates.iter().flat_map(|p| [p.x.to_bits(), p.y.to_bits(), p.z.to_bits()]).collect();
            let mut prev: Option<Mol> = None;
            for step in 0..len {
                let mut g = distort(&m, rng.range(0.0, 0.3), &mut rng);
                // a third of the requests are at the previous geometry exactly, or at it with one coordinate moved by 1e-9 ... 1e-13 A:
                // an answer remembered "because nothing has moved" must not be served for a geometry that did move
                if let Some(p) = &prev { match rng.below(9) {
                    0 => { g = p.clone(); n_near += 1; }
                    1 | 2 => { g = p.clone(); let a = rng.below(g.xs.len()); let c = rng.below(3); g.xs[a][c] += *rng.pick(&[1e-9, -3e-9, 2e-10, 1e-11, -1e-13]); n_near += 1; }
                    _ => {}
                } }
                // now and then a singular geometry (all atoms at the origin as from_atomic_symbols leaves them, two atoms
                // coincident, everything on a line): its non-finite answers must not leak into later requests
                // (the second request of every history is such a geometry — every atom squeezed onto the x axis, or onto it to within
                // 1e-4 A: all angles straight, exactly or nearly — so that every history has requests after a visit to one)
                if step == 1 { let eps = if r % 2 == 0 { 0.0 } else { 1e-4 }; for (a, p) in g.xs.iter_mut().enumerate() { p[0] += 0.9 * a as f64; p[1] = eps * ((a % 3) as f64 - 1.0); p[2] = eps * ((a % 2) as f64); } n_sing += 1; }
                match if step == 1 { 11 } else { rng.below(12) } {
                    0 => { for p in g.xs.iter_mut() { *p = [0.0, 0.0, 0.0]; } n_sing += 1; }
                    1 => { if g.xs.len() > 1 { g.xs[1] = g.xs[0]; n_sing += 1; } }
                    2 => { for p in g.xs.iter_mut() { p[1] = 0.0; p[2] = 0.0; } n_sing += 1; }
                    _ => {}
                }
                let x = g.points();
                prev = Some(g.clone());
                match rng.below(10) {
                    0..=3 => { rec.energy(&x); }
                    4..=7 => { rec.gradient(&x); }
                    8 => {
                        // numerical gradient: must leave the molecule exactly as it was
                        let snap: Vec<u64> = mol.coordinates.iter().flat_map(|p| [p.x.to_bits(), p.y.to_bits(), p.z.to_bits()]).collect();
                        let _ = mol.numerical_gradient(&mut rec);
                        let after: Vec<u64> = mol.coordinates.iter().flat_map(|p| [p.x.to_bits(), p.y.to_bits(), p.z.to_bits()]).collect();
                        if snap != after { out.oracle_fail("numerical_gradient changed the molecule's coordinates", &format!("{} on\n{}", kind, m.xyz_text())); }
                        n_ng += 1;
                    }
                    _ => {
                        // optimise a scratch copy of the molecule with THIS object (20 iterations)
                        let mut scratch = m.build();
                        scratch.coordinates = x.clone();
                        let _ = catch(|| SteepestDecentOptimiser::from_max_iterations(20).optimise(&mut scratch, &mut rec));
                        n_opt += 1;
                    }
                }
            }
            let after: Vec<u64> = mol.coordinates.iter().flat_map(|p| [p.x.to_bits(), p.y.to_bits(), p.z.to_bits()]).collect();
            if before != after { out.oracle_fail("the molecule's coordinates changed during evaluation requests", &format!("{} on\n{}", kind, m.xyz_text())); }
            // oracle: every recorded answer equals a fresh object's answer at that geometry
            let mut reqs: Vec<String> = vec![];
            let mut answers: Vec<String> = vec![];
            for (k, ev) in rec.log.iter().enumerate() {
                let mut fresh = match FF::build(kind, &mol) { Some(f) => f, None => break };
                match ev {
                    Event::E(x, e) => {
                        let want = fresh.energy(&pts(x));
                        if hx(want) != hx(*e) { out.oracle_fail(&format!("request {} (energy): the used object answered {} but a fresh object answers {}", k, e, want), &format!("{} on\n{}", kind, m.xyz_text())); }
                        reqs.push(format!("E {}", x.iter().map(|v| hx(*v)).collect::<Vec<_>>().join(" ")));
                        answers.push(format!("e{}", hx(*e)));
                    }
                    Event::G(x, g) => {
                        let want = fresh.gradient(&pts(x));
                        if fnv(&want) != fnv(g) { out.oracle_fail(&format!("request {} (gradient): the used object's answer differs from a fresh object's (first components {} vs {})", k, g[0], want[0]), &format!("{} on\n{}", kind, m.xyz_text())); }
                        reqs.push(format!("G {}", x.iter().map(|v| hx(*v)).collect::<Vec<_>>().join(" ")));
                        answers.push(format!("g{:016x}", fnv(g)));
                    }
                }
            }
            n_hist += 1;
            n_req += rec.log.len();
            out.case(&format!("history {} {} | {} | {}", kind, m.n(), tt, reqs.join(";")), &answers.join(";"));
        }
    }
    // requests made through the molecule (Molecule::energy / gradient / numerical_gradient), at ordinary and at placeholder
    // geometries (all atoms at the origin, as a molecule made from symbols alone; one repeated position; all on a line): a request
    // leaves the coordinates it was given bit for bit as they were, and answers for them as a fresh object would
    let mut n_via_mol = 0usize;
    for m in library().iter().take(if tier == "thorough" { 12 } else { 5 }) {
        if m.n() < 2 || m.n() > 10 { continue; }
        let built = match catch(|| m.build()) { Some(x) => x, None => continue };
        for (gname, xs) in [("as given", m.xs.clone()), ("all atoms at the origin", vec![[0.0; 3]; m.n()]),
                            ("one repeated position", { let mut v = m.xs.clone(); v[1] = v[0]; v }), ("all on a line", (0..m.n()).map(|i| [1.1 * i as f64, 0.0, 0.0]).collect())] {
            for kind in ["uff", "rb"] {
                let mut used = match FF::build(kind, &built) { Some(f) => f, None => continue };
                let mut mol = match catch(|| m.build()) { Some(x) => x, None => continue };
                mol.coordinates = xs.iter().map(|p| Point { x: p[0], y: p[1], z: p[2] }).collect();
                let snap: Vec<u64> = mol.coordinates.iter().flat_map(|p| [p.x.to_bits(), p.y.to_bits(), p.z.to_bits()]).collect();
                let x_given = mol.coordinates.clone();
                let replay = format!("{} force field of\n{}requests through the molecule with its coordinates set to: {}", kind, m.xyz_text(), gname);
                let same_bits = |a: &[f64], b: &[f64]| a.len() == b.len() && a.iter().zip(b.iter()).all(|(p, q)| p.to_bits() == q.to_bits() || (p.is_nan() && q.is_nan()));
                for what in ["energy", "gradient", "energy", "numerical_gradient", "gradient"] {
                    let mut fresh = match FF::build(kind, &built) { Some(f) => f, None => break };
                    let ok = match what {
                        "energy" => catch(|| mol.energy(used.as_dyn())).map(|e| same_bits(&[e], &[fresh.energy(&x_given)])),
                        "gradient" => catch(|| flat(&mol.gradient(used.as_dyn()))).map(|g| same_bits(&g, &fresh.gradient(&x_given))),
                        _ => catch(|| { let _ = mol.numerical_gradient(used.as_dyn()); }).map(|_| true),
                    };
                    let after: Vec<u64> = mol.coordinates.iter().flat_map(|p| [p.x.to_bits(), p.y.to_bits(), p.z.to_bits()]).collect();
                    if after != snap { out.oracle_fail(&format!("a {} request through the molecule changed the molecule's coordinates", what), &replay); break; }
                    match ok { Some(false) => { out.oracle_fail(&format!("a {} request through the molecule was not answered for the coordinates the molecule holds (a fresh object answers differently)", what), &replay); break; }
                               _ => {} }
                    n_via_mol += 1;
                }
            }
        }
    }
    out.stat("requests_through_the_molecule", n_via_mol);
    // large systems (a code path chosen by size is chosen here): boxes of 64-216 waters (192-648 atoms, up to ~200 000 terms), a
    // short history G(A) G(A) E(A) G(B) E(B) G(A) on one object, every answer against a fresh object's. Too large for the model
    // line: the fresh-object oracle only.
    let mut n_large = 0usize;
    let sides: Vec<usize> = if tier == "thorough" { vec![4, 5, 6] } else { vec![5] };
    // (sizes the changed source lines mention come first: that many atoms, or that many atom pairs)
    let mut bigs: Vec<Mol> = vec![];
    for n in hints().atom_counts(24, 1300) {
        let w = library()[0].clone();
        let mut m = Mol { name: format!("hinted-size-{}", n), zs: w.zs.clone(), xs: w.xs.iter().map(|p| [p[0] - 3.0, p[1] - 3.0, p[2] - 3.0]).collect() };
        for q in lattice_points(n - 3, 3.6) { m.zs.push(10); m.xs.push(q); }
        bigs.push(m);
    }
    for side in sides {
        let w = library()[0].clone();
        let mut big = Mol { name: format!("water-box-{}", side * side * side), zs: vec![], xs: vec![] };
        for a in 0..side { for b in 0..side { for c in 0..side {
            for (z, p) in w.zs.iter().zip(w.xs.iter()) { big.zs.push(*z); big.xs.push([p[0] + 3.1 * a as f64, p[1] + 3.1 * b as f64, p[2] + 3.1 * c as f64]); }
        } } }
        bigs.push(big);
    }
    for big in bigs {
        let mol = match catch(|| big.build()) { Some(x) => x, None => continue };
        for kind in ["uff", "rb"] {
            let mut used = match FF::build(kind, &mol) { Some(f) => f, None => continue };
            let a = big.points();
            let b = distort(&big, 0.05, &mut rng).points();
            let replay = format!("{} on {} ({} atoms, {} terms): G(A) G(A) E(A) G(B) E(B) G(A)", kind, big.name, big.n(), used.terms().len());
            let script: [(char, &Vec<Point>); 6] = [('G', &a), ('G', &a), ('E', &a), ('G', &b), ('E', &b), ('G', &a)];
            for (k, (what, x)) in script.iter().enumerate() {
                let mut fresh = match FF::build(kind, &mol) { Some(f) => f, None => break };
                if *what == 'E' {
                    let (got, want) = (used.energy(x), fresh.energy(x));
                    if hx(got) != hx(want) { out.oracle_fail(&format!("large system, request {} (energy): the used object answered {} but a fresh object answers {}", k, got, want), &replay); break; }
                } else {
                    let (got, want) = (used.gradient(x), fresh.gradient(x));
                    if fnv(&got) != fnv(&want) {
                        let worst = got.iter().zip(want.iter()).map(|(p, q)| (p - q).abs()).fold(0.0f64, f64::max);
                        out.oracle_fail(&format!("large system, request {} (gradient): the used object's answer differs from a fresh object's (largest difference {:e})", k, worst), &replay); break;
                    }
                }
                n_req += 1;
            }
            n_large += 1;
        }
    }
    out.stat("large_system_histories", n_large);
    out.stat("histories", n_hist);
    out.stat("primitive_requests", n_req);
    out.stat("numerical_gradient_calls", n_ng);
    out.stat("optimise_calls", n_opt);
    out.stat("requests_at_singular_geometries", n_sing);
    out.stat("requests_at_or_within_1e-9_of_the_previous_geometry", n_near);
    out.sample("history on water/UFF: E,G,G,numerical-gradient,optimise(20),E,... each answer vs a fresh object");
}
