//! C05 (and the optimiser side of C04/C15/C19): the request history of `optimise`, recorded through a wrapping
//! `Forcefield`, on UFF, RB and synthetic fields. Correspondence: the model, fed the answers, must emit the same
//! request sequence (fingerprinted) and the same final coordinates. Oracle: the property's trace predicates.
use crate::gen::*;
use crate::s_ff::*;
use crate::util::*;
use optrs::verif::*;

#[derive(Clone)]
pub enum Event { E(Vec<f64>, f64), G(Vec<f64>, Vec<f64>) }

pub enum Inner {
    Real(FF),
    Quadratic { k: f64, x0: Vec<f64> },
    RisingEnergy { calls: usize, g: f64 },
    Flat,
    Alternating { calls: usize },
    NanEnergy,
    ZeroGrad,
    Stateful { calls: usize },
    /// every atom feels a gradient of the same norm `g` along x, whatever the geometry; the energy is constant
    ConstNorm { g: f64 },
    /// a flat energy and a constant gradient, each gradient request taking `ms` milliseconds: the walk's length is counted in steps, not in time
    Slow { ms: u64 },
    /// the first gradient request is answered with norm `g` on every atom, all later ones with zero; the energy falls with every request
    Kick { calls: usize, g: f64 },
}

pub struct Recorder {
    pub inner: Inner,
    pub log: Vec<Event>,
    buf: Vec<Vector3D>,
    /// a run that asks for more gradients than this is stopped (by a panic the caller catches): an optimiser that
    /// has lost its bound must end up as a reported failure, not as a hung check
    pub cap: usize,
    grads: usize,
}

fn flat_pts(x: &[Point]) -> Vec<f64> { x.iter().flat_map(|p| [p.x, p.y, p.z]).collect() }

impl Recorder {
    pub fn new(inner: Inner) -> Self { Recorder { inner, log: vec![], buf: vec![], cap: usize::MAX, grads: 0 } }
}

impl Forcefield for Recorder {
    fn new(_m: &Molecule) -> Self { unimplemented!() }
    fn energy(&mut self, x: &[Point]) -> f64 {
        let xs = flat_pts(x);
        let e = match &mut self.inner {
            Inner::Real(ff) => ff.energy(x),
            Inner::Quadratic { k, x0 } => 0.5 * *k * xs.iter().zip(x0.iter()).map(|(a, b)| (a - b) * (a - b)).sum::<f64>(),
            Inner::RisingEnergy { calls, .. } => { *calls += 1; *calls as f64 }
            Inner::Flat => 1.0,
            Inner::Alternating { calls } => { *calls += 1; if *calls % 2 == 0 { 2.0 } else { 1.0 } }
            Inner::NanEnergy => f64::NAN,
            Inner::ZeroGrad => xs.iter().sum::<f64>(),
            Inner::Stateful { calls } => { *calls += 1; (*calls as f64 * 0.7).sin() * 3.0 }
            Inner::ConstNorm { .. } => 1.0,
            Inner::Kick { calls, .. } => -(*calls as f64),
            Inner::Slow { .. } => 1.0,
        };
        self.log.push(Event::E(xs, e));
        e
    }
    fn gradient(&mut self, x: &[Point]) -> &Vec<Vector3D> {
        self.grads += 1;
        if self.grads > self.cap { panic!("request cap exceeded"); }
        let xs = flat_pts(x);
        let g: Vec<f64> = match &mut self.inner {
            Inner::Real(ff) => ff.gradient(x),
            Inner::Quadratic { k, x0 } => xs.iter().zip(x0.iter()).map(|(a, b)| *k * (a - b)).collect(),
            Inner::RisingEnergy { g, .. } => xs.iter().map(|_| *g).collect(),
            Inner::Flat => xs.iter().enumerate().map(|(i, _)| 1.0 + i as f64).collect(),
            Inner::Alternating { .. } => xs.iter().map(|v| 10.0 * v.sin() + 3.0).collect(),
            Inner::NanEnergy => xs.iter().map(|v| *v + 1.0).collect(),
            Inner::ZeroGrad => xs.iter().map(|_| 0.0).collect(),
            Inner::Stateful { calls } => { *calls += 1; let c = *calls as f64; xs.iter().enumerate().map(|(i, _)| 5.0 * ((c + i as f64) * 0.37).cos() + 0.2).collect() }
            Inner::ConstNorm { g } => xs.iter().enumerate().map(|(i, _)| if i % 3 == 0 { *g } else { 0.0 }).collect(),
            Inner::Slow { ms } => { std::thread::sleep(std::time::Duration::from_millis(*ms)); xs.iter().enumerate().map(|(i, _)| if i % 3 == 2 { 0.7 } else { 0.0 }).collect() }
            Inner::Kick { calls, g } => { *calls += 1; let first = *calls == 1; xs.iter().enumerate().map(|(i, _)| if first && i % 3 == 1 { *g * (1.0 + (i / 3) as f64) } else { 0.0 }).collect() }
        };
        self.log.push(Event::G(xs, g.clone()));
        self.buf = g.chunks(3).map(|c| Vector3D { x: c[0], y: c[1], z: c[2] }).collect();
        &self.buf
    }
}

pub fn fnv(fs: &[f64]) -> u64 {
    let mut h: u64 = 0xcbf29ce484222325;
    for f in fs {
        let w = if f.is_nan() { 0x7ff8000000000000u64 } else { f.to_bits() };
        for k in 0..8 { h = (h ^ ((w >> (8 * k)) & 0xff)).wrapping_mul(0x100000001b3); }
    }
    h
}

fn hexs(v: &[f64]) -> String { v.iter().map(|x| hx(*x)).collect::<Vec<_>>().join(" ") }

/// The property's predicates on a recorded history
pub fn oracle(out: &mut Out, label: &str, x0: &[f64], log: &[Event], xf: &[f64], max_iter: usize, replay: &str) -> (usize, usize) {
    let grads: Vec<(&Vec<f64>, &Vec<f64>)> = log.iter().filter_map(|e| if let Event::G(x, g) = e { Some((x, g)) } else { None }).collect();
    let n = x0.len() / 3;
    let mean_norm = |g: &Vec<f64>| g.chunks(3).map(|c| (c[0] * c[0] + c[1] * c[1] + c[2] * c[2]).sqrt()).sum::<f64>() / n as f64;
    let all_below = |g: &Vec<f64>, t: f64| g.chunks(3).all(|c| (c[0] * c[0] + c[1] * c[1] + c[2] * c[2]).sqrt() < t);
    let fail = |out: &mut Out, what: String| out.oracle_fail(&format!("{}: {}", label, what), replay);
    if grads.len() > max_iter { fail(out, format!("{} gradients requested, budget {}", grads.len(), max_iter)); }
    let mut alpha_prev: Option<f64> = None;
    let mut restarts = 0usize;
    let mut after_restart = false;
    // infer the common step length of a move y -> y2 against g; None if it is not such a move
    let slack = std::cell::Cell::new(0.0f64);
    let step_alpha = |y: &Vec<f64>, g: &Vec<f64>, y2: &Vec<f64>| -> Option<f64> {
        let (mut best, mut bi) = (0.0f64, None);
        for i in 0..y.len() { if g[i].abs() > best && g[i].is_finite() { best = g[i].abs(); bi = Some(i); } }
        let i = bi?;
        let a = (y[i] - y2[i]) / g[i];
        // the step length is read off a difference of coordinates: far from the origin that difference carries the rounding of the
        // coordinates themselves (a few ulps of |y| over |g|), which the comparisons below allow for
        slack.set(8.0 * f64::EPSILON * y[i].abs().max(y2[i].abs()) / g[i].abs());
        for k in 0..y.len() {
            let want = y[k] - a * g[k];
            let scale = y[k].abs().max((a * g[k]).abs()).max(1e-300);
            if !((y2[k] - want).abs() <= 1e-9 * scale + 1e-14) && !(want.is_nan() && y2[k].is_nan()) { return None; }
        }
        Some(a)
    };
    if let Some((y, _)) = grads.first() {
        if fnv(y) != fnv(x0) { fail(out, "the first gradient request is not at the input geometry".into()); }
    }
    for w in grads.windows(2) {
        let ((y, g), (y2, _)) = (w[0], w[1]);
        if all_below(g, 0.01) && n > 0 { fail(out, "continued past a geometry where every atomic gradient norm is below 0.01".into()); }
        let finite = g.iter().all(|v| v.is_finite()) && y.iter().all(|v| v.is_finite());
        let to_input = fnv(y2) == fnv(x0);
        // a genuine step: same step length as before, or (right after a restart) a smaller one
        let stepped = match step_alpha(y, g, y2) {
            Some(a) if a > 0.0 => match alpha_prev {
                None => { alpha_prev = Some(a); true }
                Some(p) if (a - p).abs() <= 1e-6 * p + slack.get() => true,
                Some(p) if a < p && after_restart => { alpha_prev = Some(a); true }
                Some(p) => {
                    if to_input { false } else {
                        if a > p { fail(out, format!("step length grew from {} to {}", p, a)); }
                        else { fail(out, format!("step length shrank from {} to {} without restarting from the input geometry", p, a)); }
                        alpha_prev = Some(a);
                        true
                    }
                }
            },
            Some(_) if g.iter().all(|v| *v == 0.0) => true,
            _ => false,
        };
        if stepped { after_restart = false; }
        else if to_input { restarts += 1; after_restart = true; }
        else if finite {
            fail(out, "a requested geometry is neither the previous one moved against its gradient by one positive step length common to all atoms nor the input geometry".into());
        }
    }
    if let Some((y, g)) = grads.last() {
        let early = grads.len() < max_iter;
        let conv = mean_norm(g) < 0.1;
        if early && !conv && n > 0 { fail(out, format!("ended after {} of {} gradients at mean atomic gradient norm {}", grads.len(), max_iter, mean_norm(g))); }
        // returned coordinates: the last geometry itself (converged exit) or the last step taken
        let same = fnv(xf) == fnv(y);
        let stepped = alpha_prev.map(|_| step_alpha(y, g, &xf.to_vec()).is_some()).unwrap_or(step_alpha(y, g, &xf.to_vec()).is_some());
        if !(same || stepped) && g.iter().all(|v| v.is_finite()) { fail(out, "returned coordinates are not those of the last step taken".into()); }
        if same && !conv && grads.len() == max_iter && g.iter().any(|v| *v != 0.0) && g.iter().all(|v| v.is_finite()) && y.iter().all(|v| v.is_finite()) && n > 0 {
            fail(out, "budget exhausted but the last step was not applied".into());
        }
    } else if max_iter > 0 && fnv(xf) != fnv(x0) {
        fail(out, "no gradient requested but coordinates changed".into());
    }
    (grads.len(), restarts)
}

pub fn run_one(out: &mut Out, label: &str, m: &Mol, inner: Inner, max_iter: Option<usize>, stats: &mut Vec<(usize, usize)>) {
    let mut mol = match catch(|| m.build()) { Some(x) => x, None => return };
    let x0 = flat_pts(&mol.coordinates);
    let mut rec = Recorder::new(inner);
    let budget = max_iter.unwrap_or(500);
    rec.cap = budget + 25;
    let ok = catch(|| match max_iter {
        None => mol.optimise(&mut rec),
        Some(k) => SteepestDecentOptimiser::from_max_iterations(k).optimise(&mut mol, &mut rec),
    });
    if ok.is_none() {
        if rec.grads > rec.cap {
            out.oracle_fail(&format!("{}: more than {} gradients requested with a budget of {} (run stopped there; it may never end)", label, rec.cap, budget),
                            &format!("{} max_iterations={} start:\n{}", label, budget, m.xyz_text()));
        }
        out.case(&format!("sd-panic {}", label), "panic");
        return;
    }
    let xf = flat_pts(&mol.coordinates);
    let answers: Vec<String> = rec.log.iter().map(|e| match e { Event::E(_, v) => format!("e {}", hx(*v)), Event::G(_, g) => format!("g {}", hexs(g)) }).collect();
    let reqs: Vec<String> = rec.log.iter().map(|e| match e { Event::E(x, _) => format!("E{:016x}", fnv(x)), Event::G(x, _) => format!("G{:016x}", fnv(x)) }).collect();
    let input = format!("sd {} | {} | {}", budget, hexs(&x0), if answers.is_empty() { "-".to_string() } else { answers.join(";") });
    out.case(&input, &format!("{} | {}", reqs.join(";"), hexs(&xf)));
    let replay = format!("{} max_iterations={} start:\n{}", label, budget, m.xyz_text());
    let st = oracle(out, label, &x0, &rec.log, &xf, budget, &replay);
    stats.push(st);
}

pub fn run(out: &mut Out, seed: u64, tier: &str) {
    let mut rng = Rng::new(seed ^ 0x5d5d);
    let mut stats = vec![];
    let lib = library();
    let n_real = if tier == "thorough" { 60 } else { 14 };
    for r in 0..n_real {
        let m = if r < lib.len().min(n_real / 2) { lib[r].clone() } else { let m = random_mol(&mut rng); distort(&m, 0.1, &mut rng) };
        if m.min_distance() < 0.5 || m.n() > 16 { continue; }
        let mol = match catch(|| m.build()) { Some(x) => x, None => continue };
        for kind in ["uff", "rb"] {
            if let Some(ff) = FF::build(kind, &mol) {
                run_one(out, &format!("{}:{}", kind, m.name), &m, Inner::Real(ff), if r % 3 == 2 { Some(20) } else { None }, &mut stats);
            }
        }
    }
    // synthetic fields on a small molecule
    let base = lib[0].clone();
    let x0: Vec<f64> = base.xs.iter().flat_map(|p| p.to_vec()).collect();
    for k in [1.0, 10.0, 1e3, 1.9e4, 2.1e4, 1e5, 1e7] {
        let target: Vec<f64> = x0.iter().map(|v| v + 0.3).collect();
        run_one(out, &format!("quadratic k={}", k), &base, Inner::Quadratic { k, x0: target }, None, &mut stats);
    }
    run_one(out, "rising-energy", &base, Inner::RisingEnergy { calls: 0, g: 1.0 }, Some(40), &mut stats);
    run_one(out, "rising-energy-500", &base, Inner::RisingEnergy { calls: 0, g: 1.0 }, None, &mut stats);
    run_one(out, "flat-energy", &base, Inner::Flat, Some(30), &mut stats);
    run_one(out, "alternating-energy", &base, Inner::Alternating { calls: 0 }, Some(60), &mut stats);
    run_one(out, "nan-energy", &base, Inner::NanEnergy, Some(12), &mut stats);
    run_one(out, "zero-gradient", &base, Inner::ZeroGrad, None, &mut stats);
    run_one(out, "stateful", &base, Inner::Stateful { calls: 0 }, Some(80), &mut stats);
    // the convergence measure on systems of different size: helium atoms on a grid (no bonds), every atom with gradient norm
    // 0.008 (< 0.01: the walk must not go on), 0.05 and 0.2 (mean above 0.01: it must), for 8, 64, 125 and 216 atoms
    for side in [2usize, 4, 5, 6] {
        let mut zs = vec![]; let mut xs = vec![];
        for a in 0..side { for b in 0..side { for c in 0..side { zs.push(2usize); xs.push([6.0 * a as f64, 6.0 * b as f64, 6.0 * c as f64]); } } }
        let grid = Mol { name: format!("he-grid-{}", side * side * side), zs, xs };
        for g in [0.008, 0.05, 0.2] {
            run_one(out, &format!("const-norm {} on {} atoms", g, grid.n()), &grid, Inner::ConstNorm { g }, Some(if side > 4 { 6 } else { 30 }), &mut stats);
        }
    }
    // walks that travel far: one enormous first step and rest afterwards (what a very short contact does), and a constant enormous
    // force for the whole budget — the answer is still "the last step taken", however far that is from the input
    for g in [1e7, 1e10, 1e13] {
        run_one(out, &format!("kick {:e}", g), &base, Inner::Kick { calls: 0, g }, None, &mut stats);
        run_one(out, &format!("const-norm {:e}", g), &base, Inner::ConstNorm { g }, None, &mut stats);
        run_one(out, &format!("const-norm {:e} budget 7", g), &base, Inner::ConstNorm { g }, Some(7), &mut stats);
    }
    // the same with the real force fields: starts with a contact far inside the repulsive wall (outside the energy clause's domain,
    // inside this property's: any force field, any start)
    let mut shorts: Vec<Mol> = vec![
        named("he2-0.15", &[("He", 0.0, 0.0, 0.0), ("He", 0.15, 0.0, 0.0)]),
        named("ar2-0.3", &[("Ar", 0.0, 0.0, 0.0), ("Ar", 0.0, 0.3, 0.0)]),
    ];
    { let mut m = lib[3].clone(); if let Some(h) = (0..m.n()).find(|i| m.zs[*i] == 1) { let p = m.xs[h]; m.zs.push(1); m.xs.push([p[0] + 0.03, p[1] + 0.03, p[2] - 0.03]); m.name = format!("{}+H-0.05-from-H{}", m.name, h); shorts.push(m); } }
    for m in shorts.iter() {
        let mol = match catch(|| m.build()) { Some(x) => x, None => continue };
        for kind in ["uff", "rb"] { if let Some(ff) = FF::build(kind, &mol) { run_one(out, &format!("{}:{}", kind, m.name), m, Inner::Real(ff), None, &mut stats); } }
    }
    // the budget on large systems, through Molecule::optimise (the default budget) and through an explicit one: 343 and 729 atoms
    for side in [7usize, 9] {
        let mut zs = vec![]; let mut xs = vec![];
        for a in 0..side { for b in 0..side { for c in 0..side { zs.push(18usize); xs.push([7.0 * a as f64, 7.0 * b as f64, 7.0 * c as f64]); } } }
        let grid = Mol { name: format!("ar-grid-{}", side * side * side), zs, xs };
        run_one(out, &format!("const-norm 0.5 on {} atoms, default budget", grid.n()), &grid, Inner::ConstNorm { g: 0.5 }, None, &mut stats);
        if side == 7 { run_one(out, &format!("const-norm 0.5 on {} atoms, budget 12", grid.n()), &grid, Inner::ConstNorm { g: 0.5 }, Some(12), &mut stats); }
    }
    // what the changed source lines mention: systems of that many atoms (default budget), budgets of that many steps, and walks whose
    // single step or total travel is about that far (a kick or a constant force sized so that alpha * g is half / twice the value)
    let h = hints();
    for n in h.atom_counts(9, 1500) {
        let grid = Mol { name: format!("hinted-grid-{}", n), zs: vec![18; n], xs: lattice_points(n, 7.0) };
        run_one(out, &format!("const-norm 0.5 on {} atoms (hinted size), default budget", n), &grid, Inner::ConstNorm { g: 0.5 }, None, &mut stats);
    }
    for &k in h.ints.iter().filter(|k| **k <= 3000).take(4) {
        run_one(out, &format!("flat-energy budget {} (hinted)", k), &base, Inner::Flat, Some(k), &mut stats);
        run_one(out, &format!("const-norm 0.3 budget {} (hinted)", k + 1), &base, Inner::ConstNorm { g: 0.3 }, Some(k + 1), &mut stats);
    }
    for mag in h.magnitudes().into_iter().filter(|m| *m >= 1.0).take(6) {
        for f in [0.5, 2.0] {
            run_one(out, &format!("kick sized for a step of {:e} A (hinted)", f * mag), &base, Inner::Kick { calls: 0, g: f * mag / 1e-4 }, None, &mut stats);
            run_one(out, &format!("const-norm sized for a total travel of {:e} A (hinted)", f * mag), &base, Inner::ConstNorm { g: f * mag / (500.0 * 1e-4) }, None, &mut stats);
        }
    }
    // starts with coincident atoms (all atoms at the origin, as a molecule made from symbols alone; one repeated position): the walk
    // starts at the input geometry like any other, whatever the force field answers there
    let origin = Mol { name: "water-at-origin".into(), zs: base.zs.clone(), xs: vec![[0.0; 3]; base.n()] };
    let mut twin = lib[3].clone(); if twin.n() >= 3 { twin.xs[2] = twin.xs[1]; } twin.name = format!("{}-with-a-repeated-position", twin.name);
    let mut twins2 = Mol { name: "two-coincident-pairs".into(), zs: vec![18, 18, 18, 18, 18], xs: vec![[0.0, 0.0, 0.0], [0.0, 0.0, 0.0], [4.0, 0.0, 0.0], [4.0, 0.0, 0.0], [0.0, 5.0, 0.0]] };
    twins2.name = "two-coincident-pairs".into();
    for start in [&origin, &twin, &twins2] {
        run_one(out, &format!("rising-energy on {}", start.name), start, Inner::RisingEnergy { calls: 0, g: 1.0 }, None, &mut stats);
        run_one(out, &format!("flat-energy on {}", start.name), start, Inner::Flat, Some(25), &mut stats);
        run_one(out, &format!("const-norm 0.4 on {}", start.name), start, Inner::ConstNorm { g: 0.4 }, None, &mut stats);
        if let Some(mol) = catch(|| start.build()) { for kind in ["uff", "rb"] { if let Some(ff) = FF::build(kind, &mol) { run_one(out, &format!("{}:{}", kind, start.name), start, Inner::Real(ff), None, &mut stats); } } }
    }
    // slow answers: 500 steps are 500 steps however long they take (thorough: a 35 s run; with hints: runs of about 1.3 x each small
    // integer the changed lines mention, read as seconds, at most 75 s)
    if tier == "thorough" { run_one(out, "slow 70 ms per gradient, default budget", &base, Inner::Slow { ms: 70 }, None, &mut stats); }
    for &k in hints().ints.iter().filter(|k| **k >= 2 && **k <= 57).take(2) {
        run_one(out, &format!("slow force field: a run of about {} s (hinted)", (k as f64 * 1.3) as u64), &base, Inner::Slow { ms: ((k as f64 * 1300.0) / 500.0).ceil() as u64 }, None, &mut stats);
    }
    run_one(out, "budget-0", &base, Inner::Flat, Some(0), &mut stats);
    run_one(out, "budget-1", &base, Inner::Flat, Some(1), &mut stats);
    for _ in 0..(if tier == "thorough" { 40 } else { 8 }) {
        let m = random_mol(&mut rng);
        if m.n() > 12 { continue; }
        let k = 10f64.powf(rng.range(0.0, 6.0));
        let target: Vec<f64> = m.xs.iter().flat_map(|p| p.to_vec()).map(|v| v + rng.range(-0.5, 0.5)).collect();
        run_one(out, &format!("quadratic k={:.3e} on {}", k, m.name), &m, Inner::Quadratic { k, x0: target }, Some(10 + rng.below(200)), &mut stats);
    }
    out.stat("runs", stats.len());
    out.stat("gradient_requests_total", stats.iter().map(|s| s.0).sum::<usize>());
    out.stat("runs_with_restarts", stats.iter().filter(|s| s.1 > 0).count());
    out.stat("runs_hitting_budget", stats.iter().filter(|s| s.0 == 500).count());
    out.sample("quadratic well k=1e5 on water: several halvings, restarts from the input geometry");
}
