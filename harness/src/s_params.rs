//! C12: the private parameter methods on every pair of the 127 atom types and every bond order, through the hook;
//! and the published equations evaluated independently on each real term of built force fields.
use crate::util::*;
use optrs::verif::*;

pub fn run(out: &mut Out, seed: u64, tier: &str) {
    let mut rng = Rng::new(seed ^ 0x1212);
    let table = atom_type_table();
    let n = table.len();
    let orders = [(2usize, 1.0f64), (3, 1.5), (4, 2.0), (6, 3.0)];
    let (mut cases, mut panics) = (0usize, 0usize);
    let stride = if tier == "thorough" { 1 } else { 1 };
    for ti in (0..n).step_by(stride) {
        for tj in 0..n {
            for (o2, bo) in orders.iter() {
                if tier != "thorough" && (ti * 131 + tj * 17 + o2) % 4 != (seed % 4) as usize { continue; }
                let ff = UFF::verif_from_type_indices(&[ti, tj]);
                let r = catch(|| {
                    let r0 = ff.verif_r0(0, 1, *bo);
                    (r0, ff.verif_r_bo(0, 1, *bo), ff.verif_r_en(0, 1), ff.verif_k_ij(0, 1, r0))
                });
                cases += 1;
                match r {
                    None => { panics += 1; out.case(&format!("r0 {} {} {}", ti, tj, o2), "panic"); }
                    Some((r0, rbo, ren, kij)) => {
                        out.case(&format!("r0 {} {} {}", ti, tj, o2), &format!("{} {} {} {}", hx(r0), hx(rbo), hx(ren), hx(kij)));
                        // the published equations, written independently
                        let (a, b) = (&table[ti], &table[tj]);
                        let (chi_i, chi_j) = (a.gmp_electronegativity, b.gmp_electronegativity);
                        let want_r0 = a.r + b.r - 0.1332 * (a.r + b.r) * bo.ln()
                            + a.r * b.r * (chi_i.sqrt() - chi_j.sqrt()).powi(2) / (chi_i * a.r + chi_j * b.r);
                        let want_k = 664.12 * a.z_eff * b.z_eff / want_r0.powi(3);
                        if !((r0 - want_r0).abs() <= 1e-12 * want_r0.abs().max(1.0)) {
                            out.oracle_fail(&format!("rest length of {}-{} order {} is {} but the published equation gives {}", a.name, b.name, bo, r0, want_r0), &format!("r0 {} {} {}", ti, tj, o2));
                        }
                        if !((kij - want_k).abs() <= 1e-10 * want_k.abs().max(1.0)) {
                            out.oracle_fail(&format!("stretch force constant of {}-{} order {} is {} but 664.12 Zi Zj / r0^3 = {}", a.name, b.name, bo, kij, want_k), &format!("r0 {} {} {}", ti, tj, o2));
                        }
                    }
                }
            }
        }
    }
    // bend force constants on random triples with plausible rest lengths
    let n_tri = if tier == "thorough" { 40000 } else { 6000 };
    for _ in 0..n_tri {
        let (ti, tj, tk) = (rng.below(n), rng.below(n), rng.below(n));
        let (rij, rjk) = (rng.range(0.6, 3.0), rng.range(0.6, 3.0));
        let mut ff = UFF::verif_from_type_indices(&[ti, tj, tk]);
        let k = ff.verif_k_ijk(0, 1, 2, rij, rjk);
        cases += 1;
        out.case(&format!("kijk {} {} {} {} {}", ti, tj, tk, hx(rij), hx(rjk)), &hx(k));
        let th = table[tj].theta;
        let rik = (rij * rij + rjk * rjk - 2.0 * rij * rjk * th.cos()).sqrt();
        let want = 664.12 * table[ti].z_eff * table[tk].z_eff * (rij * rjk * (1.0 - th.cos().powi(2)) - rik * rik * th.cos()) / (rij * rjk * rik.powi(5));
        if !((k - want).abs() <= 1e-9 * want.abs().max(1e-6)) {
            out.oracle_fail(&format!("bend force constant for types {}-{}-{} is {} but the published equation gives {}", table[ti].name, table[tj].name, table[tk].name, k, want),
                &format!("kijk {} {} {} {} {}", ti, tj, tk, rij, rjk));
        }
    }
    out.stat("evaluations", cases);
    out.stat("aborts_on_garbled_symbols", panics);
    out.sample("r0 7 20 3 (C_3 with O_3, aromatic order)");
}
