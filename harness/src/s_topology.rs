//! C10: angles / dihedrals / impropers / non-bonded pairs from a given bond graph.
//! Exhaustive over all labelled graphs on n ≤ 5 (quick) or n ≤ 6 (thorough) atoms, random graphs beyond.
use crate::canon::*;
use crate::util::*;
use optrs::verif::*;

/// The elements play no part in the property (the lists are the bond graph's, whatever the atoms are), so they are
/// varied: every third molecule is all carbon, the others draw from a palette with monovalent, noble-gas, metal and
/// heavy elements — a bond graph may well give such an atom several neighbours through the bond-order interface.
pub const PALETTE: [&str; 16] = ["H", "C", "F", "N", "Li", "O", "He", "Cl", "Na", "B", "Fe", "Xe", "Pd", "K", "U", "Og"];
pub fn palette_symbols(n: usize, salt: usize) -> Vec<&'static str> {
    (0..n).map(|i| if salt % 3 == 0 { "C" } else { PALETTE[(i * 7 + salt * 5 + (salt / 16)) % PALETTE.len()] }).collect()
}
fn molecule(n: usize, salt: usize) -> Molecule {
    Molecule::from_atomic_symbols(&palette_symbols(n, salt))
}

fn one(out: &mut Out, n: usize, bonds: &[(usize, usize, f64)], count: &mut usize, nontrivial: &mut usize) {
    let syms = palette_symbols(n, *count);
    one_of(out, &syms, bonds, count, nontrivial)
}

/// the case for a graph on the given atoms
fn one_of(out: &mut Out, syms: &[&'static str], bonds: &[(usize, usize, f64)], count: &mut usize, nontrivial: &mut usize) {
    let n = syms.len();
    let mut mol = Molecule::from_atomic_symbols(syms);
    install_bonds(&mut mol, bonds);
    let got = connectivity(&mol);
    let text = canon_conn(&got);
    out.case(&format!("graph {} {}", n, bonds_text(bonds)), &text);
    let want = canon_conn(&reference_conn(n, bonds));
    // the reference lists pairs in the same loop order; compare everything
    if text != want {
        out.oracle_fail(
            &format!("connectivity is not the bond graph's: got {} want {}", text, want),
            &format!("graph {} {} on atoms {}", n, bonds_text(bonds), syms.join(",")),
        );
    }
    *count += 1;
    if !got.angles.is_empty() { *nontrivial += 1; }
    // the same graph through the bond-order matrix interface, on a molecule that already carries another graph's lists
    // (a chain, a star or the previous case's graph): the lists must be this graph's, nothing left over
    if *count % 3 == 0 && n >= 2 {
        let mut w = Wrapper::from_atomic_symbols(syms);
        // the molecule may already hold coordinates when the table arrives (read from a file, set by a script): exactly on a line, on
        // a planar zig-zag, or nowhere in particular — the lists are the table's whatever the geometry
        match *count % 12 {
            3 => { let _ = crate::s_matrix::panic_kind(|| w.set_coordinates((0..n).flat_map(|i| [1.2 * i as f64, 0.0, 0.0]).collect())); }
            6 => { let _ = crate::s_matrix::panic_kind(|| w.set_coordinates((0..n).flat_map(|i| [1.2 * i as f64, if i % 2 == 0 { 0.0 } else { 0.7 }, 0.0]).collect())); }
            9 => { let _ = crate::s_matrix::panic_kind(|| w.set_coordinates((0..n).flat_map(|i| [((i * 37 + 11) % 17) as f64 * 0.61, ((i * 23 + 5) % 13) as f64 * 0.83, ((i * 7 + 3) % 11) as f64 * 0.97]).collect())); }
            _ => {}
        }
        let mut prev = vec![0.0; n * n];
        match *count % 9 { 0 => { for i in 0..(n - 1) { prev[i * n + i + 1] = 1.0; } }
                           3 => { for j in 1..n { prev[j] = 2.0; } }
                           _ => { for i in 0..n { for j in (i + 1)..n { if (i + j + *count) % 2 == 0 { prev[i * n + j] = 1.0; } } } } }
        if crate::s_matrix::panic_kind(|| w.set_bond_orders(prev.clone())).is_some() { return; }
        let mut mat = vec![0.0; n * n];
        let mut uniq: Vec<(usize, usize, f64)> = vec![];
        for (i, j, o) in bonds { let (a, b) = if i < j { (*i, *j) } else { (*j, *i) }; if mat[a * n + b] == 0.0 { mat[a * n + b] = *o; uniq.push((a, b, *o)); } }
        if crate::s_matrix::panic_kind(|| w.set_bond_orders(mat.clone())).is_some() { return; }
        // ... and, for a few small graphs, once more after the 3-D build: the build may move atoms, the lists stay the graph's
        if *count % 30 == 0 && n <= 6 && !uniq.is_empty() {
            if crate::s_matrix::panic_kind(|| w.build_3d()).is_none() {
                let got3 = canon_conn(&connectivity(w.molecule()));
                let want3 = canon_conn(&reference_conn(n, &uniq));
                if got3 != want3 {
                    out.oracle_fail(&format!("after build_3d the connectivity is not the bond graph's: got {} want {}", got3, want3),
                                    &format!("graph {} {} (set through set_bond_orders, then build_3d)", n, bonds_text(&uniq)));
                }
            }
            return;
        }
        let got2 = canon_conn(&connectivity(w.molecule()));
        let want2 = canon_conn(&reference_conn(n, &uniq));
        if got2 != want2 {
            out.oracle_fail(&format!("set through the bond-order matrix on a molecule that already had bonds, the connectivity is not the bond graph's: got {} want {}", got2, want2),
                            &format!("graph {} {} on atoms {} (set after another graph through set_bond_orders)", n, bonds_text(&uniq), syms.join(",")));
        }
    }
}

pub fn run(out: &mut Out, seed: u64, tier: &str) {
    let mut rng = Rng::new(seed ^ 0x70b0);
    let mut count = 0;
    let mut nontrivial = 0;
    let max_exh = if tier == "thorough" { 6 } else { 5 };
    for n in 0..=max_exh {
        let pairs: Vec<(usize, usize)> = (0..n).flat_map(|i| ((i + 1)..n).map(move |j| (i, j))).collect();
        let m = pairs.len();
        for mask in 0u32..(1u32 << m) {
            let mut bonds: Vec<(usize, usize, f64)> = pairs.iter().enumerate()
                .filter(|(b, _)| mask >> b & 1 == 1)
                .map(|(_, (i, j))| if (i + j + mask as usize) % 2 == 0 { (*i, *j, 1.0) } else { (*j, *i, 1.0) })
                .collect();
            // vary the insertion order deterministically
            if mask % 3 == 1 { bonds.reverse(); }
            one(out, n, &bonds, &mut count, &mut nontrivial);
        }
    }
    out.stat("exhaustive_up_to_n", max_exh);
    // random graphs: sparse, dense, stars, rings, fused rings, disconnected
    let n_random = if tier == "thorough" { 1500 } else { 150 };
    for r in 0..n_random {
        let n = 4 + rng.below(if tier == "thorough" { 37 } else { 20 });
        let mut bonds: Vec<(usize, usize, f64)> = vec![];
        match r % 5 {
            0 => { let p = if n > 10 { rng.range(1.0, 4.5) / n as f64 } else { rng.range(0.05, 0.5) }; for i in 0..n { for j in (i + 1)..n { if rng.chance(p) { bonds.push((i, j, 1.0)); } } } }
            1 => { for j in 1..n.min(13) { bonds.push((0, j, 1.0)); } }
            2 => { for i in 0..n { bonds.push((i, (i + 1) % n, 1.5)); } if n > 6 { bonds.push((0, n / 2, 1.0)); } }
            3 => { for i in 1..n { bonds.push((rng.below(i), i, *rng.pick(&[1.0, 2.0, 3.0]))); } }
            _ => { let h = n / 2; for i in 1..h { bonds.push((i - 1, i, 1.0)); } for i in (h + 1)..n { bonds.push((i, i - 1, 2.0)); }
                   if h >= 3 { bonds.push((0, 2, 1.0)); } }
        }
        rng.shuffle(&mut bonds);
        // occasionally offer a duplicate in the other direction: the set must keep one
        if !bonds.is_empty() && rng.chance(0.3) { let b = bonds[0]; bonds.push((b.1, b.0, b.2)); }
        one(out, n, &bonds, &mut count, &mut nontrivial);
    }
    // centres of very high degree (a bond table may give an atom any number of neighbours: an endohedral atom bonded to every cage
    // atom, a bad table): stars of 15-65 leaves, alone and with a tail
    for deg in [15usize, 16, 17, 18, 20, 31, 32, 33, 64, 65] {
        if tier != "thorough" && deg > 33 { continue; }
        let star: Vec<(usize, usize, f64)> = (1..=deg).map(|j| (0, j, 1.0)).collect();
        one(out, deg + 1, &star, &mut count, &mut nontrivial);
        let mut tailed: Vec<(usize, usize, f64)> = (1..=deg).map(|j| (j, 0, 1.0)).collect(); tailed.push((deg, deg + 1, 2.0)); tailed.push((deg + 1, deg + 2, 1.0));
        one(out, deg + 3, &tailed, &mut count, &mut nontrivial);
    }
    // what the changed source lines mention: stars of that many leaves, chains and rings of that many atoms
    let h = hints();
    for &k in h.ints.iter().filter(|k| **k >= 3 && **k <= 64).take(5) {
        for deg in [k - 1, k, k + 1] {
            let star: Vec<(usize, usize, f64)> = (1..=deg).map(|j| (0, j, 1.0)).collect();
            one(out, deg + 1, &star, &mut count, &mut nontrivial);
        }
        if k <= 64 {
            for n in [k - 1, k, k + 1] {
                let chain: Vec<(usize, usize, f64)> = (1..n).map(|j| (j - 1, j, 1.0)).collect();
                one(out, n, &chain, &mut count, &mut nontrivial);
                let mut ring = chain.clone(); ring.push((n - 1, 0, 1.0));
                one(out, n, &ring, &mut count, &mut nontrivial);
            }
        }
    }
    // bridged and multicentre motifs with the elements that occur in them: an atom of one element between two of another (the
    // three-atom path X-Y-X: bifluoride, a hydride or halide bridge, a bridging carbonyl carbon), and the four-ring X-Y-X-Y with two
    // terminal hydrogens on each X (diborane, Al2Cl6-like cores). A bond table may say such things whatever valence rules say, and the
    // lists are still the graph's
    let chem: Vec<&'static str> = if tier == "thorough" { vec!["H", "Li", "Be", "B", "C", "N", "O", "F", "Na", "Mg", "Al", "Si", "P", "S", "Cl", "K", "Ca", "Ti", "Fe", "Cu", "Zn", "Br", "Pd", "Pt", "I"] }
                                  else { vec!["H", "Li", "B", "C", "N", "O", "F", "Al", "Si", "Cl", "Fe", "Pd"] };
    let mut bridged = 0usize;
    for x in chem.iter() { for y in chem.iter() {
        one_of(out, &[*x, *y, *x], &[(0, 1, 1.0), (1, 2, 1.0)], &mut count, &mut nontrivial);
        one_of(out, &[*x, *x, *y, *y, "H", "H", "H", "H"], &[(0, 2, 1.0), (2, 1, 1.0), (1, 3, 1.0), (3, 0, 1.0), (0, 4, 1.0), (0, 5, 1.0), (1, 6, 1.0), (1, 7, 1.0)], &mut count, &mut nontrivial);
        bridged += 2;
    } }
    out.stat("bridged_motifs", bridged);
    // graphs that come from perception, with the atoms at real coordinates (the lists must not depend on the geometry the bonds
    // were perceived from: linear molecules and chains on an axis, planar rings, library and random molecules)
    let mut perceived = 0usize;
    let mut real: Vec<crate::gen::Mol> = crate::gen::library();
    for zs in [vec![1usize, 6, 6, 1], vec![1, 6, 7], vec![8, 6, 8], vec![1, 6, 6, 6, 6, 1], vec![6, 6, 6, 6], vec![17, 6, 6, 6, 7]] { real.push(crate::gen::linear_chain(&zs, 0.9)); }
    for _ in 0..(if tier == "thorough" { 300 } else { 40 }) { real.push(crate::gen::random_mol(&mut rng)); }
    // extended molecules and far-apart fragments: every unordered pair is a bond or a non-bonded pair however far apart the atoms are
    real.push(crate::gen::alkane(12)); real.push(crate::gen::alkane(if tier == "thorough" { 24 } else { 16 }));
    let mut seps: Vec<f64> = vec![13.0, 30.0, 250.0, 1.0e4];
    for mag in hints().magnitudes().into_iter().filter(|m| *m >= 3.0 && *m < 1e7).take(4) { seps.push(mag * 0.98); seps.push(mag * 1.05); }
    for sep in seps {
        let a = real[rng.below(8)].clone(); let b = real[rng.below(8)].clone();
        real.push(crate::gen::union(&a, &crate::gen::moved(&b, &crate::gen::random_rotation(&mut rng), [sep, 0.3 * sep, -0.2 * sep])));
    }
    for m in real.iter() {
        if m.n() > 80 || m.min_distance() < 0.5 { continue; }
        let mol = match catch(|| m.build()) { Some(x) => x, None => continue };
        let got = connectivity(&mol);
        let bonds = got.bonds.clone();
        let text = canon_conn(&got);
        out.case(&format!("graph {} {}", m.n(), bonds_text(&bonds)), &text);
        let want = canon_conn(&reference_conn(m.n(), &bonds));
        if text != want {
            out.oracle_fail(&format!("connectivity perceived from coordinates is not its own bond graph's: got {} want {}", text, want), &m.xyz_text());
        }
        perceived += 1;
    }
    out.stat("graphs_from_perception_at_real_coordinates", perceived);
    out.stat("graphs", count);
    out.stat("graphs_with_angles", nontrivial);
    out.sample("graph 4 0-1:2,1-2:2,2-0:2,2-3:2  (triangle with a tail)");
}
