//! C09 (and the perception half of C08/C17/C18): bond perception from coordinates.
use crate::canon::*;
use crate::gen::*;
use crate::util::*;
use optrs::verif::*;

fn dist(m: &Mol, i: usize, j: usize) -> f64 {
    ((m.xs[i][0] - m.xs[j][0]).powi(2) + (m.xs[i][1] - m.xs[j][1]).powi(2) + (m.xs[i][2] - m.xs[j][2]).powi(2)).sqrt()
}

/// The property's four predicates on the implementation's bonds, with a clearance so that rounding at the
/// threshold is never reported
fn oracle(out: &mut Out, m: &Mol, conn: &Conn) {
    let n = m.n();
    let input = format!("perceive {}", m.line());
    let cap = |a: usize| AtomicNumber::from_integer(m.zs[a]).unwrap().maximal_valence();
    let limit = |i: usize, j: usize| 1.3 * (radius(m.zs[i]) + radius(m.zs[j]));
    let mut degree = vec![0usize; n];
    let mut seen = std::collections::BTreeSet::new();
    for (i, j, _) in &conn.bonds {
        if i == j { out.oracle_fail("bond joins an atom to itself", &input); }
        if !(dist(m, *i, *j) < limit(*i, *j) * (1.0 + 1e-12)) {
            out.oracle_fail(&format!("bond {}-{} longer than 1.3 x sum of radii ({} vs {})", i, j, dist(m, *i, *j), limit(*i, *j)), &input);
        }
        if !seen.insert(pair_key(*i, *j)) { out.oracle_fail(&format!("pair {}-{} bonded twice", i, j), &input); }
        degree[*i] += 1; degree[*j] += 1;
    }
    for a in 0..n {
        if degree[a] > cap(a) { out.oracle_fail(&format!("atom {} has {} bonds, maximal valence {}", a, degree[a], cap(a)), &input); }
    }
    for i in 0..n { for j in 0..i {
        let r = dist(m, i, j);
        if r > 1e-7 && r < limit(i, j) * (1.0 - 1e-12) && !seen.contains(&pair_key(i, j)) && degree[i] < cap(i) && degree[j] < cap(j) {
            out.oracle_fail(&format!("pair {}-{} within bonding distance left unbonded although neither atom is saturated", i, j), &input);
        }
    } }
}

pub fn one(out: &mut Out, m: &Mol, stats: &mut (usize, usize, usize)) {
    let input = format!("perceive {}", m.line());
    let r = catch(|| { let mol = m.build(); connectivity(&mol) });
    match r {
        None => { out.case(&input, "panic"); }
        Some(conn) => {
            out.case(&input, &canon_conn(&conn));
            oracle(out, m, &conn);
            // perceiving again from the same coordinates gives the same bonds
            let again = catch(|| { let mut mol = m.build(); regenerate_connectivity(&mut mol); perceive_bonds(&mut mol); connectivity(&mol) });
            if let Some(c2) = again {
                let b = |c: &Conn| { let mut c = Conn { bonds: c.bonds.clone(), ..Default::default() }; c.nb_pairs.clear(); canon_conn(&c) };
                if b(&c2) != b(&conn) { out.oracle_fail("perceiving bonds again from the same coordinates changed them", &input); }
            }
            stats.0 += 1;
            if !conn.bonds.is_empty() { stats.1 += 1; }
            let n = m.n();
            let cap = |a: usize| AtomicNumber::from_integer(m.zs[a]).unwrap().maximal_valence();
            let mut degree = vec![0usize; n];
            for (i, j, _) in &conn.bonds { degree[*i] += 1; degree[*j] += 1; }
            // a case where the cap decided something
            let crowded = (0..n).any(|i| (0..n).any(|j| i != j && dist(m, i, j) < 1.3 * (radius(m.zs[i]) + radius(m.zs[j])) && dist(m, i, j) > 1e-8
                && !conn.bonds.iter().any(|(a, b, _)| pair_key(*a, *b) == pair_key(i, j))));
            let _ = (degree, cap);
            if crowded { stats.2 += 1; }
        }
    }
}

pub fn run(out: &mut Out, seed: u64, tier: &str) {
    let mut rng = Rng::new(seed ^ 0x9e3c);
    let mut stats = (0usize, 0usize, 0usize);
    for m in library() { one(out, &m, &mut stats); }
    let n_random = if tier == "thorough" { 6000 } else { 700 };
    for r in 0..n_random {
        let m = match r % 7 {
            0 => {
                // crowded cluster: more candidates than valences
                let n = 6 + rng.below(if tier == "thorough" { 30 } else { 14 });
                let zs: Vec<usize> = (0..n).map(|_| if rng.chance(0.8) { *rng.pick(&[1usize, 6, 7, 8, 9, 2, 10, 17, 18]) } else { 1 + rng.below(118) }).collect();
                let xs = (0..n).map(|_| [rng.range(0.0, 3.0), rng.range(0.0, 3.0), rng.range(0.0, 3.0)]).collect();
                Mol { name: "crowded".into(), zs, xs }
            }
            1 => {
                // lattice points: exact ties in distance
                let n = 4 + rng.below(12);
                let a = *rng.pick(&[0.75, 1.0, 1.25, 1.5]);
                let zs: Vec<usize> = (0..n).map(|_| *rng.pick(&[1usize, 6, 8, 7, 14])).collect();
                let xs = (0..n).map(|_| [a * rng.below(3) as f64, a * rng.below(3) as f64, a * rng.below(3) as f64]).collect();
                Mol { name: "lattice".into(), zs, xs }  // may contain coincident atoms
            }
            2 => {
                // a chain stretched around the 1.3 threshold
                let n = 2 + rng.below(5);
                let zs: Vec<usize> = (0..n).map(|_| 1 + rng.below(118)).collect();
                linear_chain(&zs, *rng.pick(&[1.29, 1.2999, 1.3001, 1.31, 1.0]))
            }
            3 => { let m = random_mol(&mut rng); distort(&m, rng.range(0.0, 0.3), &mut rng) }
            4 => { let m = random_mol(&mut rng); let r = random_rotation(&mut rng); moved(&m, &r, [rng.range(-50., 50.), rng.range(-50., 50.), rng.range(-50., 50.)]) }
            5 => { let a = random_mol(&mut rng); let b = random_mol(&mut rng); let r = random_rotation(&mut rng); union(&a, &moved(&b, &r, [rng.range(2.0, 8.0), rng.range(-2., 2.), 0.3])) }
            _ => random_mol(&mut rng),
        };
        one(out, &m, &mut stats);
    }
    // pairs exactly ON the threshold: two atoms on a coordinate axis, separated by 1.3 x (r_i + r_j) as the code computes it, and by
    // the doubles just below and just above. On an axis the distance is exact, so the rule "closer than" is checked without clearance.
    let n_pairs = if tier == "thorough" { 118 * 6 } else { 118 };
    for k in 0..n_pairs {
        let (zi, zj) = if k < 118 { (k + 1, k + 1) } else { (1 + rng.below(118), 1 + rng.below(118)) };
        let limit = 1.3 * (radius(zi) + radius(zj));
        for (which, r) in [("below", f64::from_bits(limit.to_bits() - 1)), ("on", limit), ("above", f64::from_bits(limit.to_bits() + 1))] {
            let axis = k % 3;
            let mut p = [0.0f64; 3]; p[axis] = r;
            let m = Mol { name: format!("threshold-{}", which), zs: vec![zi, zj], xs: vec![[0.0, 0.0, 0.0], p] };
            one(out, &m, &mut stats);
            if let Some(conn) = catch(|| { let mol = m.build(); connectivity(&mol) }) {
                let cap_ok = AtomicNumber::from_integer(zi).unwrap().maximal_valence() > 0 && AtomicNumber::from_integer(zj).unwrap().maximal_valence() > 0;
                let bonded = !conn.bonds.is_empty();
                if bonded && !(r < limit) { out.oracle_fail(&format!("two atoms exactly {} A apart are bonded although 1.3 x the sum of their radii is {} A (not closer than it)", r, limit), &format!("perceive {}", m.line())); }
                if !bonded && r < limit && cap_ok { out.oracle_fail(&format!("two atoms {} A apart, closer than 1.3 x the sum of their radii ({} A), are not bonded", r, limit), &format!("perceive {}", m.line())); }
            }
        }
    }
    // pairs that almost coincide (1e-9 .. 1e-3 A apart: two records of one atom that differ in the last written digits, a dummy atom
    // placed on a real one), alone and next to a third atom, at the origin and far from it: anything at least 1e-8 A apart and inside
    // the threshold is a candidate bond like any other
    for (k, sep) in [1e-9f64, 9e-9, 1.1e-8, 2e-8, 1e-7, 1e-6, 3e-5, 9e-5, 1.1e-4, 1e-3].iter().enumerate() {
        for (zi, zj) in [(1usize, 1usize), (6, 1), (8, 8), (6, 6), (17, 1)] {
            for off in [0.0f64, 5.0, 1.0e3, 134217728.0] {
                if tier != "thorough" && (k + zi + off as usize) % 2 == 1 { continue; }
                let mut p = [off, off * 0.5, -off]; let q0 = p; p[k % 3] += *sep;
                one(out, &Mol { name: format!("near-coincident-{:e}", sep), zs: vec![zi, zj], xs: vec![q0, p] }, &mut stats);
                one(out, &Mol { name: format!("near-coincident-{:e}+1", sep), zs: vec![zi, zj, 6], xs: vec![q0, p, [q0[0] + 1.1, q0[1], q0[2]]] }, &mut stats);
            }
        }
    }
    // what the changed source lines mention: pairs of atoms that far apart (and a hair either side), crowded clusters of that many atoms
    let h = hints();
    for mag in h.magnitudes().into_iter().filter(|m| *m < 1e6).take(9) {
        for (zi, zj) in [(1usize, 1usize), (6, 1), (6, 6), (8, 1), (17, 17), (26, 8)] {
            for f in [1.0 - 1e-9, 1.0, 1.0 + 1e-9, 0.5, 2.0] {
                for off in [0.0f64, 1000.0] {
                    let d = mag * f;
                    one(out, &Mol { name: format!("hinted-distance-{:e}", d), zs: vec![zi, zj], xs: vec![[off, off, off], [off + d * 0.6, off + d * 0.8, off]] }, &mut stats);
                    one(out, &Mol { name: format!("hinted-distance-{:e}-axis", d), zs: vec![zi, zj, 1], xs: vec![[off, off, off], [off, off + d, off], [off - 0.9, off, off]] }, &mut stats);
                }
            }
        }
    }
    for n in h.atom_counts(8, 400).into_iter().take(4) {
        let zs: Vec<usize> = (0..n).map(|_| *rng.pick(&[1usize, 6, 7, 8, 9, 17])).collect();
        let side = (n as f64).cbrt() * 1.1;
        let xs = (0..n).map(|_| [rng.range(0.0, side), rng.range(0.0, side), rng.range(0.0, side)]).collect();
        one(out, &Mol { name: format!("hinted-cluster-{}", n), zs, xs }, &mut stats);
    }
    out.stat("molecules", stats.0);
    out.stat("with_bonds", stats.1);
    out.stat("with_a_candidate_pair_left_unbonded", stats.2);
    out.sample(&format!("water: {}", library()[0].line()));
}
