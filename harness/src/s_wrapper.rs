//! C17: op sequences through the Python wrapper (driven from Rust via the hook); scripted vs file construction.
use crate::canon::*;
use crate::gen::*;
use crate::s_matrix::panic_kind;
use crate::s_sd::fnv;
use crate::util::*;
use optrs::verif::*;

fn state(w: &Wrapper) -> String {
    let mol = w.molecule();
    let xs: Vec<f64> = mol.coordinates.iter().flat_map(|p| [p.x, p.y, p.z]).collect();
    format!("{} X:{:016x}", canon_conn(&connectivity(mol)), fnv(&xs))
}

fn hexs(v: &[f64]) -> String { if v.is_empty() { "-".into() } else { v.iter().map(|x| hx(*x)).collect::<Vec<_>>().join(" ") } }

fn bond_matrix(m: &Mol, rng: &mut Rng) -> Vec<f64> {
    // a plausible symmetric matrix: bonds between atoms within 1.3 x radii sum, random supported orders
    let n = m.n();
    let mut v = vec![0.0; n * n];
    for i in 0..n { for j in (i + 1)..n {
        let d = ((m.xs[i][0] - m.xs[j][0]).powi(2) + (m.xs[i][1] - m.xs[j][1]).powi(2) + (m.xs[i][2] - m.xs[j][2]).powi(2)).sqrt();
        if d < 1.3 * (radius(m.zs[i]) + radius(m.zs[j])) && rng.chance(0.8) { let o = *rng.pick(&[1.0, 1.0, 1.5, 2.0, 3.0]); v[i * n + j] = o; v[j * n + i] = o; }
    } }
    v
}

pub fn run(out: &mut Out, seed: u64, tier: &str) {
    let mut rng = Rng::new(seed ^ 0x1717);
    let n_seq = if tier == "thorough" { 600 } else { 90 };
    let (mut n_ops, mut n_err, mut n_file) = (0usize, 0usize, 0usize);
    for s in 0..n_seq {
        // every tenth sequence runs on atoms that cannot bond at all or barely (noble gases, alone or next to one ordinary atom):
        // refusals that depend on "has no bonds" must not be confused with "cannot have bonds"
        let m = if s < 10 { library()[s].clone() } else if s % 10 == 3 {
            let pool: [&[usize]; 6] = [&[2, 2], &[18, 10, 18], &[8, 2], &[10, 10, 17], &[2, 1, 1], &[36, 54]];
            let zs: Vec<usize> = pool[rng.below(pool.len())].to_vec();
            let xs: Vec<[f64; 3]> = (0..zs.len()).map(|i| [3.5 * i as f64, 0.3 * i as f64, 0.0]).collect();
            Mol { name: "noble".into(), zs, xs }
        } else { random_mol(&mut rng) };
        if m.n() > 14 || m.n() == 0 { continue; }
        let syms = m.symbols();
        let refs: Vec<&str> = syms.iter().map(|x| x.as_str()).collect();
        let mut w = Wrapper::from_atomic_symbols(&refs);
        let mut ops: Vec<String> = vec![];
        let mut outs: Vec<String> = vec![state(&w)];
        // one sequence in six alternates set_coordinates / generate_connectivty while one pair of atoms is moved by a few 1e-9 A back and
        // forth across its bonding distance: the smallest move that changes what the connectivity must be
        let straddle = s >= 10 && s % 6 == 4 && m.n() >= 2;
        let (si, sj) = { let i = rng.below(m.n()); let mut j = rng.below(m.n()); if j == i { j = (i + 1) % m.n(); } (i, j) };
        let sdelta = { let hm: Vec<f64> = hints().magnitudes().into_iter().filter(|m| *m < 0.05).collect();
                       if !hm.is_empty() && s % 12 == 4 { hm[rng.below(hm.len())] * *rng.pick(&[0.4, 0.6, 2.0]) } else { *rng.pick(&[4e-9, 2e-9, 9e-9, 1e-10, 3e-8]) } };
        // one sequence in six alternates set_coordinates / generate_connectivty between the molecule's geometry and the same geometry
        // with two atoms of one element exchanged (two hydrogens on different carbons, the partners of an exchange reaction): bonds
        // move while every atom keeps its number of neighbours
        let like_pairs: Vec<(usize, usize)> = (0..m.n()).flat_map(|a| ((a + 1)..m.n()).map(move |b| (a, b))).filter(|(a, b)| m.zs[*a] == m.zs[*b]).collect();
        let exchange = !straddle && s % 6 == 1 && !like_pairs.is_empty();
        let (xa, xb) = if like_pairs.is_empty() { (0, 0) } else { like_pairs[rng.below(like_pairs.len())] };
        let len = if exchange { 6 } else if straddle { 6 } else { 2 + rng.below(if tier == "thorough" { 11 } else { 7 }) };
        for k in 0..len {
            let choice = if straddle || exchange { if k % 2 == 0 { 0 } else { 3 } } else if k == 0 { 0 } else { rng.below(10) };
            match choice {
                0 | 1 | 2 => {
                    // a different coordinate set each time (so stale connectivity would show)
                    let g = if exchange {
                        let mut c = m.clone();
                        if (k / 2) % 2 == 1 { c.xs.swap(xa, xb); }
                        c
                    } else if !straddle && k >= 2 && rng.chance(0.25) {
                        // the geometry the molecule holds now with two atoms of one element exchanged: partners change, every atom keeps
                        // its number of neighbours
                        let cur: Vec<[f64; 3]> = w.molecule().coordinates.iter().map(|p| [p.x, p.y, p.z]).collect();
                        let mut c = m.clone();
                        if cur.len() == m.n() && cur.iter().all(|p| p.iter().all(|v| v.is_finite())) { c.xs = cur; }
                        let pairs: Vec<(usize, usize)> = (0..m.n()).flat_map(|a| ((a + 1)..m.n()).map(move |b| (a, b))).filter(|(a, b)| m.zs[*a] == m.zs[*b]).collect();
                        if !pairs.is_empty() { let (a, b) = pairs[rng.below(pairs.len())]; c.xs.swap(a, b); }
                        c
                    } else if straddle {
                        let mut c = m.clone();
                        let thr = 1.3 * (radius(m.zs[si]) + radius(m.zs[sj]));
                        let d = [m.xs[sj][0] - m.xs[si][0], m.xs[sj][1] - m.xs[si][1], m.xs[sj][2] - m.xs[si][2]];
                        let l = (d[0] * d[0] + d[1] * d[1] + d[2] * d[2]).sqrt();
                        let u = if l > 1e-6 { [d[0] / l, d[1] / l, d[2] / l] } else { [1.0, 0.0, 0.0] };
                        let r = thr + if (k / 2) % 2 == 0 { -sdelta } else { sdelta };
                        for q in 0..3 { c.xs[sj][q] = m.xs[si][q] + u[q] * r; }
                        c
                    } else if rng.chance(0.3) { let mut c = m.clone(); for p in c.xs.iter_mut() { for q in 0..3 { p[q] *= 3.0; } } c } else { distort(&m, rng.range(0.0, 0.4), &mut rng) };
                    let mut flat: Vec<f64> = g.xs.iter().flat_map(|p| p.to_vec()).collect();
                    // wrong lengths: one or two numbers short or long, a whole atom short or long, empty
                    if !straddle && !exchange && rng.chance(0.2) { match rng.below(7) { 0 => { flat.pop(); } 1 => { flat.pop(); flat.pop(); } 2 => { flat.push(1.0); } 3 => { flat.push(1.0); flat.push(-2.0); }
                                                              4 => { flat.extend([0.5, 0.5, 0.5]); } 5 => { flat.truncate(flat.len().saturating_sub(3)); } _ => { flat.clear(); } } }
                    ops.push(format!("C {}", hexs(&flat)));
                    let before = state(&w);
                    match panic_kind(|| w.set_coordinates(flat.clone())) {
                        None => {
                            outs.push(state(&w));
                            if flat.len() != 3 * m.n() {
                                out.oracle_fail(&format!("a coordinate list of {} numbers was accepted for a molecule of {} atoms", flat.len(), m.n()),
                                                &format!("{}\ncalls: {}", m.xyz_text(), ops.join(" ; ")));
                            }
                        }
                        Some(kind) => {
                            n_err += 1;
                            outs.push(format!("err {} {}", kind, state(&w)));
                            if state(&w) != before { out.oracle_fail("a rejected coordinate list changed the molecule", &m.xyz_text()); }
                            if flat.len() == 3 * m.n() { out.oracle_fail("a coordinate list of the right length was rejected", &m.xyz_text()); }
                        }
                    }
                }
                3 | 4 | 5 => {
                    ops.push("G".into()); w.generate_connectivity(); outs.push(state(&w));
                    // oracle: whatever came before, the result must be what a freshly constructed molecule with these atoms and coordinates has
                    let cur = Mol { name: m.name.clone(), zs: m.zs.clone(), xs: w.molecule().coordinates.iter().map(|p| [p.x, p.y, p.z]).collect() };
                    if let Some(fresh) = catch(|| cur.build()) {
                        let (a, b) = (canon_conn(&connectivity(w.molecule())), canon_conn(&connectivity(&fresh)));
                        if a != b {
                            out.oracle_fail(&format!("after call history [{}] generate_connectivty left {} but a molecule constructed from the same atoms and coordinates has {}", ops.iter().map(|o| o.split(' ').next().unwrap_or("")).collect::<Vec<_>>().join(","), a, b), &format!("{}\ncalls: {}", cur.xyz_text(), ops.join(" ; ")));
                        }
                    }
                }
                6 | 7 => {
                    let mut mat = bond_matrix(&m, &mut rng);
                    if rng.chance(0.2) { for v in mat.iter_mut() { *v = 0.0; } }   // the empty specification: every bond must go
                    if rng.chance(0.1) { mat.pop(); }
                    if rng.chance(0.1) && !mat.is_empty() { let n = m.n(); if n > 1 { mat[1] = 0.7; } }
                    ops.push(format!("M {}", hexs(&mat)));
                    match panic_kind(|| w.set_bond_orders(mat.clone())) {
                        None => {
                            outs.push(state(&w));
                            // oracle: exactly the specified bonds and everything derived from them, nothing stale
                            let n = m.n();
                            let mut want: Vec<(usize, usize, f64)> = vec![];
                            for i in 0..n { for j in (i + 1)..n { if mat[i * n + j].abs() >= 1e-8 { want.push((i, j, mat[i * n + j])); } } }
                            let (a, b) = (canon_conn(&connectivity(w.molecule())), canon_conn(&reference_conn(n, &want)));
                            if a != b { out.oracle_fail(&format!("after call history [{}] set_bond_orders left {} but the matrix specifies {}", ops.iter().map(|o| o.split(' ').next().unwrap_or("")).collect::<Vec<_>>().join(","), a, b), &format!("{}\ncalls: {}", m.xyz_text(), ops.join(" ; "))); }
                        }
                        Some(kind) => { n_err += 1; outs.push(format!("err {}", kind)); }
                    }
                }
                8 => {
                    // build_3d: only exercised where the guard must refuse (a real build draws random coordinates)
                    let no_bonds = connectivity(w.molecule()).bonds.is_empty();
                    if m.n() > 1 && no_bonds {
                        ops.push("B".into());
                        match panic_kind(|| w.build_3d()) {
                            Some(kind) => { n_err += 1; outs.push(format!("err {} {}", kind, state(&w))); }
                            None => { outs.push("ok-would-build".into()); out.oracle_fail("build_3d accepted a multi-atom molecule without bonds", &m.xyz_text()); }
                        }
                    }
                }
                _ => {
                    // optimise: only coordinates may change
                    let conn_before = canon_conn(&connectivity(w.molecule()));
                    let atoms_before: Vec<String> = atoms(w.molecule()).iter().map(|a| a.symbol.clone()).collect();
                    if m.n() <= 8 && catch(|| w.optimise()).is_some() {
                        // [C04] frame: optimisation through the scripting interface changes coordinates only
                        let conn_after = canon_conn(&connectivity(w.molecule()));
                        let atoms_after: Vec<String> = atoms(w.molecule()).iter().map(|a| a.symbol.clone()).collect();
                        if conn_before != conn_after || atoms_before != atoms_after {
                            out.oracle_fail(&format!("[C04] optimise() through the scripting interface changed more than the coordinates: connectivity {} -> {}", conn_before, conn_after),
                                &format!("{}\ncalls: {} ; O", m.xyz_text(), ops.join(" ; ")));
                        }
                        let xs: Vec<f64> = w.molecule().coordinates.iter().flat_map(|p| [p.x, p.y, p.z]).collect();
                        if xs.iter().all(|v| v.is_finite()) { ops.push(format!("O {}", hexs(&xs))); outs.push(state(&w)); }
                        else { break; }
                    }
                }
            }
            n_ops += 1;
        }
        out.case(&format!("wrapper {} | {}", m.zs.iter().map(|z| z.to_string()).collect::<Vec<_>>().join(","), ops.join(" ; ")), &outs.join(" ;; "));

        // scripted vs file: same atoms and data through both doors
        let path = format!("/var/tmp/optrs-verif-scratch/c17-{}.xyz", std::process::id());
        // (the title is free text: now and then an atom-like one, a space-group symbol, a units remark)
        let file_text = { let t = m.xyz_text(); let mut ls: Vec<String> = t.split('\n').map(|x| x.to_string()).collect();
            if ls.len() > 1 { match s % 4 { 1 => ls[1] = (*rng.pick(&["P 2 2 2", "C 1 2 1", "I 4 2 2", "F 2 2 2", "O 0.0 0.0 0.0", "H 1 2 3 4", "N 1 1 1"])).to_string(),
                                              2 => ls[1] = (*rng.pick(&crate::s_xyz::TITLES)).to_string(), _ => {} } }
            ls.join("\n") };
        std::fs::write(&path, file_text).unwrap();
        let file_mol = catch(|| Molecule::from_xyz_file(&path));
        let _ = std::fs::remove_file(&path);
        if let Some(fm) = file_mol {
            let mut w2 = Wrapper::from_atomic_symbols(&refs);
            w2.set_coordinates(m.xs.iter().flat_map(|p| p.to_vec()).collect());
            w2.generate_connectivity();
            n_file += 1;
            let a = canon_conn(&connectivity(w2.molecule()));
            let b = canon_conn(&connectivity(&fm));
            if a != b { out.oracle_fail(&format!("scripted construction differs from file construction: {} vs {}", a, b), &m.xyz_text()); }
            let ca: Vec<u64> = w2.molecule().coordinates.iter().flat_map(|p| [p.x.to_bits(), p.y.to_bits(), p.z.to_bits()]).collect();
            let cb: Vec<u64> = fm.coordinates.iter().flat_map(|p| [p.x.to_bits(), p.y.to_bits(), p.z.to_bits()]).collect();
            if ca != cb { out.oracle_fail("scripted and file coordinates differ", &m.xyz_text()); }
            let ea = catch(|| UFF::new(w2.molecule()).energy(&w2.molecule().coordinates));
            let eb = catch(|| UFF::new(&fm).energy(&fm.coordinates));
            match (ea, eb) {
                (Some(x), Some(y)) => if !(x == y || (x - y).abs() <= 1e-9 * x.abs().max(1.0) || (x.is_nan() && y.is_nan())) { out.oracle_fail(&format!("UFF energy of scripted ({}) and file ({}) molecules differ", x, y), &m.xyz_text()); }
                (None, None) => {}
                _ => out.oracle_fail("UFF construction aborts for one of scripted/file molecules only", &m.xyz_text()),
            }
        }
    }
    out.stat("operations", n_ops);
    out.stat("refusals", n_err);
    out.stat("scripted_vs_file_molecules", n_file);
    out.sample("wrapper 8,1,1 | C …; G; M …; G; C (wrong length); B");
}
