"""Shared helpers for the Rust -> Lean translators.

Every float literal is emitted as `Num.dec num scale bits`: the exact decimal value num / 10^scale (what
theorems over the reals use) and the IEEE-754 bit pattern of the nearest double (what the executable
model uses; Python's float() and rustc both round to nearest-even, and the bitwise correspondence
against the Rust functions checks this on every run).
"""
import re
import struct
import sys
import os

REPO = os.environ.get("OPTRS_REPO", "/repo")


class TranslateError(Exception):
    pass


def f64_bits(text: str) -> int:
    return struct.unpack("<Q", struct.pack("<d", float(text)))[0]


def dec_of_literal(text: str):
    """Exact decimal (num, scale) of a Rust float/integer literal such as `1.`, `0.0001`, `1E-8`, `664.12`."""
    t = text.replace("_", "")
    for suf in ("f64", "f32", "usize", "i32"):
        if t.endswith(suf):
            t = t[: -len(suf)]
    m = re.fullmatch(r"(-?)(\d*)(?:\.(\d*))?(?:[eE]([-+]?\d+))?", t)
    if not m or (m.group(2) == "" and not m.group(3)):
        raise TranslateError(f"not a numeric literal: {text!r}")
    sign, ip, fp, ex = m.group(1), m.group(2) or "0", m.group(3) or "", int(m.group(4) or 0)
    num = int(ip + fp)
    scale = len(fp) - ex
    if scale < 0:
        num *= 10 ** (-scale)
        scale = 0
    if sign:
        num = -num
    return num, scale


def lean_num(text: str) -> str:
    t = text.strip()
    if t in ("std::f64::consts::PI", "PI"):
        return "Num.pi"
    if t in ("std::f64::consts::FRAC_PI_2",):
        return "Num.halfPi"
    num, scale = dec_of_literal(t)
    lit = t
    for suf in ("f64",):
        if lit.endswith(suf):
            lit = lit[: -len(suf)]
    bits = f64_bits(lit.replace("_", ""))
    n = f"({num})" if num < 0 else f"{num}"
    return f"(Num.dec {n} {scale} 0x{bits:016X})"


def lean_chars(s: str) -> str:
    """A string as a list of code points (string literals do not reduce in the kernel)."""
    return "[" + ", ".join(str(ord(c)) for c in s) + "]"


def lean_str(s: str) -> str:
    return '"' + s.replace("\\", "\\\\").replace('"', '\\"') + '"'


def read(rel: str) -> str:
    with open(os.path.join(REPO, rel), encoding="utf-8") as f:
        return f.read()


def write_if_changed(path: str, content: str) -> bool:
    try:
        with open(path, encoding="utf-8") as f:
            if f.read() == content:
                return False
    except FileNotFoundError:
        pass
    os.makedirs(os.path.dirname(path), exist_ok=True)
    with open(path, "w", encoding="utf-8") as f:
        f.write(content)
    return True


def strip_comments(src: str) -> str:
    src = re.sub(r"/\*.*?\*/", "", src, flags=re.S)
    src = re.sub(r"//[^\n]*", "", src)
    return src
