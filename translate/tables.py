#!/usr/bin/env python3
"""Translate the static tables and scalar constants of opt-rs into Lean data (OptRs/Gen/Tables.lean,
OptRs/Gen/AtomTypes.lean).  Refuses (TranslateError) anything it does not recognise."""
import re
import sys
import os

sys.path.insert(0, os.path.dirname(__file__))
from common import (TranslateError, lean_num, lean_chars, read, write_if_changed, strip_comments)
from common import REPO as REPO_ROOT


def static_array(src: str, name: str):
    m = re.search(r"(?:pub(?:\(crate\))?\s+)?(?:static|const)\s+" + name + r"\s*:\s*\[\s*([^;\]]+?)\s*;\s*([^\]]+?)\s*\]\s*=\s*\[(.*?)\]\s*;",
                  src, flags=re.S)
    if not m:
        raise TranslateError(f"static array {name} not found")
    ty, n, body = m.group(1), m.group(2), m.group(3)
    items = [x.strip() for x in body.split(",") if x.strip()]
    try:
        n_decl = int(n)
    except ValueError:
        n_decl = None
    if n_decl is not None and n_decl != len(items):
        raise TranslateError(f"{name}: declared {n_decl} items, found {len(items)}")
    return ty, items


def table_behind(src: str, default: str, accessor: str) -> str:
    """The name of a static table: `default` if the source declares it; otherwise (the table was renamed) the one upper-case
    identifier that the public accessor function(s) `accessor` look things up in (`NAME.get(..)`, `.index(..)`, `.contains(..)`,
    `.iter()`, `.len()`). The accessors are public API; the data are whatever they read."""
    if re.search(r"(?:static|const)\s+" + default + r"\s*:", src):
        return default
    names = set()
    for m in re.finditer(r"fn\s+" + accessor + r"\s*\([^)]*\)\s*(?:->\s*[^{]+)?\{", src):
        depth, j = 1, m.end()
        while depth and j < len(src):
            depth += {"{": 1, "}": -1}.get(src[j], 0)
            j += 1
        names.update(re.findall(r"\b([A-Z][A-Z0-9_]+)\s*\.\s*(?:get|index|contains|iter|len)\s*\(", src[m.end():j]))
    if len(names) != 1:
        raise TranslateError(f"static array {default} not found (and {accessor}() reads {sorted(names) or 'no table'})")
    return names.pop()


def str_items(items, name):
    out = []
    for it in items:
        m = re.fullmatch(r'"([^"\\]*)"', it)
        if not m:
            raise TranslateError(f"{name}: not a plain string literal: {it}")
        out.append(m.group(1))
    return out


NOTES = []          # constants the model keeps at their hand value because the source pattern was not found (tied by correspondence only)
NUMLIT = r"[0-9][0-9_]*(?:\.[0-9_]*)?(?:[eE][+-]?[0-9]+)?(?:f64|usize|i32)?"
IDENT = r"[A-Z][A-Z0-9_]*"
ALL_SOURCES = []    # comment-stripped sources searched when a constant is given by name


def resolve_named(ident: str):
    """Value of `const|static IDENT: T = <literal>;` in any translated source file, or None."""
    pat = r"(?:pub(?:\([^)]*\))?\s+)?(?:const|static)\s+" + re.escape(ident) + r"\s*:\s*[A-Za-z0-9_]+\s*=\s*(" + NUMLIT + r")\s*;"
    found = set()
    for src in ALL_SOURCES:
        found.update(re.findall(pat, src))
    return found.pop() if len(found) == 1 else None


def const_scalar(src: str, pattern: str, what: str, default: str = None) -> str:
    """`pattern` holds one `{V}` where the value stands: a numeric literal, or the name of a `const`/`static` holding one.
    Several matches must agree. If the site cannot be located at all and a `default` is given, the model keeps that value
    (the hand value; every such constant is exercised by a bit-exact correspondence) and the fact is recorded in NOTES."""
    def hits(value_re):
        out = set()
        for m in re.finditer(pattern.replace("{V}", "(" + value_re + ")"), src, flags=re.S):
            out.update(g for g in m.groups() if g)
        return out
    vals = hits(NUMLIT)
    for ident in hits(IDENT):
        v = resolve_named(ident)
        if v is not None:
            vals.add(v)
    if len(vals) == 1:
        return vals.pop()
    if len(vals) > 1:
        raise TranslateError(f"constant {what}: conflicting values {sorted(vals)}")
    if default is not None:
        NOTES.append(f"constant '{what}' not located in the source (pattern /{pattern}/): the model keeps {default}; tied by correspondence only")
        return default
    raise TranslateError(f"constant {what}: no match of /{pattern}/")


def lean_list(items, per_line=8, indent="  "):
    lines = []
    for i in range(0, len(items), per_line):
        lines.append(indent + ", ".join(items[i:i + per_line]))
    return "[\n" + ",\n".join(lines) + "]"


def to_int(text: str) -> int:
    t = text.replace("_", "")
    for suf in ("usize", "i32", "f64"):
        if t.endswith(suf):
            t = t[: -len(suf)]
    return int(t)


def gen_tables() -> str:
    del NOTES[:]
    del ALL_SOURCES[:]
    for rel in ("src/atoms.rs", "src/opt/sd.rs", "src/ff/rb/core.rs", "src/molecule.rs", "src/utils.rs", "src/pairs.rs"):
        try:
            ALL_SOURCES.append(strip_comments(read(rel)))
        except FileNotFoundError:
            pass
    atoms = strip_comments(read("src/atoms.rs"))
    # submodules of atoms (src/atoms/*.rs), should the tables have been moved into one
    sub = os.path.join(REPO_ROOT, "src/atoms")
    if os.path.isdir(sub):
        for f in sorted(os.listdir(sub)):
            if f.endswith(".rs"):
                atoms += "\n" + strip_comments(read("src/atoms/" + f))
    out = ["-- GENERATED by translate/tables.py from /repo/src — do not edit; regenerated on every check run.",
           "import OptRs.Calc.Num", "namespace OptRs.Gen", ""]
    for rust, lean, acc in (("ELEMENTS", "elements", "to_atomic_symbol"), ("METALLIC_ELEMENTS", "metallicElements", "is_metal"),
                            ("MAIN_GROUP_ELEMENTS", "mainGroupElements", "is_main_group")):
        ty, items = static_array(atoms, table_behind(atoms, rust, acc))
        if ty.replace(" ", "") != "&str":
            raise TranslateError(f"{rust}: unexpected element type {ty}")
        ss = str_items(items, rust)
        out.append(f"/-- `{rust}` of src/atoms.rs, each symbol as its list of code points. -/")
        out.append(f"def {lean} : List (List Nat) := " + lean_list([lean_chars(s) for s in ss]))
        out.append("")
    for rust, lean, acc in (("COVALENT_RADII_PICOMETERS", "covalentRadiiPm", "covalent_radius"),
                            ("GMP_ELECTRONEGATIVITIES", "gmpElectronegativities", "gmp_electronegativity")):
        ty, items = static_array(atoms, table_behind(atoms, rust, acc))
        if ty != "f64":
            raise TranslateError(f"{rust}: unexpected element type {ty}")
        out.append(f"/-- `{rust}` of src/atoms.rs. -/")
        out.append(f"def {lean} : List Num := " + lean_list([lean_num(x) for x in items], 4))
        out.append("")
    ty, items = static_array(atoms, table_behind(atoms, "MAXIMAL_VALENCIES", "maximal_valence"))
    if ty != "usize":
        raise TranslateError("MAXIMAL_VALENCIES: unexpected type")
    for it in items:
        if not re.fullmatch(r"\d+", it):
            raise TranslateError(f"MAXIMAL_VALENCIES: {it}")
    out.append("def maximalValencies : List Nat := " + lean_list(items, 20))
    out.append("")

    consts = []
    consts.append(("picometersToAngstroms",
                   const_scalar(atoms, r"(?:static|const)\s+PICOMETERS_TO_ANGSTROMS\s*:\s*f64\s*=\s*{V}\s*;", "PICOMETERS_TO_ANGSTROMS", "0.01")))
    consts.append(("bondTolerance", const_scalar(atoms, r"<\s*(?:\w+\s*=\s*)?{V}\s*\*\s*\(\s*self\.covalent_radius\(\)\s*\+|let\s+(?:rel_)?tolerance\s*=\s*{V}\s*;", "bond tolerance", "1.3f64")))
    consts.append(("identicalAtomTol", const_scalar(atoms, r"let\s+is_identical_atom\s*=\s*\w+\s*<\s*{V}\s*;", "identical atom tolerance", "1E-8")))
    consts.append(("defaultRadius", const_scalar(atoms, r"Guessing at 2 Å\",\s*self\.index\(\)\s*\);\s*(?:return\s+)?{V}\s*;?", "default radius", "2.0")))
    consts.append(("defaultElectronegativity", const_scalar(atoms, r"Using a default value of the electronegativity\"\);\s*(?:return\s+)?{V}\s*;?\s*\}", "default electronegativity", "5.0")))
    dv = const_scalar(atoms, r"Did not find a value maximal valence value[^;]*;\s*(?:return\s+)?{V}\s*;?", "default valence", "6")

    sd = strip_comments(read("src/opt/sd.rs"))
    consts.append(("sdAlpha0", const_scalar(sd, r"\balpha:\s*{V}\s*,", "sd alpha", "0.0001")))
    consts.append(("sdGradTol", const_scalar(sd, r"grad_rms_tolerance:\s*{V}\s*,", "sd grad tol", "0.1")))
    consts.append(("sdAlphaDivisor", const_scalar(sd, r"self\.alpha\s*/=\s*{V}\s*;", "sd alpha divisor", "2.")))
    sd_max = const_scalar(sd, r"max_num_iterations:\s*{V}\s*,", "sd max iterations", "500")
    sd_hist = const_scalar(sd, r"self\.energy_history\.len\(\)\s*<\s*{V}", "sd history window", "5")

    rb = strip_comments(read("src/ff/rb/core.rs"))
    consts.append(("rbBondK", const_scalar(rb, r"k_ij:\s*{V}\s*,", "rb k", "1000.")))
    consts.append(("rbRepulsionC", const_scalar(rb, r"\bc:\s*{V}\s*,", "rb c", "10.")))
    rb_exp = const_scalar(rb, r"RepulsiveExponent\s*\{\s*value:\s*{V}\s*,?\s*\}", "rb exponent", "2")

    mol = strip_comments(read("src/molecule.rs"))
    b3_iters = const_scalar(mol, r"SteepestDecentOptimiser::from_max_iterations\(\s*{V}\s*\)", "build_3d iterations", "20")
    consts.append(("linearAngleTol", const_scalar(mol, r"is_close\(\s*angle_value\(i, j, k, &self\.coordinates\),\s*PI,\s*{V}\s*,?\s*\)", "linear tol", "1E-1")))

    utils = strip_comments(read("src/utils.rs"))
    consts.append(("veryCloseTol", const_scalar(utils, r"\(\*self - \*other\)\.abs\(\)\s*<\s*{V}", "is_very_close tol", "1E-8")))

    for name, text in consts:
        out.append(f"def {name} : Num := {lean_num(text)}")
    out.append(f"def defaultValence : Nat := {to_int(dv)}")
    out.append(f"def sdMaxIterations : Nat := {to_int(sd_max)}")
    out.append(f"def sdHistoryWindow : Nat := {to_int(sd_hist)}")
    out.append(f"def rbExponent : Nat := {to_int(rb_exp)}")
    out.append(f"def build3dIterations : Nat := {to_int(b3_iters)}")
    out.append("")
    out.append("end OptRs.Gen")
    return "\n".join(out) + "\n"


FIELDS = ["name", "atomic_symbol", "bridging", "aromatic", "valency", "oxidation_state", "environment",
          "r", "theta", "x", "d", "zeta", "z_eff", "v_phi"]


def gen_atom_types() -> str:
    src = strip_comments(read("src/ff/uff/atom_types.rs"))
    m = re.search(r"pub\(crate\)\s+const\s+ATOM_TYPES\s*:\s*\[UFFAtomType;\s*(\d+)\]\s*=\s*\[(.*)\]\s*;", src, flags=re.S)
    if not m:
        raise TranslateError("ATOM_TYPES not found")
    n_decl = int(m.group(1))
    rows = re.findall(r"UFFAtomType\s*\{(.*?)\}", m.group(2), flags=re.S)
    if len(rows) != n_decl:
        raise TranslateError(f"ATOM_TYPES: declared {n_decl}, found {len(rows)}")
    out = ["-- GENERATED by translate/tables.py from /repo/src/ff/uff — do not edit; regenerated on every check run.",
           "import OptRs.Calc.Num", "namespace OptRs.Gen", "",
           "/-- One row of `ATOM_TYPES` (src/ff/uff/atom_types.rs); names as code-point lists. -/",
           "structure AtomTypeRow where",
           "  name : List Nat", "  symbol : List Nat", "  bridging : Bool", "  aromatic : Bool",
           "  valency : Nat", "  oxidationState : Nat",
           "  r : Num", "  theta : Num", "  x : Num", "  d : Num", "  zeta : Num", "  zEff : Num", "  vPhi : Num",
           "deriving DecidableEq, Repr", ""]
    lean_rows = []
    for row in rows:
        kv = {}
        for part in row.split(","):
            part = part.strip()
            if not part:
                continue
            k, _, v = part.partition(":")
            k = k.strip()
            v = v.strip()
            if k in kv:
                raise TranslateError(f"ATOM_TYPES: duplicate field {k}")
            kv[k] = v
        if sorted(kv) != sorted(FIELDS):
            raise TranslateError(f"ATOM_TYPES: unexpected field set {sorted(kv)}")
        if kv["environment"] != "CoordinationEnvironment::None":
            raise TranslateError(f"ATOM_TYPES: environment {kv['environment']}")
        name = re.fullmatch(r'"([^"\\]*)"', kv["name"])
        sym = re.fullmatch(r'"([^"\\]*)"', kv["atomic_symbol"])
        if not name or not sym:
            raise TranslateError("ATOM_TYPES: name/symbol literal")
        for b in ("bridging", "aromatic"):
            if kv[b] not in ("true", "false"):
                raise TranslateError("ATOM_TYPES: bool")
        lean_rows.append(
            "  { name := %s, symbol := %s, bridging := %s, aromatic := %s, valency := %d, oxidationState := %d,\n"
            "    r := %s, theta := %s, x := %s, d := %s, zeta := %s, zEff := %s, vPhi := %s }" % (
                lean_chars(name.group(1)), lean_chars(sym.group(1)), kv["bridging"], kv["aromatic"],
                int(kv["valency"]), int(kv["oxidation_state"]),
                lean_num(kv["r"]), lean_num(kv["theta"]), lean_num(kv["x"]), lean_num(kv["d"]),
                lean_num(kv["zeta"]), lean_num(kv["z_eff"]), lean_num(kv["v_phi"])))
    out.append("def atomTypes : List AtomTypeRow := [\n" + ",\n".join(lean_rows) + "]")
    out.append("")

    # atom_types.txt, the shipped source data: raw tokens (name as code points, six decimal fields)
    txt = read("src/ff/uff/atom_types.txt")
    out.append("/-- One line of the shipped source data `atom_types.txt`: name and the six numeric columns as exact decimals. -/")
    out.append("structure SourceRow where")
    out.append("  name : List Nat\n  r : Num\n  thetaDeg : Num\n  x : Num\n  d : Num\n  zeta : Num\n  z : Num")
    out.append("deriving DecidableEq, Repr\n")
    srows = []
    for line in txt.splitlines():
        if line.startswith("#") or not line.strip():
            continue
        items = line.split()
        if len(items) != 7:
            raise TranslateError(f"atom_types.txt: {line!r}")
        srows.append("  { name := %s, r := %s, thetaDeg := %s, x := %s, d := %s, zeta := %s, z := %s }" % (
            lean_chars(items[0]), *[lean_num(t) for t in items[1:]]))
    out.append("def sourceRows : List SourceRow := [\n" + ",\n".join(srows) + "]")
    out.append("")

    # generator constants from generate_atom_types.py
    gen = read("src/ff/uff/generate_atom_types.py")
    mm = re.search(r"sp3_torsional_barriers\s*=\s*\{(.*?)\}", gen, flags=re.S)
    if not mm:
        raise TranslateError("sp3_torsional_barriers not found")
    bars = re.findall(r"'([^']+)'\s*:\s*([0-9.]+)", mm.group(1))
    out.append("def sp3TorsionalBarriers : List (List Nat × Num) := [\n" +
               ",\n".join(f"  ({lean_chars(k)}, {lean_num(v)})" for k, v in bars) + "]")
    d2r = re.search(r"DEG_TO_RAD\s*=\s*([0-9.]+)", gen)
    if not d2r:
        raise TranslateError("DEG_TO_RAD not found")
    out.append(f"def degToRad : Num := {lean_num(d2r.group(1))}")
    for g in ("group14_elements", "group15_elements", "group16_elements"):
        mg = re.search(g + r"\s*=\s*\[(.*?)\]", gen, flags=re.S)
        if not mg:
            raise TranslateError(g)
        syms = re.findall(r"'([^']+)'", mg.group(1))
        lname = "gen" + g.split("_")[0].capitalize()
        out.append(f"def {lname} : List (List Nat) := [" + ", ".join(lean_chars(s) for s in syms) + "]")
    out.append("")

    inv = strip_comments(read("src/ff/uff/inversion_centers.rs"))
    rows = re.findall(r"InversionCentre\s*\{\s*name:\s*\"([^\"]*)\",\s*k:\s*([-0-9.]+),\s*c0:\s*([-0-9.]+),\s*c1:\s*([-0-9.]+),\s*c2:\s*([-0-9.]+),?\s*\}", inv)
    mdecl = re.search(r"INVERSION_CENTERS\s*:\s*\[InversionCentre;\s*(\d+)\]", inv)
    if not mdecl or int(mdecl.group(1)) != len(rows):
        raise TranslateError("INVERSION_CENTERS count")
    out.append("structure InversionRow where\n  name : List Nat\n  k : Num\n  c0 : Num\n  c1 : Num\n  c2 : Num\nderiving DecidableEq, Repr\n")
    out.append("def inversionCenters : List InversionRow := [\n" + ",\n".join(
        "  { name := %s, k := %s, c0 := %s, c1 := %s, c2 := %s }" % (lean_chars(r[0]), *[lean_num(x) for x in r[1:]]) for r in rows) + "]")
    out.append("")
    out.append("end OptRs.Gen")
    return "\n".join(out) + "\n"


def main(lean_root: str):
    changed = []
    if write_if_changed(os.path.join(lean_root, "OptRs/Gen/Tables.lean"), gen_tables()):
        changed.append("Tables")
    if write_if_changed(os.path.join(lean_root, "OptRs/Gen/AtomTypes.lean"), gen_atom_types()):
        changed.append("AtomTypes")
    return changed


if __name__ == "__main__":
    try:
        ch = main(sys.argv[1] if len(sys.argv) > 1 else "/verif/lean")
        print("translated tables; changed:", ch)
    except TranslateError as e:
        print("TRANSLATE-ERROR", e)
        sys.exit(2)
