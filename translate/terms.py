#!/usr/bin/env python3
"""Translate the seven `add_gradient` bodies (sympy output pasted into Rust) into Lean `Prog` values
(OptRs/Gen/Grad.lean). A small recursive-descent parser for exactly the Rust subset those bodies use;
anything else raises TranslateError — it never guesses."""
import re
import sys
import os

sys.path.insert(0, os.path.dirname(__file__))
from common import TranslateError, lean_num, read, write_if_changed, strip_comments

# kind -> (file, struct, atom field order, float parameter field order, integer parameter expression or None)
KINDS = [
    ("bond", "src/ff/bonds.rs", "HarmonicBond", ["i", "j"], ["r0", "k_ij"]),
    ("angleA", "src/ff/angles.rs", "HarmonicAngleTypeA", ["i", "j", "k"], ["k_ijk", "n"]),
    ("angleB", "src/ff/angles.rs", "HarmonicAngleTypeB", ["i", "j", "k"], ["k_ijk", "c0", "c1", "c2"]),
    ("torsion", "src/ff/dihedrals.rs", "TorsionalDihedral", ["i", "j", "k", "l"], ["phi0", "n_phi", "v_phi"]),
    ("inversion", "src/ff/dihedrals.rs", "InversionDihedral", ["c", "i", "j", "k"], ["c0", "c1", "c2", "k_cijk"]),
    ("lj", "src/ff/nonbonded.rs", "LennardJones12x6", ["i", "j"], ["sigma", "d"]),
    ("repulsion", "src/ff/nonbonded.rs", "RepulsiveInverseDistance", ["i", "j"], ["c"]),
]
PARAM_BASE = 20
LET_BASE = 100

TOK = re.compile(r"\s*(?:(\d+\.\d*(?:[eE][-+]?\d+)?|\d+(?:[eE][-+]?\d+)?)|(self\.exponent\.value|self\.\w+|[A-Za-z_]\w*)|(\+=|[-+*/().,;=\[\]]))")


def tokenize(s):
    out, i = [], 0
    while i < len(s):
        m = TOK.match(s, i)
        if not m:
            if s[i:].strip() == "":
                break
            raise TranslateError(f"cannot tokenize: {s[i:i + 40]!r}")
        i = m.end()
        if m.group(1) is not None:
            out.append(("num", m.group(1)))
        elif m.group(2) is not None:
            out.append(("id", m.group(2)))
        else:
            out.append(("op", m.group(3)))
    return out


class Parser:
    def __init__(self, toks):
        self.t, self.i = toks, 0

    def peek(self):
        return self.t[self.i] if self.i < len(self.t) else ("eof", "")

    def next(self):
        x = self.peek()
        self.i += 1
        return x

    def expect(self, v):
        x = self.next()
        if x[1] != v:
            raise TranslateError(f"expected {v!r}, got {x!r}")
        return x

    def expr(self):
        l = self.term()
        while self.peek()[1] in ("+", "-"):
            o = self.next()[1]
            r = self.term()
            l = ("add" if o == "+" else "sub", l, r)
        return l

    def term(self):
        l = self.unary()
        while self.peek()[1] in ("*", "/"):
            o = self.next()[1]
            r = self.unary()
            l = ("mul" if o == "*" else "div", l, r)
        return l

    def unary(self):
        if self.peek()[1] == "-":
            self.next()
            return ("neg", self.unary())
        return self.postfix()

    def postfix(self):
        e = self.atom()
        while self.peek()[1] == ".":
            self.next()
            k, name = self.next()
            if k != "id":
                raise TranslateError(f"method name expected, got {name!r}")
            self.expect("(")
            args = []
            if self.peek()[1] != ")":
                args.append(self.expr())
                while self.peek()[1] == ",":
                    self.next()
                    if self.peek()[1] == ")":      # trailing comma (rustfmt wraps long argument lists that way)
                        break
                    args.append(self.expr())
            self.expect(")")
            e = ("call", name, e, args)
        return e

    def atom(self):
        k, v = self.next()
        if k == "num":
            return ("num", v)
        if k == "id":
            if self.peek() == ("id", "as"):
                self.next()
                ty = self.next()
                if ty != ("id", "f64"):
                    raise TranslateError(f"unsupported cast to {ty}")
                return ("cast", ("var", v))
            return ("var", v)
        if v == "(":
            e = self.expr()
            if self.peek() == ("id", "as"):  # (n as f64)
                self.next()
                ty = self.next()
                if ty != ("id", "f64"):
                    raise TranslateError(f"unsupported cast to {ty}")
                e = ("cast", e)
            self.expect(")")
            return e
        raise TranslateError(f"unexpected token {(k, v)!r}")


def method_body(src, struct, fn):
    m = re.search(r"impl\s+EnergyFunction\s+for\s+" + struct + r"\s*\{", src)
    if not m:
        raise TranslateError(f"impl EnergyFunction for {struct} not found")
    m2 = re.compile(r"fn\s+" + fn + r"\s*\(([^)]*)\)\s*(?:->\s*[^{]+)?\{").search(src, m.end())
    if not m2:
        raise TranslateError(f"{struct}::{fn} not found")
    i = m2.end()
    depth, j = 1, i
    while depth:
        c = src[j]
        depth += c == "{"
        depth -= c == "}"
        j += 1
    return m2.group(1), src[i:j - 1]


AX = {"x": 0, "y": 1, "z": 2}

# The one control-flow statement accepted: `if !(vN > 0.) { return; }` (comments already stripped). It is
# rewritten to a marker statement before the body is split at `;`; any other `if`/`return`/brace is left in
# place and refused as an unsupported statement.
GUARD_MARK = "__guard_not_positive_return"
GUARD_RE = re.compile(r"\bif\s*!\s*\(\s*(\w+)\s*>\s*0\.\s*\)\s*\{\s*return\s*;\s*\}")


def mark_guards(body: str) -> str:
    if GUARD_MARK in body:
        raise TranslateError("reserved marker name used in the source")
    body = GUARD_RE.sub(lambda m: f"{GUARD_MARK} {m.group(1)};", body)
    # the same guard written as a block that runs to the end of the body: `if vN > 0. { <rest of the body> }` — nothing follows
    # the block, so it is `if !(vN > 0.) { return; }` followed by the block's statements
    m = re.search(r"\bif\s+(\w+)\s*>\s*0\.0?\s*\{", body)
    if m:
        depth, i = 1, m.end()
        while i < len(body) and depth > 0:
            depth += {"{": 1, "}": -1}.get(body[i], 0)
            i += 1
        if depth == 0 and body[i:].strip() == "" and "else" not in body[m.end():i]:
            body = body[:m.start()] + f"{GUARD_MARK} {m.group(1)};" + body[m.end():i - 1]
    return body


def xyz_helper_is_plain() -> bool:
    src = strip_comments(read("src/coordinates.rs"))
    return re.search(r"fn\s+xyz\s*\(\s*&self\s*\)\s*->\s*\(\s*f64\s*,\s*f64\s*,\s*f64\s*\)\s*\{\s*\(\s*self\.x\s*,\s*self\.y\s*,\s*self\.z\s*\)\s*\}", src) is not None


class BodyTranslator:
    def __init__(self, kind, atoms, params, src=""):
        self.kind, self.atoms, self.params, self.src = kind, atoms, params, src
        self.names = {}      # rust local name -> Lean Ex text
        self.intnames = {}   # rust local integer name -> Lean Nat text
        self.lets = []
        self.outs = []
        self.guard = None    # Lean Ex text of the early-return guard, if the body has one
        self.galias = {}     # rust local name -> atom field, for `let g = &mut gradient[self.i]`

    def nat_expr(self, e):
        """An i32 expression over the integer parameter, as Lean Nat text."""
        k = e[0]
        if k == "var":
            if e[1] in self.intnames:
                return self.intnames[e[1]]
            if e[1] == "self.exponent.value":
                return "nExp"
            raise TranslateError(f"{self.kind}: unknown integer name {e[1]}")
        if k == "num" and re.fullmatch(r"\d+", e[1]):
            return e[1]
        if k == "add":
            return f"({self.nat_expr(e[1])} + {self.nat_expr(e[2])})"
        raise TranslateError(f"{self.kind}: unsupported integer expression {e!r}")

    def ex(self, e):
        k = e[0]
        if k == "num":
            return f"(.lit {lean_num(e[1])})"
        if k == "var":
            v = e[1]
            if v in self.names:
                return self.names[v]
            if v.startswith("self."):
                f = v[5:]
                if f in self.params:
                    return f"(.var {PARAM_BASE + self.params.index(f)})"
            if re.fullmatch(r"[A-Z][A-Z0-9_]*", v):
                # a named constant of the same file: `const NAME: f64 = <literal>;`
                ms = set(re.findall(r"const\s+" + v + r"\s*:\s*f64\s*=\s*([0-9][0-9_]*(?:\.[0-9_]*)?(?:[eE][+-]?[0-9]+)?)\s*;", self.src))
                if len(ms) == 1:
                    return f"(.lit {lean_num(ms.pop())})"
            raise TranslateError(f"{self.kind}: unknown name {v}")
        if k == "cast":
            return f"(.nat {self.nat_expr(e[1])})"
        if k in ("add", "sub", "mul", "div"):
            return f"(.{k} {self.ex(e[1])} {self.ex(e[2])})"
        if k == "neg":
            return f"(.neg {self.ex(e[1])})"
        if k == "call":
            n, a, args = e[1], e[2], e[3]
            if n == "powi":
                if len(args) != 1:
                    raise TranslateError("powi arity")
                return f"(.powi {self.ex(a)} {self.nat_expr(args[0])})"
            if n == "powf":
                if args != [("num", "1.5")]:
                    raise TranslateError(f"{self.kind}: powf with exponent other than 1.5: {args!r}")
                return f"(.pow15 {self.ex(a)})"
            if n == "clamp":
                if args != [("neg", ("num", "1.")), ("num", "1.")]:
                    raise TranslateError(f"{self.kind}: clamp with bounds other than (-1., 1.): {args!r}")
                return f"(.clamp1 {self.ex(a)})"
            if n in ("sqrt", "sin", "cos", "acos", "ln"):
                if args:
                    raise TranslateError(f"{n} arity")
                return f"(.{n} {self.ex(a)})"
            if n == "atan2":
                if len(args) != 1:
                    raise TranslateError("atan2 arity")
                return f"(.atan2 {self.ex(a)} {self.ex(args[0])})"
            raise TranslateError(f"{self.kind}: unsupported method {n}")
        raise TranslateError(f"{self.kind}: unsupported node {k}")

    def statement(self, st):
        st = st.strip()
        if not st:
            return
        m = re.fullmatch(r"let\s+(\w+)\s*=\s*&mut\s+gradient\[self\.(\w+)\]", st)
        if m:
            # `let g = &mut gradient[self.i]` followed by `g.x += ...`: one mutable borrow per atom, same updates
            if m.group(2) not in self.atoms:
                raise TranslateError(f"{self.kind}: gradient of unknown atom field {m.group(2)}")
            self.galias[m.group(1)] = m.group(2)
            return
        m = re.fullmatch(r"let\s+(\w+)\s*=\s*coordinates\[self\.(\w+)\]\.([xyz])", st)
        if m:
            name, atom, ax = m.groups()
            if atom not in self.atoms:
                raise TranslateError(f"{self.kind}: coordinate of unknown atom field {atom}")
            self.names[name] = f"(.var {3 * self.atoms.index(atom) + AX[ax]})"
            return
        m = re.fullmatch(r"let\s*\(\s*(\w+)\s*,\s*(\w+)\s*,\s*(\w+)\s*\)\s*=\s*coordinates\[self\.(\w+)\]\.xyz\(\)", st)
        if m:
            # `let (x, y, z) = coordinates[self.a].xyz()` — accepted only if `Point::xyz` is the plain component tuple
            if not xyz_helper_is_plain():
                raise TranslateError(f"{self.kind}: Point::xyz() is not `(self.x, self.y, self.z)`")
            nx, ny, nz, atom = m.groups()
            if atom not in self.atoms:
                raise TranslateError(f"{self.kind}: coordinate of unknown atom field {atom}")
            for name, ax in ((nx, "x"), (ny, "y"), (nz, "z")):
                self.names[name] = f"(.var {3 * self.atoms.index(atom) + AX[ax]})"
            return
        m = re.fullmatch(r"let\s+&?\s*Point\s*\{([^}]*)\}\s*=\s*&?\s*coordinates\[self\.(\w+)\]", st, flags=re.S)
        if m:
            # `let Point { x: a, y: b, z: c } = coordinates[self.i]` (fields in any order, shorthand `x` for `x: x`)
            fields, atom = m.groups()
            if atom not in self.atoms:
                raise TranslateError(f"{self.kind}: coordinate of unknown atom field {atom}")
            seen = set()
            for f in [f.strip() for f in fields.split(",") if f.strip()]:
                fm = re.fullmatch(r"([xyz])(?:\s*:\s*(\w+))?", f)
                if not fm or fm.group(1) in seen:
                    raise TranslateError(f"{self.kind}: unsupported field pattern {f!r} in a Point destructuring")
                seen.add(fm.group(1))
                self.names[fm.group(2) or fm.group(1)] = f"(.var {3 * self.atoms.index(atom) + AX[fm.group(1)]})"
            return
        m = re.fullmatch(r"let\s+(\w+)\s*=\s*self\.exponent\.value", st)
        if m:
            self.intnames[m.group(1)] = "nExp"
            return
        m = re.fullmatch(GUARD_MARK + r"\s+(\w+)", st)
        if m:
            # `if !(vN > 0.) { return; }` among the lets: the body adds nothing unless vN > 0. The lets after it
            # stay in `lets` (they have no side effects).
            name = m.group(1)
            if self.guard is not None:
                raise TranslateError(f"{self.kind}: more than one early-return guard")
            if self.outs:
                raise TranslateError(f"{self.kind}: early-return guard after a gradient update")
            if name not in {n for _, n, _ in self.lets}:
                raise TranslateError(f"{self.kind}: guard on {name}, which is not an earlier let")
            self.guard = self.names[name]
            return
        m = re.fullmatch(r"let\s+(\w+)\s*=\s*(.*)", st, flags=re.S)
        if m:
            name, rhs = m.groups()
            p = Parser(tokenize(rhs))
            e = p.expr()
            if p.peek()[0] != "eof":
                raise TranslateError(f"{self.kind}: trailing tokens in let {name}")
            vid = LET_BASE + len(self.lets)
            text = self.ex(e)
            self.lets.append((vid, name, text))
            self.names[name] = f"(.var {vid})"
            return
        m = re.fullmatch(r"(\w+)\.([xyz])\s*\+=\s*(.*)", st, flags=re.S)
        if m and m.group(1) in self.galias:
            st = f"gradient[self.{self.galias[m.group(1)]}].{m.group(2)} += {m.group(3)}"
        m = re.fullmatch(r"gradient\[self\.(\w+)\]\.([xyz])\s*\+=\s*(.*)", st, flags=re.S)
        if m:
            atom, ax, rhs = m.groups()
            if atom not in self.atoms:
                raise TranslateError(f"{self.kind}: gradient of unknown atom field {atom}")
            p = Parser(tokenize(rhs))
            e = p.expr()
            if p.peek()[0] != "eof":
                raise TranslateError(f"{self.kind}: trailing tokens in gradient update")
            self.outs.append((3 * self.atoms.index(atom) + AX[ax], self.ex(e)))
            return
        raise TranslateError(f"{self.kind}: unsupported statement: {st[:80]!r}")


def translate_kind(kind, path, struct, atoms, params):
    src = strip_comments(read(path))
    sig, body = method_body(src, struct, "add_gradient")
    if re.sub(r"\s+", " ", sig.strip()) != "&self, coordinates: &[Point], gradient: &mut Vec<Vector3D>":
        raise TranslateError(f"{struct}::add_gradient signature changed: {sig!r}")
    bt = BodyTranslator(kind, atoms, params, src)
    for st in mark_guards(body).split(";"):
        bt.statement(st)
    expected = sorted(3 * a + c for a in range(len(atoms)) for c in range(3))
    if sorted(s for s, _ in bt.outs) != expected:
        raise TranslateError(f"{kind}: gradient slots written {sorted(s for s, _ in bt.outs)} != {expected}")
    return bt


def gen_grad() -> str:
    out = ["-- GENERATED by translate/terms.py from the add_gradient bodies in /repo/src/ff — do not edit.",
           "import OptRs.Calc.Ex", "set_option maxRecDepth 100000", "set_option linter.unusedVariables false", "namespace OptRs.Gen", "open OptRs", ""]
    for kind, path, struct, atoms, params in KINDS:
        bt = translate_kind(kind, path, struct, atoms, params)
        arg = " (nExp : Nat)" if kind == "repulsion" else ""
        out.append(f"/-! ## {struct}::add_gradient ({path}); atoms {atoms} ↦ vars 0.., parameters {params} ↦ vars {PARAM_BASE}.. -/")
        # definitions are named by position (v0, v1, ... in order of appearance), not by the Rust identifier: renaming a
        # temporary in the source leaves the generated file — and the proofs that refer to it — unchanged
        for pos, (vid, name, text) in enumerate(bt.lets):
            out.append(f"def {kind}_v{pos}{arg} : Ex := {text}")
        for slot, text in bt.outs:
            out.append(f"def {kind}_g{slot}{arg} : Ex := {text}")
        app = " nExp" if kind == "repulsion" else ""
        out.append(f"def {kind}Grad{arg} : Prog where")
        out.append("  lets := [" + ", ".join(f"({vid}, {kind}_v{pos}{app})" for pos, (vid, _, _) in enumerate(bt.lets)) + "]")
        out.append("  outs := [" + ", ".join(f"({slot}, {kind}_g{slot}{app})" for slot, _ in bt.outs) + "]")
        if bt.guard is not None:
            out.append(f"  guard := some {bt.guard}")
        out.append("")
    out.append("end OptRs.Gen")
    return "\n".join(out) + "\n"


def main(lean_root: str):
    changed = []
    if write_if_changed(os.path.join(lean_root, "OptRs/Gen/Grad.lean"), gen_grad()):
        changed.append("Grad")
    return changed


if __name__ == "__main__":
    try:
        ch = main(sys.argv[1] if len(sys.argv) > 1 else "/verif/lean")
        print("translated gradient bodies; changed:", ch)
    except TranslateError as e:
        print("TRANSLATE-ERROR", e)
        sys.exit(2)
