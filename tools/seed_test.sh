#!/bin/bash
# usage: tools/seed_test.sh <worktree> <seed-id> <property> [other checks...]
# 1. confirm the mutation in its scratch worktree (suite green with it; demo fails with it, passes without)
# 2. apply it to /repo, run the checks, undo it
set -u
WT=$1; ID=$2; PROP=$3; shift 3; OTHERS="$*"
M=$WT/_mutation
export CARGO_NET_OFFLINE=true CARGO_TARGET_DIR=$WT/target
cd $WT || exit 2
git checkout -q -- . ; git clean -fdq -e _mutation -e target
echo "== confirm in $WT"
git apply $M/patch.diff || { echo "PATCH DOES NOT APPLY"; exit 2; }
SUITE=$(cargo test --workspace --no-fail-fast --offline 2>&1 | grep -E '^test result' | tr '\n' ' ')
echo "suite with change: $SUITE"
if [ -f $M/demo.diff ]; then
  git apply $M/demo.diff || echo "DEMO DOES NOT APPLY ON CHANGED TREE"
  DEMO_BAD=$(cargo test --workspace --no-fail-fast --offline 2>&1 | grep -E '^test result|FAILED' | tr '\n' ' ')
  echo "change + demo: $DEMO_BAD"
  git checkout -q -- . ; git clean -fdq -e _mutation -e target
  git apply $M/demo.diff
  DEMO_GOOD=$(cargo test --workspace --no-fail-fast --offline 2>&1 | grep -E '^test result|FAILED' | tr '\n' ' ')
  echo "demo only: $DEMO_GOOD"
fi
git checkout -q -- . ; git clean -fdq -e _mutation -e target
unset CARGO_TARGET_DIR
echo "== run checks against /repo with the change"
cd /verif
# evidence files belong to runs on the unchanged tree: keep the current ones and put them back afterwards
rm -rf /var/tmp/evidence.keep.$$; cp -a /verif/evidence /var/tmp/evidence.keep.$$
git -C /repo apply $M/patch.diff || { echo "PATCH DOES NOT APPLY TO /repo"; exit 2; }
mkdir -p /verif/seeded/$ID
for P in $PROP $OTHERS; do
  rm -rf /verif/replays/$P
  OUT=$(./check $P --tier quick 2>&1); RC=$?
  echo "--- $P exit=$RC"; echo "$OUT" | grep -E "VIOLATION|KNOWN|BROKEN|tier=" | cut -c1-400 | head -12
  echo "$OUT" > /verif/seeded/$ID/check-$P.log
  if [ -f /verif/replays/$P/violation-1.txt ]; then cp /verif/replays/$P/violation-1.txt /verif/seeded/$ID/replay-$P.txt; fi
done
git -C /repo apply -R $M/patch.diff 2>/dev/null; git -C /repo checkout -- .
git -C /repo status --short | head -3
# regenerate translated files from the restored tree
python3 translate/tables.py lean >/dev/null; python3 translate/terms.py lean >/dev/null; python3 translate/uff.py lean >/dev/null
cp $M/patch.diff /verif/seeded/$ID/patch.diff
[ -f $M/demo.diff ] && cp $M/demo.diff /verif/seeded/$ID/demo.diff
[ -f $M/demo.sh ] && cp $M/demo.sh /verif/seeded/$ID/demo.sh
cp $M/meta.json /verif/seeded/$ID/meta.agent.json 2>/dev/null
rm -rf /verif/evidence; mv /var/tmp/evidence.keep.$$ /verif/evidence
echo "== done"
