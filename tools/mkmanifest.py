#!/usr/bin/env python3
"""Regenerates /verif/MANIFEST.json from the table below (kept here so that claims, levels and techniques stay in one place)."""
import json, os, subprocess
V = os.path.dirname(os.path.dirname(os.path.abspath(__file__)))

TB = ("Trusted: Lean 4.33 kernel; python translator (refuses unknown syntax; validated bitwise against the Rust functions each run); "
      "Rust harness + diff; rustc/std semantics of library calls. Axioms audited on every run with #print axioms: subset of "
      "{propext, Classical.choice, Quot.sound}; no sorry/native_decide. ")

CLAIMS = {
 "C17": ("proof",
  "For any coordinate type and candidate function: generate_connectivty yields the perception of the current coordinates whatever the record held; symbols -> set_coordinates -> generate_connectivty equals the file constructor's molecule field for field; for EVERY call history ending in generate_connectivty (resp. a successful set_bond_orders m) the connectivity is the perception of the current coordinates (resp. exactly what m specifies) — nothing stale survives; wrong-length coordinate lists are refused with the state unchanged; build_3d refuses multi-atom molecules without bonds; a model without the clear is refuted by a two-call witness. The model reproduces the wrapper's full state after every call of random call sequences.",
  TB + "Modelled: wrapper methods (corresponded on call sequences through the hook). File text handling is C13/C14.",
  "Lean 4 proof (state machine, all call histories) + op-sequence correspondence through the wrapper hook", "DESIGN.md §5 C17"),
 "C18": ("proof",
  "For any two groups whose candidate lists never cross, any caps and candidate orders: the bonds perceived in the union are the bonds perceived in A followed by the index-shifted bonds perceived in B (the greedy loop on a closed subset behaves as on that subset alone); an atom of A reads in the union exactly the typing view (neighbours, aromatic count, order sum) it reads in A alone; over the reals energy and every gradient component of a union of term lists are the sums of the parts' plus the cross terms, and a cross 12-6 term is bounded by 2 D (sigma/r)^6 for r >= sigma. With C10/C11/C08 this gives connectivity, types and terms of the union from the parts. Checked on the real code for generated pairs at 50-10000 A in both orders.",
  TB + "Modelled: perception/typing/construction (corresponded). Additivity over the reals; float tail checked numerically.",
  "Lean 4 proof (greedy-loop restriction lemma, locality of the typing view, additivity) + construction correspondences + fragment-pair search", "DESIGN.md §5 C18"),
 "C19": ("proof",
  "PARTIAL. Proved on the model of build_3d, for every enumeration of the bond set, every random placement and every outcome of the intermediate optimisations: the final bond set with orders, the atoms and all derived connectivity equal the initial ones; the optimiser budgets are 20 and 500 (C05 bounds the gradient requests). Explored, not proved: the geometric quality of the embedded structure (bond lengths within 25 % of the radii sum, no pair closer than 0.3 A, finite), evaluated on real builds of real molecules' bond graphs with the builder's own random starts.",
  TB + "Geometric half is exploration of a randomised floating-point procedure (thread_rng is not seedable: failures are replayed by their bond table and result).",
  "Lean 4 proof of the structural half on a build_3d model + exploration of real builds for the geometric half", "DESIGN.md §5 C19"),
 "C20": ("proof",
  "All 118 elements: symbol/number bijection, period, IUPAC group, main-group flag, Cordero radii, lookup defaults — proved by kernel evaluation (decide +kernel) over the whole finite domain on tables regenerated from /repo each run; hand-modelled lookup functions tied by exhaustive correspondence (Z=0..130, all symbols).",
  TB + "Hand-transcribed reference data (IUPAC symbols, Cordero 2008) is an oracle.",
  "Lean 4 proof by exhaustive kernel evaluation over regenerated tables + exhaustive model/code correspondence", "DESIGN.md §5 C20"),
 "C01": ("proof",
  "For every list of terms of the seven kinds (both UFF and RB are such lists), every configuration regular for each term, every atom and axis: the gradient (zeroed buffer + each term's translated add_gradient program at its own atoms) is the partial derivative of the summed energy — Mathlib HasDerivAt over the reals. That Forcefield::energy/gradient are exactly this sum/fold over the exported term list is checked bit for bit on generated molecules each run; the 1e-6 numerical clause is explored by finite differences on the real code.",
  TB + "Modelled: Forcefield::energy/gradient as sum/fold (corresponded bitwise). Real-number reading of f64 code. Torsion proved off the atan2 branch cut.",
  "Lean 4 proof (Mathlib real analysis) over gradient programs re-translated from the Rust source each run + bitwise model/code correspondence + finite-difference search", "DESIGN.md §5 C01"),
 "C02": ("proof",
  "For each of the 7 term kinds, all parameter values and all positions off the stated singular sets: the energy model equals the theory document's closed form (in independently written spec geometry), every one of the 6/9/12 translated gradient slots equals the exact derivative of that energy (per-slot identity tangent = gradient program, then HasDerivAt), and no other slot is written, for any index assignment inside a larger array. Gradient programs are re-translated from the Rust add_gradient bodies on every run and the proofs re-checked; the energy model and the translation are validated bit for bit against the Rust functions.",
  TB + "Hand energy model tied bitwise to the Rust energy functions. Real-number reading of f64 code. Torsion proved off the atan2 branch cut; repulsion exponent a natural number.",
  "Lean 4 proof (Mathlib: HasDerivAt, field_simp/ring identities per slot) over code re-translated each run + bitwise translation validation", "DESIGN.md §5 C02"),
 "C03": ("proof",
  "Over the reals, for the energy model of each of the seven term kinds and the gradient programs re-translated each run: every energy is invariant under translation of its atoms (unconditionally) and under every proper rotation (RtR = 1, det R = 1; torsion off its branch cut) — via proved invariance of dot products, cross products, distances, bond, dihedral and inversion angles; the translated gradient of every kind sums to zero over the term's atoms along each axis at every regular point (from invariance + gradient = derivative), hence for any force field; the translated gradient of every kind exerts zero net torque about each coordinate axis at every regular point (by differentiating the invariance along the three one-parameter rotation groups; with zero net force, about any point); the translated gradient of every kind is rotation covariant (g(Rx) = R g(x), atom by atom, at every regular point); perception depends on coordinates only through the candidate lists. Explored on the real code, not proved: float-level invariance at offsets up to 1e4 A, connectivity and force field rebuilt from moved coordinates.",
  TB + "Float-level behaviour is exploration. Real-number reading of f64 code.",
  "Lean 4 proof (Mathlib: invariance of the energy expressions, uniqueness of derivatives for zero net force) + rigid-motion search on the real code", "DESIGN.md §5 C03"),
 "C04": ("proof",
  "PARTIAL. Proved for all answer histories on the optimiser model: Molecule::optimise changes only the coordinates (frame); a start meeting the convergence criterion is returned unchanged bit for bit; the energies the optimiser remembers are never rising; one descent step with alpha*L <= 2 does not raise an L-smooth energy (reals). NOT proved: the unconditional 'never higher' clause on UFF/RB (floating-point trajectory of a non-convex function; the optimiser is blind to the energy after five evaluations per restart) — explored on the real optimiser over generated molecules inside the stated domain, with before/after snapshots of atoms, connectivity and terms.",
  TB + "Modelled: optimiser loop (recorded-history correspondence). The energy clause is exploration only; recorded known findings: overflow-scale bend coefficients at theta0 = pi (C06's), singular inversion/torsion terms at collinear neighbours (C06's), and a fixed-step walk that climbs after the five monitored energies fell. The collinear-bend NaN was repaired in /repo (0aa9bd3).",
  "Lean 4 proof of frame/fixed-point/monotone-history/descent-step on the optimiser model + search on the real optimiser for the energy clause", "DESIGN.md §5 C04"),
 "C05": ("proof",
  "For every answer list (hence every force field behind the trait, stateful or NaN-answering ones included), every start, step length and budget, over an arbitrary scalar: the passes form a Walk — each gradient request is at the previous geometry moved against the previous gradient by the one step length in force, or at the input geometry with the step length halved; the step length is only ever kept or halved; at most maxIter gradient requests; the run ends early exactly when the last gradient met the convergence test and never continues past one; the returned coordinates are the last pass's. Proved by induction over the loop fuel on the hand model, which reproduces recorded request histories of the real optimiser bit for bit.",
  TB + "Modelled: the optimiser loop (corresponded on recorded histories incl. synthetic force fields). Real-arithmetic reading of the convergence measure for n>0.",
  "Lean 4 proof (induction over loop fuel, all answer histories, abstract scalar) + bit-exact request-history correspondence", "DESIGN.md §5 C05"),
 "C06": ("proof",
  "PARTIAL. Proved: term construction is total for any numeric layer/typing/geometry (no type name reaches todo!() in the source as translated on this run; every rest-length lookup of a bend succeeds because angles are bonded paths; every row of the compiled type table carries an element symbol), the bend energies are regular exactly off r_ij = 0, r_kj = 0, sin(theta) = 0, the cosine-harmonic coefficient divides by zero iff sin(theta0) = 0, and the 17 table rows with theta0 = pi are enumerated by kernel evaluation. The verdict itself (no abort, no NaN/inf, no overflow-scale energy for inputs with pairwise distances >= 0.5 A) is a floating-point/panic property: explored on the real code over all elements, all coordination geometries in exact symmetry (axis-aligned and rotated), linear and planar molecules and fragments, with every failure attributed to the term that is singular; the collinear-bend defect was repaired in /repo (0aa9bd3: the model follows with Ex.clamp1 and a guarded program, and the guard's zero gradient on the collinear set is a lemma); three open defects are recorded as known findings.",
  TB + "Floating-point behaviour at singular configurations is outside the model: exploration with attribution. Known findings: type-B bend with theta0 = pi; inversion centre with two neighbours collinear with it; torsion with an end atom on the axis of its central bond.",
  "Lean 4 proof of construction totality and of the singular-set map + attributed exploration of the real code (known findings listed)", "DESIGN.md §5 C06"),
 "C07": ("proof",
  "For every finite history of energy/gradient requests at arbitrary geometries (which is what numerical-gradient and optimise requests amount to), over an arbitrary scalar and arbitrary term semantics: the answers to a further energy / gradient request are the pure functions of terms and geometry (the buffer's contents never matter, only its length, which is invariant), asking twice gives the same gradient, every answer in the history is the pure value; a variant without the zeroing step is refuted by a two-request witness. The model object (started with a dirty buffer) reproduces recorded answer sequences of real UFF/RB objects bit for bit, and each real answer is compared with a fresh object's.",
  TB + "Modelled: Forcefield::energy/gradient bodies (corresponded on histories). &[Point] immutability is a type-level fact.",
  "Lean 4 proof (invariant over request histories, abstract scalar/terms) + bit-exact history correspondence + fresh-object oracle", "DESIGN.md §5 C07"),
 "C08": ("proof",
  "For every permutation of the bond set's enumeration (= every hash seed): neighbour lists, the view atom typing reads (neighbours, aromatic count, order sum), impropers and non-bonded pairs are equal; angles and proper dihedrals are equal as key sets; the UFF stretch/bend/torsion/inversion/van-der-Waals lists are permutations of each other with equal atoms and parameters (rest-length lookup independent of position under unique keys); energy and gradient of permuted term lists are equal over the reals; and the list sorted by a key that is unique within the set — the order in which the repaired code (d96d9b1) creates the terms — is the SAME list for every enumeration, as is any left-to-right accumulation over it (no algebraic law assumed), which is why repeated runs are now bit-identical. The deterministic model reproduces every real construction bit for bit, and repeated constructions in one process plus repeated CLI runs are compared on low-symmetry inputs.",
  TB + "Modelled: set traversals as arbitrary enumerations. Bond-order assignment (guess + hypervalency refinement) proved to commute with re-enumeration. Before d96d9b1 float sums differed by rounding between runs and an unconverged optimisation amplified that (finding F17, fixed).",
  "Lean 4 proof (List.Perm invariance of every traversal) + bit-exact construction correspondence + repeated-construction / repeated-CLI search", "DESIGN.md §5 C08"),
 "C09": ("proof",
  "For every atom count, every distance predicate, every candidate order and every cap function: perceived bonds join distinct atoms within bonding distance, no pair twice, degree ≤ cap, and a pair within distance left unbonded has a saturated end (maximality); orders assignment keeps the pairs. Proved by loop invariants on the hand model of add_bonds/add_bond; the model (with candidate lists computed at f64 as the source does) is tied to the code by correspondence on crowded, tied, coincident and threshold geometries over all elements.",
  TB + "Modelled: perception loops (corresponded). f64 distance predicate evaluated by the driver.",
  "Lean 4 proof (fold invariants, monotonicity of degrees) + model/code correspondence", "DESIGN.md §5 C09"),
 "C10": ("proof",
  "For every atom count, every well-formed bond list and every enumeration order: angle keys = bonded paths i-j-k (i≠k), proper keys = bonded paths over four distinct atoms, one improper per three-neighbour centre, pairs partition into bonded / non-bonded; each once. Proved on the hand model of add_angles/add_dihedrals/add_non_bonded_pairs, which is tied to the code by exhaustive correspondence over all labelled graphs on ≤5 (quick) / ≤6 (thorough) atoms plus random graphs.",
  TB + "Modelled, not verified: the Rust loops themselves (tied by correspondence); HashSet = key-deduplicated list.",
  "Lean 4 proof (induction over list folds, all graphs/orders) + exhaustive small-scope model/code correspondence", "DESIGN.md §5 C10"),
 "C11": ("proof",
  "For any numeric layer, typing and geometry predicate: a successful UFF construction is stretches ++ bends ++ torsions ++ inversions ++ van der Waals with exactly one stretch per bond, one van der Waals term per non-bonded pair, one bend per angle (periodic form exactly at linear/trigonal-planar/square-planar/octahedral centres), torsions a sublist of the proper dihedrals present exactly when both central types are main-group and no flanking angle is near-linear, inversions a sublist of the impropers with one centred on an improper's centre iff its type is sp2 carbon or has a table row; RB is one stretch per bond at the radii sum with common k plus one repulsion per non-bonded pair with common c and exponent. With C10 this is 'each interaction exactly once'. The model with translated tables/formulas reproduces real term lists bit for bit.",
  TB + "Modelled: UFF::new/RB::new structure and typing rules (corresponded on assigned types and full term lists). Known finding: elements without an own UFF type are typed with a foreign row.",
  "Lean 4 proof (structure of the constructed term list for any numeric layer) + bit-exact term-list correspondence + multiset oracle", "DESIGN.md §5 C11"),
 "C12": ("proof",
  "For all argument values: the re-translated Rust expressions for r0, r_BO, r_EN, k_ij, k_ijk (cosine-rule r_ik), the van der Waals mixing and the torsional barriers evaluate over the reals to the published closed forms; with the source's c0, c1, c2 the cosine-harmonic bend equals k (cos t - cos t0)^2 / (2 sin^2 t0), is zero and stationary at t0, non-negative for k >= 0, with second derivative k at t0 (HasDerivAt); the periodic form is chosen exactly at linear/trigonal-planar/square-planar/octahedral centres with n = 4/3/4/4; and the compiled ATOM_TYPES equals field for field (127 x 14, kernel evaluation) what generate_atom_types.py makes of atom_types.txt. The numeric layer built from these translated formulas and tables reproduces the private parameter methods on all type pairs/orders and every parameter of every real term bit for bit.",
  TB + "Lean re-expression of the python generator is hand-written (trusted, cross-checked by the table theorem itself). Real-number reading of f64 formulas.",
  "Lean 4 proof (ring/field_simp closed forms, HasDerivAt for the bend, decide +kernel over the whole table) on formulas/tables re-translated each run + bit-exact parameter correspondence", "DESIGN.md §5 C12"),
 "C13": ("proof",
  "For every symbol and every three printed numbers (any widths): an atom line of the written file tokenises into exactly [symbol, x, y, z]; the first line is the count; reading the written lines back yields the same atoms in order with each coordinate = parse(print(value)); the six-decimal rounding rule is within 5e-7 of the value (ties included). Proved on the hand model of XYZFile::write/read; the driver's exact implementations of {:.6} and f64::from_str reproduce the real file bytes and read-back results byte for byte.",
  TB + "Modelled: writer/reader structure (corresponded on file bytes); std formatting/parsing by contract (corresponded).",
  "Lean 4 proof (tokenisation lemmas, round-trip induction, rounding bound) + byte-exact file correspondence", "DESIGN.md §5 C13"),
 "C14": ("proof",
  "For any list of lines and any token parsers: a reader success returns element and coordinate lists that are projections of one list of per-line results (equal length, entry i from the same line), never empty; well-formed files (blank lines, any spacing, trailing columns) are read exactly in file order; files without a readable atom line are refused. Proved on the hand model, which reproduces the real reader's outcome on well-formed and corrupted files (invalid UTF-8, CRLF, Unicode spaces, every exponent spelling) including exact coordinate bits.",
  TB + "Modelled: BufRead::lines / split_whitespace / str::parse by documented behaviour (corresponded).",
  "Lean 4 proof (all texts, abstract token parsers) + model/code correspondence on well-formed and corrupted files", "DESIGN.md §5 C14"),
 "C15": ("proof",
  "PARTIAL. Proved on the model of cli::run + clap definition + suffix check: an unknown force-field name or a non-.xyz input is refused and the file system is unchanged (also a pre-existing opt.xyz); a success writes exactly optimise(ff, read(file)) to opt.xyz and nothing else; UFF is the default and RB is selected by every spelling of the option. Observed, not proved: exit status, working-directory effects and clap — by running the real binary in fresh directories over option spellings x inputs and comparing opt.xyz with the library optimiser to the written precision.",
  TB + "Process and file-system behaviour observed only. Reader/writer is C13/C14, optimiser C05.",
  "Lean 4 proof of the decision logic on a CLI model + process-level conformance runs of the real binary", "DESIGN.md §5 C15"),
 "C16": ("proof",
  "For every N and every matrix: set_bond_orders yields exactly the bonds {(i,j,order m[i][j]) : i<j, entry non-zero} in the model of the loop (row = k / N), everything else re-derived from them on a cleared record; wrong size and unsupported upper-triangle values rejected. Model tied to the wrapper (driven from Rust through the hook) by exhaustive correspondence over all symmetric matrices on the order alphabet for N≤3 (quick) / N≤4 (thorough) plus random/asymmetric/malformed ones.",
  TB + "Modelled: the wrapper loop and the float tolerance classification (corresponded). A panic is read as rejection.",
  "Lean 4 proof (loop invariant over the flat index) + exhaustive small-scope model/code correspondence", "DESIGN.md §5 C16"),
}

def main():
    hooks = subprocess.run(["git", "-C", "/repo", "log", "--format=%h %s"], capture_output=True, text=True).stdout.splitlines()
    hook_commits = [l.split()[0] for l in hooks if "verif hook" in l]
    m = {
     "version": 1,
     "setup_cmd": "./setup.sh",
     "hooks": {"guard": "optrs_verif",
               "enable": "RUSTFLAGS=\"--cfg optrs_verif\" (set in /verif/harness/.cargo/config.toml; the harness depends on /repo by path)",
               "baseline_off_cmd": "cd /repo && cargo test --workspace --no-fail-fast --offline",
               "source_commits": hook_commits[::-1], "add_only": True},
     "engines": [
      {"name": "lean-model", "path": "lean", "serves_properties": sorted(CLAIMS), "kind_free_text": "Lean 4 models (hand-written + regenerated from /repo), property theorems, Mathlib-free model driver"},
      {"name": "harness", "path": "harness", "serves_properties": sorted(CLAIMS), "kind_free_text": "Rust harness calling the real code in-process through cfg(optrs_verif) hooks; writes correspondence cases and runs implementation-side oracles"},
      {"name": "translator", "path": "translate", "serves_properties": sorted(CLAIMS), "kind_free_text": "python translator: Rust tables, constants and add_gradient bodies -> Lean data"}],
     "checks": [], "not_applicable": [],
     "notes": "See DESIGN.md. Every check: translate -> lake build of the property's theorems + axiom audit -> harness/model correspondence -> oracle search -> evidence. "
              "When /repo/src differs from BASE_COMMIT the search is steered by the literals on the changed lines (OPTRS_HINTS) and an instrumented twin of the harness measures "
              "whether added code inside exercised functions is reached by the streams (a broken correspondence of kind 'reach' if not); on the baseline neither runs."}
    for i in range(1, 21):
        pid = f"C{i:02d}"
        if pid in CLAIMS:
            cat, text, note, tech, ref = CLAIMS[pid]
            m["checks"].append({"property_id": pid, "quick_cmd": f"./check {pid} --tier quick", "thorough_cmd": f"./check {pid} --tier thorough",
                                "evidence_file": f"evidence/{pid}.json", "replay_cmd_template": f"./check {pid} --replay {{path}}",
                                "engine": "lean-model", "level_claimed": {"category": cat, "text": text, "design_ref": ref},
                                "level_note": note, "technique": tech})
        else:
            m["not_applicable"].append({"property_id": pid, "reason": "check under construction in this session (not yet claimed); DESIGN.md §5 has the plan"})
    json.dump(m, open(os.path.join(V, "MANIFEST.json"), "w"), indent=1)
    print("claimed:", sorted(CLAIMS))

if __name__ == "__main__":
    main()
