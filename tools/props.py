"""Per-property check procedures. Each returns the process exit status via checklib.finish."""
import os
import checklib as L

TB_COMMON = [
    "Lean 4.33 kernel",
    "translator /verif/translate/*.py (parses the Rust tables/arithmetic; refuses unknown syntax)",
    "Rust harness /verif/harness + diff in tools/checklib.py (correspondence of hand models with the code)",
    "rustc/std semantics of the modelled library calls",
]


def oracle_pass(res, impl_lines, model_stream, label):
    """Feed implementation outputs to a reference oracle living in the Lean driver; collect FAIL lines."""
    if not impl_lines:
        return
    rc, out = L.sh([L.MODEL, model_stream], input_bytes=("\n".join(impl_lines) + "\n").encode(), timeout=3000)
    if rc != 0:
        res.broken.append(("correspondence", label, "oracle driver failed: " + out[-300:]))
        return
    for src, verdict in zip(impl_lines, out.splitlines()):
        if verdict.startswith("FAIL"):
            res.violations.append((f"[{label}] {verdict[5:]}", src))


def harness_lines(stream, args, res, label=None):
    rc, out = L.sh([L.HX, stream, "--seed", str(res.seed), "--tier", res.tier] + list(args), timeout=(900 if res.tier == "quick" else 3000))
    if rc != 0:
        res.broken.append(("harness", f"stream {label or stream}", f"exit {rc}: " + out[-600:]))
        return None
    return out.splitlines()


# ---------------------------------------------------------------------------------------------------- C20

def check_C20(res, replay):
    res.trusted = TB_COMMON + ["reference data OptRs/Props/C20Ref.lean (IUPAC symbols, Cordero 2008 radii), hand-transcribed",
                               "axioms: none beyond propext/Classical.choice/Quot.sound (audited with #print axioms on every run)"]
    res.assumptions = ["group/period/lookup functions are hand-modelled; the model is tied to the code by the exhaustive "
                       "correspondence over Z=0..130 and all symbols on every run"]
    L.run_translators(["tables"], res)
    L.prove(["OptRs.Props.C20"], res)
    if L.build_harness(res) and L.build_model(res):
        lines = harness_lines("atoms", [], res)
        if lines is not None:
            L.compare_lines(lines, "atoms", res, "atoms")
            impl = [l.split("\t", 1)[1] for l in lines if not l.startswith("#") and "\t" in l]
            oracle_pass(res, impl, "atoms-oracle", "atoms-oracle")
            res.exhaustive = True
    return L.finish(res, "proof", "lake build OptRs.Props.C20 (decide +kernel over all 118 elements) + #print axioms audit",
                    "exhaustive: every atomic number 0..130, every element symbol, plus a stream of non-symbols; "
                    "distinct = distinct query lines")


# (property, numeric stream) pairs where the model side IS what the property demands (C02: the documented closed form and its
# exact gradient), so that a disagreement beyond rounding is a failing input of the property itself and not only a broken tie
NUMERIC_PROVED = {
    ("C02", "terms"): "the energy model proved equal to the documented closed form, and the gradient program proved to be its derivative",
    # same atoms, same types, same term structure, but a parameter that is not the one the (translated, proved) equations give
    # ... or another form of term (a periodic bend where a cosine-harmonic one belongs, another environment): the statement fixes the form by the centre's environment
    ("C12", "build"): "construction applying the translated UFF equations, proved to be the published ones, to each bond / angle / pair of the molecule",
}


def standard(res, translators, prop_mods, streams, level, checker, rule, extra_audit=(), oracle_streams=()):
    """The common shape: translate, prove, build both sides, run each (stream, args, model_stream) and compare."""
    L.run_translators(translators, res)
    L.prove(prop_mods, res, extra_audit)
    if L.build_harness(res) and L.build_model(res):
        for spec in streams:
            stream, args, model_stream = spec[:3]
            lines = harness_lines(stream, args, res)
            if lines is not None:
                mism = L.compare_lines(lines, model_stream, res, stream, ignore_oracle=(len(spec) > 3 and spec[3] == "no-oracle"),
                                       structural=(len(spec) > 3 and spec[3] == "structural"))
                if mism and (res.pid, stream) in NUMERIC_PROVED:
                    L.numeric_search(mism, res, stream, NUMERIC_PROVED[(res.pid, stream)], per_token=(stream == "build"), forms=(stream == "build"))
        post = getattr(res, "post", None)
        if post:
            post(res)
    return L.finish(res, level, checker, rule)


# ---------------------------------------------------------------------------------------------------- C10

def check_C10(res, replay):
    res.trusted = TB_COMMON + ["axioms audited: subset of {propext, Classical.choice, Quot.sound}",
                               "hand model OptRs/Model/Topology.lean of add_angles/add_dihedrals/add_non_bonded_pairs"]
    res.assumptions = ["HashSet semantics modelled as key-deduplicated lists (insert keeps the first element of a key)",
                       "the model is tied to the code by the exhaustive correspondence over all labelled graphs on <=5 (quick) / <=6 (thorough) atoms plus random graphs"]
    res.exhaustive = True
    return standard(res, [], ["OptRs.Props.C10"], [("topology", [], "topology")], "proof",
                    "lake build OptRs.Props.C10 + #print axioms audit",
                    "every labelled graph on n<=5 atoms (quick; n<=6 thorough) with varied storage direction and insertion order, "
                    "plus random sparse/dense/star/ring/tree/disconnected graphs up to 40 atoms; non-trivial = has at least one angle",
                    extra_audit=["OptRs.Lemmas.Sets", "OptRs.Lemmas.TopologyLemmas", "OptRs.Model.Topology"])


# ---------------------------------------------------------------------------------------------------- C16

def check_C16(res, replay):
    res.trusted = TB_COMMON + ["axioms audited: subset of {propext, Classical.choice, Quot.sound}",
                               "hand model OptRs.Model.setBondOrders of PyMoleculeWrapper::set_bond_orders; float classification in the driver"]
    res.assumptions = ["a panic of the wrapper method is read as 'rejected' (what Python sees as an exception)",
                       "entries are abstract (zero / order / unsupported) in the theorems; the float tolerance reading is corresponded, not proved"]
    res.exhaustive = True
    return standard(res, ["tables"], ["OptRs.Props.C16", "OptRs.Props.C10"], [("matrix", [], "matrix")], "proof",
                    "lake build OptRs.Props.C16 OptRs.Props.C10 + #print axioms audit",
                    "all symmetric matrices over {0,1,1.5,2,3,4} for N<=3 (quick; N<=4 thorough), random symmetric and asymmetric "
                    "matrices to N=20, wrong sizes, unsupported and tolerance-edge values; through the cfg(optrs_verif) wrapper driver",
                    extra_audit=["OptRs.Lemmas.Sets", "OptRs.Lemmas.TopologyLemmas", "OptRs.Model.Topology"])


GRAD_LEMMAS = ["OptRs.Lemmas.GradPairs", "OptRs.Lemmas.GradBends", "OptRs.Lemmas.GradTorsion", "OptRs.Lemmas.GradInversion",
               "OptRs.Lemmas.TorsionAtoms", "OptRs.Lemmas.TorsionEnergy", "OptRs.Lemmas.InvBasic", "OptRs.Lemmas.InvCore",
               "OptRs.Lemmas.InvEnv", "OptRs.Lemmas.EnvR", "OptRs.Lemmas.FFReal", "OptRs.Lemmas.Geometry",
               "OptRs.Calc.Real", "OptRs.Calc.Atan2", "OptRs.Calc.Ex", "OptRs.Model.Energy"]
REAL_ASSUMPTION = ("theorems are about the real-number reading of the source text (literals exact, operations exact); rounding/cancellation "
                   "at a particular geometry is outside them and is covered by the finite-difference oracle on the real f64 code")


# ---------------------------------------------------------------------------------------------------- C02

def check_C02(res, replay):
    res.trusted = TB_COMMON + ["Mathlib (real analysis)", "hand energy model Model/Energy.lean tied bit-for-bit to the Rust energy functions",
                               "axioms audited: subset of {propext, Classical.choice, Quot.sound}"]
    res.assumptions = [REAL_ASSUMPTION, "torsion: proved off the atan2 branch cut (phi = ±pi) and off collinear i-j-k / j-k-l",
                       "repulsion exponent modelled as a natural number (the Rust field is i32; RB only ever uses 2)"]
    return standard(res, ["tables", "terms"], ["OptRs.Props.C02"], [("terms", [], "terms")], "proof",
                    "lake build OptRs.Props.C02 (per-slot identities tangent(energy) = translated gradient for all 7 kinds, closed forms) + #print axioms audit",
                    "per kind: random admissible parameters (all multiplicities/phases UFF assigns plus arbitrary reals) x random positions "
                    "(20% at large offsets) x random index assignment in a 12-atom array; energy and all gradient slots compared bit for bit with "
                    "the model; finite-difference and locality oracles on the Rust functions", extra_audit=GRAD_LEMMAS)


# ---------------------------------------------------------------------------------------------------- C01

def check_C01(res, replay):
    res.trusted = TB_COMMON + ["Mathlib (real analysis)", "hooks UFF::verif_terms / RB::verif_terms export the private term lists",
                               "axioms audited: subset of {propext, Classical.choice, Quot.sound}"]
    res.assumptions = [REAL_ASSUMPTION, "the 'one part in 1e6' clause is a floating-point claim: explored by Richardson-extrapolated central "
                       "differences of Forcefield::energy against Forcefield::gradient, skipping geometries within ~0.1 rad of a term's singular set",
                       "that Forcefield::energy/gradient are the sum/fold over exactly the exported terms is checked bit for bit on every generated molecule"]
    return standard(res, ["tables", "terms"], ["OptRs.Props.C01", "OptRs.Props.C02"], [("ff", [], "ff"), ("terms", [], "terms")], "proof",
                    "lake build OptRs.Props.C01 OptRs.Props.C02 + #print axioms audit",
                    "library of 25 molecules + random molecules (every element as centre in 9 coordination geometries, chains, rings, clusters) x "
                    "3 geometries (as built, distorted 0.05 A, distorted 0.15 A + rigid motion) x {UFF, RB}: energy and gradient compared bit for bit "
                    "with the model's sum over exported terms; finite-difference oracle on molecules of <= 14 atoms", extra_audit=GRAD_LEMMAS)


TOPO_AUDIT = ["OptRs.Lemmas.Sets", "OptRs.Lemmas.TopologyLemmas", "OptRs.Model.Topology", "OptRs.Model.Perceive", "OptRs.Model.Atoms"]


# ---------------------------------------------------------------------------------------------------- C09

def check_C09(res, replay):
    res.trusted = TB_COMMON + ["hand model OptRs.Model.perceiveBonds/addBond/assignOrders of Molecule::add_bonds; candidate lists computed at f64 in the driver",
                               "axioms audited: subset of {propext, Classical.choice, Quot.sound}"]
    res.assumptions = ["symmetry of the distance predicate over f64 ((a-b)^2 = (b-a)^2, r_i + r_j = r_j + r_i) is IEEE commutativity, exercised by the driver",
                       "theorems hold for any candidate order, so they do not depend on the sort; determinism/idempotence is by construction of the model and "
                       "checked on the implementation by re-perceiving",
                       "the oracle keeps a 1e-12 relative clearance around the 1.3 threshold (rounding there is not a violation)"]
    return standard(res, ["tables"], ["OptRs.Props.C09"], [("perceive", [], "perceive")], "proof",
                    "lake build OptRs.Props.C09 + #print axioms audit",
                    "library molecules; crowded clusters (6-20 atoms in a 3 A box, incl. noble gases); lattice geometries with exact distance ties and "
                    "coincident atoms; chains stretched to 1.29/1.2999/1.3001/1.31 x sum of radii over all 118 elements; distorted, rigidly moved and "
                    "united random molecules. Non-trivial = at least one bond", extra_audit=TOPO_AUDIT)


# ---------------------------------------------------------------------------------------------------- C05

def check_C05(res, replay):
    res.trusted = TB_COMMON + ["hand model OptRs.Model.optimise of SteepestDecentOptimiser::optimise (reactive: answers in, requests out)",
                               "recording Forcefield wrapper in the harness", "axioms audited: subset of {propext, Classical.choice, Quot.sound}"]
    res.assumptions = ["theorems are over an arbitrary scalar type with arbitrary operations and ALL answer lists; the reading 'sqrt(mean |g_i|) < 0.1 implies "
                       "mean |g_i| < 0.1, and all |g_i| < 0.01 implies converged' is real arithmetic for n > 0 atoms (n = 0: 0/0 = NaN never converges; no loader yields an empty molecule)",
                       "positivity of the step length follows from alpha_invariant with P = (0 < .) given the order law 0 < a -> 0 < a/2 (true in R and, for <= 500 halvings of 1e-4, in f64)"]
    return standard(res, ["tables"], ["OptRs.Props.C05", "OptRs.Props.C05Measure"], [("sd", [], "sd")], "proof",
                    "lake build OptRs.Props.C05 OptRs.Props.C05Measure + #print axioms audit",
                    "recorded request histories of Molecule::optimise / from_max_iterations(k) on UFF and RB force fields of library and random molecules, "
                    "and on synthetic fields: quadratic wells of stiffness 1..1e7 (several need halvings/restarts), monotonically rising energy, flat, "
                    "alternating, NaN energy, zero gradient, stateful answers, budgets 0 and 1; the model fed the answers must emit the identical request "
                    "fingerprints and final coordinates; the property's trace predicates are evaluated on each recording",
                    extra_audit=["OptRs.Model.SD"])


# ---------------------------------------------------------------------------------------------------- C13 / C14

XYZ_AUDIT = ["OptRs.Model.Xyz"]


def check_C13(res, replay):
    res.trusted = TB_COMMON + ["hand model OptRs.Model.Xyz of XYZFile::write/read", "driver's exact {:.6} formatter and f64::from_str (integer arithmetic), corresponded byte for byte",
                               "axioms audited: subset of {propext, Classical.choice, Quot.sound}"]
    res.assumptions = ["std contracts used by the theorems: a formatted number is non-empty and has no white space; parse(format(v)) is the nearest double of the printed decimal",
                       "end-to-end numeric clause checked as |read - written| <= 5e-7 + 1 ulp(value): the printed decimal is within 5e-7 (theorem round6_bound, ties included) and the parse rounds it to the nearest double"]
    return standard(res, ["tables"], ["OptRs.Props.C13"], [("xyz-write", [], "xyz-write")], "proof",
                    "lake build OptRs.Props.C13 + #print axioms audit",
                    "molecules over all 118 symbols with coordinates from every decade 1e-9..1e15, both signs, values <= -100 and >= 1000, dyadic sixth-decimal ties, "
                    "values that round up into a new digit, +-0; the file bytes and the read-back result are compared with the model; the property itself is "
                    "evaluated on the real file text and round trip", extra_audit=XYZ_AUDIT)


def check_C14(res, replay):
    res.trusted = TB_COMMON + ["hand model OptRs.Model.Xyz.readLines of XYZFile::read / append_atom_on_line", "driver's f64::from_str grammar + exact rounding, corresponded bit for bit",
                               "axioms audited: subset of {propext, Classical.choice, Quot.sound}"]
    res.assumptions = ["BufRead::lines, split_whitespace (Unicode White_Space), str::parse are modelled by their documented behaviour and corresponded, including invalid UTF-8 lines",
                       "the .xyz suffix check (a panic before any read) is covered under C15"]
    return standard(res, ["tables"], ["OptRs.Props.C14"], [("xyz-read", [], "xyz-read")], "proof",
                    "lake build OptRs.Props.C14 + #print axioms audit",
                    "half well-formed files (all 118 symbols; spaces, tabs, blank lines, CRLF, exponent/sign/bare-point spellings, trailing columns), half corruptions of them "
                    "(dropped/duplicated/swapped fields, non-numeric fields, unknown symbols, extra or missing header lines, truncated body, invalid UTF-8 bytes) plus a fixed corpus of "
                    "edge files; outcome canonicalised as err | ok [(Z, x bits, y bits, z bits)]", extra_audit=XYZ_AUDIT)


# ---------------------------------------------------------------------------------------------------- C07

def check_C07(res, replay):
    res.trusted = TB_COMMON + ["hand model OptRs.Model.FFObj of UFF/RB as objects (cached energy, reused gradient buffer)",
                               "Rust type system: Forcefield::energy/gradient take &[Point] (cannot modify the coordinates they are given)",
                               "axioms audited: subset of {propext, Classical.choice, Quot.sound}"]
    res.assumptions = ["numerical_gradient and optimise reach the object only through energy/gradient calls (true of the trait object interface), so histories of the four "
                       "request kinds are histories of primitive requests; the recorder wrapper logs exactly those",
                       "bit-for-bit: both sides of each theorem are the same expression tree over the same operations"]
    return standard(res, ["tables", "terms"], ["OptRs.Props.C07"], [("history", [], "history")], "proof",
                    "lake build OptRs.Props.C07 + #print axioms audit",
                    "per molecule and force field one object serves a random history of 4-40 requests (energy, gradient, numerical gradient, 20-step optimise) at "
                    "different distorted geometries; every primitive answer is compared with a fresh object's (oracle) and with the model object started from a "
                    "deliberately dirty buffer; the molecule's coordinate bits are compared before/after", extra_audit=["OptRs.Model.FFObj"])


# ---------------------------------------------------------------------------------------------------- C04

def check_C04(res, replay):
    res.trusted = TB_COMMON + ["optimiser model of C05 (recorded-history correspondence)", "Mathlib (linear arithmetic over the reals for the descent step)",
                               "axioms audited: subset of {propext, Classical.choice, Quot.sound}"]
    res.assumptions = ["PARTIAL: frame, fixed point, non-rising remembered energies and the conditional descent step are proved; the unconditional 'never returns a "
                       "higher-energy structure' on UFF/RB is a property of floating-point trajectories of a non-convex function (the optimiser stops looking at the "
                       "energy after five evaluations per restart) and is explored on the real optimiser, not proved",
                       "'energy under that force field' is measured with the very object the optimiser used (C07: its answers do not depend on history)"]
    L.run_translators(["tables"], res)
    L.prove(["OptRs.Props.C04", "OptRs.Props.C05"], res, ["OptRs.Model.SD"])
    if L.build_harness(res) and L.build_model(res):
        # sd: the optimiser model this property's theorems are about must still correspond (its trace predicates are C05's)
        for stream, model, io in (("sd", "sd", True), ("opt", "-", False)):
            lines = harness_lines(stream, [], res)
            if lines is not None:
                L.compare_lines(lines, model, res, stream, ignore_oracle=io)
        # the scripting interface's optimise(): only its frame oracle ([C04]) belongs to this property
        lines = harness_lines("wrapper", [], res)
        if lines is not None:
            L.compare_lines(lines, "wrapper", res, "wrapper", only_tag="[C04]")
        res.cases += int(res.stats.get("opt.optimisations", "0"))
        res.distinct += int(res.stats.get("opt.moved", "0"))
    return L.finish(res, "proof", "lake build OptRs.Props.C04 OptRs.Props.C05 + #print axioms audit",
                    "recorded optimiser histories (as C05) + real optimisations of library and random molecules (as built, distorted 0.02-0.25 A, compressed/stretched "
                    "0.8-1.25x, united with a second fragment at 2.5-6 A) with UFF and RB inside the property's domain (min distance >= 0.5 A, E0 < 1e4 kcal/mol per atom): "
                    "energy before/after with the same object, snapshots of atoms, connectivity and terms before/after; non-trivial = the optimiser moved the structure")


# ---------------------------------------------------------------------------------------------------- C11

BUILD_AUDIT = TOPO_AUDIT + ["OptRs.Model.BuildUFF"]


def check_C11(res, replay):
    res.trusted = TB_COMMON + ["hand model OptRs.Model.buildUFF/buildRB of UFF::new / RB::new; typing rules, derived per-type quantities and the inversion lookup in the driver",
                               "hooks verif_terms / verif_atom_types export the private term lists and assigned types",
                               "axioms audited: subset of {propext, Classical.choice, Quot.sound}"]
    res.assumptions = ["theorems are for ANY numeric layer/typing; 'each once' combines them with C10 (angles/dihedrals/impropers/pairs are the bond graph's, each once)",
                       "'centre whose type has tabulated inversion constants' is decided on the assigned UFF atom type",
                       "torsions within 0.1 rad of a linear flanking angle are dropped at construction (the statement's 'at most one')"]
    return standard(res, ["tables", "terms", "uff"], ["OptRs.Props.C11", "OptRs.Props.C10"], [("build", [], "build", "structural")], "proof",
                    "lake build OptRs.Props.C11 OptRs.Props.C10 + #print axioms audit",
                    "library molecules; every element as isolated atom; a third of the elements (all in thorough) as centres with H in nine coordination geometries; random "
                    "molecules (chains, rings incl. three-membered, clusters of arbitrary elements, metals) as built and distorted: assigned types and the sorted term list "
                    "(kind, atoms as stored; parameter values are C12's and are masked here) of UFF and RB compared with the model; the property's multiset predicates, "
                    "against the bond graph's angles/dihedrals/pairs enumerated by brute force, evaluated on the real term lists",
                    extra_audit=BUILD_AUDIT)


# ---------------------------------------------------------------------------------------------------- C12

def c12_table_search(res):
    """Search: which rows of the compiled table differ from the generated one (run on every check; names the failing row
    when the table-identity theorem breaks)."""
    rc, out = L.sh([L.MODEL, "table"], timeout=600)
    if rc != 0:
        res.broken.append(("correspondence", "table", out[-300:]))
        return
    for line in out.splitlines():
        if line.startswith("MISMATCH "):
            res.violations.append((f"[table] compiled ATOM_TYPES row {line[9:]} is not what generate_atom_types.py makes of atom_types.txt", "row " + line[9:]))
        elif line.startswith("rows "):
            res.stats["table.summary"] = line
    res.cases += 127


def check_C12(res, replay):
    res.trusted = TB_COMMON + ["Mathlib (real analysis for the type-B bend's derivative statements)",
                               "Lean re-expression Model/GenTypes.lean of generate_atom_types.py (valency rules, oxidation state, flags, barrier table, five-decimal theta)",
                               "hooks verif_r0 / verif_r_bo / verif_r_en / verif_k_ij / verif_k_ijk / verif_from_type_indices",
                               "axioms audited: subset of {propext, Classical.choice, Quot.sound}"]
    res.assumptions = [REAL_ASSUMPTION,
                       "table identity: text fields identical, numeric fields equal as exact decimals, theta to the generator's five decimals with the compiled PI / FRAC_PI_2 standing for 3.14159 / 1.57080",
                       "van der Waals 'distance parameter' is read as the type's r column, as theory.tex defines sigma (the x column of the table is not used by the code)"]
    res.exhaustive = True
    res.post = c12_table_search
    return standard(res, ["tables", "terms", "uff"], ["OptRs.Props.C12"], [("params", [], "params"), ("build", [], "build", "no-oracle")], "proof",
                    "lake build OptRs.Props.C12 (closed forms of the re-translated formulas; type-B minimum/curvature via HasDerivAt; decide +kernel over all 127x14 table fields) + #print axioms audit",
                    "the private parameter methods on pairs of the 127 atom types x orders 1, 1.5, 2, 3 (a quarter of all pairs in quick, all in thorough) and on random triples "
                    "for k_ijk, compared bit for bit with the model's evaluation of the translated formulas on the translated tables, and with the published equations written "
                    "independently in the harness; plus every parameter of every term of the built force fields of the `build` stream",
                    extra_audit=["OptRs.Model.GenTypes", "OptRs.Calc.Real", "OptRs.Model.BuildUFF"])


# ---------------------------------------------------------------------------------------------------- C08

def check_C08(res, replay):
    res.trusted = TB_COMMON + ["HashSet traversal modelled as traversal of an arbitrary enumeration (List.Perm = all hash seeds)",
                               "Mathlib (sum over a permutation for the real-valued energy)", "axioms audited: subset of {propext, Classical.choice, Quot.sound}"]
    res.assumptions = ["'equal to rounding' for energies/gradients: over the reals the sums are equal; in doubles only the summation order differs (checked to 1e-9 relative on the real code); "
                       "since the repair d96d9b1 the terms are created in the canonical order of their atom indices, and canonical_perm_invariant / canonical_foldl_perm_invariant show that "
                       "the canonically ordered list, and any left-to-right accumulation over it, is the same for every enumeration — no algebraic law needed",
                       "bond-order assignment (guess + hypervalency refinement) is proved to commute with re-enumeration of the bond set (bond_orders_perm, bond_order_of_pair_perm)",
                       "the optimised structure is a function of (start, answers) by C05's model, hence of the (order-independent) force field"]
    L.run_translators(["tables", "terms", "uff"], res)
    L.prove(["OptRs.Props.C08", "OptRs.Props.C08Orders", "OptRs.Props.C08Canon", "OptRs.Props.C10"], res, BUILD_AUDIT + ["OptRs.Lemmas.FFReal", "OptRs.Lemmas.OrdersPerm"])
    L.build_cli(res)
    if L.build_harness(res) and L.build_model(res):
        for stream, model, io in (("build", "build", True), ("repro", "-", False)):
            lines = harness_lines(stream, [], res)
            if lines is not None:
                L.compare_lines(lines, model, res, stream, ignore_oracle=io)
        res.cases += int(res.stats.get("repro.molecules", "0")) * int(res.stats.get("repro.constructions_per_molecule", "0"))
        res.distinct += int(res.stats.get("repro.with_centre_of_three_or_more_neighbours", "0"))
    return L.finish(res, "proof", "lake build OptRs.Props.C08 OptRs.Props.C08Orders OptRs.Props.C08Canon OptRs.Props.C10 + #print axioms audit",
                    "every molecule of the build stream is constructed once against the deterministic model; library + low-symmetry distorted centres (>= 3 neighbours with "
                    "pairwise different angles) are constructed 24 (quick) / 64 (thorough) times in one process — each HashSet draws fresh keys — comparing connectivity, assigned "
                    "types, sorted term lists bit for bit and UFF energy/gradient to 1e-9; the command-line tool is run 4 (quick) / 8 (thorough) times per input comparing the atoms and coordinates of opt.xyz to the written precision (1e-6 A)")


# ---------------------------------------------------------------------------------------------------- C17

def check_C17(res, replay):
    res.trusted = TB_COMMON + ["hand model OptRs.Model wrapper state machine of PyMoleculeWrapper; hook module optrs::verif::Wrapper drives the private type from Rust",
                               "axioms audited: subset of {propext, Classical.choice, Quot.sound}"]
    res.assumptions = ["a panic of a wrapper method is what Python sees as an exception ('rejected')",
                       "the file half of 'scripted = file' (text -> atoms and coordinates) is C13/C14; here both doors are given the same atoms and coordinates",
                       "build_3d is exercised only where its guard must refuse (an accepted build draws random coordinates: C19)"]
    return standard(res, ["tables", "terms", "uff"], ["OptRs.Props.C17", "OptRs.Props.C16"], [("wrapper", [], "wrapper")], "proof",
                    "lake build OptRs.Props.C17 OptRs.Props.C16 + #print axioms audit",
                    "random call sequences (2-12 calls) of set_coordinates (different coordinate sets, 15% wrong lengths) / generate_connectivty / set_bond_orders (plausible "
                    "matrices, wrong sizes, unsupported values) / build_3d (guard) / optimise over library and random molecules, the full state compared with the model after "
                    "every call; plus scripted-vs-file construction of each molecule (connectivity, coordinate bits, UFF energy)", extra_audit=BUILD_AUDIT + ["OptRs.Model.Wrapper"])


# ---------------------------------------------------------------------------------------------------- C15

def check_C15(res, replay):
    res.trusted = TB_COMMON + ["hand model OptRs.Model.Cli of cli::run + the clap definition + the .xyz suffix check", "the operating system's process and file-system behaviour (observed, not modelled)",
                               "axioms audited: subset of {propext, Classical.choice, Quot.sound}"]
    res.assumptions = ["PARTIAL: decision logic and composition are proved on the model; exit status, working-directory effects and clap's parsing are OBSERVED by running the real binary "
                       "(built from /repo's working tree) in fresh directories, not proved",
                       "coordinates in opt.xyz are compared with the in-process Molecule::optimise under the selected force field to the written precision (1e-6 A); the reading back of opt.xyz is C13/C14"]
    L.run_translators(["tables"], res)
    L.prove(["OptRs.Props.C15"], res, ["OptRs.Model.Cli"])
    L.build_cli(res)
    if L.build_harness(res) and L.build_model(res):
        lines = harness_lines("cli", [], res)
        if lines is not None:
            L.compare_lines(lines, "cli", res, "cli")
    return L.finish(res, "proof", "lake build OptRs.Props.C15 + #print axioms audit",
                    "valid input files (library and random molecules, distorted) x option spellings (absent, -f UFF, --forcefield RB, --forcefield=RB, -fRB, option before the file, "
                    "wrong case, unknown and empty names, missing value, two positionals, no arguments) x inputs without the .xyz suffix or missing, in fresh working directories half "
                    "of which already hold an opt.xyz; observed: exit status, presence/bytes of opt.xyz, atoms, finiteness, agreement with the library optimiser, energy not higher")


# ---------------------------------------------------------------------------------------------------- C19

def check_C19(res, replay):
    res.trusted = TB_COMMON + ["hand model OptRs.Model.build3d of Molecule::build_3d (coordinates opaque)", "axioms audited: subset of {propext, Classical.choice, Quot.sound}"]
    res.assumptions = ["PARTIAL: the structural half (bonds with orders, atoms and derived connectivity preserved for every enumeration and every optimiser outcome; budgets 20/500) is proved; "
                       "the geometric half (bond lengths within 25 % of the radii sum, no pair closer than 0.3 A, finite coordinates) is the outcome of a floating-point descent from "
                       "random starts (thread_rng, not seedable) and is explored on real builds, not proved",
                       "optimisations only write coordinates (C04 frame theorem)"]
    L.run_translators(["tables"], res)
    L.prove(["OptRs.Props.C19", "OptRs.Props.C05"], res, ["OptRs.Model.Wrapper", "OptRs.Lemmas.Sets", "OptRs.Model.SD"])
    if L.build_harness(res) and L.build_model(res):
        lines = harness_lines("build3d", [], res)
        if lines is not None:
            L.compare_lines(lines, "b3d", res, "build3d")
        res.cases += int(res.stats.get("build3d.builds", "0"))
    return L.finish(res, "proof", "lake build OptRs.Props.C19 OptRs.Props.C05 + #print axioms audit",
                    "bond tables of real molecules (library incl. rings, aromatic, triple bonds, metal complexes; alkanes to C8; generated molecules up to 36 atoms) built through the wrapper "
                    "(set_bond_orders then build_3d) 2 (quick) / 6 (thorough) times each with the builder's own random placements: bonds/atoms/derived connectivity before vs after and against "
                    "the model; bond-length deviation, smallest distance and finiteness of every result")


# ---------------------------------------------------------------------------------------------------- C06

def check_C06(res, replay):
    res.trusted = TB_COMMON + ["construction model of C11 (bit-exact term-list correspondence)", "Mathlib (regularity of the bend expressions)",
                               "hook UFF::verif_atom_types / verif_terms used to ATTRIBUTE failures to a signature (type name, environment, bend kind, collinear?)",
                               "axioms audited: subset of {propext, Classical.choice, Quot.sound}"]
    res.assumptions = ["PARTIAL: proved are the totality of the construction decisions (no todo!() arm is reachable, every rest-length lookup of a bend succeeds, every table row carries an element "
                       "symbol), the bends' singular set over the reals, and the enumeration of table rows with natural angle pi; the verdict 'no abort, no NaN/inf, no overflow-scale energy' "
                       "is a floating-point/panic property and is EXPLORED on the real code, every failure attributed to a signature",
                       "failures matching a signature in known_findings.json are reported as KNOWN-FINDING; any other signature is a VIOLATION"]
    L.run_translators(["tables", "terms", "uff"], res)
    L.prove(["OptRs.Props.C06"], res, BUILD_AUDIT + ["OptRs.Lemmas.GradBends", "OptRs.Model.GenTypes"])
    if L.build_harness(res) and L.build_model(res):
        for stream, model, io in (("build", "build", True), ("robust", "-", False)):
            lines = harness_lines(stream, [], res)
            if lines is not None:
                L.compare_lines(lines, model, res, stream, ignore_oracle=io)
        res.cases += int(res.stats.get("robust.inputs", "0"))
        res.distinct += int(res.stats.get("robust.force_fields_fully_exercised", "0"))
    return L.finish(res, "proof", "lake build OptRs.Props.C06 + #print axioms audit",
                    "inputs with pairwise distances >= 0.5 A: library; every element Z=1..118 as isolated atom, as diatomic with H/C/O/Cl, and as a centre with 1-6 H ligands in exactly linear / "
                    "bent / trigonal / pyramidal / tetrahedral / square-planar / trigonal-bipyramidal / octahedral arrangements — axis-aligned, randomly rotated+translated and distorted (a "
                    "fraction per run in quick, all in thorough); linear triatomics and polyynes on an axis and rotated; planar 3-8 rings; random molecules, distorted, united fragments. Each: "
                    "build UFF and RB, energy, gradient, optimise under catch_unwind; fail on panic, non-finite values or |E| > 1e6 kcal/mol per atom")


# ---------------------------------------------------------------------------------------------------- C18

def check_C18(res, replay):
    res.trusted = TB_COMMON + ["construction models of C09-C11 (bit-exact correspondences)", "Mathlib (sums, the tail bound)", "axioms audited: subset of {propext, Classical.choice, Quot.sound}"]
    res.assumptions = ["separation enters as: the candidate lists never cross (no atom of one group within 1.3 x radii sum of an atom of the other)",
                       "formal charges are per-atom because the molecular charge is 0 in every constructor (the shared remaining-charge counter is then never touched)",
                       "energy additivity is over the reals; the real code is checked to the van der Waals tail 2 D (sigma/r)^6 summed over cross pairs plus 1e-9 relative rounding"]
    L.run_translators(["tables", "terms", "uff"], res)
    L.prove(["OptRs.Props.C18", "OptRs.Props.C09", "OptRs.Props.C08"], res, BUILD_AUDIT + ["OptRs.Lemmas.FFReal"])
    if L.build_harness(res) and L.build_model(res):
        for stream, model, io in (("build", "build", True), ("perceive", "perceive", True), ("fragments", "-", False)):
            lines = harness_lines(stream, [], res)
            if lines is not None:
                L.compare_lines(lines, model, res, stream, ignore_oracle=io)
        res.cases += int(res.stats.get("fragments.unions_checked", "0"))
    return L.finish(res, "proof", "lake build OptRs.Props.C18 OptRs.Props.C09 OptRs.Props.C08 + #print axioms audit",
                    "pairs of random molecules (each <= ~14 atoms, distorted), the second rotated and placed 50-10000 A away in a random direction, both concatenation orders: "
                    "connectivity of the union vs union of the parts' (index-shifted) plus all cross pairs; assigned types; E(A+B) vs E(A)+E(B) within the cross van der Waals tail; forces; "
                    "plus the perception and construction correspondences the theorems rest on")


# ---------------------------------------------------------------------------------------------------- C03

def check_C03(res, replay):
    res.trusted = TB_COMMON + ["Mathlib (real analysis)", "energy model tied bit for bit to the Rust energy functions; gradient programs re-translated each run",
                               "axioms audited: subset of {propext, Classical.choice, Quot.sound}"]
    res.assumptions = [REAL_ASSUMPTION,
                       "translation invariance, rotation invariance of all seven energies, zero net force and zero net torque (about the three coordinate axes; with zero net force, about any point) "
                       "and the rotation covariance of every term's gradient (g(Rx) = R g(x) atom by atom) are theorems over the reals; float-level behaviour at large offsets is explored on the real code",
                       "perception under rigid motion: in floats a pair sitting within 1e-6 (relative) of the 1.3 x radii threshold, or two candidate distances tied to 1e-6, may flip by rounding — "
                       "such inputs are skipped for the connectivity comparison and counted"]
    L.run_translators(["tables", "terms", "uff"], res)
    L.prove(["OptRs.Props.C03", "OptRs.Props.C02"], res, GRAD_LEMMAS + ["OptRs.Lemmas.Translate", "OptRs.Lemmas.Rotate", "OptRs.Lemmas.Torque", "OptRs.Lemmas.Covariance", "OptRs.Model.Perceive"])
    if L.build_harness(res) and L.build_model(res):
        for stream, model, io in (("terms", "terms", True), ("rigid", "-", False)):
            lines = harness_lines(stream, [], res)
            if lines is not None:
                L.compare_lines(lines, model, res, stream, ignore_oracle=io)
        res.cases += int(res.stats.get("rigid.force_fields_checked", "0"))
        res.distinct += int(res.stats.get("rigid.force_fields_checked", "0"))
    return L.finish(res, "proof", "lake build OptRs.Props.C03 OptRs.Props.C02 + #print axioms audit",
                    "library and random molecules (distorted 0.02-0.2 A) x a random proper rotation (unit quaternion) x a translation of magnitude 1..1e4 A, for UFF and RB: energy of the same "
                    "force field on moved coordinates, gradient vs rotated gradient, net force and net torque about the centroid, perceived connectivity and the energy of the force field "
                    "rebuilt from the moved structure; plus the bitwise term correspondence the theorems rest on")
