"""Per-property check procedures. Each returns the process exit status via checklib.finish."""
import os
import checklib as L

TB_COMMON = [
    "Lean 4.33 kernel",
    "translator /verif/translate/*.py (parses the Rust tables/arithmetic; refuses unknown syntax)",
    "Rust harness /verif/harness + diff in tools/checklib.py (correspondence of hand models with the code)",
    "rustc/std semantics of the modelled library calls",
]


def oracle_pass(res, impl_lines, model_stream, label):
    """Feed implementation outputs to a reference oracle living in the Lean driver; collect FAIL lines."""
    if not impl_lines:
        return
    rc, out = L.sh([L.MODEL, model_stream], input_bytes=("\n".join(impl_lines) + "\n").encode(), timeout=3000)
    if rc != 0:
        res.broken.append(("correspondence", label, "oracle driver failed: " + out[-300:]))
        return
    for src, verdict in zip(impl_lines, out.splitlines()):
        if verdict.startswith("FAIL"):
            res.violations.append((f"[{label}] {verdict[5:]}", src))


def harness_lines(stream, args, res, label=None):
    rc, out = L.sh([L.HX, stream, "--seed", str(res.seed), "--tier", res.tier] + list(args), timeout=3000)
    if rc != 0:
        res.broken.append(("harness", f"stream {label or stream}", f"exit {rc}: " + out[-600:]))
        return None
    return out.splitlines()


# ---------------------------------------------------------------------------------------------------- C20

def check_C20(res, replay):
    res.trusted = TB_COMMON + ["reference data OptRs/Props/C20Ref.lean (IUPAC symbols, Cordero 2008 radii), hand-transcribed",
                               "axioms: none beyond propext/Classical.choice/Quot.sound (audited with #print axioms on every run)"]
    res.assumptions = ["group/period/lookup functions are hand-modelled; the model is tied to the code by the exhaustive "
                       "correspondence over Z=0..130 and all symbols on every run"]
    L.run_translators(["tables"], res)
    L.prove(["OptRs.Props.C20"], res)
    if L.build_harness(res) and L.build_model(res):
        lines = harness_lines("atoms", [], res)
        if lines is not None:
            L.compare_lines(lines, "atoms", res, "atoms")
            impl = [l.split("\t", 1)[1] for l in lines if not l.startswith("#") and "\t" in l]
            oracle_pass(res, impl, "atoms-oracle", "atoms-oracle")
            res.exhaustive = True
    return L.finish(res, "proof", "lake build OptRs.Props.C20 (decide +kernel over all 118 elements) + #print axioms audit",
                    "exhaustive: every atomic number 0..130, every element symbol, plus a stream of non-symbols; "
                    "distinct = distinct query lines")


def standard(res, translators, prop_mods, streams, level, checker, rule, extra_audit=(), oracle_streams=()):
    """The common shape: translate, prove, build both sides, run each (stream, args, model_stream) and compare."""
    L.run_translators(translators, res)
    L.prove(prop_mods, res, extra_audit)
    if L.build_harness(res) and L.build_model(res):
        for stream, args, model_stream in streams:
            lines = harness_lines(stream, args, res)
            if lines is not None:
                L.compare_lines(lines, model_stream, res, stream)
    return L.finish(res, level, checker, rule)


# ---------------------------------------------------------------------------------------------------- C10

def check_C10(res, replay):
    res.trusted = TB_COMMON + ["axioms audited: subset of {propext, Classical.choice, Quot.sound}",
                               "hand model OptRs/Model/Topology.lean of add_angles/add_dihedrals/add_non_bonded_pairs"]
    res.assumptions = ["HashSet semantics modelled as key-deduplicated lists (insert keeps the first element of a key)",
                       "the model is tied to the code by the exhaustive correspondence over all labelled graphs on <=5 (quick) / <=6 (thorough) atoms plus random graphs"]
    res.exhaustive = True
    return standard(res, [], ["OptRs.Props.C10"], [("topology", [], "topology")], "proof",
                    "lake build OptRs.Props.C10 + #print axioms audit",
                    "every labelled graph on n<=5 atoms (quick; n<=6 thorough) with varied storage direction and insertion order, "
                    "plus random sparse/dense/star/ring/tree/disconnected graphs up to 40 atoms; non-trivial = has at least one angle",
                    extra_audit=["OptRs.Lemmas.Sets", "OptRs.Lemmas.TopologyLemmas", "OptRs.Model.Topology"])


# ---------------------------------------------------------------------------------------------------- C16

def check_C16(res, replay):
    res.trusted = TB_COMMON + ["axioms audited: subset of {propext, Classical.choice, Quot.sound}",
                               "hand model OptRs.Model.setBondOrders of PyMoleculeWrapper::set_bond_orders; float classification in the driver"]
    res.assumptions = ["a panic of the wrapper method is read as 'rejected' (what Python sees as an exception)",
                       "entries are abstract (zero / order / unsupported) in the theorems; the float tolerance reading is corresponded, not proved"]
    res.exhaustive = True
    return standard(res, ["tables"], ["OptRs.Props.C16", "OptRs.Props.C10"], [("matrix", [], "matrix")], "proof",
                    "lake build OptRs.Props.C16 OptRs.Props.C10 + #print axioms audit",
                    "all symmetric matrices over {0,1,1.5,2,3,4} for N<=3 (quick; N<=4 thorough), random symmetric and asymmetric "
                    "matrices to N=20, wrong sizes, unsupported and tolerance-edge values; through the cfg(optrs_verif) wrapper driver",
                    extra_audit=["OptRs.Lemmas.Sets", "OptRs.Lemmas.TopologyLemmas", "OptRs.Model.Topology"])
