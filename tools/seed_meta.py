#!/usr/bin/env python3
"""tools/seed_meta.py <seed-id> <property> <detection text>: write seeded/<id>/meta.json from the sub-agent's meta
(meta.agent.json) and the check logs seed_test.sh left there."""
import json, os, sys, glob
sid, prop, det = sys.argv[1], sys.argv[2], sys.argv[3]
d = os.path.join(os.path.dirname(os.path.dirname(os.path.abspath(__file__))), "seeded", sid)
a = json.load(open(os.path.join(d, "meta.agent.json")))
checks = sorted(os.path.basename(p)[6:-4] for p in glob.glob(os.path.join(d, "check-*.log")))
checks.sort(key=lambda c: c != prop)
m = {"id": sid, "breaks_property": prop, "round": int(os.environ.get("ROUND", "3")), "summary": a.get("summary", ""), "needs_to_manifest": a.get("needs_to_manifest", ""),
     "files_changed": a.get("files_changed", []),
     "confirmed_by_me": "tools/seed_test.sh: in the scratch worktree the unedited suite passes with the change (82+82), the demonstration fails with it and passes "
                        "without it; then the patch was applied to /repo, the listed checks were run at the quick tier, and /repo was restored with git checkout",
     "checks_run": checks, "detection": det}
json.dump(m, open(os.path.join(d, "meta.json"), "w"), indent=1)
os.remove(os.path.join(d, "meta.agent.json"))
print("wrote", os.path.join(d, "meta.json"))
