#!/bin/bash
# usage: tools/seed_regress.sh [seed-id...]   — apply every kept seeded change to /repo in turn, run the check of the
# property it breaks (quick tier), restore /repo; prints one line per seed: caught-with-replay / caught-no-input / MISSED.
cd /verif
rm -rf /var/tmp/evidence.keep.$$; cp -a /verif/evidence /var/tmp/evidence.keep.$$   # evidence belongs to runs on the unchanged tree
IDS="$*"; [ -z "$IDS" ] && IDS=$(ls -d seeded/*/ | xargs -n1 basename)
for ID in $IDS; do
  P=$(python3 -c "import json;print(json.load(open('seeded/$ID/meta.json'))['breaks_property'])")
  # the checks to try, in order: the property's own, then the others that were run when the seed was kept (a change may be caught
  # by the check of another property it also breaks)
  PS=$(python3 -c "import json;m=json.load(open('seeded/$ID/meta.json'));print(' '.join([m['breaks_property']]+[c for c in m.get('checks_run',[]) if c!=m['breaks_property']]))")
  if ! git -C /repo apply /verif/seeded/$ID/patch.diff 2>/dev/null; then echo "$ID $P PATCH-DOES-NOT-APPLY"; continue; fi
  for Q in $PS; do
    OUT=$(./check $Q --tier quick 2>&1); RC=$?
    if [ $(echo "$OUT" | grep "^VIOLATION" | grep -vc "no-failing-input-found") -gt 0 ]; then [ $Q != $P ] && P="$P(by-$Q)"; break; fi
    [ $Q = $P ] && { OUT0="$OUT"; RC0=$RC; }
  done
  if [ $(echo "$OUT" | grep "^VIOLATION" | grep -vc "no-failing-input-found") -eq 0 ]; then OUT="$OUT0"; RC=$RC0; fi
  git -C /repo apply -R /verif/seeded/$ID/patch.diff 2>/dev/null; git -C /repo checkout -- .
  N=$(echo "$OUT" | grep -c "^VIOLATION")
  NF=$(echo "$OUT" | grep "^VIOLATION" | grep -c "no-failing-input-found")
  if [ $RC -eq 0 ] || [ $N -eq 0 ]; then echo "$ID $P MISSED (exit $RC)";
  elif [ $N -gt $NF ]; then echo "$ID $P caught-with-replay ($((N-NF)) replays)";
  else echo "$ID $P caught-no-failing-input"; fi
done
python3 translate/tables.py lean >/dev/null; python3 translate/terms.py lean >/dev/null; python3 translate/uff.py lean >/dev/null
rm -rf /verif/evidence; mv /var/tmp/evidence.keep.$$ /verif/evidence
git -C /repo status --short | head -3
