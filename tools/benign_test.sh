#!/bin/bash
# usage: tools/benign_test.sh <patch.diff> [checks...]  — apply a behaviour-preserving patch to /repo, run the quick checks,
# restore /repo. Any VIOLATION line is a false alarm (or, with no-failing-input-found, a tie the rewrite broke).
cd /verif
rm -rf /var/tmp/evidence.keep.$$; cp -a /verif/evidence /var/tmp/evidence.keep.$$   # evidence belongs to runs on the unchanged tree
PATCH=$1; shift; CHECKS="$*"
[ -z "$CHECKS" ] && CHECKS="C01 C02 C03 C04 C05 C06 C07 C08 C09 C10 C11 C12 C13 C14 C15 C16 C17 C18 C19 C20"
git -C /repo apply $PATCH || { echo "PATCH DOES NOT APPLY: $PATCH"; exit 2; }
for P in $CHECKS; do
  OUT=$(./check $P --tier quick 2>&1); RC=$?
  V=$(echo "$OUT" | grep -c "^VIOLATION"); NF=$(echo "$OUT" | grep "^VIOLATION" | grep -c "no-failing-input-found")
  if [ $RC -ne 0 ] || [ $V -gt 0 ]; then
    echo "$P exit=$RC violations=$V (no-input: $NF)"; echo "$OUT" | grep "^BROKEN" | cut -c1-300 | head -4
  fi
done
git -C /repo apply -R $PATCH 2>/dev/null; git -C /repo checkout -- .; git -C /repo status --short | head -3
python3 translate/tables.py lean >/dev/null; python3 translate/terms.py lean >/dev/null; python3 translate/uff.py lean >/dev/null
rm -rf /verif/evidence; mv /var/tmp/evidence.keep.$$ /verif/evidence
echo "done $PATCH"
