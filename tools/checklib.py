"""Driver library behind ./check: translate -> prove -> correspond -> search -> evidence -> verdict.

Stages per run (DESIGN.md §7.1):
 1. translators regenerate OptRs/Gen/*.lean from /repo's working tree;
 2. `lake build` of the property's theorem modules + the model driver; axiom / sorry audit;
 3. the Rust harness is rebuilt against /repo with --cfg optrs_verif;
 4. corpus first, then generated cases: harness stream | model driver, diffed; direct oracle lines collected;
 5. evidence/<id>.json; 6. verdict lines, exit status.
"""
import fcntl
import hashlib
import json
import os
import re
import subprocess
import sys
import time

VERIF = os.path.dirname(os.path.dirname(os.path.abspath(__file__)))
LEAN = os.path.join(VERIF, "lean")
HARNESS = os.path.join(VERIF, "harness")
TARGET = "/var/tmp/optrs-verif-target"
HX = os.path.join(TARGET, "debug", "hx")
MODEL = os.path.join(LEAN, ".lake", "build", "bin", "optrs-model")
SCRATCH = "/var/tmp/optrs-verif-scratch"
REPO = os.environ.get("OPTRS_REPO", "/repo")
TIE_ASSUMPTION = ("the theorems quantify over every input of the MODEL; where the model is hand-written its tie to the code is the correspondence on the "
                  "input classes listed under coverage, so a code change that acts only on inputs outside those classes (one size, one exact value, "
                  "one file name, one call order no generator produces) is not seen until such a class is added (DESIGN 11.5, rounds 6 and 7)")
ALLOWED_AXIOMS = {"propext", "Classical.choice", "Quot.sound"}

sys.path.insert(0, os.path.join(VERIF, "translate"))


def _limit_harness():
    # the harness runs the code under test: a change that makes it loop while allocating must end as a failed
    # stream (allocation failure aborts the process), not take the machine down
    import resource
    resource.setrlimit(resource.RLIMIT_AS, (24 << 30, 24 << 30))


BASE_COMMIT_FILE = os.path.join(VERIF, "BASE_COMMIT")
_HINTS = None


def source_hints():
    """Values the current source differs from the verified baseline in: the integer, floating-point and string literals on
    the lines of `git diff <baseline> -- src`. They are handed to the harness (OPTRS_HINTS), whose generators add inputs built
    around them — systems of that many atoms or terms, distances / entries / moves of that size, files of that name. A search
    heuristic only (a change is often gated on a constant it introduces); with no difference there are no hints."""
    global _HINTS
    if _HINTS is not None:
        return _HINTS
    base = ""
    try:
        base = open(BASE_COMMIT_FILE).read().strip()
    except OSError:
        pass
    out = ""
    for ref in ([base] if base else []) + ["HEAD"]:
        try:
            p = subprocess.run(["git", "-C", REPO, "diff", "--no-color", "-U0", ref, "--", "src"], stdout=subprocess.PIPE, stderr=subprocess.DEVNULL, timeout=60)
        except Exception:
            continue
        if p.returncode == 0:
            out = p.stdout.decode("utf-8", "replace")
            break
    added, removed = [], []
    for line in out.splitlines():
        if line.startswith("+++") or line.startswith("---"):
            continue
        if line.startswith("+"):
            added.append(re.sub(r"//.*", "", line[1:]))
        elif line.startswith("-"):
            removed.append(re.sub(r"//.*", "", line[1:]))
    old_text = "\n".join(removed)

    def literals(text):
        ints, floats, strs = [], [], []
        for m in re.finditer(r'"([^"\\\n]{1,40})"', text):
            strs.append(m.group(1))
        t = re.sub(r'"[^"\n]*"', " ", text)
        for m in re.finditer(r"(?<![\w.])(\d[\d_]*)\s*<<\s*(\d+)", t):
            ints.append(int(m.group(1).replace("_", "")) << int(m.group(2)))
        t = re.sub(r"(?<![\w.])(\d[\d_]*)\s*<<\s*(\d+)", " ", t)
        for m in re.finditer(r"(?<![\w.])(\d[\d_]*\.\d*(?:[eE][-+]?\d+)?|\d[\d_]*[eE][-+]?\d+)(?:_?f64)?(?![\w])", t):
            try:
                floats.append(float(m.group(1).replace("_", "")))
            except ValueError:
                pass
        t = re.sub(r"(?<![\w.])(\d[\d_]*\.\d*(?:[eE][-+]?\d+)?|\d[\d_]*[eE][-+]?\d+)(?:_?f64)?(?![\w])", " ", t)
        for m in re.finditer(r"(?<![\w.])(\d[\d_]*)(?:_?(?:usize|u8|u16|u32|u64|i32|i64|isize))?(?![\w.]|\s*<<)", t):
            v = int(m.group(1).replace("_", ""))
            ints.append(v)
        return ints, floats, strs

    ai, af, as_ = literals("\n".join(added))
    oi, of, os_ = literals(old_text)
    def order(new, old):
        seen, res = set(), []
        for v in [x for x in new if x not in old] + [x for x in new if x in old] + old:   # novel values first
            if v not in seen:
                seen.add(v); res.append(v)
        return res
    ints = [v for v in order(ai, oi) if 5 <= v <= 10_000_000][:10]
    floats = [v for v in order(af, of) if v == v and 0.0 < abs(v) < 1e300 and v not in (1.0, 2.0, 0.5)][:10]
    strs = [v for v in order(as_, os_) if re.fullmatch(r"[A-Za-z0-9_.\-/ ]{1,40}", v)][:6]
    _HINTS = {"ints": ints, "floats": floats, "strs": strs}
    return _HINTS


def hints_env():
    h = source_hints()
    parts = ["i:%d" % v for v in h["ints"]] + ["f:%r" % v for v in h["floats"]] + ["s:" + v for v in h["strs"]]
    return ";".join(parts)


# ------------------------------------------------------------------------------------------------ reach of the tie
# The correspondence ties the model to the code the streams EXECUTE. When the source differs from the verified baseline, the lines
# that are new (not merely moved, re-indented or re-worded inside a string literal) and lie inside functions this property's
# streams do exercise must themselves be executed by those streams; if some never are, the tie says nothing about them and that is
# reported as a broken correspondence ("reach"). Measured with an instrumented twin of the harness (rustc -C instrument-coverage,
# nightly toolchain and its llvm tools), built and run only when the source differs: on the baseline nothing of this runs.
COV_TARGET = "/var/tmp/optrs-verif-cov"
COV_HX = os.path.join(COV_TARGET, "debug", "hx")
COV_CLI = os.path.join(COV_TARGET, "cli", "debug", "optrs")
LLVM_BIN = os.path.expanduser("~/.rustup/toolchains/nightly-x86_64-unknown-linux-gnu/lib/rustlib/x86_64-unknown-linux-gnu/bin")
COV_DIR = os.path.join("/var/tmp/optrs-verif-scratch", "cov-%d" % os.getpid())
_CHANGED = None
_COV_READY = None


def _norm_code(line):
    t = re.sub(r"//.*", "", line)
    t = re.sub(r'"(?:[^"\\]|\\.)*"', '""', t)
    return re.sub(r"\s+", "", t)


def changed_lines():
    """{path relative to /repo: sorted new-side line numbers} of the lines that are new code relative to the baseline."""
    global _CHANGED
    if _CHANGED is not None:
        return _CHANGED
    base = ""
    try:
        base = open(BASE_COMMIT_FILE).read().strip()
    except OSError:
        pass
    out = ""
    for ref in ([base] if base else []) + ["HEAD"]:
        try:
            p = subprocess.run(["git", "-C", REPO, "diff", "--no-color", "-U0", ref, "--", "src"], stdout=subprocess.PIPE, stderr=subprocess.DEVNULL, timeout=60)
        except Exception:
            continue
        if p.returncode == 0:
            out = p.stdout.decode("utf-8", "replace")
            break
    removed = set()
    hunks = []          # (file, [(line number, text)] added, number of removed code lines)
    cur, ln = None, 0
    for line in out.splitlines():
        if line.startswith("+++ "):
            cur = line[6:] if line.startswith("+++ b/") else None
        elif line.startswith("@@"):
            m = re.search(r"\+(\d+)", line)
            ln = int(m.group(1)) if m else 0
            hunks.append([cur, [], 0])
        elif line.startswith("+") and not line.startswith("+++"):
            if hunks and cur and cur.endswith(".rs"):
                hunks[-1][1].append((ln, line[1:]))
            ln += 1
        elif line.startswith("-") and not line.startswith("---"):
            c = _norm_code(line[1:])
            removed.add(c)
            if hunks and len(re.sub(r"[^A-Za-z0-9]", "", c)) >= 2:
                hunks[-1][2] += 1
    # hunks of one file that lie within 15 lines of each other are one change (diff splits a rewritten function arbitrarily)
    merged = []
    for f, add, n_removed in hunks:
        start = add[0][0] if add else None
        if merged and merged[-1][0] == f and start is not None and merged[-1][3] is not None and start - merged[-1][3] <= 15:
            merged[-1][1].extend(add); merged[-1][2] += n_removed; merged[-1][3] = add[-1][0]
        elif merged and merged[-1][0] == f and start is None:
            merged[-1][2] += n_removed          # a pure deletion right after: counted with the change before it
        else:
            merged.append([f, list(add), n_removed, add[-1][0] if add else None])
    res = {}
    DIAG = re.compile(r"^\s*(?:log::)?(?:debug|info|warn|error|trace|debug_assert|debug_assert_eq|debug_assert_ne|println|eprintln)!\s*[\(\[{]")
    CONTROL = re.compile(r"^\s*(?:return|continue|break)\b[^=]*;?\s*$")
    for f, add, n_removed, _ in merged:
        novel = []
        depth_in_diag = 0
        for n, text in add:
            code = re.sub(r"//.*", "", text)
            if depth_in_diag > 0:                         # continuation lines of a log / debug-assert invocation
                depth_in_diag += code.count("(") - code.count(")")
                continue
            if DIAG.match(code):                          # diagnostics say nothing about results: not judged
                depth_in_diag = max(code.count("(") - code.count(")"), 0)
                continue
            if CONTROL.match(code):                       # a bare return / continue / break carries no computation of its own
                continue
            c = _norm_code(text)
            if len(re.sub(r"[^A-Za-z0-9]", "", c)) < 2 or c in removed:      # punctuation only, or a line that merely moved / was re-worded
                continue
            novel.append(n)
        # code that REPLACES code (a rewritten match arm, a loop turned into an iterator chain) is compared with nothing here: the
        # lines it replaces may have been just as cold. What counts is code that was ADDED: a hunk that removes nothing, or grows
        # well beyond what it removes.
        if f and novel and (n_removed == 0 or len(novel) >= 2 * n_removed + 4):
            res.setdefault(f, []).extend(novel)
    _CHANGED = res
    return res


def reach_enabled():
    return bool(changed_lines()) and os.path.exists(os.path.join(LLVM_BIN, "llvm-cov"))


def build_cov():
    """Build the instrumented twins (harness and CLI). Returns True when they are there."""
    global _COV_READY
    if _COV_READY is not None:
        return _COV_READY
    # (instrumented proc-macros and build scripts run inside the build: their own profile data go to a junk file, not the crate directory)
    junk = os.path.join(COV_TARGET, "build-junk-%p.profraw")
    env = {"RUSTFLAGS": "--cfg optrs_verif -C instrument-coverage", "CARGO_TARGET_DIR": COV_TARGET, "CARGO_BUILD_RUSTFLAGS": "", "LLVM_PROFILE_FILE": junk}
    with Lock("cargo-cov"):
        rc, out = _sh_plain(["cargo", "+nightly", "build", "--quiet", "--offline"], cwd=HARNESS, timeout=3000, env=env)
        rc2, out2 = _sh_plain(["cargo", "+nightly", "build", "--quiet", "--offline", "--bin", "optrs", "--manifest-path", os.path.join(REPO, "Cargo.toml"),
                               "--target-dir", os.path.join(COV_TARGET, "cli")], timeout=3000, env={"RUSTFLAGS": "-C instrument-coverage", "LLVM_PROFILE_FILE": junk})
        for f in os.listdir(COV_TARGET):
            if f.startswith("build-junk-"):
                try:
                    os.remove(os.path.join(COV_TARGET, f))
                except OSError:
                    pass
    # never leave anything in the repository: a profile file a tool wrote there despite the setting above is removed
    for f in os.listdir(REPO):
        if re.fullmatch(r"default_\d+_\d+_\d+\.profraw|default\.profraw", f):
            try:
                os.remove(os.path.join(REPO, f))
            except OSError:
                pass
    _COV_READY = (rc == 0 and os.path.exists(COV_HX))
    return _COV_READY


def _sh_plain(cmd, cwd=None, timeout=None, env=None):
    e = dict(os.environ)
    e["CARGO_NET_OFFLINE"] = "true"
    if env:
        e.update(env)
    try:
        p = subprocess.run(cmd, cwd=cwd, stdout=subprocess.PIPE, stderr=subprocess.STDOUT, timeout=timeout, env=e)
    except subprocess.TimeoutExpired:
        return -1, "timeout"
    return p.returncode, p.stdout.decode("utf-8", "replace")


def cov_twin(cmd, timeout):
    """Run the instrumented twin of a harness command; its profile data accumulate in COV_DIR."""
    if not (reach_enabled() and build_cov()):
        return
    os.makedirs(COV_DIR, exist_ok=True)
    e = dict(os.environ)
    e.update({"OPTRS_HINTS": hints_env(), "LLVM_PROFILE_FILE": os.path.join(COV_DIR, "p-%p-%m.profraw"), "OPTRS_CLI": COV_CLI})
    try:
        subprocess.run([COV_HX] + list(cmd[1:]), stdout=subprocess.DEVNULL, stderr=subprocess.DEVNULL, timeout=timeout or 3000, env=e, preexec_fn=_limit_harness)
    except Exception:
        pass


def reach_report(pid):
    """(checked, [(file, [lines])] never executed) for the new lines inside functions the streams exercise, within the property's anchor files."""
    if not (reach_enabled() and _COV_READY and os.path.isdir(COV_DIR)):
        return 0, []
    import glob
    raws = glob.glob(os.path.join(COV_DIR, "*.profraw"))
    if not raws:
        return 0, []
    prof = os.path.join(COV_DIR, "merged.profdata")
    rc, _ = _sh_plain([os.path.join(LLVM_BIN, "llvm-profdata"), "merge", "-sparse"] + raws + ["-o", prof], timeout=600)
    if rc != 0:
        return 0, []
    objs = [COV_HX] + (["-object", COV_CLI] if os.path.exists(COV_CLI) else [])
    rc, lcov = _sh_plain([os.path.join(LLVM_BIN, "llvm-cov"), "export", "-format=lcov", "-instr-profile=" + prof] + objs + ["--sources", os.path.join(REPO, "src")], timeout=600)
    if rc != 0:
        return 0, []
    anchors = set()
    try:
        for l in open(os.path.join(VERIF, "properties.jsonl")):
            pr = json.loads(l)
            if pr["id"] == pid:
                anchors = {f for f in pr["anchors"]["files"] if f.endswith(".rs")}
    except Exception:
        pass
    da, fns = {}, {}
    cur = None
    for line in lcov.splitlines():
        if line.startswith("SF:"):
            cur = os.path.relpath(line[3:], REPO)
            da.setdefault(cur, {}); fns.setdefault(cur, {})
        elif line.startswith("DA:") and cur:
            a, b = line[3:].split(",")[:2]
            da[cur][int(a)] = max(da[cur].get(int(a), 0), int(b))
        elif line.startswith("FN:") and cur:
            a, name = line[3:].split(",", 1)
            fns[cur].setdefault(name, [int(a.split(",")[0]), 0])
        elif line.startswith("FNDA:") and cur:
            c, name = line[5:].split(",", 1)
            fns[cur].setdefault(name, [0, 0])[1] += int(c)
    checked, missing = 0, []
    for f, lines in changed_lines().items():
        if (anchors and f not in anchors) or f not in da:
            continue
        starts = sorted({v[0] for v in fns.get(f, {}).values() if v[0] > 0})
        def fn_of(n):
            s0 = [x for x in starts if x <= n]
            if not s0:
                return None
            lo = s0[-1]
            hi = min([x for x in starts if x > lo] + [10 ** 9])
            return lo, hi
        miss = []
        for n in lines:
            if n not in da[f]:
                continue                                  # not an executable line
            rng = fn_of(n)
            if rng is None:
                continue
            exercised = any(c > 0 for k, c in da[f].items() if rng[0] <= k < rng[1])
            if not exercised:
                continue                                  # a function this property's streams do not use: not its code
            checked += 1
            if da[f][n] == 0:
                miss.append(n)
        if miss:
            missing.append((f, miss))
    try:
        import shutil
        shutil.rmtree(COV_DIR, ignore_errors=True)
    except Exception:
        pass
    return checked, missing


def sh(cmd, cwd=None, timeout=None, env=None, input_bytes=None):
    e = dict(os.environ)
    e["CARGO_NET_OFFLINE"] = "true"
    if cmd and cmd[0] == HX:
        e["OPTRS_HINTS"] = hints_env()
        cov_twin(cmd, timeout)
    if env:
        e.update(env)
    pre = _limit_harness if cmd and cmd[0] == HX else None
    try:
        p = subprocess.run(cmd, cwd=cwd, stdout=subprocess.PIPE, stderr=subprocess.STDOUT, timeout=timeout, env=e,
                           input=input_bytes, preexec_fn=pre)
    except subprocess.TimeoutExpired as ex:
        return -1, f"timed out after {timeout} s: " + (ex.stdout or b"").decode("utf-8", "replace")[-400:]
    return p.returncode, p.stdout.decode("utf-8", "replace")


class Lock:
    def __init__(self, name="build"):
        os.makedirs(SCRATCH, exist_ok=True)
        self.path = os.path.join(SCRATCH, name + ".lock")

    def __enter__(self):
        self.f = open(self.path, "w")
        fcntl.flock(self.f, fcntl.LOCK_EX)
        return self

    def __exit__(self, *a):
        fcntl.flock(self.f, fcntl.LOCK_UN)
        self.f.close()


class Result:
    """Accumulates what one run established."""

    def __init__(self, pid, tier, seed):
        self.pid, self.tier, self.seed = pid, tier, seed
        self.gen_deps = None
        self.notes = []      # translator notes: parts of the model kept at their hand value (source site not located)
        self.t0 = time.time()
        self.obligations = []       # theorem names expected
        self.discharged = []        # theorem names that checked
        self.broken = []            # (kind, name, detail)  kind in translate|theorem|audit|harness|correspondence
        self.violations = []        # (what, replay_text)   concrete failing inputs
        self.known = []             # (what)
        self.cases = 0
        self.distinct = 0
        self.samples = []
        self.stats = {}
        self.assumptions = []
        self.trusted = []
        self.notes = []
        self.axioms = {}
        self.exhaustive = None

    def wall(self):
        return time.time() - self.t0


# ------------------------------------------------------------------------------------------------ translate

# what each translator generates, and (below) which of it a property's theorems import
GEN_OF = {"tables": {"OptRs.Gen.Tables", "OptRs.Gen.AtomTypes"}, "terms": {"OptRs.Gen.Grad"}, "uff": {"OptRs.Gen.UffFormulas"}}
GEN_FILES = {"tables": ["lean/OptRs/Gen/Tables.lean", "lean/OptRs/Gen/AtomTypes.lean"], "terms": ["lean/OptRs/Gen/Grad.lean"],
             "uff": ["lean/OptRs/Gen/UffFormulas.lean"]}


def restore_kept(name):
    """A translator refused the source: put back the committed generated files (the model of the tree the proofs were
    written against) so that what the driver and the theorems see is a known model, not whatever an earlier run left."""
    for rel in GEN_FILES.get(name, []):
        rc, out = sh(["git", "-C", VERIF, "show", "HEAD:" + rel])
        if rc == 0 and out.strip():
            path = os.path.join(VERIF, rel)
            try:
                if open(path, encoding="utf-8").read() != out:
                    open(path, "w", encoding="utf-8").write(out)
            except OSError:
                pass


def import_closure(mods):
    seen, stack = set(), list(mods)
    while stack:
        m = stack.pop()
        if m in seen:
            continue
        seen.add(m)
        try:
            text = open(module_path(m), encoding="utf-8").read()
        except OSError:
            continue
        stack.extend(x for x in re.findall(r"^import\s+(\S+)", text, flags=re.M) if x.startswith("OptRs"))
    return seen


def run_translators(names, res):
    ok = True
    for n in names:
        try:
            mod = __import__(n)
            import common
            try:
                mod.main(LEAN)
                for note in getattr(mod, "NOTES", []):
                    if note not in res.notes:
                        res.notes.append(note)
            except common.TranslateError as e:
                res.broken.append(("translate", n, str(e)))
                restore_kept(n)
                ok = False
        except Exception as e:  # parser crash = refusal
            res.broken.append(("translate", n, f"{type(e).__name__}: {e}"))
            restore_kept(n)
            ok = False
    return ok


# ------------------------------------------------------------------------------------------------ lean

def theorem_index(path):
    """(line, qualified name) of every theorem in a Props file."""
    out = []
    ns = []
    with open(path, encoding="utf-8") as f:
        for i, line in enumerate(f, 1):
            m = re.match(r"namespace\s+(\S+)", line)
            if m:
                ns.append(m.group(1))
            m = re.match(r"end\s+(\S+)", line)
            if m and ns and ns[-1] == m.group(1):
                ns.pop()
            m = re.match(r"(?:@\[[^\]]*\]\s*)?(?:private\s+|protected\s+)?theorem\s+(\S+)", line)
            if m:
                out.append((i, ".".join(ns + [m.group(1)])))
    return out


def module_path(mod):
    return os.path.join(LEAN, mod.replace(".", "/") + ".lean")


def lake_build(targets, timeout=3000):
    with Lock("lake"):
        return sh(["lake", "build"] + targets, cwd=LEAN, timeout=timeout)


def strip_lean_comments(src):
    src = re.sub(r"/-.*?-/", "", src, flags=re.S)
    src = re.sub(r"--[^\n]*", "", src)
    return src


FORBIDDEN = re.compile(r"\b(sorry|admit|native_decide|bv_decide|implemented_by|unsafe)\b|^\s*axiom\s|maxHeartbeats\s+0\b", re.M)


def audit_sources(mods, res):
    for mod in mods:
        p = module_path(mod)
        if not os.path.exists(p):
            continue
        src = strip_lean_comments(open(p, encoding="utf-8").read())
        for m in FORBIDDEN.finditer(src):
            res.broken.append(("audit", mod, f"forbidden token {m.group(0).strip()!r} in source"))


def prove(prop_mods, res, extra_audit_mods=()):
    """Build the theorem modules; record per-theorem status; audit axioms."""
    thms = []
    for mod in prop_mods:
        for line, name in theorem_index(module_path(mod)):
            thms.append((mod, line, name))
    res.obligations = [n for _, _, n in thms]
    res.gen_deps = {m for m in import_closure(prop_mods) if m.startswith("OptRs.Gen.")}
    rc, out = lake_build(list(prop_mods))
    failed = set()
    if rc != 0:
        errs = re.findall(r"error: (\S+?\.lean):(\d+):(\d+): (.*)", out)
        attributed = False
        for path, ln, _, msg in errs:
            ln = int(ln)
            mod = path[:-5].replace("/", ".")
            cands = [(l, n) for (m, l, n) in thms if m == mod and l <= ln]
            if cands:
                name = max(cands)[1]
                if name not in failed:
                    failed.add(name)
                    res.broken.append(("theorem", name, msg[:300]))
                attributed = True
            else:
                res.broken.append(("theorem", f"{mod}:{ln}", msg[:300]))
                attributed = True
        if not attributed:
            res.broken.append(("theorem", ",".join(prop_mods), "lake build failed: " + out[-1500:]))
            failed = set(res.obligations)
        # a failed module hides the status of its later theorems: re-check those individually is too
        # slow; count only theorems before the first error line of each module as discharged.
        first_err = {}
        for path, ln, _, _ in errs:
            mod = path[:-5].replace("/", ".")
            first_err[mod] = min(first_err.get(mod, 10 ** 9), int(ln))
        dep_broken = any(path[:-5].replace("/", ".") not in prop_mods for path, _, _, _ in errs) or not errs
        for mod, line, name in thms:
            if name in failed or dep_broken:
                # an error in a module the theorem files import leaves every property theorem unestablished
                continue
            # Lean continues after a failed theorem, so later theorems of the same file without errors did check
            res.discharged.append(name)
    else:
        res.discharged = list(res.obligations)
    audit_sources(list(prop_mods) + list(extra_audit_mods), res)
    if rc == 0 and thms:
        audit_axioms(prop_mods, [n for _, _, n in thms], res)
        if res.tier == "thorough":
            recheck(prop_mods, res)
    return rc == 0


def recheck(prop_mods, res):
    """Thorough tier: the toolchain's independent re-checker replays the compiled theorem modules' declarations
    through the kernel (it does not trust the elaborator that produced the .olean files)."""
    import concurrent.futures as cf
    def one(m):
        rc, out = sh(["lake", "env", "leanchecker", m], cwd=LEAN, timeout=1800)
        return m, rc, out
    with cf.ThreadPoolExecutor(max_workers=4) as ex:
        for m, rc, out in ex.map(one, list(prop_mods)):
            res.stats[f"leanchecker.{m}"] = "ok" if rc == 0 else f"rc={rc}"
            if rc != 0:
                res.broken.append(("audit", f"leanchecker {m}", out[-600:]))


def audit_axioms(prop_mods, names, res):
    os.makedirs(os.path.join(LEAN, "OptRs", "Audit"), exist_ok=True)
    tag = hashlib.sha1(",".join(prop_mods).encode()).hexdigest()[:8]
    path = os.path.join(LEAN, "OptRs", "Audit", f"A{tag}.lean")
    with open(path, "w", encoding="utf-8") as f:
        for m in prop_mods:
            f.write(f"import {m}\n")
        for n in names:
            f.write(f"#print axioms {n}\n")
    rc, out = sh(["lake", "env", "lean", path], cwd=LEAN, timeout=1200)
    os.remove(path)
    if rc != 0:
        res.broken.append(("audit", "axioms", out[-800:]))
        return
    seen = 0
    for m in re.finditer(r"'([^']+)' (depends on axioms: \[([^\]]*)\]|does not depend on any axioms)", out.replace("\n", " ")):
        seen += 1
        name = m.group(1)
        axs = [a.strip() for a in (m.group(3) or "").split(",") if a.strip()]
        res.axioms[name] = axs
        bad = [a for a in axs if a not in ALLOWED_AXIOMS]
        if bad:
            res.broken.append(("audit", name, f"depends on axioms {bad}"))
            if name in res.discharged:
                res.discharged.remove(name)
    if seen != len(names):
        res.broken.append(("audit", "axioms", f"expected {len(names)} reports, saw {seen}"))


# ------------------------------------------------------------------------------------------------ harness

def build_harness(res):
    with Lock("cargo"):
        lock_src = os.path.join(REPO, "Cargo.lock")
        rc, out = sh(["cargo", "build", "--quiet"], cwd=HARNESS, timeout=3000)
    if rc != 0:
        errs = "\n".join(l for l in out.splitlines() if l.startswith("error"))[:1500]
        res.broken.append(("harness", "cargo build", errs or out[-1500:]))
        return False
    return True


CLI_TARGET = os.path.join(TARGET, "cli")
CLI = os.path.join(CLI_TARGET, "debug", "optrs")


def build_cli(res):
    """The real command-line binary, built from /repo's working tree (no hooks) into a target dir outside /repo."""
    with Lock("cargo-cli"):
        rc, out = sh(["cargo", "build", "--quiet", "--offline", "--bin", "optrs", "--manifest-path", os.path.join(REPO, "Cargo.toml"),
                      "--target-dir", CLI_TARGET], timeout=3000)
    if rc != 0:
        errs = "\n".join(l for l in out.splitlines() if l.startswith("error"))[:1500]
        res.broken.append(("harness", "cargo build of the CLI", errs or out[-1500:]))
        return False
    return True


def build_model(res):
    rc, out = lake_build(["optrs-model"])
    if rc != 0:
        res.broken.append(("theorem", "model driver build", out[-1500:]))
        return False
    return True


def run_stream(stream, args, res, seed, tier, model_stream=None, timeout=3000, label=None):
    """Run one harness stream, feed the inputs to the model driver, compare. Returns list of mismatches."""
    label = label or stream
    res.stats["source_hints"] = hints_env() or "none (the source is the verified baseline)"
    rc, out = sh([HX, stream, "--seed", str(seed), "--tier", tier] + list(args), timeout=timeout)
    if rc != 0:
        res.broken.append(("harness", f"stream {label}", f"exit {rc}: " + out[-600:]))
        return None
    return compare_lines(out.splitlines(), model_stream or stream, res, label)


def compare_lines(lines, model_stream, res, label, ignore_oracle=False, only_tag=None, structural=False):
    inputs, outputs = [], []
    for line in lines:
        if line.startswith("#ORACLE-FAIL\t"):
            if ignore_oracle:   # this stream's oracle belongs to another property
                continue
            if only_tag is not None and only_tag not in line:
                continue
            _, what, replay = (line.split("\t", 2) + ["", ""])[:3]
            res.violations.append((f"[{label}] {what}", replay.replace("\\n", "\n")))
        elif line.startswith("#PANIC\t"):
            # the code under test panicked outside every guarded call and the stream ended early: reported for whichever
            # property runs the stream (its generator stays inside inputs that must be processed)
            _, what, replay = (line.split("\t", 2) + ["", ""])[:3]
            res.violations.append((f"[{label}] {what}", replay.replace("\\n", "\n")))
            res.broken.append(("harness", f"stream {label}", "ended early: " + what[:300]))
        elif line.startswith("#STAT\t"):
            _, k, v = (line.split("\t", 2) + ["", ""])[:3]
            res.stats[f"{label}.{k}"] = v
        elif line.startswith("#SAMPLE\t"):
            if len(res.samples) < 12:
                res.samples.append(line.split("\t", 1)[1][:600])
        elif line.startswith("#"):
            continue
        elif "\t" in line:
            i, o = line.split("\t", 1)
            inputs.append(i)
            outputs.append(o)
    mism = []
    if inputs and model_stream != "-":
        rc, mout = sh([MODEL, model_stream], input_bytes=("\n".join(inputs) + "\n").encode(), timeout=3000)
        mlines = mout.splitlines()
        if rc != 0 or len(mlines) != len(inputs):
            res.broken.append(("correspondence", label, f"model driver exit {rc}, {len(mlines)} lines for {len(inputs)} inputs: {mout[-400:]}"))
            return None
        # structural: the property is about which terms exist and which atoms they involve, not about their numbers
        # a refusal is a refusal: which message the code words it with (the harness classifies panics by their text) is not part
        # of any property, so the kind is dropped on both sides before comparing
        def drop_kind(t):
            return re.sub(r"\berr (size|order|length|nobonds|other:\S+)", "err", t)
        canon = (lambda t: re.sub(r"\b[0-9a-f]{16}\b", "#", drop_kind(t))) if structural else drop_kind
        for i, o, m in zip(inputs, outputs, mlines):
            if canon(o) != canon(m):
                mism.append((i, o, m))
    res.cases += len(inputs)
    res.distinct += len(set(inputs))
    if inputs and len(res.samples) < 4:
        res.samples.append(f"{label}: {inputs[len(inputs) // 2][:300]} => {outputs[len(inputs) // 2][:300]}")
    if mism:
        i, o, m = mism[0]
        res.broken.append(("correspondence", label,
                           f"{len(mism)} of {len(inputs)} cases differ; first: input={i[:400]} impl={o[:400]} model={m[:400]}"))
    return mism


HEX16 = re.compile(r"^[0-9a-f]{16}$")


def _f64(tok):
    import struct
    return struct.unpack(">d", bytes.fromhex(tok))[0]


def numeric_search(mism, res, label, proved, rel=1e-9, limit=5, per_token=False, forms=False):
    """The search for a failing input when a bit-for-bit numeric correspondence breaks. The model side is the function
    the theorems are about (`proved` says what is proved of it), so an input on which the implementation's numbers
    differ from the model's by more than rounding can explain is an input on which the implementation does not have
    the proved form: that input is reported as the violation. Differences within `rel` of the line's largest magnitude
    (re-association, fused operations) are left as a broken correspondence only."""
    import math
    found = 0
    for i, o, m in mism or []:
        to, tm = re.split(r"[\s;|,]+", o.strip()), re.split(r"[\s;|,]+", m.strip())
        pairs = [(a, b) for a, b in zip(to, tm) if HEX16.match(a) and HEX16.match(b)]
        if len(to) != len(tm) or not pairs or any((a != b) for a, b in zip(to, tm) if not (HEX16.match(a) and HEX16.match(b))):
            # not the same terms on the same atoms with other numbers, but another FORM (a bend of the other kind, another type or
            # environment, a term more or less). With `forms` the model's form is what the property demands as well.
            if forms and "PANIC" not in o and "PANIC" not in m:
                wo, wm = [t for t in to if t not in tm][:6], [t for t in tm if t not in to][:6]
                res.violations.append((f"[{label}] the implementation's types / terms have another form than the model's ({proved}): only in the implementation "
                                       f"{wo}, only in the model {wm}", f"{i}\nimplementation: {o}\nmodel:          {m}"))
                found += 1
                if found >= limit:
                    break
            continue
        vals = [(_f64(a), _f64(b)) for a, b in pairs]
        scale = max([abs(v) for ab in vals for v in ab if math.isfinite(v)] + [1e-300])
        worst = None
        for k, (a, b) in enumerate(vals):
            if math.isnan(a) and math.isnan(b):
                continue
            sc = max(abs(a), abs(b), 1e-12) if per_token and math.isfinite(a) and math.isfinite(b) else scale
            if (math.isfinite(a) != math.isfinite(b)) or (math.isfinite(a) and abs(a - b) > rel * sc + 1e-300):
                d = abs(a - b) if math.isfinite(a) and math.isfinite(b) else float("inf")
                if worst is None or d > worst[0]:
                    worst = (d, k, a, b)
        if worst:
            d, k, a, b = worst
            res.violations.append((f"[{label}] the implementation's value #{k} is {a!r} where the model ({proved}) gives {b!r}: a difference of {d:.3g} "
                                   f"against a scale of {scale:.3g}, beyond rounding", f"{i}\nimplementation: {o}\nmodel:          {m}"))
            found += 1
            if found >= limit:
                break
    return found


# ------------------------------------------------------------------------------------------------ findings / verdict

def load_known():
    p = os.path.join(VERIF, "known_findings.json")
    if not os.path.exists(p):
        return []
    return json.load(open(p))["findings"]


def finish(res, level, checker_cmd, rule, explanation=None):
    """Write evidence, print verdict lines, return exit status."""
    pid = res.pid
    # A translator that refused the source voids the theorems that import what it generates. Where none of this property's
    # theorems do, the refusal only means the driver ran on the kept (committed) model: the correspondence streams have
    # just tested that model against the current code, which is the tie this property relies on — recorded as a note.
    deps = getattr(res, "gen_deps", None)
    if deps is not None:
        kept = []
        for k, n, msg in res.broken:
            if k == "translate" and not (GEN_OF.get(n, set()) & deps):
                res.notes.append(f"translator '{n}' refused the current source ({msg[:200]}); none of this property's theorems import its output; "
                                 f"the committed model was kept and the correspondence streams ran against it")
            else:
                kept.append((k, n, msg))
        res.broken = kept
    if any(k == "translate" for k, _, _ in res.broken):
        # the theorems were checked against stale generated files: nothing is established about the current source
        res.discharged = []
    try:
        n_reach, unreached = reach_report(pid)
    except Exception as ex:      # the reach measurement is an extra: its own failure is a note, never an alarm
        n_reach, unreached = 0, []
        res.notes.append(f"reach of the changed lines could not be measured ({type(ex).__name__}: {ex})")
    if changed_lines():
        res.stats["changed_lines_inside_exercised_functions"] = n_reach
        res.stats["changed_lines_never_executed"] = "; ".join(f"{f}:{','.join(map(str, ls))}" for f, ls in unreached) or "none"
    for f, ls in unreached:
        res.broken.append(("reach", f"{f} lines {','.join(map(str, ls[:12]))}",
                           "these lines are new relative to the verified baseline, lie inside functions this property's correspondence streams exercise, "
                           "and were executed by none of their inputs: the tie between model and code does not cover them"))
    known = [k for k in load_known() if k["property"] == pid and k.get("status") == "known"]
    reported = []
    for what, replay in res.violations:
        matched = None
        for k in known:
            if re.search(k["signature"], what + " " + replay):
                matched = k
                break
        if matched:
            if matched["what"] not in res.known:
                res.known.append(matched["what"])
        else:
            reported.append((what, replay))
    os.makedirs(os.path.join(VERIF, "replays", pid), exist_ok=True)
    for old in os.listdir(os.path.join(VERIF, "replays", pid)):     # replay files of earlier runs are not this run's
        if re.fullmatch(r"(violation-\d+\.txt|unproved-\d+\.json)", old):
            os.remove(os.path.join(VERIF, "replays", pid, old))
    lines = []
    status = 0
    for k in res.known:
        lines.append(f"KNOWN-FINDING: property={pid} {k}")
    n = 0
    for what, replay in reported[:5]:
        n += 1
        rp = os.path.join("replays", pid, f"violation-{n}.txt")
        with open(os.path.join(VERIF, rp), "w", encoding="utf-8") as f:
            f.write(f"property: {pid}\nseed: {res.seed}\ntier: {res.tier}\nreproduce: VERIF_SEED={res.seed} ./check {pid} --tier {res.tier}\nwhat: {what}\nreplay-input:\n{replay}\n")
            f.write("\nbroken obligations at the time:\n" + "\n".join(f"  {k} {nm}: {d}" for k, nm, d in res.broken) + "\n")
        lines.append(f"VIOLATION property={pid} replay={rp}")
        status = 1
    if res.broken and not reported:
        rp = os.path.join("replays", pid, "unproved-1.json")
        with open(os.path.join(VERIF, rp), "w", encoding="utf-8") as f:
            json.dump({"property": pid, "seed": res.seed, "tier": res.tier,
                       "no_longer_checks": [{"kind": k, "name": nm, "detail": d} for k, nm, d in res.broken],
                       "search": "the property's search over corpus, generated and targeted inputs found no failing input",
                       "cases_searched": res.cases}, f, indent=1)
        lines.append(f"VIOLATION property={pid} replay={rp} no-failing-input-found")
        status = 1
    res.stats["source_hints"] = hints_env() or "none (the source is the verified baseline)"
    cov = {
        "obligations": max(len(res.obligations), 1) if level == "proof" else len(res.obligations),
        "discharged": len([d for d in res.discharged]),
        "checker_cmd": checker_cmd,
        "trusted_base": res.trusted,
        "evaluations": max(res.cases, 1),
        "distinct_nontrivial": res.distinct,
        "rule": rule,
        "samples": res.samples[:12] or ["(no cases run)"],
        "theorems": res.obligations,
        "axioms": res.axioms,
        "broken": [{"kind": k, "name": nm, "detail": d[:300]} for k, nm, d in res.broken],
        "stats": res.stats,
        "known_findings_reported": res.known,
    }
    if res.exhaustive is not None:
        cov["exhaustive"] = res.exhaustive
    if explanation:
        cov["explanation"] = explanation
    if level == "proof" and (cov["discharged"] < 1):
        cov["discharged"] = 0
    ev = {
        "property_id": pid, "tier": res.tier, "seed": res.seed, "level": level, "coverage": cov,
        "assumptions": res.assumptions + [TIE_ASSUMPTION] + ["translator note: " + n for n in res.notes], "wall_s": round(res.wall(), 2), "violations": len(reported) + (1 if (res.broken and not reported) else 0),
    }
    os.makedirs(os.path.join(VERIF, "evidence"), exist_ok=True)
    with open(os.path.join(VERIF, "evidence", f"{pid}.json"), "w", encoding="utf-8") as f:
        json.dump(ev, f, indent=1)
    for k, nm, d in res.broken:
        print(f"BROKEN {k} {nm}: {d[:500]}")
    for nline in res.notes:
        print("NOTE " + nline)
    print(f"{pid} tier={res.tier} seed={res.seed} obligations={len(res.obligations)} discharged={len(res.discharged)} "
          f"cases={res.cases} violations={ev['violations']} known={len(res.known)} wall={ev['wall_s']}s")
    for l in lines:
        print(l)
    return status
